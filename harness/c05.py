"""C05 — Hamiltonian values and derivative methods of every system class are consistent.

Model: lean/MiciVerif/Model/Systems.lean, theorems lean/MiciVerif/Props/C05.lean.
Tie (X): the eight methods (h1 h2 h dh1_dpos dh2_dpos dh2_dmom dh_dpos dh_dmom) of real systems of
every class against the model evaluated exactly over Q on polynomial user functions, supplied in
every accepted return convention.
Direct oracle: Richardson-extrapolated central differences of system.h1 / h2 / h against the
derivative methods, the documented formula of h evaluated with independent NumPy code, and the
sum relations, for every class and a zoo of metric matrix types.

The "zoo" of systems defined here is also used by C08.
"""
from __future__ import annotations

import math

import numpy as np

from . import common

PROP = "C05"
LEAN_MODULES = ["MiciVerif.Props.C05", "MiciVerif.Props.C05S"]
GENERATED = ["system_methods"]
LEAN_EXTRA = ["MiciVerif.Model.Systems", "MiciVerif.Model.Constrained", "MiciVerif.Lemmas.SystemsDual", "MiciVerif.Proto"]

EUCLID_METRICS = ["identity", "diag", "dense", "scaled", "trifac", "eig", "block", "lowrank+", "lowrank-", "inv-diag", "inv-dense"]
FAMILIES = ["euclid", "gauss", "constr-haus", "constr-gram", "gconstr", "riem-scalar", "riem-diag", "riem-chol", "riem-dense", "riem-softabs"]


# ---------------------------------------------------------------------------------------
# source-level obligations (Props/C05S, C07S, C08S over Generated/SystemMethods.lean): when one
# of them is broken, find which translated method bodies changed and escalate the search there

FAMILY_CLASS = {
    "euclid": "EuclideanMetricSystem", "gauss": "GaussianEuclideanMetricSystem",
    "constr-haus": "DenseConstrainedEuclideanMetricSystem", "constr-gram": "DenseConstrainedEuclideanMetricSystem",
    "gconstr": "GaussianDenseConstrainedEuclideanMetricSystem", "riem-scalar": "ScalarRiemannianMetricSystem",
    "riem-diag": "DiagonalRiemannianMetricSystem", "riem-chol": "CholeskyFactoredRiemannianMetricSystem",
    "riem-dense": "DenseRiemannianMetricSystem", "riem-softabs": "SoftAbsRiemannianMetricSystem",
}


def _parse_method_table(text):
    """{(class, method): translated term} of a Generated/SystemMethods.lean text (+ mro / constants rows)."""
    import re

    out = {}
    for blk in re.split(r"@\[simp\] def body_", text)[1:]:
        cls = re.match(r"(\w+)", blk).group(1)
        for m in re.finditer(r"\| \.(\w+) => some ⟨(\d+), \[\n(.*?)\n    \]⟩", blk, re.S):
            out[(cls, m.group(1))] = m.group(2) + "|" + m.group(3)
    for m in re.finditer(r"^  \| \.(\w+) => (\[.*\]|some .*)$", text, re.M):
        out[(m.group(1), "<mro/init-constant> " + m.group(2)[:12])] = m.group(2)
    return out


def src_changed_methods():
    """(class, method) pairs whose translated body in the table generated from the tree under test differs
    from the committed clean-tree table Generated.expected/SystemMethods.lean."""
    gen = common.LEAN / "MiciVerif" / "Generated" / "SystemMethods.lean"
    exp = common.LEAN / "MiciVerif" / "Generated.expected" / "SystemMethods.lean"
    try:
        a, b = _parse_method_table(gen.read_text()), _parse_method_table(exp.read_text())
    except OSError:
        return []
    return sorted(k for k in set(a) | set(b) if a.get(k) != b.get(k))


def src_escalation(ctx):
    """-> (broken, changed, families): a source-level obligation (theorem `src_*`) no longer checks; the changed
    (class, method) bodies; the zoo families whose class has a changed class in its MRO."""
    broken = [o["theorem"] for o in ctx.obligations if not o["ok"] and ".src_" in "." + o["theorem"].replace("MiciVerif.", "")]
    broken = broken or [o["theorem"] for o in ctx.obligations if not o["ok"] and "src_" in o["theorem"]]
    if not broken:
        return False, [], set()
    changed = src_changed_methods()
    fams = set()
    try:
        import sys

        sys.path.insert(0, str(common.VERIF / "tools"))
        from extractors import system_methods

        mro = system_methods.analyse(common.REPO)["mro"]
    except Exception:  # noqa: BLE001
        mro = {}
    for fam, cls in FAMILY_CLASS.items():
        line = mro.get(cls) or [cls]
        if not changed or any(c in line for c, _ in changed):
            fams.add(fam)
    ctx.extra["src_obligations_broken"] = broken[:20]
    ctx.extra["src_changed_methods"] = [f"{c}.{m}" for c, m in changed]
    for fam in sorted(fams):
        ctx.count("search_escalated:" + fam)
    return True, changed, fams


def dy(rng, lo, hi, den=8):
    return int(rng.integers(int(lo * den), int(hi * den) + 1)) / den


def dyvec(rng, n, lo, hi, den=8):
    return [dy(rng, lo, hi, den) for _ in range(n)]


def dymat(rng, m, n, lo, hi, den=8):
    return [dyvec(rng, n, lo, hi, den) for _ in range(m)]


# ---------------------------------------------------------------------------------------
# spec generation (plain JSON-able dicts)


def gen_metric(rng, n, kind):
    if kind == "identity":
        return {"kind": kind}
    if kind in ("diag", "inv-diag"):
        return {"kind": kind, "d": [float(rng.choice([0.5, 1.0, 2.0, 4.0, 1.5])) for _ in range(n)]}
    if kind in ("dense", "inv-dense", "trifac"):
        L = np.tril(np.array(dymat(rng, n, n, -1, 1, 4)))
        L[np.diag_indices(n)] = [dy(rng, 1, 2, 4) for _ in range(n)]
        return {"kind": kind, "L": L.tolist()}
    if kind == "scaled":
        return {"kind": kind, "s": float(rng.choice([0.5, 2.0, 3.0]))}
    if kind == "eig":
        Q, _ = np.linalg.qr(np.array(dymat(rng, n, n, -1, 1, 4)) + 2 * np.eye(n))
        return {"kind": kind, "Q": Q.tolist(), "lam": [dy(rng, 0.5, 3, 4) for _ in range(n)]}
    if kind == "block":
        k = max(1, n // 2)
        L = np.tril(np.array(dymat(rng, k, k, -1, 1, 4)))
        L[np.diag_indices(k)] = [dy(rng, 1, 2, 4) for _ in range(k)]
        return {"kind": kind, "L": L.tolist(), "d": [float(rng.choice([0.5, 1.0, 2.0])) for _ in range(n - k)]}
    if kind in ("lowrank+", "lowrank-"):
        r = int(rng.integers(1, 3))
        Li = np.tril(np.array(dymat(rng, r, r, -0.5, 0.5, 4)))
        Li[np.diag_indices(r)] = [dy(rng, 0.5, 1, 4) for _ in range(r)]
        # the implementation's sqrt needs a factor of full column rank (it Cholesky-factorises U^T U):
        # rank-deficient factors raise LinAlgError although the matrix is positive definite (reported)
        for _ in range(100):
            F = np.array(dymat(rng, n, r, -0.5, 0.5, 8))
            if np.linalg.cond(F) < 20:
                break
        else:
            raise common.MachineryError("no full-rank low-rank factor")
        return {"kind": kind, "F": F.tolist(), "d": [dy(rng, 3, 5, 4) for _ in range(n)], "Li": Li.tolist()}
    raise ValueError(kind)


def metric_array(ms, n):
    """Independent dense array of the metric described by `ms`."""
    k = ms["kind"]
    if k == "identity":
        return np.eye(n)
    if k == "diag":
        return np.diag(ms["d"])
    if k == "inv-diag":
        return np.diag(1.0 / np.array(ms["d"]))
    if k in ("dense", "trifac"):
        L = np.array(ms["L"])
        return L @ L.T
    if k == "inv-dense":
        L = np.array(ms["L"])
        return np.linalg.inv(L @ L.T)
    if k == "scaled":
        return ms["s"] * np.eye(n)
    if k == "eig":
        Q = np.array(ms["Q"])
        return (Q * np.array(ms["lam"])) @ Q.T
    if k == "block":
        L = np.array(ms["L"])
        kk = L.shape[0]
        M = np.zeros((n, n))
        M[:kk, :kk] = L @ L.T
        M[kk:, kk:] = np.diag(ms["d"])
        return M
    if k in ("lowrank+", "lowrank-"):
        F, Li = np.array(ms["F"]), np.array(ms["Li"])
        sgn = 1.0 if k == "lowrank+" else -1.0
        return np.diag(ms["d"]) + sgn * F @ (Li @ Li.T) @ F.T
    raise ValueError(k)


def metric_object(ms, n):
    """The metric argument handed to the mici system."""
    from mici import matrices as mm

    k = ms["kind"]
    if k == "identity":
        return None
    if k == "diag":
        return np.array(ms["d"])
    if k == "inv-diag":
        return mm.PositiveDiagonalMatrix(np.array(ms["d"])).inv
    if k == "dense":
        L = np.array(ms["L"])
        return L @ L.T
    if k == "inv-dense":
        L = np.array(ms["L"])
        return mm.DensePositiveDefiniteMatrix(L @ L.T).inv
    if k == "trifac":
        return mm.TriangularFactoredPositiveDefiniteMatrix(np.array(ms["L"]), factor_is_lower=True)
    if k == "scaled":
        return mm.PositiveScaledIdentityMatrix(ms["s"], n)
    if k == "eig":
        return mm.EigendecomposedPositiveDefiniteMatrix(np.array(ms["Q"]), np.array(ms["lam"]))
    if k == "block":
        L = np.array(ms["L"])
        blocks = [mm.DensePositiveDefiniteMatrix(L @ L.T)]
        if ms["d"]:
            blocks.append(mm.PositiveDiagonalMatrix(np.array(ms["d"])))
        return mm.PositiveDefiniteBlockDiagonalMatrix(blocks)
    if k in ("lowrank+", "lowrank-"):
        Li = np.array(ms["Li"])
        return mm.PositiveDefiniteLowRankUpdateMatrix(
            np.array(ms["F"]), mm.PositiveDiagonalMatrix(np.array(ms["d"])), mm.DensePositiveDefiniteMatrix(Li @ Li.T),
            sign=1 if k == "lowrank+" else -1,
        )
    raise ValueError(k)


def gen_spec(rng, family=None, metric_kind=None):
    family = family or str(rng.choice(FAMILIES))
    n = int(rng.integers(2, 4)) if family.startswith("riem") else int(rng.integers(2, 5))
    S = np.array(dymat(rng, n, n, -1, 1, 4))
    sp = {
        "family": family, "n": n, "lB": ((S + S.T) / 2).tolist(), "lg": dyvec(rng, n, -1, 1, 4),
        "lk": float(rng.choice([0.0, 0.5, 1.0])), "conv": [int(x) for x in rng.integers(0, 2, 4)],
    }
    if family in ("euclid", "gauss", "constr-haus", "constr-gram", "gconstr"):
        for _ in range(50):
            mk = metric_kind or str(rng.choice(EUCLID_METRICS))
            ms = gen_metric(rng, n, mk)
            M = metric_array(ms, n)
            ev = np.linalg.eigvalsh(M)
            if ev[0] > 0.1 and ev[-1] / ev[0] < 200:
                break
        else:
            raise common.MachineryError("no well conditioned metric")
        sp["metric"] = ms
    if family in ("constr-haus", "constr-gram", "gconstr"):
        M = metric_array(sp["metric"], n)
        N = np.linalg.inv(M)
        for _ in range(200):
            c = 1 if n == 2 else int(rng.integers(1, 3))
            A, B = [], []
            for _k in range(c):
                kk = str(rng.choice(["linear", "sphere", "ellipsoid", "quadric"]))
                if kk == "linear":
                    A.append(np.zeros((n, n)))
                elif kk == "sphere":
                    A.append(2.0 * np.eye(n))
                elif kk == "ellipsoid":
                    A.append(np.diag([dy(rng, 0.5, 3, 4) for _ in range(n)]))
                else:
                    T = np.array(dymat(rng, n, n, -1, 1, 4))
                    A.append(T + T.T)
                B.append(np.array(dyvec(rng, n, -1, 1, 4)))
            q0 = np.array(dyvec(rng, n, -1.5, 1.5, 8))
            J = np.stack([A[k] @ q0 + B[k] for k in range(c)])
            G = J @ N @ J.T
            if np.linalg.cond(G) < 200 and abs(np.linalg.det(G)) > 0.05:
                break
        else:
            raise common.MachineryError("no well conditioned constraint")
        sp.update(c=c, A=[a.tolist() for a in A], B=[b.tolist() for b in B],
                  d=[float(-(0.5 * q0 @ A[k] @ q0 + B[k] @ q0)) for k in range(c)], q_on=q0.tolist())
    if family == "riem-scalar":
        sp.update(s0=dy(rng, 0.5, 2, 4), s1=dy(rng, 0, 1, 4))
    if family == "riem-diag":
        sp.update(a=[dy(rng, 0.5, 2, 4) for _ in range(n)], b=dyvec(rng, n, 0, 1, 4), e=dyvec(rng, n, 0, 1, 4))
    if family == "riem-chol":
        sp.update(L0=np.tril(np.array(dymat(rng, n, n, -1, 1, 4)), -1).tolist(),
                  L1=np.tril(np.array(dymat(rng, n, n, -0.5, 0.5, 4)), -1).tolist(),
                  a=[dy(rng, 1, 2, 4) for _ in range(n)], b=dyvec(rng, n, 0, 1, 4))
    if family == "riem-dense":
        L = np.tril(np.array(dymat(rng, n, n, -1, 1, 4)))
        L[np.diag_indices(n)] = [dy(rng, 1, 2, 4) for _ in range(n)]
        sp.update(M0=(L @ L.T).tolist(), U=dymat(rng, n, n, -1, 1, 4))
    if family == "riem-softabs":
        sp.update(alpha=float(rng.choice([0.5, 1.0, 2.0])))
        # make the Hessian well separated in spectrum: B + 3k diag(q^2) with distinct diagonal shifts
        Bm = np.array(sp["lB"]) + np.diag([1.0 + 1.5 * i for i in range(n)])
        sp["lB"] = Bm.tolist()
    return sp


def gen_state(rng, sp):
    n = sp["n"]
    if "q_on" in sp:
        q = list(sp["q_on"])
    else:
        q = dyvec(rng, n, -1.5, 1.5, 8)
        if sp["family"] == "riem-softabs":
            # keep the Hessian's eigenvalues away from 0 (softabs(0) = 0/tanh(0) is NaN in the implementation:
            # reported) and from each other (divided differences)
            for _ in range(200):
                ev = np.linalg.eigvalsh(np.array(sp["lB"]) + 3 * sp["lk"] * np.diag(np.array(q) ** 2))
                if np.min(np.abs(ev)) > 0.2 and (n == 1 or np.min(np.diff(ev)) > 0.2):
                    break
                q = dyvec(rng, n, -1.5, 1.5, 8)
            else:
                # shift and spread the spectrum, then retry
                sp["lB"] = (np.array(sp["lB"]) + np.diag([0.25 + 0.5 * i for i in range(n)])).tolist()
                return gen_state(rng, sp)
    return q, dyvec(rng, n, -2, 2, 8)


# ---------------------------------------------------------------------------------------
# independent reference functions and system construction


class Ref:
    def __init__(self, sp):
        self.sp = sp
        self.n = sp["n"]
        self.lB, self.lg, self.lk = np.array(sp["lB"]), np.array(sp["lg"]), sp["lk"]
        if "metric" in sp:
            self.M = metric_array(sp["metric"], self.n)
        if "A" in sp:
            self.A = [np.array(a) for a in sp["A"]]
            self.B = [np.array(b) for b in sp["B"]]
            self.d = np.array(sp["d"])

    # user functions -------------------------------------------------------------------
    def ell(self, q):
        return float(0.5 * q @ self.lB @ q + self.lg @ q + 0.25 * self.lk * np.sum(q**4))

    def grad_ell(self, q):
        return self.lB @ q + self.lg + self.lk * q**3

    def hess_ell(self, q):
        return self.lB + 3 * self.lk * np.diag(q**2)

    def mtp_ell(self, q):
        return lambda m: 6 * self.lk * q * np.diag(m)

    def constr(self, q):
        return np.array([0.5 * q @ self.A[k] @ q + self.B[k] @ q + self.d[k] for k in range(len(self.A))])

    def jacob(self, q):
        return np.stack([self.A[k] @ q + self.B[k] for k in range(len(self.A))])

    def mhp(self, q):  # noqa: ARG002
        return lambda m: sum(self.A[k] @ m[k] for k in range(len(self.A)))

    # metric functions of the Riemannian families ----------------------------------------
    def theta(self, q):
        sp, n, f = self.sp, self.n, self.sp["family"]
        if f == "riem-scalar":
            return sp["s0"] + sp["s1"] * float(q @ q)
        if f == "riem-diag":
            a, b, e = (np.array(sp[k]) for k in "abe")
            return a + b * q**2 + e * np.roll(q, -1) ** 2
        if f == "riem-chol":
            L = np.array(sp["L0"]) + np.array(sp["L1"]) * q[None, :]
            L = np.tril(L, -1)
            L[np.diag_indices(n)] = np.array(sp["a"]) + np.array(sp["b"]) * q**2
            return L
        if f == "riem-dense":
            U = np.array(sp["U"])
            return np.array(sp["M0"]) + np.einsum("k,ki,kj->ij", q**2, U, U)
        raise ValueError(f)

    def vjp(self, q):
        sp, n, f = self.sp, self.n, self.sp["family"]
        if f == "riem-scalar":
            return lambda v: v * 2 * sp["s1"] * q
        if f == "riem-diag":
            b, e = np.array(sp["b"]), np.array(sp["e"])

            def vjp_diag(v):
                out = 2 * b * q * v
                out += np.roll(2 * e * np.roll(q, -1) * v, 1)
                return out

            return vjp_diag
        if f == "riem-chol":
            L1, b = np.tril(np.array(sp["L1"]), -1), np.array(sp["b"])
            return lambda V: np.sum(np.tril(V, -1) * L1, axis=0) + 2 * b * q * np.diag(V)
        if f == "riem-dense":
            U = np.array(sp["U"])
            return lambda V: 2 * q * np.einsum("ij,ki,kj->k", V, U, U)
        raise ValueError(f)

    def metric_at(self, q):
        f = self.sp["family"]
        n = self.n
        if f == "riem-scalar":
            return self.theta(q) * np.eye(n)
        if f == "riem-diag":
            return np.diag(self.theta(q))
        if f == "riem-chol":
            L = self.theta(q)
            return L @ L.T
        if f == "riem-dense":
            return self.theta(q)
        if f == "riem-softabs":
            lam, Q = np.linalg.eigh(self.hess_ell(q))
            al = self.sp["alpha"]
            return (Q * (lam / np.tanh(al * lam))) @ Q.T
        return self.M

    # documented Hamiltonian -------------------------------------------------------------
    def h_doc(self, q, p):
        f = self.sp["family"]
        M = self.metric_at(q)
        N = np.linalg.inv(M)
        h1 = self.ell(q)
        h2 = 0.5 * float(p @ N @ p)
        if f in ("constr-gram", "gconstr"):
            J = self.jacob(q)
            h1 += 0.5 * math.log(abs(np.linalg.det(J @ N @ J.T)))
        if f.startswith("riem"):
            h1 += 0.5 * math.log(abs(np.linalg.det(M)))
        if f in ("gauss", "gconstr"):
            h2 += 0.5 * float(q @ q)
        return h1, h2


def build_system(sp):
    import mici

    r = Ref(sp)
    f, n = sp["family"], sp["n"]
    cg, cj, cm, cv = sp["conv"]
    grad = (lambda q: (r.grad_ell(q), r.ell(q))) if cg else r.grad_ell
    kw = {"neg_log_dens": r.ell, "grad_neg_log_dens": grad}
    S = mici.systems
    if f in ("euclid", "gauss"):
        cls = S.EuclideanMetricSystem if f == "euclid" else S.GaussianEuclideanMetricSystem
        return cls(**kw, metric=metric_object(sp["metric"], n)), r
    if f in ("constr-haus", "constr-gram", "gconstr"):
        jac = (lambda q: (r.jacob(q), r.constr(q))) if cj else r.jacob
        mhp = (lambda q: (r.mhp(q), r.jacob(q), r.constr(q))) if cm else r.mhp
        kw.update(constr=r.constr, jacob_constr=jac, metric=metric_object(sp["metric"], n))
        if f == "gconstr":
            return S.GaussianDenseConstrainedEuclideanMetricSystem(**kw, mhp_constr=mhp), r
        if f == "constr-gram":
            return S.DenseConstrainedEuclideanMetricSystem(**kw, dens_wrt_hausdorff=False, mhp_constr=mhp), r
        return S.DenseConstrainedEuclideanMetricSystem(**kw, dens_wrt_hausdorff=True), r
    if f == "riem-softabs":
        hess = (lambda q: (r.hess_ell(q), r.grad_ell(q), r.ell(q))) if cj else r.hess_ell
        mtp = (lambda q: (r.mtp_ell(q), r.hess_ell(q), r.grad_ell(q), r.ell(q))) if cv else r.mtp_ell
        return S.SoftAbsRiemannianMetricSystem(**kw, hess_neg_log_dens=hess, mtp_neg_log_dens=mtp, softabs_coeff=sp["alpha"]), r
    vjp = (lambda q: (r.vjp(q), r.theta(q))) if cv else r.vjp
    if f == "riem-scalar":
        return S.ScalarRiemannianMetricSystem(**kw, metric_scalar_func=r.theta, vjp_metric_scalar_func=vjp), r
    if f == "riem-diag":
        return S.DiagonalRiemannianMetricSystem(**kw, metric_diagonal_func=r.theta, vjp_metric_diagonal_func=vjp), r
    if f == "riem-chol":
        return S.CholeskyFactoredRiemannianMetricSystem(**kw, metric_chol_func=r.theta, vjp_metric_chol_func=vjp), r
    if f == "riem-dense":
        return S.DenseRiemannianMetricSystem(**kw, metric_func=r.theta, vjp_metric_func=vjp), r
    raise ValueError(f)


METHODS = ["h1", "h2", "h", "dh1_dpos", "dh2_dpos", "dh2_dmom", "dh_dpos", "dh_dmom"]


def eval_methods(system, q, p):
    """All eight methods, each on a fresh state (caching is C09's business)."""
    from mici.states import ChainState

    out = {}
    for m in METHODS:
        st = ChainState(pos=np.array(q, dtype=float), mom=np.array(p, dtype=float), dir=1)
        v = getattr(system, m)(st)
        out[m] = float(v) if m in ("h1", "h2", "h") else np.array(v, dtype=float).copy()
    return out


# ---------------------------------------------------------------------------------------
# direct oracle


def richardson(fn, x, i, h=1e-3):
    def d(hh):
        e = np.zeros_like(x)
        e[i] = hh
        return (fn(x + e) - fn(x - e)) / (2 * hh)

    return (4 * d(h / 2) - d(h)) / 3


def oracle_system(sp, q, p):
    """Property statement on the real system at (q, p). Returns list of (signature, text)."""
    from mici.states import ChainState

    if "metric_first" in sp:
        # scenario "metric replaced after first use" (what the metric adapters do): build with another metric, use
        # every method once, then assign the metric of the spec; everything below refers to the CURRENT metric
        system, _ = build_system(dict(sp, metric=sp["metric_first"]))
        eval_methods(system, q, np.array(p, dtype=float) * 0.5 - 0.25)
        eval_methods(system, q, p)
        new = metric_object(sp["metric"], sp["n"])
        from mici import matrices as mm

        if new is None:  # what the constructor does with None / array arguments
            new = mm.IdentityMatrix()
        elif isinstance(new, np.ndarray):
            new = mm.PositiveDiagonalMatrix(new) if new.ndim == 1 else mm.DensePositiveDefiniteMatrix(new)
        system.metric = new
        r = Ref(sp)
    else:
        system, r = build_system(sp)
    q, p = np.array(q, dtype=float), np.array(p, dtype=float)
    cls = type(system).__name__
    bad = []
    v = eval_methods(system, q, p)

    def val(name, qq, pp):
        return float(getattr(system, name)(ChainState(pos=qq.copy(), mom=pp.copy(), dir=1)))

    n = sp["n"]
    fd = {}
    for name, wrt in [("h1", "pos"), ("h2", "pos"), ("h2", "mom"), ("h", "pos"), ("h", "mom")]:
        g = np.zeros(n)
        for i in range(n):
            if wrt == "pos":
                g[i] = richardson(lambda x: val(name, x, p), q, i)
            else:
                g[i] = richardson(lambda x: val(name, q, x), p, i)
        fd[(name, wrt)] = g
    pairs = [("dh1_dpos", ("h1", "pos")), ("dh2_dpos", ("h2", "pos")), ("dh2_dmom", ("h2", "mom")),
             ("dh_dpos", ("h", "pos")), ("dh_dmom", ("h", "mom"))]
    for meth, key in pairs:
        g = fd[key]
        sc = 1.0 + float(np.max(np.abs(g)))
        err = float(np.max(np.abs(v[meth] - g)))
        if not err <= 2e-7 * sc:
            bad.append((f"{cls}.{meth}", f"{cls}.{meth} = {v[meth].tolist()} but d{key[0]}/d{key[1]} = {g.tolist()} (finite differences, err {err:.2e})"))
    if not common.close(v["h"], v["h1"] + v["h2"], 1e-12, 1e-12):
        bad.append((f"{cls}.h", f"h = {v['h']} != h1 + h2 = {v['h1'] + v['h2']}"))
    if float(np.max(np.abs(v["dh_dpos"] - (v["dh1_dpos"] + v["dh2_dpos"])))) > 1e-10 * (1 + float(np.max(np.abs(v["dh_dpos"])))):
        bad.append((f"{cls}.dh_dpos", f"dh_dpos = {v['dh_dpos'].tolist()} != dh1_dpos + dh2_dpos = {(v['dh1_dpos'] + v['dh2_dpos']).tolist()}"))
    if float(np.max(np.abs(v["dh_dmom"] - v["dh2_dmom"]))) > 1e-12 * (1 + float(np.max(np.abs(v["dh_dmom"])))):
        bad.append((f"{cls}.dh_dmom", "dh_dmom != dh2_dmom"))
    # every evaluation must equal the true derivative: repeated evaluation on ONE state (in the order an
    # integrator uses the methods), on a copy and after the other methods were called must not change a value
    shared = ChainState(pos=q.copy(), mom=p.copy(), dir=1)
    for rep in range(3):
        st = shared if rep < 2 else shared.copy()
        for m in ("dh1_dpos", "h1", "dh2_dpos", "dh2_dmom", "h2", "dh_dpos", "dh_dmom", "h", "dh1_dpos"):
            w = getattr(system, m)(st)
            w = float(w) if m in ("h1", "h2", "h") else np.array(w, dtype=float)
            ref = v[m]
            if float(np.max(np.abs(w - ref))) > 1e-12 * (1 + float(np.max(np.abs(ref)))):
                bad.append((f"{cls}.{m} repeated evaluation",
                            f"{cls}.{m} evaluation {rep + 1} on the same state{' (copy)' if rep == 2 else ''} = "
                            f"{np.asarray(w).tolist()} differs from the first evaluation {np.asarray(ref).tolist()}"))
                break
        else:
            continue
        break
    # ... and "on arbitrary states" includes states that were moved: evaluate everything at another point,
    # assign the position only (the momentum only), evaluate again - the values must be those of the CURRENT
    # variables (a method whose declared cache dependencies miss a variable it reads fails here: seed C05-3)
    mv = None
    if not bad:
        # the warm-up point is arbitrary: it may be a degenerate point of the model (singular Gram matrix,
        # non-positive metric), where the library rightly raises - try a few offsets, else skip (no verdict)
        p0 = 0.5 * p - 0.25
        for off in (0.375, -0.25, 0.5, 0.125, -0.0625):
            q0 = q + off * (1.0 + np.arange(n) % 2)
            cand = ChainState(pos=q0.copy(), mom=p0.copy(), dir=1)
            try:
                vals0 = [getattr(system, m)(cand) for m in METHODS]
                if all(np.all(np.isfinite(np.asarray(x, dtype=float))) for x in vals0):
                    mv = cand
                    break
            except Exception:  # noqa: BLE001, S112
                continue
    if mv is not None:
        for what, qq, pp in (("pos", q, p0), ("mom", q, p)):
            if what == "pos":
                mv.pos = q.copy()
            else:
                mv.mom = p.copy()
            ref_all = eval_methods(system, qq, pp)
            for m in METHODS:
                w = getattr(system, m)(mv)
                w = float(w) if m in ("h1", "h2", "h") else np.array(w, dtype=float)
                ref = ref_all[m]
                if float(np.max(np.abs(w - ref))) > 1e-12 * (1 + float(np.max(np.abs(ref)))):
                    bad.append((f"{cls}.{m} after assigning {what}",
                                f"{cls}.{m} on a state whose {what} was assigned after a first evaluation = "
                                f"{np.asarray(w).tolist()} but the value at the current variables is {np.asarray(ref).tolist()}"))
                    break
            if bad:
                break
    h1d, h2d = r.h_doc(q, p)
    if not common.close(v["h1"], h1d, 1e-8, 1e-9):
        bad.append((f"{cls}.h1", f"h1 = {v['h1']} but documented formula gives {h1d}"))
    if not common.close(v["h2"], h2d, 1e-8, 1e-9):
        bad.append((f"{cls}.h2", f"h2 = {v['h2']} but documented formula gives {h2d}"))
    return bad, v


# ---------------------------------------------------------------------------------------
# model requests


def mstr(M):
    return "[" + ",".join(common.vstr(r) for r in np.asarray(M)) + "]"


def request(sp, r, q, p):
    f, n = sp["family"], sp["n"]
    tail = [mstr(sp["lB"]), common.vstr(sp["lg"]), common.fstr(sp["lk"]), common.vstr(q), common.vstr(p)]
    if f in ("euclid", "gauss"):
        return " ".join([f, str(n), mstr(r.M), *tail])
    if f in ("constr-haus", "constr-gram", "gconstr"):
        q3 = [";".join(mstr(a) for a in sp["A"]), mstr(sp["B"]), common.vstr(sp["d"])]
        head = ["gconstr"] if f == "gconstr" else ["constr", "1" if f == "constr-haus" else "0"]
        return " ".join([*head, str(n), str(sp["c"]), *q3, mstr(r.M), *tail])
    if f == "riem-scalar":
        return " ".join(["riem", "scalar", str(n), common.fstr(sp["s0"]), common.fstr(sp["s1"]), *tail])
    if f == "riem-diag":
        return " ".join(["riem", "diag", str(n), common.vstr(sp["a"]), common.vstr(sp["b"]), common.vstr(sp["e"]), *tail])
    if f == "riem-chol":
        return " ".join(["riem", "chol", str(n), mstr(sp["L0"]), mstr(sp["L1"]), common.vstr(sp["a"]), common.vstr(sp["b"]), *tail])
    if f == "riem-dense":
        return " ".join(["riem", "dense", str(n), mstr(sp["M0"]), mstr(sp["U"]), *tail])
    return None


def has_logdet(f):
    return f in ("constr-gram", "gconstr") or f.startswith("riem")


def compare(ctx, sp, q, p, v, mline):
    case = {"spec": sp, "q": list(q), "p": list(p)}
    if mline in ("bad-op",):
        raise common.MachineryError(f"driver rejected request for {sp['family']}")
    if mline == "fault":
        ctx.disagreement(f"{sp['family']}: model reports a singular matrix", case)
        return
    head, *vecs = mline.split(" | ")
    ell, h1i, h2, hi = (float(common.parse_frac(t)) for t in head.split(" "))
    if has_logdet(sp["family"]):
        det = 2 * (common.parse_frac(head.split(" ")[1]) - common.parse_frac(head.split(" ")[0]))
        if det == 0:
            ctx.disagreement(f"{sp['family']}: model determinant is zero", case)
            return
        h1 = ell + 0.5 * math.log(abs(float(det)))
    else:
        h1 = h1i
    model = {"h1": h1, "h2": h2, "h": h1 + h2}
    # the model's own h (with logabs := id) must be its h1 + h2
    if common.parse_frac(head.split(" ")[3]) != common.parse_frac(head.split(" ")[1]) + common.parse_frac(head.split(" ")[2]):
        raise common.MachineryError("model h != h1 + h2")
    for name, s in zip(METHODS[3:], vecs, strict=True):
        model[name] = np.array([float(x) for x in common.parse_vec(s)])
    cls = sp["family"]
    for m in METHODS:
        a, b = v[m], model[m]
        if m in ("h1", "h2", "h"):
            ok = common.close(a, b, 1e-9, 1e-10)
        else:
            ok = bool(np.all(np.abs(a - b) <= 1e-10 + 1e-9 * np.maximum(np.abs(a), np.abs(b))))
        if not ok:
            ctx.disagreement(f"{cls}.{m}: impl {np.asarray(a).tolist()} model {np.asarray(b).tolist()}", case)


def run(ctx: common.Ctx):
    rng = common.rng_for(ctx)
    replay_corpus(ctx)
    ctx.rule = (
        "all 10 system families (Euclidean, Gaussian-split, dense constrained Hausdorff/Gram, Gaussian constrained, "
        "Scalar/Diagonal/Cholesky/Dense/SoftAbs Riemannian) x 11 metric matrix types for the constant-metric families x "
        "every return convention of the user functions; random dyadic polynomial model functions, n = 2..4; "
        "non-trivial = every case (non-separable polynomial target, non-zero momentum)"
    )
    ctx.assumptions += [
        "log|det| is taken by the harness from the model's exact determinant (log is not modelled)",
        "SoftAbs systems: direct oracle only (eigendecomposition / coth are transcendental)",
        "finite differences: Richardson-extrapolated central differences, h = 1e-3, tolerance 2e-7 relative",
    ]
    cases = []
    per = ctx.n(40, 1200)
    # a broken source-level obligation (src_*_eq_model over the regenerated method table) escalates the
    # failing-input search for the families that inherit a changed method body
    _, _, esc_fams = src_escalation(ctx)
    for fam in FAMILIES:
        for k in range(per * (6 if fam in esc_fams and ctx.quick else 1)):
            mk = None
            if fam in ("euclid", "gauss") and k < len(EUCLID_METRICS):
                mk = EUCLID_METRICS[k]
            sp = gen_spec(rng, fam, mk)
            q, p = gen_state(rng, sp)
            cases.append((sp, q, p))
    # metric replaced after first use (constant-metric families)
    rng2 = common.rng_for(ctx, 11)
    for fam in ("euclid", "gauss", "constr-haus", "constr-gram", "gconstr"):
        for k in range(ctx.n(8, 120)):
            sp = gen_spec(rng2, fam, EUCLID_METRICS[(k + 1) % len(EUCLID_METRICS)])
            for _ in range(50):
                ms = gen_metric(rng2, sp["n"], EUCLID_METRICS[int(rng2.integers(len(EUCLID_METRICS)))])
                ev = np.linalg.eigvalsh(metric_array(ms, sp["n"]))
                if ev[0] > 0.1 and ev[-1] / ev[0] < 200:
                    break
            else:
                raise common.MachineryError("no well conditioned metric")
            sp["metric_first"] = ms
            q, p = gen_state(rng2, sp)
            cases.append((sp, q, p))
    reqs, keep = [], []
    for sp, q, p in cases:
        case = {"spec": sp, "q": q, "p": p}
        try:
            bad, v = oracle_system(sp, q, p)
        except Exception as e:  # noqa: BLE001
            ctx.violation(f"{sp['family']} foreign exception {type(e).__name__}", f"{sp['family']}: {type(e).__name__}: {e}", case)
            continue
        ctx.case({"family": sp["family"], "metric": sp.get("metric", {}).get("kind"), "conv": sp["conv"], "n": sp["n"], "q": q, "p": p}, nontrivial=True)
        ctx.count(f"{sp['family']}" + (f":{sp['metric']['kind']}" if "metric" in sp else ""))
        if "metric_first" in sp:
            ctx.count("metric_replaced_after_first_use:" + sp["family"])
        ctx.count("conv:" + "".join(map(str, sp["conv"])))
        for sig, text in bad:
            ctx.violation(sig, f"{text}; family={sp['family']} metric={sp.get('metric', {}).get('kind')} conv={sp['conv']}", case)
        req = request(sp, Ref(sp), q, p)
        if req is not None:
            reqs.append(req)
            keep.append((sp, q, p, v))
        else:
            ctx.count("no-model:" + sp["family"])
    for (sp, q, p, v), mline in zip(keep, common.run_driver("C05", reqs, timeout=1500), strict=True):
        compare(ctx, sp, q, p, v, mline)


def replay(ctx, obj):  # noqa: ARG001
    try:
        bad, _ = oracle_system(obj["spec"], obj["q"], obj["p"])
    except Exception:  # noqa: BLE001
        return True
    return bool(bad)


def replay_corpus(ctx):
    """Re-run the stored past failing inputs first (regression corpus)."""
    import json
    from pathlib import Path

    for f in sorted((common.VERIF / "corpus" / PROP).glob("*.json")):
        obj = json.loads(f.read_text())
        ctx.count("corpus")
        try:
            bad, _ = oracle_system(obj["spec"], obj["q"], obj["p"])
            now = "; ".join(t for _, t in bad)
        except Exception as e:  # noqa: BLE001
            bad, now = [("exception", "")], f"{type(e).__name__}: {e}"
        if bad:
            keep = {k: v for k, v in obj.items() if k not in ("property", "kind", "signature", "what", "how_to_run")}
            ctx.violation(bad[0][0] + " (corpus input)", f"corpus input {f.name} fails now: {now[:400]}", keep)


LEVEL_TEXT = (
    "Lean 4 proof over an arbitrary commutative ring, with the system classes defined once and evaluated both over K "
    "and over the dual numbers K[eps] (exact first-order expansions): for every class h = h1 + h2, dh_dpos = dh1_dpos + "
    "dh2_dpos, dh_dmom = dh2_dmom (…_consistent); ½pᵀNp with symmetric N expands as ½pᵀNp + eps·(Np)·w (kinetic_dual); "
    "every derivative method is the eps-coefficient of its Hamiltonian component for EuclideanMetricSystem, "
    "GaussianEuclideanMetricSystem (dh2_dpos = q), DenseConstrainedEuclideanMetricSystem with both density conventions and "
    "GaussianDenseConstrainedEuclideanMetricSystem — the Gram term ½log|det(J N Jᵀ)| has gradient mhp(G⁻¹ J N) by Jacobi's "
    "formula det(A+eps B) = det A (1 + eps tr(A⁻¹B)) proved in dual numbers (gram_term_derivative, "
    "denseConstrained_derivative, gaussianDenseConstrained_derivative) — and for the generic RiemannianMetricSystem "
    "(riemannian_derivative: dh1_dpos = grad l + ½ vjp(grad_log_abs_det), dh2_dpos = ½ vjp(grad_quadratic_form_inv(p)), "
    "dh2_dmom = M⁻¹p) given the per-class differential facts, which are proved for the dense, diagonal, scaled-identity "
    "and (lower-triangular) Cholesky-factored metric classes (denseClass_/diagClass_/scalarClass_/cholClass_differential). "
    "Tied to the code by exact comparison of all eight "
    "methods of real systems of every class with the model over Q and by finite-difference oracles on the real code. "
    "Source level (Props/C05S): tools/extractors/system_methods.py re-translates the BODY of every method of every class of "
    "systems.py (pure ast) into a deep-embedded statement/expression language on every run (Generated/SystemMethods.lean, "
    "with the C3 MRO); src_<Class>_<method>_eq_model (8 methods x 10 classes) prove that evaluating the generated body - "
    "self.m(state) calls resolved through the generated MRO, helper methods gram / inv_gram / log_det_sqrt_gram / "
    "grad_log_det_sqrt_gram / jacob_constr_inner_product / metric / metric_func included - equals the hand model for every "
    "environment, state and commutative ring; src_<Class>_consistent and src_<Class>_derivative restate the sum relations "
    "and the dual-number derivative theorems for the values the source text computes; src_init_constants ties "
    "dens_wrt_hausdorff=False and the metric matrix classes passed by the subclasses' __init__."
)
LEVEL_NOTE = (
    "Trusted: Lean kernel, axioms {propext, Classical.choice, Quot.sound}; the harness. log|det| is an uninterpreted "
    "function of the model; the only analytic fact assumed is its logarithmic-derivative rule d log|x| = dx/x (LogDeriv). "
    "Metric / Gram / Cholesky-factor inverses are checked data. Hypotheses of the derivative theorems are what the "
    "documentation asks of the user: supplied gradient / Jacobian / MHP / VJP functions are the derivatives of the "
    "supplied functions, the metric is symmetric. Not proved in Lean (covered by exact correspondence and the "
    "finite-difference oracle only): the per-class differential facts of the SoftAbs class (eigendecomposition, coth; its "
    "Hessians are generated with eigenvalues away from 0 because softabs(0) evaluates 0/tanh(0) = NaN). The return-convention handling (tuple with auxiliary values) is exercised by the "
    "harness in all 16 combinations; its caching semantics belongs to C09. Source level: the translator (ast shapes -> terms) "
    "and the evaluator's reading of NumPy operators (shape-directed +,-,*,/,@, ** 0.5) are trusted; cache decorators are "
    "ignored there (C09); mici.matrices objects enter as records of the attributes the system code reads; an "
    "untranslatable shape evaluates to err and breaks the eq_model theorems of the methods containing or calling it."
)
TECHNIQUE = (
    "Lean 4 theorems in dual numbers (Mathlib.Algebra.DualNumber) + exact-rational model/implementation comparison of the "
    "eight system methods + Richardson finite-difference oracle on the real code + source-to-term translation of the "
    "method bodies of systems.py with machine-checked equality of their evaluation and the model (src_*_eq_model)"
)
