"""C02 — every integrator step is time-reversible or fails loudly; the input state is never modified.

Model: lean/MiciVerif/Model/Integrators.lean, theorems lean/MiciVerif/Props/C02.lean.
Direct oracles (this file, on the real code):
  * reversal: n steps, negate dir on a copy, n steps -> start (pos, mom) up to tolerance, or an
    mici.errors.IntegratorError (counted); any other exception or a silent non-reversal is a violation;
  * deliberately hard cases (large steps, strongly curved manifolds / metrics) and cases with loose solver
    tolerances, where the reversibility checks of the implementation really fire (rates in the evidence);
  * benign cases must not fail (an integrator whose check always raises is useless);
  * Integrator.step never modifies its input (bitwise snapshot of variables and cache, also when step
    raises), returns a new non-aliased state, and the input's cached values stay correct;
  * live SymmetricCompositionIntegrator coefficient lists are palindromic and of length 2n+3.
"""
from __future__ import annotations

import numpy as np

from . import common
from . import integ_common as ic

PROP = "C02"
LEAN_MODULES = ["MiciVerif.Props.C02", "MiciVerif.Props.C02Implicit", "MiciVerif.Props.C02S", "MiciVerif.Props.C06S",
                "MiciVerif.Props.C02L"]  # C02L: the solver mirror `solveDirect` = the loop generated from solvers.py
GENERATED = ["integ_steps", "solver_loops"]   # tools/extractors/integ_steps.py -> Generated/IntegSteps.lean (step structure of every class)
LEAN_EXTRA = ["MiciVerif.Model.Integrators", "MiciVerif.Lemmas.IntegratorsExec", "MiciVerif.Proto", "MiciVerif.Model.IntegratorsImplicit"]


# ---------------------------------------------------------------------------------------
# FILLED IN BY LEAN-SIDE AUTHOR
def correspondence(ctx):
    """Lean model (Driver/C02.lean, exact rationals) vs the real integrators on the same inputs."""
    from . import integ_corr

    rng = common.rng_for(ctx, 1)
    integ_corr.coefficient_cases(ctx, rng, ctx.n(30, 300))
    integ_corr.step_cases(ctx, rng, ctx.n(70, 500))
    integ_corr.implicit_cases(ctx, rng, ctx.n(40, 300))
    integ_corr.constrained_cases(ctx, rng, ctx.n(18, 200))


# ---------------------------------------------------------------------------------------
# direct oracles

TOL_EXPLICIT = 1e-9       # x scale
TOL_ITERATIVE = 1e-6      # x scale  (= 50 x default reverse_check_tol 2e-8)
STEP_TIMEOUT = 30.0


def _cls(case):
    return ic.integrator_class_name(case["integrator"])


def _checked_step(sysw, integ, state, fails, cls, deep):
    """integ.step(state) with the 'input never modified' oracle around it.  Re-raises what step raises."""
    before = ic.snapshot(state)
    out, exc = None, None
    try:
        with np.errstate(all="ignore"):
            out = integ.step(state)
    except Exception as e:  # noqa: BLE001
        exc = e
    after = ic.snapshot(state)
    same, why = ic.same_snapshot(before, after)
    if not same:
        fails.append((f"{cls}.step mutates input", f"input state modified by step ({why})" + (f" while raising {type(exc).__name__}" if exc else "")))
    if out is not None:
        if out is state:
            fails.append((f"{cls}.step mutates input", "step returned the input state object itself"))
        else:
            for nm in ("pos", "mom"):
                if np.shares_memory(getattr(out, nm), getattr(state, nm)):
                    fails.append((f"{cls}.step aliases input", f"returned state.{nm} shares memory with the input state.{nm}"))
    if deep and same:
        bad = ic.cache_values_correct(sysw, state)
        if bad:
            fails.append((f"{cls}.step corrupts input cache", f"cached values of the input state no longer correct after step: {bad}"))
    if exc is not None:
        raise exc
    return out


def check_case(case, info=None):
    """Run one reversal case on the real code.  Returns list of (signature, what); `info` receives
    'status' in {'ok', 'error:<ExcName>', 'nonfinite'} and the reversal error."""
    import mici

    info = info if info is not None else {}
    cls = _cls(case)
    fails: list = []
    sysw = ic.build_system(case["system"])
    integ = ic.build_integrator(sysw, case["integrator"])
    st0 = ic.build_state(case["state"])
    n = int(case["n"])
    if case.get("populate", 0):
        ic.populate_cache(sysw, st0, int(case["populate"]))
    z0 = ic.zvec(st0)
    d0 = int(st0.dir)
    scale = max(1.0, float(np.max(np.abs(z0))))
    try:
        s = st0
        for k in range(n):
            s = _checked_step(sysw, integ, s, fails, cls, deep=(k == 0))
            if not np.all(np.isfinite(ic.zvec(s))):
                info["status"] = "nonfinite"
                return fails
            scale = max(scale, float(np.max(np.abs(ic.zvec(s)))))
        if int(s.dir) != d0:
            fails.append((f"{cls} changes dir", f"step changed state.dir from {d0} to {s.dir}"))
        info["zmid"] = ic.zvec(s)
        s2 = s.copy()
        s2.dir *= -1
        for k in range(n):
            s2 = _checked_step(sysw, integ, s2, fails, cls, deep=(k == 0))
            if not np.all(np.isfinite(ic.zvec(s2))):
                info["status"] = "nonfinite"
                return fails
    except mici.errors.IntegratorError as e:
        info["status"] = "error:" + type(e).__name__
        return fails
    except ic.Timeout:
        raise
    except Exception as e:  # noqa: BLE001
        info["status"] = "exception"
        fails.append((f"{cls}.step raises {type(e).__name__}", f"step raised {type(e).__name__}: {e} [{ic.describe(case)}]"))
        return fails
    err = float(np.max(np.abs(ic.zvec(s2) - z0)))
    scale0 = max(1.0, float(np.max(np.abs(z0))))
    if scale > 1e6 * scale0:
        # numerically unstable trajectory (step size far beyond the stability limit: the state grew by more than
        # six orders of magnitude): rounding errors are amplified by the square of that growth on the way back, so
        # "returns to the start up to solver tolerance" cannot be judged in double precision - counted, no verdict
        info["status"], info["err"], info["scale"] = "unstable", err, scale
        return fails
    info["status"], info["err"], info["scale"] = "ok", err, scale
    tol = (TOL_EXPLICIT if case["integrator"]["kind"] in ic.EXPLICIT_KINDS else TOL_ITERATIVE) * scale
    if not err <= tol:
        fails.append((f"{cls} reversal", f"{n} steps, dir flipped, {n} steps: max |Δ(pos,mom)| = {err:.3e} > {tol:.1e} and no IntegratorError [{ic.describe(case)}]"))
    return fails


def check_coefficients(case):
    sysw = ic.build_system(case["system"])
    integ = ic.build_integrator(sysw, case["integrator"])
    cls = _cls(case)
    out = []
    for tag, msg in ic.coefficient_failures(integ, sysw.system, exact=case["integrator"]["kind"] == "symcomp"):
        if tag in ("length", "palindrome", "flows"):
            out.append((f"{cls} coefficients {tag}", msg + f" [{ic.describe(case)}]"))
    if case["integrator"]["kind"] == "symcomp":
        nfree = len(case["integrator"]["free"])
        if len(integ.coefficients) != 2 * nfree + 3:
            out.append((f"{cls} coefficients length", f"{len(integ.coefficients)} coefficients for {nfree} free ones"))
    return out


def _run(case):
    info: dict = {}
    try:
        fails = ic.with_timeout(lambda: check_case(case, info), STEP_TIMEOUT)
    except ic.Timeout:
        info["status"] = "timeout"
        fails = [(f"{_cls(case)}.step does not return", f"reversal run did not finish in {STEP_TIMEOUT} s [{ic.describe(case)}]")]
    return fails, info


def _make_case(rng, ikind, skind, n, *, tier="easy", populate=None):
    """tier: 'easy' (small stable steps), 'hard' (large steps, strongly curved), 'loose' (moderate steps with
    deliberately loose solver tolerances but the default reverse_check_tol, so that the implementation's
    reversibility checks are decisive)."""
    hard = tier == "hard"
    kw = {}
    if hard and skind in ic.CONSTRAINED:
        kw["constraint_kind"] = str(rng.choice(["sphere", "ellipsoid", "quartic", "graph", "two"]))
        kw["r2_range"] = (0.5, 1.0)
    sspec = ic.random_system_spec(rng, skind, **kw)
    if hard:
        if "riem" in sspec and "alpha" in sspec["riem"]:
            sspec["riem"]["alpha"] = ic.enc(ic.dy(rng, (), 4, 0.5, 2.0))
    sysw = ic.build_system(sspec)
    if hard:
        eps = float(rng.choice([0.5, 0.75, 1.0, 1.5, 2.0, 3.0]))
        stspec = ic.random_state_spec(rng, sysw, mom_scale=2.0)
    elif tier == "loose":
        eps = ic.dyadic_step(sysw, float(rng.choice([0.25, 0.5, 1.0])))
        stspec = ic.random_state_spec(rng, sysw)
    else:
        eps = ic.dyadic_step(sysw, float(rng.choice([0.0625, 0.125, 0.25])))
        stspec = ic.random_state_spec(rng, sysw)
    ispec = ic.random_integrator_spec(rng, ikind, eps)
    if tier == "loose":
        tol = float(rng.choice([1e-3, 1e-4, 1e-5]))
        if ikind == "constrained_leapfrog":
            ispec["proj_kwargs"] = {"constraint_tol": ic.enc(tol), "position_tol": ic.enc(10 * tol)}
        else:
            ispec["solver_kwargs"] = {"convergence_tol": ic.enc(tol)}
    return {
        "check": "reversal", "system": sspec, "integrator": ispec, "state": stspec, "n": int(n),
        "populate": int(rng.integers(0, 3)) if populate is None else populate, "tier": tier,
    }


def direct_oracles(ctx):
    from . import c06 as _c06

    rng = common.rng_for(ctx, 2)
    ic.selfcheck(common.rng_for(ctx, 99), 3)
    benign: dict = {}
    plan = []
    # a broken structure obligation (Props/C06S.lean, C02S.lean: generated step tables = structure of the hand model)
    # multiplies the search for the classes whose table changed
    escalate, esc_kinds, esc_names = _c06.broken_structure_tie(ctx)
    escalate = escalate or any((not o["ok"]) and ".C02S." in o["theorem"] for o in ctx.obligations)
    if escalate:
        if not esc_kinds:
            esc_kinds = list(ic.INTEGRATOR_KINDS)
        ctx.count("search_escalated:" + ",".join(esc_kinds))
        ctx.extra["structure_tie_broken"] = {"kinds": esc_kinds, "generated_definitions_differing": esc_names}
    mult = lambda ik: (3 if escalate and ik in esc_kinds else 1)  # noqa: E731
    for ikind in ic.INTEGRATOR_KINDS:
        sk = ic.compatible_system_kinds(ikind)
        if ikind in ic.EXPLICIT_KINDS:
            reps = ctx.n(12, 120)
        elif ikind in ic.IMPLICIT_KINDS:
            reps = ctx.n(8, 60)
        else:
            reps = ctx.n(60, 600)
        for skind in sk:
            for r in range(reps * mult(ikind)):
                plan.append((ikind, skind, (1, 2, 5)[r % 3], "easy"))
    for ikind in ic.IMPLICIT_KINDS:
        for skind in ic.RIEMANNIAN:
            for r in range(ctx.n(30, 300) * mult(ikind)):
                plan.append((ikind, skind, (1, 2)[r % 2], "hard"))
            for r in range(ctx.n(20, 200) * mult(ikind)):
                plan.append((ikind, skind, (1, 2)[r % 2], "loose"))
    for skind in ic.CONSTRAINED:
        for r in range(ctx.n(500, 5000) * (2 if mult("constrained_leapfrog") > 1 else 1)):
            plan.append(("constrained_leapfrog", skind, (1, 1, 2)[r % 3], "hard"))
        for r in range(ctx.n(100, 1000) * mult("constrained_leapfrog")):
            plan.append(("constrained_leapfrog", skind, (1, 2)[r % 2], "loose"))
    for ikind, skind, n, tier in plan:
        hard = tier != "easy"
        try:
            case = _make_case(rng, ikind, skind, n, tier=tier)
        except common.MachineryError:
            raise
        except Exception as e:  # noqa: BLE001
            ctx.violation(f"{ikind} construction raises", f"building {ikind} on {skind} raised {type(e).__name__}: {e}", {"check": "build", "ikind": ikind, "skind": skind})
            continue
        fails, info = _run(case)
        status = info.get("status", "?")
        cls = _cls(case)
        tag = tier
        ctx.case({"i": ikind, "s": skind, "n": n, "tier": tier, "id": common.stable_hash(case)},
                 nontrivial=status == "ok" and info.get("err", 0.0) >= 0.0 and (n > 1 or hard))
        ctx.count(f"{tag}:{ikind}:{skind}:{status}")
        if status.startswith("error:"):
            ctx.count(f"{tag}:IntegratorError:{status[6:]}")
        if status == "ok":
            e = info["err"] / info["scale"]
            ctx.count(f"{tag}:reversal_error<" + ("1e-12" if e < 1e-12 else "1e-9" if e < 1e-9 else "1e-7" if e < 1e-7 else "1e-6" if e < 1e-6 else "big"))
        if not hard:
            b = benign.setdefault(cls, {"total": 0, "raised": []})
            b["total"] += 1
            if status.startswith("error:"):
                b["raised"].append((case, status))
        for sig, what in fails:
            if escalate and ikind in esc_kinds:
                what += _c06.tie_note(ctx, esc_kinds, esc_names)
            ctx.violation(sig, what, case)
        # coefficients of live composition integrators
        if ikind in ("symcomp", "bcss2", "bcss3", "bcss4"):
            try:
                cf = check_coefficients(case)
            except Exception as e:  # noqa: BLE001
                cf = [(f"{cls} coefficients raise", f"{type(e).__name__}: {e}")]
            ctx.count("coefficients_checked")
            for sig, what in cf:
                if escalate and ikind in esc_kinds:
                    what += _c06.tie_note(ctx, esc_kinds, esc_names)
                ctx.violation(sig, what, {**case, "check": "coefficients"})
    for k, v in ic.STATS.items():
        ctx.count("lib:" + k, v)
    for cls, b in benign.items():
        k = len(b["raised"])
        ctx.count(f"benign_failures:{cls}", k)
        if b["total"] >= 8 and k > 0.25 * b["total"]:
            case, status = b["raised"][0]
            ctx.violation(
                f"{cls} fails on benign steps",
                f"{k} of {b['total']} small-step, well-conditioned cases raised an IntegratorError (first: {status[6:]}) [{ic.describe(case)}]",
                {**case, "check": "benign"},
            )


def run(ctx: common.Ctx):
    ctx.rule = (
        "integrator class (leapfrog, symmetric composition with 0-6 dyadic free coefficients and both initial "
        "flows, BCSS 2/3/4, implicit leapfrog & midpoint with direct / Steffensen solvers, constrained leapfrog "
        "with 1-3 inner steps and Newton / quasi-Newton / line-search projection) x compatible system class "
        "(Euclidean, Gaussian-split, 5 Riemannian, dense constrained with both density conventions, Gaussian "
        "constrained; 10 metric types, 6 constraint families, 4 polynomial target families, dims 1-5) x dyadic "
        "state x dir in {+1,-1} x n in {1,2,5}; easy tier: step = 2^k <= c/frequency scale; hard tier: steps 0.5-3 "
        "with doubled momenta on strongly curved problems (small spheres, quartic / cubic-graph manifolds, metric "
        "curvature 0.5-2); loose tier: moderate steps with solver tolerances 1e-3..1e-5 but the default "
        "reverse_check_tol, which makes the implementation's reversibility checks decisive; non-trivial = completed "
        "reversal with n > 1 or in the hard / loose tier"
    )
    ctx.assumptions += [
        "tolerances: explicit 1e-9 x scale, iterative 1e-6 x scale (50 x default reverse_check_tol); scale = max(1, |z| along the trajectory)",
        "an IntegratorError is allowed (classified and counted) except when more than 25% of the benign cases of a class raise",
        "user functions are polynomials with exact analytic derivatives",
    ]
    from . import integ_corr
    import sys

    integ_corr.replay_corpus(ctx, sys.modules[__name__])
    correspondence(ctx)
    direct_oracles(ctx)


def replay(ctx, obj):  # noqa: ARG001
    import mici

    chk = obj.get("check")
    if chk == "build":
        return True
    case = {k: obj[k] for k in ("check", "system", "integrator", "state", "n", "populate", "tier") if k in obj}
    if chk == "coefficients":
        try:
            return bool(check_coefficients(case))
        except Exception:  # noqa: BLE001
            return True
    if chk == "benign":
        info: dict = {}
        try:
            fails = ic.with_timeout(lambda: check_case(case, info), STEP_TIMEOUT)
        except ic.Timeout:
            return True
        return bool(fails) or str(info.get("status", "")).startswith("error:")
    fails, _info = _run(case)
    _ = mici
    return bool(fails)


LEVEL_TEXT = (
    'Lean 4 proof, for the model of integrators.py over an arbitrary field: for EVERY list of free coefficients '
    '`deriveCoeffs` (mirror of SymmetricCompositionIntegrator.__init__) is palindromic, has length 2n+3 = len(flows) and '
    'the flow list is palindromic (deriveCoeffs_palindrome, deriveCoeffs_length_flows, flows_palindrome); a palindromic '
    'composition of flows that are undone by their negative time is undone by the negative step (symComp_reverse, '
    'mkSymComp_reverse for every free list and both initial flows, leapfrog_reverse); n steps, dir *= -1, n steps returns '
    'exactly to the start for every n, step size and direction (steps_reverse, euclidean_steps_reverse for every gradient '
    'and metric map, gaussian_steps_reverse given orthogonal eigenvectors, non-zero frequencies, cos^2+sin^2=1 and parity). '
    'Implicit leapfrog, implicit midpoint, constrained leapfrog (solver, projection solver, norm/tolerance as parameters): '
    "a returning checked sub-step has executed the reversed integrator's mirrored sub-step and landed within tolerance "
    '(gl*_checked, imStepAdj_checked, conInner_checked, solveDirect_returns); with an exact solver and exact check the step '
    'with -eps from the result RETURNS and gives back exactly the start (glStep_reverse_exact, glSteps_reverse_exact, '
    'imStep_reverse_exact, conStep_reverse_exact for any number of inner steps, constrained_mom_reverse / euclidean_momrev: '
    'position reversal implies momentum reversal). CHAINED BOUND (Props/C02Implicit.lean, section Chained reversal bound): in a pseudo-metric space, reverse step '
    'L-Lipschitz and every forward/reverse pair within delta on the states visited => n forward + n reverse steps return within '
    'delta (1 + L + ... + L^(n-1)) (chain_reverse_bound relational core for partial steps, iterate_reverse_bound, '
    'steps_reverse_bound in the API form n steps / dir *= -1 / n steps, res_steps_reverse_bound and the instances '
    'glSteps_/imSteps_/conSteps_reverse_bound; sharp, see the example). STRUCTURE TIE (Props/C06S.lean + C02S.lean, re-decided on '
    'every run against Generated/IntegSteps.lean regenerated from integrators.py by tools/extractors/integ_steps.py): the '
    'call lists, helper descriptors (incl. each reverse check: adjoint helper on a copy with the NEGATED time step, compared '
    'component, norm > tol -> NonReversibleStepError) and Integrator.step equal the structure of the hand models; running the '
    'generated tables is leapfrog / mkSymComp.stepT / glStep / imStep / conStep, hence reversible (leapfrog_generated_reverse, '
    'symComp_generated_reverse for every free list, implicitLeapfrog_/implicitMidpoint_/constrainedLeapfrog_generated_reverse_exact); '
    'every implicit sub-step is reverse-checked and the arrangement is an adjoint-paired palindrome (*_consistent). '
    'Tie: exact-rational model vs real LeapfrogIntegrator / '
    'SymmetricCompositionIntegrator (0-6 free coefficients, both initial flows) / BCSS2-4 on Euclidean and Gaussian-split '
    'systems (4 metric types incl. implicit identities, quadratic/cubic/quartic targets), states after k steps and after '
    "k forward-flip-k back, live coefficient lists compared exactly; implicit leapfrog / midpoint with the model's mirror of "
    'solve_fixed_point_direct incl. raised error class; constrained leapfrog on linear constraints (all three projection '
    'solvers, 1-3 inner steps) vs the model with the exact projection solution. Direct oracles: reversal residual for all 9 '
    'integrator kinds x all compatible system classes (incl. Riemannian, constrained) in easy/hard/loose tiers, bitwise '
    'input-immutability snapshots (also when step raises), cache correctness, only IntegratorError allowed.'
)
LEVEL_NOTE = (
    'Trusted: Lean kernel, axioms {propext, Classical.choice, Quot.sound}; the harness, its generators and tolerances; '
    'NumPy/LAPACK arithmetic. Assumed as hypotheses (hold for the real functions / documented solver contract): cos/sin '
    'identities; Q orthogonal; exact solver `solve f x = ok y -> f y = y` and exact check for the *_reverse_exact theorems; '
    'projection solver of the form Phi2(t) o Pi(lambda) for euclidean_momrev; for the chained n-step bound the Lipschitz constant L '
    'of the reversed step and the per-pair defect delta are HYPOTHESES (they depend on the user functions, step size and '
    'tolerances: not derived from the sub-step checks; the n-step residual is also measured by the direct oracle). Trusted: the '
    'translator plug-in integ_steps.py and the interpretation of its tables (Lemmas/IntegSteps.lean). Rounding is outside the theorems (model is exact; compared at 1e-9 relative). '
    'Object aliasing (`state.copy()`) is observed by the harness, not modelled.'
)
TECHNIQUE = 'Lean 4 theorems (list induction, Except-monad case analysis) + exact-rational model/implementation correspondence + reversal and input-immutability oracles on the real code'
