"""C04 — constrained dynamics never leave the constraint manifold or its cotangent space.

Model: lean/MiciVerif/Model/Constrained.lean, theorems lean/MiciVerif/Props/C04.lean.
Tie (X): the real projection solvers, `project_onto_cotangent_space` and
`ConstrainedLeapfrogIntegrator.step` against the model executed over Q on quadric
constraints (linear / sphere / ellipsoid / indefinite, 1-2 constraints, n = 2..4),
identity / diagonal / dense metrics, Hausdorff and Gram-determinant densities (with a
correct matrix-Hessian product), plain and Gaussian-split systems, every accepted return
convention of the user functions.
Direct oracle: after every successful real solve / step / sample_momentum / projection the
property statement itself (residual below tolerance, J M^-1 p = 0, Lagrange form with the
same multipliers for position and momentum) evaluated with independent NumPy formulas.
"""
from __future__ import annotations

import signal
import sys
from fractions import Fraction

import numpy as np

from . import common

sys.set_int_max_str_digits(0)  # the exact model returns rationals with many thousand digits

PROP = "C04"
GENERATED = ["solver_loops"]
LEAN_MODULES = ["MiciVerif.Props.C04", "MiciVerif.Props.C04S"]
LEAN_EXTRA = ["MiciVerif.Model.Constrained", "MiciVerif.Proto"]

SOLVERS = {
    "qn": "solve_projection_onto_manifold_quasi_newton",
    "newton": "solve_projection_onto_manifold_newton",
    "ls": "solve_projection_onto_manifold_newton_with_line_search",
}


def changed_solvers():
    """Solvers whose translation (Generated/SolverLoopsProj.lean, regenerated from the tree under test by this
    run) differs from the clean-tree translation (Generated.expected/) or failed: where the search escalates."""
    import re

    gen = common.LEAN / "MiciVerif" / "Generated" / "SolverLoopsProj.lean"
    exp = common.LEAN / "MiciVerif" / "Generated.expected" / "SolverLoopsProj.lean"
    try:
        g, e = gen.read_text(), exp.read_text()
    except OSError:
        return set(SOLVERS)

    def chunks(txt):
        parts = re.split(r"(?m)^(?:/- NOT TRANSLATED.*\n)?def (solve_projection_onto_manifold_\w+?)_translated : Bool := (\w+)\n", txt)
        return {parts[k]: (parts[k + 1], parts[k + 2]) for k in range(1, len(parts) - 2, 3)}

    cg, ce = chunks(g), chunks(e)
    return {sk for sk, name in SOLVERS.items() if cg.get(name) != ce.get(name) or cg.get(name, ("false",))[0] != "true"}


class _Timeout(Exception):
    pass


def _with_timeout(fn, secs=10.0):
    def handler(signum, frame):  # noqa: ARG001
        raise _Timeout

    old = signal.signal(signal.SIGALRM, handler)
    signal.setitimer(signal.ITIMER_REAL, secs)
    try:
        return fn()
    finally:
        signal.setitimer(signal.ITIMER_REAL, 0)
        signal.signal(signal.SIGALRM, old)


# ---------------------------------------------------------------------------------------
# specs: everything needed to rebuild a system, as plain lists of floats (JSON-able)


def dy(rng, lo, hi, den=8):
    """Random dyadic rational in [lo, hi] with denominator `den`."""
    return int(rng.integers(int(lo * den), int(hi * den) + 1)) / den


def dyvec(rng, n, lo, hi, den=8):
    return [dy(rng, lo, hi, den) for _ in range(n)]


def gen_spec(rng, *, force_kind=None, force_class=None, dyadic_mom=False):
    """Random constrained system + a point on the manifold + a cotangent momentum."""
    for _ in range(200):
        n = int(rng.integers(2, 5))
        c = 1 if n == 2 else int(rng.integers(1, 3))
        kind = force_kind or str(rng.choice(["linear", "sphere", "ellipsoid", "quadric", "mixed"]))
        A, B = [], []
        for k in range(c):
            kk = kind if kind != "mixed" else ("linear" if k == 0 else "ellipsoid")
            if kk == "linear":
                A.append(np.zeros((n, n)))
                B.append(np.array(dyvec(rng, n, -2, 2, 4)))
            elif kk == "sphere":
                A.append(2.0 * np.eye(n))
                B.append(np.zeros(n) if k == 0 else np.array(dyvec(rng, n, -1, 1, 4)))
            elif kk == "ellipsoid":
                A.append(np.diag([dy(rng, 0.5, 3, 4) for _ in range(n)]))
                B.append(np.array(dyvec(rng, n, -1, 1, 4)))
            else:
                S = np.array([dyvec(rng, n, -1, 1, 4) for _ in range(n)])
                A.append(S + S.T)
                B.append(np.array(dyvec(rng, n, -1, 1, 4)))
        q0 = np.array(dyvec(rng, n, -1.5, 1.5, 8))
        d = [-(0.5 * q0 @ A[k] @ q0 + B[k] @ q0) for k in range(c)]
        mk = str(rng.choice(["identity", "diagonal", "dense"]))
        if mk == "identity":
            M = np.eye(n)
        elif mk == "diagonal":
            M = np.diag([float(rng.choice([0.5, 1.0, 2.0, 4.0])) for _ in range(n)])
        else:
            L = np.tril(np.array([dyvec(rng, n, -1, 1, 4) for _ in range(n)]))
            M = L @ L.T + np.eye(n)
        N = np.linalg.inv(M)
        J = np.stack([A[k] @ q0 + B[k] for k in range(c)])
        G = J @ N @ J.T
        if np.linalg.cond(G) > 200 or abs(np.linalg.det(G)) < 0.05:
            continue
        p = np.array(dyvec(rng, n, -2, 2, 8))
        # dyadic_mom: keep the momentum a small dyadic rational (not projected) so that the exact model's
        # rationals stay small; the solvers / the step do not require a cotangent start momentum
        p0 = p if dyadic_mom else p - J.T @ np.linalg.solve(G, J @ N @ p)
        S = np.array([dyvec(rng, n, -1, 1, 4) for _ in range(n)])
        cls = force_class or str(rng.choice(["hausdorff", "gram", "gauss"]))
        return {
            "n": n, "c": c, "kind": kind, "A": [a.tolist() for a in A], "B": [b.tolist() for b in B],
            "d": [float(x) for x in d], "metric_kind": mk, "M": M.tolist(),
            "lB": ((S + S.T) / 2).tolist(), "lg": dyvec(rng, n, -1, 1, 4), "lk": float(rng.choice([0.0, 0.5, 1.0])),
            "cls": cls, "conv": [int(x) for x in rng.integers(0, 2, 3)],
            "q0": q0.tolist(), "p0": p0.tolist(),
        }
    raise common.MachineryError("could not generate a well-conditioned constrained system")


class Fns:
    """Independent NumPy implementation of the spec's functions (the oracle side)."""

    def __init__(self, sp):
        self.sp = sp
        self.A = [np.array(a) for a in sp["A"]]
        self.B = [np.array(b) for b in sp["B"]]
        self.d = np.array(sp["d"])
        self.M = np.array(sp["M"])
        self.N = np.linalg.inv(self.M)
        self.lB = np.array(sp["lB"])
        self.lg = np.array(sp["lg"])
        self.lk = sp["lk"]
        self.c = sp["c"]

    def constr(self, q):
        return np.array([0.5 * q @ self.A[k] @ q + self.B[k] @ q + self.d[k] for k in range(self.c)])

    def jacob(self, q):
        return np.stack([self.A[k] @ q + self.B[k] for k in range(self.c)])

    def mhp(self, q):  # noqa: ARG002
        return lambda m: sum(self.A[k] @ m[k] for k in range(self.c))

    def ell(self, q):
        return float(0.5 * q @ self.lB @ q + self.lg @ q + 0.25 * self.lk * np.sum(q**4))

    def grad_ell(self, q):
        return self.lB @ q + self.lg + self.lk * q**3


class _FaultLog:
    def __init__(self):
        self.margin = float("inf")


def build_system(sp, fault=None, flog=None):
    """The real system for `sp`.  `fault` = {"where": "c"|"j", "idx": i, "thr": x, "mode": "value"|"linalg"|"nan"}:
    the user constraint (resp. Jacobian) function raises ValueError / LinAlgError (or returns NaNs) at every
    position with q[idx] > thr."""
    import mici

    f = Fns(sp)

    def hit(q, where):
        if fault is None or fault["where"] != where:
            return False
        if flog is not None:
            flog.margin = min(flog.margin, abs(float(q[fault["idx"]]) - fault["thr"]))
        return bool(q[fault["idx"]] > fault["thr"])

    def fail(shape):
        if fault["mode"] == "value":
            raise ValueError("injected fault")
        if fault["mode"] == "linalg":
            raise np.linalg.LinAlgError("injected fault")
        return np.full(shape, np.nan)

    def constr(q):
        return fail((f.c,)) if hit(q, "c") else f.constr(q)

    def jacob(q):
        return fail((f.c, sp["n"])) if hit(q, "j") else f.jacob(q)

    cg, cj, cm = sp["conv"]
    grad = (lambda q: (f.grad_ell(q), f.ell(q))) if cg else f.grad_ell
    jac = (lambda q: (jacob(q), constr(q))) if cj else jacob
    mhp = (lambda q: (f.mhp(q), jacob(q), constr(q))) if cm else f.mhp
    mk = sp["metric_kind"]
    metric = None if mk == "identity" else (np.diag(f.M).copy() if mk == "diagonal" else f.M.copy())
    kw = {"neg_log_dens": f.ell, "constr": constr, "metric": metric, "grad_neg_log_dens": grad, "jacob_constr": jac}
    if sp["cls"] == "gauss":
        return mici.systems.GaussianDenseConstrainedEuclideanMetricSystem(**kw, mhp_constr=mhp), f
    if sp["cls"] == "gram":
        return mici.systems.DenseConstrainedEuclideanMetricSystem(**kw, dens_wrt_hausdorff=False, mhp_constr=mhp), f
    return mici.systems.DenseConstrainedEuclideanMetricSystem(**kw, dens_wrt_hausdorff=True), f


def flow_matrices(f, sp, t_abs):
    """Independent (Phi_qp, Phi_pp) for |t|: Euclidean (|t| N, I); Gaussian split via eigh."""
    n = sp["n"]
    if sp["cls"] != "gauss":
        return t_abs * f.N, np.eye(n)
    lam, E = np.linalg.eigh(f.M)
    om = 1.0 / np.sqrt(lam)
    return (E * (np.sin(om * t_abs) * om)) @ E.T, (E * np.cos(om * t_abs)) @ E.T


# ---------------------------------------------------------------------------------------
# protocol helpers


def mstr(M):
    return "[" + ",".join(common.vstr(r) for r in np.asarray(M)) + "]"


def quad_tokens(sp):
    n = sp["n"]
    A = ";".join(mstr(a) for a in sp["A"])
    return [A, mstr(sp["B"]), common.vstr(sp["d"])], n


def close_vec(a, b, rtol=1e-7, atol=1e-9):
    a = np.asarray(a, dtype=float)
    b = np.asarray(b, dtype=float)
    return a.shape == b.shape and bool(np.all(np.abs(a - b) <= atol + rtol * np.maximum(np.abs(a), np.abs(b))))


def fvec(s):
    return np.array([float(x) for x in common.parse_vec(s)])


# ---------------------------------------------------------------------------------------
# real solver run


def run_real_solver(sp, sk, t, tol, max_iters, max_ls, fault=None):
    """Apply the real h2_flow and the real solver. Returns dict with outcome and observations."""
    import re

    import mici
    from mici.errors import ConvergenceError
    from mici.states import ChainState

    flog = _FaultLog()
    system, f = build_system(sp, fault, flog)
    prev = ChainState(pos=np.array(sp["q0"]), mom=np.array(sp["p0"]), dir=1)
    state = prev.copy()
    system.h2_flow(state, t)
    pos_flow, mom_flow = state.pos.copy(), state.mom.copy()
    norms = []

    def rec_norm(v):
        r = mici.solvers.maximum_norm(v)
        norms.append((len(v), float(r)))
        return r

    kw = {"constraint_tol": tol[0], "position_tol": tol[1], "divergence_tol": tol[2], "max_iters": max_iters, "norm": rec_norm}
    if sk == "ls":
        kw["max_line_search_iters"] = max_ls
    solver = getattr(mici.solvers, SOLVERS[sk])
    out = {"pos_flow": pos_flow, "mom_flow": mom_flow, "norms": norms, "f": f, "system": system, "prev": prev, "flog": flog}
    try:
        res = _with_timeout(lambda: solver(state, prev, t, system, **kw))
        out.update(kind="ok", pos=np.array(res.pos), mom=np.array(res.mom))
    except ConvergenceError as e:
        msg = str(e)
        reason = "diverged" if "diverged" in msg else ("maxiters" if "did not converge" in msg else "fault")
        m = re.search(r"at iteration (\d+)", msg)
        out.update(kind="err", reason=reason, pos=np.array(state.pos), msg=msg,
                   iter=int(m.group(1)) if m else (0 if "before first iteration" in msg else None))
    except UnboundLocalError:
        out.update(kind="unbound")
    return out


def near_tie(norms, tol, sk, c, max_ls):
    """True if a discrete decision of the real run sat within 1e-6 (relative) of its threshold."""
    for _, v in norms:
        for thr in tol:
            if abs(v - thr) <= 1e-6 * thr:
                return True
    if sk == "ls":
        # re-parse the call sequence: outer error E, then up to max_ls inner errors compared with E
        cv = [v for ln, v in norms if ln == c]
        k = 0
        while k < len(cv):
            e = cv[k]
            k += 1
            for _ in range(max_ls):
                if k >= len(cv):
                    break
                new = cv[k]
                k += 1
                if max(new, e) > 1e-11 and abs(new - e) <= 1e-6 * max(new, e):
                    return True
                if new < e:
                    break
    return False


def outer_iterations(norms, sk, c, max_ls):
    """Number of outer iterations the real solver started (from the recorded norm calls)."""
    cv = [v for ln, v in norms if ln == c]
    if sk != "ls":
        return len(cv)
    k = outer = 0
    while k < len(cv):
        e = cv[k]
        k += 1
        outer += 1
        for _ in range(max_ls):
            if k >= len(cv):
                break
            new = cv[k]
            k += 1
            if new < e:
                break
    return outer


def oracle_solve(sp, sk, t, tol, out):
    """Property statement on one successful real solve. Returns list of (signature, text)."""
    f = out["f"]
    bad = []
    name = SOLVERS[sk]
    q, p = out["pos"], out["mom"]
    res = float(np.max(np.abs(f.constr(q))))
    if not res < tol[0]:
        bad.append((f"{name} returned unconverged", f"returned with |c(q)| = {res:.3e} >= constraint_tol {tol[0]:.1e}"))
    Pqp, Ppp = flow_matrices(f, sp, abs(t))
    if np.linalg.cond(Ppp) > 1e4:  # cos(omega t) ~ 0 for a Gaussian-split system: multipliers not recoverable
        return bad
    dpos, dmom = q - out["pos_flow"], p - out["mom_flow"]
    mu = -np.sign(t) * np.linalg.solve(Ppp, dmom)
    scale = 1.0 + float(np.max(np.abs(out["pos_flow"]))) + float(np.max(np.abs(mu)))
    r1 = float(np.max(np.abs(dpos + Pqp @ mu)))
    if r1 > 1e-8 * scale:
        bad.append((
            f"{name} lagrange-form",
            f"position correction {dpos.tolist()} is not -Phi_qp mu for the multipliers mu of the momentum correction "
            f"(residual {r1:.3e}): position and momentum were corrected with different multipliers",
        ))
    Jp = f.jacob(np.array(sp["q0"]))
    lam = np.linalg.lstsq(Jp.T, mu, rcond=None)[0]
    r2 = float(np.max(np.abs(Jp.T @ lam - mu)))
    if r2 > 1e-8 * scale:
        bad.append((f"{name} multiplier-range", f"momentum correction is not in the range of J(q_prev)^T (residual {r2:.3e})"))
    return bad


# ---------------------------------------------------------------------------------------
# real step / momentum oracles


def run_real_step(sp, sk, t, n_inner, tol, max_iters, max_ls, rev_tol):
    import mici
    from mici.errors import ConvergenceError, NonReversibleStepError
    from mici.states import ChainState

    system, f = build_system(sp)
    kw = {"constraint_tol": tol[0], "position_tol": tol[1], "divergence_tol": tol[2], "max_iters": max_iters}
    if sk == "ls":
        kw["max_line_search_iters"] = max_ls
    real_solver = getattr(mici.solvers, SOLVERS[sk])
    solves = []  # (time_step sign, number of outer iterations) of every projection solve of the step

    def counting_solver(state, state_prev, time_step, system, **kwargs):
        norms = []

        def rec_norm(v):
            r = mici.solvers.maximum_norm(v)
            norms.append((len(v), float(r)))
            return r

        try:
            return real_solver(state, state_prev, time_step, system, **kwargs, norm=rec_norm)
        finally:
            solves.append((1 if time_step * t > 0 else -1, outer_iterations(norms, sk, sp["c"], max_ls)))

    integ = mici.integrators.ConstrainedLeapfrogIntegrator(
        system, step_size=abs(t), n_inner_step=n_inner, reverse_check_tol=rev_tol,
        projection_solver=counting_solver, projection_solver_kwargs=kw,
    )
    state = ChainState(pos=np.array(sp["q0"]), mom=np.array(sp["p0"]), dir=1 if t > 0 else -1)
    try:
        new = _with_timeout(lambda: integ.step(state), 20)
        return {"kind": "ok", "pos": np.array(new.pos), "mom": np.array(new.mom), "f": f, "solves": solves}
    except ConvergenceError as e:
        msg = str(e)
        reason = "diverged" if "diverged" in msg else ("maxiters" if "did not converge" in msg else "fault")
        return {"kind": "conv", "reason": reason, "f": f, "solves": solves}
    except NonReversibleStepError:
        return {"kind": "nonrev", "f": f, "solves": solves}
    except (mici.errors.IntegratorError, ValueError, np.linalg.LinAlgError, mici.errors.LinAlgError):
        # ValueError / LinAlgError inside a step are re-raised as IntegratorError by Integrator.step
        return {"kind": "other", "f": f}
    except UnboundLocalError:
        return {"kind": "unbound", "f": f}


def oracle_step(sp, tol, out):
    f = out["f"]
    bad = []
    q, p = out["pos"], out["mom"]
    res = float(np.max(np.abs(f.constr(q))))
    if not res < tol[0]:
        bad.append(("ConstrainedLeapfrogIntegrator.step off-manifold", f"|c(q')| = {res:.3e} >= constraint_tol {tol[0]:.1e} after a successful step"))
    J = f.jacob(q)
    r = float(np.max(np.abs(J @ (f.N @ p))))
    sc = 1.0 + float(np.max(np.abs(p))) * float(np.max(np.abs(J @ f.N)))
    if r > 1e-9 * sc:
        bad.append(("ConstrainedLeapfrogIntegrator.step cotangent", f"|J M^-1 p'| = {r:.3e} after a successful step"))
    return bad


class BasisGen:
    """Scripted generator: every normal draw is the given vector."""

    def __init__(self, z):
        self.z = np.array(z, dtype=float)

    def standard_normal(self, size=None, **_):  # noqa: ARG002
        return self.z.copy()

    def normal(self, loc=0.0, scale=1.0, size=None):  # noqa: ARG002
        return self.z.copy()


def oracle_momentum(sp, z, pvec):
    """sample_momentum and project_onto_cotangent_space on the real system."""
    from mici.states import ChainState

    system, f = build_system(sp)
    q = np.array(sp["q0"])
    state = ChainState(pos=q.copy(), mom=None, dir=1)
    bad = []
    J = f.jacob(q)
    JN = J @ f.N
    p = np.array(system.sample_momentum(state, BasisGen(z)))
    r = float(np.max(np.abs(JN @ p)))
    if r > 1e-9 * (1 + float(np.max(np.abs(p))) * float(np.max(np.abs(JN)))):
        bad.append(("sample_momentum cotangent", f"|J M^-1 p| = {r:.3e} for the sampled momentum (z={list(z)})"))
    pv = np.array(pvec, dtype=float)
    pp = np.array(system.project_onto_cotangent_space(pv.copy(), state))
    sc = 1 + float(np.max(np.abs(pv))) * float(np.max(np.abs(JN)))
    r = float(np.max(np.abs(JN @ pp)))
    if r > 1e-9 * sc:
        bad.append(("project_onto_cotangent_space cotangent", f"|J M^-1 P(p)| = {r:.3e} for p={list(pvec)}"))
    lam = np.linalg.lstsq(J.T, pp - pv, rcond=None)[0]
    r = float(np.max(np.abs(J.T @ lam - (pp - pv))))
    if r > 1e-9 * sc:
        bad.append(("project_onto_cotangent_space lagrange-form", f"P(p) - p not in range J^T (residual {r:.3e})"))
    p2 = np.array(system.project_onto_cotangent_space(pp.copy(), state))
    if float(np.max(np.abs(p2 - pp))) > 1e-9 * sc:
        bad.append(("project_onto_cotangent_space idempotent", "P(P(p)) != P(p)"))
    return bad, pp


# ---------------------------------------------------------------------------------------


def gen_tol(rng, loose=False):
    ctol = float(rng.choice([1e-3, 1e-5] if loose else [1e-3, 1e-5, 1e-7]))
    ptol = float(rng.choice([1e-2, 1e-4] if loose else [1e-2, 1e-4, 1e-6]))
    dtol = float(rng.choice([1e10, 1e10, 1e10, 0.75, 4.0]))
    return [ctol, ptol, dtol]


def solve_case(rng, ctx, *, ls_stress=False, force_solver=None):
    sk = "ls" if ls_stress else (force_solver or str(rng.choice(["qn", "newton", "ls"])))
    sp = gen_spec(rng, force_kind=str(rng.choice(["sphere", "ellipsoid", "quadric"])) if ls_stress else None,
                  dyadic_mom=rng.random() < 0.7)
    tol = gen_tol(rng, loose=(sk == "qn"))
    if ls_stress:
        tol[2] = 1e10
        t = float(rng.choice([-1, 1])) * int(rng.integers(8, 33)) / 16
        max_iters, max_ls = int(rng.integers(5, 9)), int(rng.integers(1, 3))
    else:
        t = float(rng.choice([-1, 1])) * int(rng.integers(1, 13)) / 16
        max_iters = int(rng.choice([0, 1, 2, 3, 4, 6, 8, 8, 8]))
        max_ls = int(rng.choice([0, 1, 2, 3, 10]))
    if sk == "qn":
        max_iters = min(max_iters, 7)
    fault = None
    if not ls_stress and rng.random() < 0.3:
        i = int(rng.integers(sp["n"]))
        fault = {"where": str(rng.choice(["c", "j"])), "idx": i, "thr": sp["q0"][i] + dy(rng, -0.25, 0.5, 16),
                 "mode": str(rng.choice(["value", "linalg", "nan"]))}
        # bare return conventions: with the tuple conventions the user's Jacobian function also evaluates the
        # constraint (and its cached auxiliary value hides later constraint calls), which the oracles of the
        # model keep separate
        sp["conv"] = [sp["conv"][0], 0, 0]
    return {"spec": sp, "solver": sk, "t": t, "tol": tol, "max_iters": max_iters, "max_ls": max_ls, "fault": fault}


def solve_request(case, out):
    sp = case["spec"]
    n, c = sp["n"], sp["c"]
    qt, _ = quad_tokens(sp)
    if sp["cls"] == "gauss":
        Pqp, Ppp = out["system"].dh2_flow_dmom(out["prev"], abs(case["t"]))
        eye = np.eye(n)
        flow = "D:" + mstr(np.asarray(Pqp @ eye)) + "|" + mstr(np.asarray(Ppp @ eye))
    else:
        flow = "E:" + mstr(sp["M"])
    tol = case["tol"]
    return " ".join([
        "solve", case["solver"], str(n), str(c), *qt, flow, common.vstr(out["pos_flow"]), common.vstr(out["mom_flow"]),
        common.vstr(sp["q0"]), common.fstr(case["t"]), common.fstr(tol[0]), common.fstr(tol[1]), common.fstr(tol[2]),
        str(case["max_iters"]), str(case["max_ls"]),
        "none" if not case.get("fault") else f"{case['fault']['where']}:{case['fault']['idx']}:{common.fstr(case['fault']['thr'])}",
    ])


def check_solve_case(ctx, case, model_line=None):
    """Run the real solver on `case`; direct oracle; optional comparison with the model's answer.
    Returns (out, violated)."""
    sp, sk, t, tol = case["spec"], case["solver"], case["t"], case["tol"]
    name = SOLVERS[sk]
    try:
        out = run_real_solver(sp, sk, t, tol, case["max_iters"], case["max_ls"], case.get("fault"))
    except _Timeout:
        ctx.violation(f"{name} hang", f"{name} did not return within 10 s", {"solve_case": case})
        return None, True
    except Exception as e:  # noqa: BLE001
        ctx.violation(
            f"{name} foreign exception {type(e).__name__}",
            f"{name} raised {type(e).__name__}: {e} (neither a normal return nor ConvergenceError)",
            {"solve_case": case},
        )
        return None, True
    violated = False
    if out["kind"] == "ok":
        for sig, text in oracle_solve(sp, sk, t, tol, out):
            violated = True
            ctx.violation(sig, f"{text}; solver={sk} t={t} tol={tol} max_iters={case['max_iters']} max_ls={case['max_ls']}", {"solve_case": case})
    return out, violated


def compare_solve(ctx, case, out, mline):
    sk, tol = case["solver"], case["tol"]
    parts = mline.split(" ")
    if mline == "bad-op":
        raise common.MachineryError(f"driver rejected request for {case}")
    if near_tie(out["norms"], tol, sk, case["spec"]["c"], case["max_ls"]) or out["flog"].margin < 1e-6:
        ctx.count("near_tie")
        return
    what = None
    if out["kind"] == "unbound":
        if mline != "unbound":
            what = f"impl raised UnboundLocalError, model {parts[0]}"
    elif out["kind"] == "ok":
        if parts[0] != "ok":
            what = f"impl returned, model says {mline[:60]}"
        else:
            mi, mpos, mmom = int(parts[1]), fvec(parts[2]), fvec(parts[3])
            if sk != "ls":
                ii = sum(1 for ln, _ in out["norms"] if ln == case["spec"]["c"]) - 1
                if ii != mi:
                    what = f"iterations differ: impl {ii} model {mi}"
            if what is None and not (close_vec(out["pos"], mpos) and close_vec(out["mom"], mmom)):
                what = f"returned state differs: impl pos {out['pos'].tolist()} mom {out['mom'].tolist()} model pos {mpos.tolist()} mom {mmom.tolist()}"
    else:
        if parts[0] != "err":
            what = f"impl raised ConvergenceError ({out['reason']}), model says {mline[:60]}"
        elif parts[1] != out["reason"]:
            if {parts[1], out["reason"]} == {"fault", "diverged"} and ("nan" in out["msg"] or "inf" in out["msg"]):
                # exact division by zero in the model (LinAlgError -> "fault") is an inf / NaN iterate in floating
                # point ("diverged"): both raise ConvergenceError, which is all the property asks; counted
                ctx.count("reason_fault_vs_nonfinite_divergence")
            else:
                what = f"ConvergenceError reason differs: impl {out['reason']} ({out['msg'][:80]}) model {parts[1]}"
        elif out["reason"] == "fault" and out.get("iter") is not None and int(parts[2]) != out["iter"]:
            what = f"fault reported at iteration {out['iter']} ({out['msg'][:60]}), model at {parts[2]}"
        elif not close_vec(out["pos"], fvec(parts[3]), rtol=1e-6, atol=1e-8):
            scale0 = 1.0 + float(np.max(np.abs(np.asarray(case["spec"]["q0"], dtype=float))))
            if float(np.max(np.abs(out["pos"]))) > 1e6 * scale0 or not np.all(np.isfinite(out["pos"])):
                # a diverging iteration amplifies rounding errors without bound: the iterate at which the solver
                # gave up (1e6 times the size of the start) is not comparable digit by digit with exact arithmetic;
                # that both gave up with the same reason at the same iteration has been compared above
                ctx.count("diverged_iterate_not_compared")
            else:
                what = f"position at failure differs: impl {out['pos'].tolist()} model {fvec(parts[3]).tolist()}"
    if what:
        ctx.disagreement(f"{SOLVERS[sk]}: {what}", {"solve_case": case})


def step_case(rng):
    sk = str(rng.choice(["qn", "newton", "ls"]))
    lin = rng.random() < 0.4
    sp = gen_spec(rng, force_kind="linear" if lin else None, force_class=str(rng.choice(["hausdorff", "gram"])), dyadic_mom=True)
    n_inner = int(rng.integers(1, 5)) if lin else int(rng.integers(1, 3))
    t = float(rng.choice([-1, 1])) * int(rng.integers(1, 9)) / 16
    tol = [float(rng.choice([1e-3, 1e-5])), float(rng.choice([1e-2, 1e-4])), 1e10]
    return {"spec": sp, "solver": sk, "t": t, "n_inner": n_inner, "tol": tol, "max_iters": 8 if sk != "qn" else 7,
            "max_ls": int(rng.choice([1, 3, 10])), "rev_tol": float(rng.choice([2e-8, 1e-3]))}


def step_request(case):
    sp = case["spec"]
    qt, _ = quad_tokens(sp)
    tol = case["tol"]
    return " ".join([
        "step", case["solver"], str(sp["n"]), str(sp["c"]), *qt, mstr(sp["M"]), mstr(sp["lB"]), common.vstr(sp["lg"]),
        common.fstr(sp["lk"]), "1" if sp["cls"] == "hausdorff" else "0", common.vstr(sp["q0"]), common.vstr(sp["p0"]),
        common.fstr(case["t"]), str(case["n_inner"]), common.fstr(tol[0]), common.fstr(tol[1]), common.fstr(tol[2]),
        str(case["max_iters"]), str(case["max_ls"]), common.fstr(case["rev_tol"]),
    ])


def check_step_case(ctx, case):
    sp = case["spec"]
    try:
        out = run_real_step(sp, case["solver"], case["t"], case["n_inner"], case["tol"], case["max_iters"], case["max_ls"], case["rev_tol"])
    except _Timeout:
        ctx.violation("ConstrainedLeapfrogIntegrator.step hang", "step did not return within 20 s", {"step_case": case})
        return None, True
    except Exception as e:  # noqa: BLE001
        ctx.violation(
            f"ConstrainedLeapfrogIntegrator.step foreign exception {type(e).__name__}",
            f"step raised {type(e).__name__}: {e}", {"step_case": case},
        )
        return None, True
    violated = False
    if out["kind"] == "ok":
        for sig, text in oracle_step(sp, case["tol"], out):
            violated = True
            ctx.violation(sig, f"{text}; solver={case['solver']} t={case['t']} n_inner={case['n_inner']} cls={sp['cls']}", {"step_case": case})
    return out, violated


def compare_step(ctx, case, out, mline):
    if mline == "bad-op":
        raise common.MachineryError(f"driver rejected step request for {case}")
    parts = mline.split(" ")
    what = None
    if out["kind"] == "ok":
        if parts[0] != "ok":
            what = f"impl stepped, model says {mline[:40]}"
        elif not (close_vec(out["pos"], fvec(parts[1]), 1e-6, 1e-8) and close_vec(out["mom"], fvec(parts[2]), 1e-6, 1e-8)):
            what = f"stepped state differs: impl {out['pos'].tolist()} {out['mom'].tolist()} model {fvec(parts[1]).tolist()} {fvec(parts[2]).tolist()}"
    else:
        want = {"conv": f"err conv {out.get('reason')}", "nonrev": "err nonrev", "other": "err other",
                "unbound": "err unbound"}[out["kind"]]
        if mline != want:
            what = f"impl outcome '{want}', model '{mline[:40]}'"
    if what:
        ctx.disagreement(f"ConstrainedLeapfrogIntegrator.step: {what}", {"step_case": case})


def run(ctx: common.Ctx):
    import warnings

    # diverging solver runs overflow by design; the resulting RuntimeWarnings are noise
    warnings.filterwarnings("ignore", category=RuntimeWarning)
    np.seterr(all="ignore")
    rng = common.rng_for(ctx)
    replay_corpus(ctx)
    ctx.rule = (
        "solve: random quadric constraints (linear/sphere/ellipsoid/indefinite/mixed; n 2-4, c 1-2), identity/diagonal/dense "
        "metric, Hausdorff/Gram/Gaussian-split system, all 3 solvers, |t| in 1/16..12/16 (line-search stress: 0.5..2, "
        "max_line_search_iters 1-2), max_iters 0..8; 30% of the runs with an injected fault (constraint or Jacobian function "
        "raising ValueError / LinAlgError or returning NaN on a half-space of positions); non-trivial = solver performed "
        ">= 1 position update. "
        "step: real ConstrainedLeapfrogIntegrator.step vs model (Euclidean systems), n_inner 1-4 (curved: 1-2); "
        "direct oracles on every successful solve/step/sample_momentum/projection"
    )
    ctx.assumptions += [
        "model is exact over Q: float rounding of the implementation is absorbed by rtol 1e-7 comparisons and near-tie skipping",
        "IEEE NaN paths (np.isnan(error)) are not modelled: NaN-returning constraint functions are checked by the direct oracle only",
        "fault-injected runs use the bare return conventions of the user functions",
        "metric inverse / Gram inverse are exact checked inverses in the model (A*X = 1 decided)",
    ]
    # -- projection + momentum: correspondence and direct oracle ------------------------------
    reqs, metas = [], []
    for _ in range(ctx.n(100, 1500)):
        sp = gen_spec(rng)
        n = sp["n"]
        z = dyvec(rng, n, -2, 2, 8)
        pv = dyvec(rng, n, -3, 3, 8)
        case = {"mom_case": {"spec": sp, "z": z, "p": pv}}
        try:
            bad, pp = oracle_momentum(sp, z, pv)
        except Exception as e:  # noqa: BLE001
            ctx.violation(f"momentum projection foreign exception {type(e).__name__}", f"{type(e).__name__}: {e}", case)
            continue
        ctx.case({"proj": [sp["kind"], sp["metric_kind"], sp["cls"], n, sp["c"]]}, nontrivial=True)
        ctx.count(f"proj:{sp['kind']}:{sp['metric_kind']}:{sp['cls']}")
        for sig, text in bad:
            ctx.violation(sig, f"{text}; constraint={sp['kind']} metric={sp['metric_kind']} cls={sp['cls']}", case)
        J = Fns(sp).jacob(np.array(sp["q0"]))
        reqs.append(f"proj {n} {sp['c']} {mstr(J)} {mstr(sp['M'])} {common.vstr(pv)}")
        metas.append((case, pp))
    for (case, pp), mline in zip(metas, common.run_driver("C04", reqs), strict=True):
        if not mline.startswith("ok "):
            ctx.disagreement(f"project_onto_cotangent_space: model says {mline}", case)
        elif not close_vec(pp, fvec(mline.split(" ")[1]), 1e-9, 1e-11):
            ctx.disagreement(
                f"project_onto_cotangent_space differs: impl {pp.tolist()} model {fvec(mline.split(' ')[1]).tolist()}", case)
    # -- solvers -----------------------------------------------------------------------------
    cases = [solve_case(rng, ctx) for _ in range(ctx.n(300, 4000))]
    cases += [solve_case(rng, ctx, ls_stress=True) for _ in range(ctx.n(300, 4000))]
    outs, reqs, idx = [], [], []
    for k, case in enumerate(cases):
        out, _ = check_solve_case(ctx, case)
        outs.append(out)
        if out is None:
            continue
        sp = case["spec"]
        moved = out["kind"] != "unbound" and not np.allclose(out["pos"], out["pos_flow"], rtol=0, atol=1e-14)
        ctx.case({"solve": [case["solver"], sp["kind"], sp["metric_kind"], sp["cls"], case["t"], case["max_iters"], case["max_ls"]]},
                 nontrivial=bool(moved))
        ctx.count(f"solve:{case['solver']}:{out['kind']}" + (f":{out['reason']}" if out["kind"] == "err" else ""))
        ctx.count(f"solve-family:{sp['kind']}:{sp['metric_kind']}:{sp['cls']}")
        # the exact model's rationals grow doubly exponentially with the iteration count
        if case.get("fault"):
            ctx.count(f"solve-fault:{case['fault']['where']}:{case['fault']['mode']}:{out['kind']}")
        if case.get("fault") and case["fault"]["mode"] == "nan":
            ctx.count("solve:nan-fault-direct-oracle-only")
        elif outer_iterations(out["norms"], case["solver"], sp["c"], case["max_ls"]) <= 6:
            reqs.append(solve_request(case, out))
            idx.append(k)
        else:
            ctx.count("solve:model-skipped-too-many-iterations")
    for k, mline in zip(idx, common.run_driver("C04", reqs, timeout=1500), strict=True):
        compare_solve(ctx, cases[k], outs[k], mline)
    # -- integrator steps --------------------------------------------------------------------
    scases = [step_case(rng) for _ in range(ctx.n(90, 900))]
    souts, reqs, idx = [], [], []
    for k, case in enumerate(scases):
        out, _ = check_step_case(ctx, case)
        souts.append(out)
        if out is None:
            continue
        sp = case["spec"]
        ctx.case({"step": [case["solver"], sp["kind"], sp["metric_kind"], sp["cls"], case["t"], case["n_inner"]]}, nontrivial=out["kind"] == "ok")
        ctx.count(f"step:{case['solver']}:n_inner={case['n_inner']}:{out['kind']}")
        # longest chain of dependent solver iterations: all forward solves + the last reverse solve; the exact
        # model's rationals roughly triple in size per iteration, so long chains are left to the direct oracle
        sol = out.get("solves", [])
        depth = sum(n for sg, n in sol if sg > 0) + ([n for sg, n in sol if sg < 0] or [0])[-1]
        if depth <= (9 if sp["c"] == 1 else 6):
            reqs.append(step_request(case))
            idx.append(k)
        else:
            ctx.count("step:model-skipped-long-iteration-chain")
    for k, mline in zip(idx, common.run_driver("C04", reqs, timeout=1500), strict=True):
        compare_step(ctx, scases[k], souts[k], mline)
    # -- escalation: a broken proof obligation (in particular `src_*_eq_model`: the solver bodies translated from
    # the tree under test are no longer the model) multiplies the failing-input search on the real solvers,
    # concentrated on the solvers whose translation changed; direct oracle only ---------------------------------
    if (not ctx.build_ok) or any(not o["ok"] for o in ctx.obligations):
        focus = sorted(changed_solvers()) or sorted(SOLVERS)
        ctx.count("search_escalated")
        ctx.extra["escalated_on_solvers"] = focus
        for k in range(ctx.n(2400, 12000)):
            sk = focus[k % len(focus)]
            stress = sk == "ls" and k % 2 == 0
            case = solve_case(rng, ctx, ls_stress=stress, force_solver=sk)
            if k % 3 == 0:
                case["max_iters"] = int(rng.integers(1, 4))     # exhaustion / early-return paths
            if k % 5 == 0 and not stress:
                case["tol"][2] = float(rng.choice([0.05, 0.25, 0.75]))  # divergence test reachable
            out, _ = check_solve_case(ctx, case)
            if out is not None:
                ctx.case({"solve-escalated": [sk, case["spec"]["kind"], case["spec"]["cls"], case["t"], case["max_iters"], case["max_ls"]]},
                         nontrivial=out["kind"] != "unbound")
                ctx.count(f"solve-escalated:{sk}:{out['kind']}")
    # -- steps of Gaussian-split systems and long inner loops: direct oracle only --------------
    for _ in range(ctx.n(90, 1000)):
        case = step_case(rng)
        case["spec"] = gen_spec(rng, force_class=str(rng.choice(["gauss", "gram", "hausdorff"])))
        case["n_inner"] = int(rng.integers(1, 5))
        case["tol"] = [float(rng.choice([1e-9, 1e-7])), float(rng.choice([1e-8, 1e-6])), 1e10]
        case["max_iters"] = 50
        out, _ = check_step_case(ctx, case)
        if out is not None:
            ctx.case({"step-oracle": [case["solver"], case["spec"]["kind"], case["spec"]["cls"], case["n_inner"]]}, nontrivial=out["kind"] == "ok")
            ctx.count(f"step-oracle:{case['spec']['cls']}:{out['kind']}")


def replay(ctx, obj):
    sub = common.Ctx(ctx.prop, ctx.tier, ctx.seed)
    if "solve_case" in obj:
        _, violated = check_solve_case(sub, obj["solve_case"])
        return bool(violated)
    if "step_case" in obj:
        _, violated = check_step_case(sub, obj["step_case"])
        return bool(violated)
    if "mom_case" in obj:
        mc = obj["mom_case"]
        try:
            bad, _ = oracle_momentum(mc["spec"], mc["z"], mc["p"])
        except Exception:  # noqa: BLE001
            return True
        return bool(bad)
    return False


def replay_corpus(ctx):
    """Re-run the stored past failing inputs first (regression corpus)."""
    import json
    from pathlib import Path

    for f in sorted((common.VERIF / "corpus" / PROP).glob("*.json")):
        obj = json.loads(f.read_text())
        ctx.count("corpus")
        if replay(ctx, obj):
            keep = {k: v for k, v in obj.items() if k not in ("property", "kind", "signature", "what", "how_to_run")}
            ctx.violation(obj.get("signature", f.name), f"corpus case {f.name} fails: {obj.get('what', '')[:300]}", keep)


LEVEL_TEXT = (
    "Lean 4 proof, for every ordered field, dimension, constraint/Jacobian/flow-derivative/inverse oracle, tolerance and "
    "fuel: the cotangent projection p - J^T G^-1 J M^-1 p satisfies J M^-1 p' = 0, is idempotent, linear, and its "
    "correction lies in range(J^T) (project_cotangent/_idem/_lagrange/_range_zero/_eq_mulVec); each of the three "
    "projection solvers, if it returns, returns with |c(q')| < constraint_tol and with position and momentum corrections "
    "-Phi_qp mu, -sgn(t) Phi_pp mu for the SAME mu in range(J(q_prev)^T) (quasi_newton_post, newton_post, "
    "line_search_post incl. the exhausted-line-search branch, lineSearch_consistent, euclidean_lagrange_identity; "
    "lineSearchUnfixed_inconsistent exhibits the failure of the pre-repair inner loop); with "
    "max_iters >= 1 every oracle fault / divergence / fuel exhaustion is a ConvergenceError (solve_ok_or_convergenceError, "
    "solve_setup_fault, solve_maxIters_exhausted); a constrained leapfrog step that returns ends with |c(q')| < tol and "
    "J M^-1 p' = 0 exactly (constrained_step_post, projectCot_post) and every failure of a step is a ConvergenceError, "
    "NonReversibleStepError or the IntegratorError into which Integrator.step converts ValueError/LinAlgError "
    "(step_failure_contained). The BODIES of the three projection solvers are translated from the source on every run "
    "(Generated/SolverLoopsProj.lean: set-up calls, try/for/except skeleton, tests, updates with Python's operator "
    "precedence, abs/sign of the time step, the halving loop with its for-else branch) and proved equal to the hand model "
    "for every oracle family, tolerance, max_iters and fuel (src_quasi_newton_eq_model, src_newton_eq_model, "
    "src_line_search_eq_model, src_*_loop_eq_model, src_line_search_inner_eq_model, src_solve_eq_model); the "
    "post-conditions are transported to the generated definitions (src_quasi_newton_post, src_newton_post, "
    "src_line_search_post, src_solve_ok_or_convergenceError, src_lineSearch_consistent). The model is also tied to the code by running the real "
    "solvers / projection / integrator step against the model over Q on random quadric constraints and by direct "
    "residual oracles on the real code."
)
LEVEL_NOTE = (
    "Trusted: Lean kernel, axioms {propext, Classical.choice, Quot.sound}; correspondence harness and tolerances; the "
    "solver-loop translator's conventions (system calls are the model's oracles, exceptions only from them, messages not "
    "evaluated, np.isnan is False over a field, None placeholders are zeros, the reason of a ConvergenceError is read off "
    "its message). "
    "Theorems are about the exact-field model: float rounding (the 'to solver tolerance' part of the cotangent condition), "
    "NaN handling (np.isnan) and LAPACK are outside and only exercised by the harness. constrained_step_post assumes the "
    "Gram inverse returned by the linear algebra is a true inverse (checked data in the driver). The solvers' behaviour "
    "for the degenerate setting max_iters = 0 (UnboundLocalError instead of ConvergenceError) is modelled as it is "
    "(solve_zero_iters); the failure theorems carry the hypothesis 0 < max_iters. "
    "Gaussian-split systems enter the solver correspondence with the implementation's own flow-derivative matrices as "
    "data, and the integrator-step correspondence covers Euclidean (non-split) systems only; Gaussian-split steps are "
    "covered by the direct oracle."
)
TECHNIQUE = (
    "Lean 4 theorems (matrix algebra over a commutative ring; loop invariants by induction on the fuel) + exact-rational "
    "model/implementation comparison of solver iterates and integrator steps + direct residual oracles on the real code"
)
