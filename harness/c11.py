"""C11 — differentiable matrices report the true parameter gradients.

Model: lean/MiciVerif/Model/MatricesGrad.lean, lemmas lean/MiciVerif/Lemmas/MatricesGrad*.lean,
theorems lean/MiciVerif/Props/C11.lean, driver lean/Driver/C11.lean.

Tie (X): for every differentiable class / option the real mici object is built from dyadic,
well-conditioned parameters, `grad_log_abs_det` and `grad_quadratic_form_inv(v)` are called and
compared (a) entrywise with the Lean model's gradient arrays, (b) paired with a random
direction against the exact directional derivative the driver obtains by evaluating the
class's defining formula at theta + eps*delta in DualNumber Q (L1-L3), and
(c) direct oracle: entrywise against 4th-order central differences of the dense NumPy
formulas log|det M(theta)| and v^T M(theta)^-1 v, which needs no model and also covers SoftAbs.
"""
from __future__ import annotations

import signal
import warnings

import numpy as np
import scipy.linalg as sla

from . import common

PROP = "C11"
LEAN_MODULES = ["MiciVerif.Props.C11", "MiciVerif.Props.C11S"]
GENERATED = ["matrix_ops"]
LEAN_EXTRA = [
    "MiciVerif.Model.MatricesGrad",
    "MiciVerif.Lemmas.MatricesGrad",
    "MiciVerif.Lemmas.MatricesGradTri",
    "MiciVerif.Lemmas.MatricesGradBlock",
    "MiciVerif.Lemmas.MatricesGradPoly",
    "MiciVerif.Proto",
]

RTOL_MODEL = 1e-8  # impl vs exact model (rounding only)
RTOL_FD = 2e-6  # impl vs finite differences
H_FD = 2.0**-12
SIG_ULP = "SoftAbsRegularizedPositiveDefiniteMatrix.grad_quadratic_form_inv near-coincident eigenvalues (ulp gap)"


class _Timeout(Exception):
    pass


def _with_timeout(fn, secs=20.0):
    def handler(signum, frame):  # noqa: ARG001
        raise _Timeout

    old = signal.signal(signal.SIGALRM, handler)
    signal.setitimer(signal.ITIMER_REAL, secs)
    try:
        return fn()
    finally:
        signal.setitimer(signal.ITIMER_REAL, 0)
        signal.signal(signal.SIGALRM, old)


# ---------------------------------------------------------------------------------------
# building real mici objects from JSON-able recipes


def _arr(x):
    return np.array(x, dtype=float)


def build(rec):
    """Real mici object for a recipe (dict of plain lists / floats)."""
    from mici import matrices as mm

    cls = rec["cls"]
    if cls == "IdentityMatrix":
        m = mm.IdentityMatrix(rec["n"])
    elif cls in ("ScaledIdentityMatrix", "PositiveScaledIdentityMatrix"):
        m = getattr(mm, cls)(rec["scalar"], rec["n"])
    elif cls in ("DiagonalMatrix", "PositiveDiagonalMatrix"):
        m = getattr(mm, cls)(_arr(rec["diagonal"]))
    elif cls in ("TriangularFactoredDefiniteMatrix", "TriangularFactoredPositiveDefiniteMatrix"):
        a = _arr(rec["array"])
        lower = rec["lower"]
        how = rec.get("factor_as", "array")
        if how == "array":
            factor, kw = a, {"factor_is_lower": lower}
        elif how == "TriangularMatrix":
            factor, kw = mm.TriangularMatrix(a, lower=lower), {}
        else:  # the array is the *inverse* of the factor
            factor, kw = mm.InverseTriangularMatrix(a, lower=lower), {}
        if cls == "TriangularFactoredDefiniteMatrix":
            m = mm.TriangularFactoredDefiniteMatrix(factor, sign=rec["sign"], **kw)
        else:
            m = mm.TriangularFactoredPositiveDefiniteMatrix(factor, **kw)
    elif cls in ("DenseDefiniteMatrix", "DensePositiveDefiniteMatrix"):
        a = _arr(rec["array"])
        factor = None
        if rec.get("factor") is not None:
            f = rec["factor"]
            fa = _arr(f["array"])
            factor = (
                mm.TriangularMatrix(fa, lower=f["lower"])
                if f["as"] == "TriangularMatrix"
                else mm.InverseTriangularMatrix(fa, lower=f["lower"])
            )
        if cls == "DenseDefiniteMatrix":
            m = mm.DenseDefiniteMatrix(a, factor, is_posdef=rec["is_posdef"])
        else:
            m = mm.DensePositiveDefiniteMatrix(a, factor)
    elif cls == "DensePositiveDefiniteProductMatrix":
        r = _arr(rec["rect"])
        if rec.get("rect_as") == "DenseRectangularMatrix":
            r = mm.DenseRectangularMatrix(r)
        p = None if rec.get("pos_def") is None else build(rec["pos_def"])
        m = mm.DensePositiveDefiniteProductMatrix(r, p)
    elif cls == "PositiveDefiniteLowRankUpdateMatrix":
        u = _arr(rec["factor"])
        if rec.get("factor_as") == "DenseRectangularMatrix":
            u = mm.DenseRectangularMatrix(u)
        p = build(rec["pos_def"])
        k = None if rec.get("inner") is None else build(rec["inner"])
        m = mm.PositiveDefiniteLowRankUpdateMatrix(u, p, k, sign=rec["sign"])
    elif cls == "PositiveDefiniteBlockDiagonalMatrix":
        m = mm.PositiveDefiniteBlockDiagonalMatrix([build(b) for b in rec["blocks"]])
    elif cls == "SoftAbsRegularizedPositiveDefiniteMatrix":
        m = mm.SoftAbsRegularizedPositiveDefiniteMatrix(_arr(rec["array"]), rec["coeff"])
    else:
        raise ValueError(cls)
    for op in rec.get("post", []):
        if op[0] == "scale":
            m = op[1] * m
        elif op[0] == "rscale":
            m = m * op[1]
        elif op[0] == "div":
            m = m / op[1]
        elif op[0] == "neg":
            m = -m
        elif op[0] == "inv":
            m = m.inv
        elif op[0] == "T":
            m = m.T
    return m


# ---------------------------------------------------------------------------------------
# spec = (kind, parameter theta, fixed data) read off the object under test


def _sym(a):
    """Arrays that are symmetric by construction are read off derived objects with rounding-level
    asymmetry (inverse via triangular solves); the model's hypothesis is exact symmetry."""
    a = np.array(a, dtype=float)
    if a.ndim == 2 and a.shape[0] == a.shape[1] and not np.array_equal(a, a.T):
        if np.abs(a - a.T).max() <= 1e-12 * max(1.0, np.abs(a).max()):
            return (a + a.T) / 2
    return a


def spec_of(m, rec=None):
    """Parameterisation of a differentiable mici object as the object itself stores it.

    For directly constructed objects whose constructor argument differs from what is stored
    (array with entries outside the stored triangle, SoftAbs array) the recipe's argument is
    used as the parameter.
    """
    from mici import matrices as mm

    direct = rec is not None and not rec.get("post")
    t = type(m)
    if t in (mm.ScaledIdentityMatrix, mm.PositiveScaledIdentityMatrix):
        return {"kind": "sid", "n": int(m.shape[0]), "theta": float(m.scalar)}
    if t in (mm.DiagonalMatrix, mm.PositiveDiagonalMatrix):
        return {"kind": "diag", "theta": np.array(m.diagonal, dtype=float)}
    if t in (mm.TriangularFactoredDefiniteMatrix, mm.TriangularFactoredPositiveDefiniteMatrix):
        theta = np.array(m.factor.array, dtype=float)
        if direct and rec.get("factor_as", "array") in ("array", "TriangularMatrix"):
            theta = _arr(rec["array"])  # may carry ignored entries outside the stored triangle
        return {"kind": "tri", "lower": bool(m.factor.lower), "sign": float(m.sign), "theta": theta}
    if t is mm.DensePositiveDefiniteProductMatrix:
        return {
            "kind": "prod",
            "theta": np.array(m._rect_matrix.array, dtype=float),  # noqa: SLF001
            "P": _sym(m._pos_def_matrix.array),  # noqa: SLF001
        }
    if t in (mm.DenseDefiniteMatrix, mm.DensePositiveDefiniteMatrix):
        return {"kind": "dense", "theta": _sym(m.array)}
    if t is mm.PositiveDefiniteLowRankUpdateMatrix:
        return {
            "kind": "lowrank",
            "sign": float(m._sign),  # noqa: SLF001
            "P": _sym(m.pos_def_matrix.array),
            "theta": np.array(m.factor_matrix.array, dtype=float),
            "K": _sym(m.inner_pos_def_matrix.array),
        }
    if t is mm.PositiveDefiniteBlockDiagonalMatrix:
        recs = rec["blocks"] if direct else [None] * len(m.blocks)
        return {"kind": "block", "blocks": [spec_of(b, r) for b, r in zip(m.blocks, recs, strict=True)]}
    if t is mm.SoftAbsRegularizedPositiveDefiniteMatrix:
        if not direct:
            raise ValueError("SoftAbs only as directly constructed object")
        return {"kind": "softabs", "theta": _arr(rec["array"]), "coeff": float(rec["coeff"])}
    raise ValueError(f"not a differentiable class: {t.__name__}")


def size_of(sp):
    k = sp["kind"]
    if k == "sid":
        return sp["n"]
    if k == "block":
        return sum(size_of(b) for b in sp["blocks"])
    return sp["theta"].shape[0]


def get_theta(sp):
    if sp["kind"] == "block":
        return tuple(get_theta(b) for b in sp["blocks"])
    return sp["theta"]


def with_theta(sp, th):
    if sp["kind"] == "block":
        return {"kind": "block", "blocks": [with_theta(b, t) for b, t in zip(sp["blocks"], th, strict=True)]}
    return {**sp, "theta": th}


def _softabs_dense(h, coeff):
    lam, q = np.linalg.eigh((h + h.T) / 2)
    with np.errstate(all="ignore"):
        f = np.where(lam == 0, 1 / coeff, lam / np.tanh(coeff * lam))
    return (q * f) @ q.T


def dense_of(sp):
    """Dense NumPy formula of the class (independent of mici)."""
    k = sp["kind"]
    th = sp["theta"] if k != "block" else None
    if k == "sid":
        return th * np.eye(sp["n"])
    if k == "diag":
        return np.diag(th)
    if k == "tri":
        f = np.tril(th) if sp["lower"] else np.triu(th)
        return sp["sign"] * f @ f.T
    if k == "dense":
        return th
    if k == "prod":
        return th @ sp["P"] @ th.T
    if k == "lowrank":
        return sp["P"] + sp["sign"] * th @ sp["K"] @ th.T
    if k == "softabs":
        return _softabs_dense(th, sp["coeff"])
    if k == "block":
        return sla.block_diag(*[dense_of(b) for b in sp["blocks"]])
    raise ValueError(k)


# -- parameter-structure arithmetic (scalar / array / tuple) -----------------------------


def s_axpy(th, t, d):
    if isinstance(th, tuple):
        return tuple(s_axpy(a, t, b) for a, b in zip(th, d, strict=True))
    return th + t * d


def s_inner(g, d):
    if isinstance(d, tuple):
        if not isinstance(g, tuple) or len(g) != len(d):
            raise ValueError("gradient is not a tuple matching the blocks")
        return sum(s_inner(a, b) for a, b in zip(g, d, strict=True))
    g = np.asarray(g, dtype=float)
    if g.shape != np.shape(d):
        raise ValueError(f"gradient shape {g.shape} != parameter shape {np.shape(d)}")
    return float(np.sum(g * d))


def s_norm(g):
    if isinstance(g, tuple):
        return float(np.sqrt(sum(s_norm(a) ** 2 for a in g)))
    return float(np.sqrt(np.sum(np.asarray(g, dtype=float) ** 2)))


def s_maxabs(g):
    if isinstance(g, tuple):
        return max([s_maxabs(a) for a in g] + [0.0])
    a = np.abs(np.asarray(g, dtype=float))
    return float(a.max()) if a.size else 0.0


def s_tolist(x):
    if isinstance(x, tuple):
        return [s_tolist(a) for a in x]
    return np.asarray(x, dtype=float).tolist()


def s_fromlist(x, like):
    if isinstance(like, tuple):
        return tuple(s_fromlist(a, b) for a, b in zip(x, like, strict=True))
    return np.array(x, dtype=float) if np.ndim(like) else float(x)


def s_maxdiff(a, b):
    """max entrywise |a-b| (nan if structures differ or a has nan)."""
    if isinstance(b, tuple):
        if not isinstance(a, tuple) or len(a) != len(b):
            return float("nan")
        return max([s_maxdiff(x, y) for x, y in zip(a, b, strict=True)] + [0.0])
    a = np.asarray(a, dtype=float)
    if a.shape != np.shape(b):
        return float("nan")
    d = np.abs(a - b)
    if d.size == 0:
        return 0.0
    return float("nan") if np.isnan(d).any() else float(d.max())


def basis(sp):
    """Unit directions of the parameter structure (symmetric ones for SoftAbs)."""
    k = sp["kind"]
    if k == "block":
        out = []
        for i, b in enumerate(sp["blocks"]):
            for idx, e in basis(b):
                d = tuple(e if j == i else _zero_like(get_theta(bb)) for j, bb in enumerate(sp["blocks"]))
                out.append(((i, idx), d))
        return out
    th = np.asarray(sp["theta"], dtype=float)
    out = []
    if th.ndim == 0:
        return [((), 1.0)]
    for idx in np.ndindex(th.shape):
        if k == "softabs" and idx[0] > idx[1]:
            continue
        e = np.zeros_like(th)
        e[idx] = 1.0
        if k == "softabs" and idx[0] != idx[1]:
            e[idx[::-1]] = 1.0
        out.append((idx, e))
    return out


def _zero_like(th):
    if isinstance(th, tuple):
        return tuple(_zero_like(t) for t in th)
    return np.zeros_like(np.asarray(th, dtype=float)) if np.ndim(th) else 0.0


# -- the two scalar functions and their numerical derivatives ---------------------------


def f_logdet(sp):
    return float(np.linalg.slogdet(dense_of(sp))[1])


def f_quad(sp, v):
    return float(v @ np.linalg.solve(dense_of(sp), v))


def fd_dir(f, sp, d, h=H_FD):
    """4th-order central difference of t -> f(theta + t d) at 0."""
    th = get_theta(sp)
    g = lambda t: f(with_theta(sp, s_axpy(th, t, d)))  # noqa: E731
    return (8 * (g(h) - g(-h)) - (g(2 * h) - g(-2 * h))) / (12 * h)


def fd_pairs(f, sp):
    """[(index, direction, numerical derivative)] over the basis of the parameter."""
    return [(idx, e, fd_dir(f, sp, e)) for idx, e in basis(sp)]


# -- expected structure of the returned gradient ------------------------------------------


def check_structure(g, sp, name):
    """Type / shape of a gradient against the parameter it belongs to. Returns list of strings."""
    k = sp["kind"]
    if k == "block":
        if not isinstance(g, tuple):
            return [f"{name}: expected tuple of {len(sp['blocks'])} block gradients, got {type(g).__name__}"]
        if len(g) != len(sp["blocks"]):
            return [f"{name}: tuple of length {len(g)} for {len(sp['blocks'])} blocks"]
        out = []
        for i, (gi, b) in enumerate(zip(g, sp["blocks"], strict=True)):
            out += check_structure(gi, b, f"{name}[{i}]")
        return out
    if isinstance(g, (tuple, list)):
        return [f"{name}: got {type(g).__name__} for a {k} parameter"]
    a = np.asarray(g)
    want = np.shape(sp["theta"])
    if a.shape != want:
        return [f"{name}: shape {a.shape} != parameter shape {want}"]
    if not np.issubdtype(a.dtype, np.floating) and not np.issubdtype(a.dtype, np.integer):
        return [f"{name}: dtype {a.dtype}"]
    if not np.all(np.isfinite(a)):
        return [f"{name}: non-finite entries {a.tolist()}"]
    if k == "tri":
        outside = np.triu(a, 1) if sp["lower"] else np.tril(a, -1)
        if np.any(outside != 0):
            return [f"{name}: non-zero entries outside the stored {'lower' if sp['lower'] else 'upper'} triangle"]
    return []


# ---------------------------------------------------------------------------------------
# protocol


def _fmat(a):
    return "[" + ",".join(common.vstr(r) for r in a) + "]"


def req_spec(sp, d):
    k = sp["kind"]
    if k == "sid":
        return f"sid {sp['n']} {common.fstr(sp['theta'])} {common.fstr(d)}"
    if k == "diag":
        return f"diag {common.vstr(sp['theta'])} {common.vstr(d)}"
    if k == "tri":
        return f"tri {int(sp['lower'])} {common.fstr(sp['sign'])} {_fmat(sp['theta'])} {_fmat(d)}"
    if k == "dense":
        return f"dense {_fmat(sp['theta'])} {_fmat(d)}"
    if k == "prod":
        return f"prod {_fmat(sp['theta'])} {_fmat(sp['P'])} {_fmat(d)}"
    if k == "lowrank":
        return f"lowrank {common.fstr(sp['sign'])} {_fmat(sp['P'])} {_fmat(sp['theta'])} {_fmat(sp['K'])} {_fmat(d)}"
    if k == "block":
        return f"block {len(sp['blocks'])} " + " ".join(req_spec(b, dd) for b, dd in zip(sp["blocks"], d, strict=True))
    raise ValueError(k)


def modelable(sp):
    if sp["kind"] == "block":
        return all(modelable(b) for b in sp["blocks"])
    return sp["kind"] != "softabs"


def parse_struct(s):
    """`p/q` | `[..]` | `[[..],..]` | `(a;b;..)` -> float / ndarray / tuple."""
    s = s.strip()
    if s.startswith("("):
        assert s.endswith(")"), s
        parts, depth, cur = [], 0, ""
        for ch in s[1:-1]:
            if ch == "(":
                depth += 1
            elif ch == ")":
                depth -= 1
            if ch == ";" and depth == 0:
                parts.append(cur)
                cur = ""
            else:
                cur += ch
        parts.append(cur)
        return tuple(parse_struct(p) for p in parts)
    if s.startswith("[["):
        rows = s[2:-2].split("],[")
        return np.array([[float(common.parse_frac(t)) for t in r.split(",")] if r else [] for r in rows], dtype=float)
    if s.startswith("["):
        body = s[1:-1]
        return np.array([float(common.parse_frac(t)) for t in body.split(",")] if body else [], dtype=float)
    return float(common.parse_frac(s))


# ---------------------------------------------------------------------------------------
# one case: impl gradients, structure, finite differences


def impl_grads(m, v):
    with warnings.catch_warnings():
        warnings.simplefilter("ignore")
        with np.errstate(all="ignore"):
            gl = _with_timeout(lambda: m.grad_log_abs_det)
            gq = _with_timeout(lambda: m.grad_quadratic_form_inv(v))
    return gl, gq


def oracle_case(case, fd=True):
    """Direct oracle on one case. Returns (failures, info) with failures = list of (signature, text)."""
    rec = case["recipe"]
    v = _arr(case["v"])
    cname = rec["cls"] + ("+" + "+".join(o[0] for o in rec["post"]) if rec.get("post") else "")
    fails = []
    try:
        with warnings.catch_warnings():
            warnings.simplefilter("ignore")
            with np.errstate(all="ignore"):
                m = _with_timeout(lambda: build(rec))
        sp = spec_of(m, rec)
        gl, gq = impl_grads(m, v)
    except _Timeout:
        return [(f"{cname} gradient call did not return", "timeout")], None
    except Exception as e:  # noqa: BLE001
        return [(f"{cname} gradient raised {type(e).__name__}", f"{type(e).__name__}: {e}")], None
    tname = type(m).__name__
    for g, nm in ((gl, "grad_log_abs_det"), (gq, "grad_quadratic_form_inv")):
        for b in check_structure(g, sp, nm):
            sig = f"{tname}.{nm} structure"
            if sp["kind"] == "softabs" and "non-finite" in b:
                sig = "SoftAbsRegularizedPositiveDefiniteMatrix.grad_quadratic_form_inv repeated eigenvalues"
            fails.append((sig, b))
    info = {"m": m, "sp": sp, "gl": gl, "gq": gq, "tname": tname}
    if fails or not fd:
        return fails, info
    d = s_fromlist(case["delta"], get_theta(sp))
    for g, nm, f in ((gl, "grad_log_abs_det", f_logdet), (gq, "grad_quadratic_form_inv", lambda s: f_quad(s, v))):
        try:
            tol = RTOL_FD * max(1.0, s_maxabs(g))
            worst = None
            for idx, e, num in fd_pairs(f, sp):
                got = s_inner(g, e)
                if not abs(got - num) <= tol:
                    if worst is None or abs(got - num) > worst[3]:
                        worst = (idx, got, num, abs(got - num))
            if worst is not None:
                fails.append((
                    f"{tname}.{nm} {_family(sp)}",
                    f"{nm} entry {worst[0]}: implementation {worst[1]!r} but central differences of the dense formula give {worst[2]!r}",
                ))
                continue
            num = fd_dir(f, sp, d)
            got = s_inner(g, d)
            if not abs(got - num) <= RTOL_FD * max(1.0, s_norm(g) * s_norm(d)):
                fails.append((
                    f"{tname}.{nm} {_family(sp)}",
                    f"<{nm}, delta> = {got!r} but the directional derivative of the dense formula is {num!r}",
                ))
        except Exception as e:  # noqa: BLE001
            fails.append((f"{tname}.{nm} structure", f"gradient unusable: {type(e).__name__}: {e}"))
    return fails, info


def _family(sp):
    k = sp["kind"]
    if k in ("tri", "lowrank"):
        return f"sign={int(sp['sign']):+d}"
    if k == "softabs":
        return "softabs"
    return k


def softabs_gap_class(m):
    """'exact' / 'ulp' / 'regular' by the smallest gap between the unregularised eigenvalues."""
    lam = np.sort(np.asarray(m.unreg_eigval, dtype=float))
    if lam.size < 2:
        return "regular"
    gaps = np.diff(lam)
    scale = max(1.0, float(np.abs(lam).max()))
    if np.any((gaps > 0) & (gaps <= 1e-9 * scale)):
        return "ulp"
    if np.any(gaps == 0):
        return "exact"
    return "regular"


# ---------------------------------------------------------------------------------------
# generators (all randomness from the rng handed in; dyadic, well-conditioned)


def dy(rng, lo, hi, den=8, size=None):
    return rng.integers(int(lo * den), int(hi * den) + 1, size=size) / float(den)


def gen_tri(rng, n, lower, junk=False):
    a = dy(rng, -1, 1, 8, (n, n)) * 0.5
    dg = dy(rng, 1, 2, 8, n) * rng.choice([-1.0, 1.0], n)
    f = np.tril(a, -1) if lower else np.triu(a, 1)
    f = f + np.diag(dg)
    if junk:
        other = np.triu(dy(rng, -2, 2, 4, (n, n)), 1) if lower else np.tril(dy(rng, -2, 2, 4, (n, n)), -1)
        f = f + other
    return f


def gen_pd_array(rng, n):
    f = np.tril(gen_tri(rng, n, True))
    return f @ f.T, f


def gen_vec(rng, n):
    v = dy(rng, -2, 2, 4, n)
    if not np.any(v):
        v[0] = 1.0
    return v


def gen_pd_recipe(rng, n, depth=0, allow=None):
    """Recipe of a random *differentiable positive-definite* matrix of size n."""
    kinds = ["psid", "pdiag", "tripd", "densepd", "lowrank", "block"]
    if n >= 2:
        kinds += ["prod"] if n <= 4 else []
    if depth >= 1:
        kinds = [k for k in kinds if k not in ("block", "lowrank")]
    if allow:
        kinds = [k for k in kinds if k in allow]
    k = kinds[int(rng.integers(len(kinds)))]
    if k == "psid":
        return {"cls": "PositiveScaledIdentityMatrix", "n": n, "scalar": float(dy(rng, 0.5, 3, 8))}
    if k == "pdiag":
        return {"cls": "PositiveDiagonalMatrix", "diagonal": dy(rng, 0.5, 3, 8, n).tolist()}
    if k == "tripd":
        lower = bool(rng.integers(2))
        return {"cls": "TriangularFactoredPositiveDefiniteMatrix", "array": gen_tri(rng, n, lower).tolist(),
                "lower": lower, "factor_as": ["array", "TriangularMatrix"][int(rng.integers(2))]}
    if k == "densepd":
        a, _ = gen_pd_array(rng, n)
        return {"cls": "DensePositiveDefiniteMatrix", "array": a.tolist(), "factor": None}
    if k == "prod":
        return gen_prod(rng, n)
    if k == "lowrank":
        return gen_lowrank(rng, n, depth + 1)
    sizes = split_sizes(rng, n)
    return {"cls": "PositiveDefiniteBlockDiagonalMatrix", "blocks": [gen_pd_recipe(rng, s, depth + 1) for s in sizes]}


def gen_pd_any(rng, n):
    """A positive-definite (not necessarily differentiable) inner matrix recipe."""
    if rng.random() < 0.15:
        return {"cls": "IdentityMatrix", "n": n}
    return gen_pd_recipe(rng, n, depth=1, allow=["psid", "pdiag", "tripd", "densepd"])


def split_sizes(rng, n):
    if n == 1:
        return [1]
    k = int(rng.integers(2, min(n, 3) + 1))
    cuts = sorted(rng.choice(np.arange(1, n), size=k - 1, replace=False).tolist())
    return [b - a for a, b in zip([0, *cuts], [*cuts, n], strict=True)]


def gen_prod(rng, n):
    mdim = n + int(rng.integers(1, 3))
    r = np.eye(n, mdim) + 0.5 * dy(rng, -1, 1, 8, (n, mdim))
    return {"cls": "DensePositiveDefiniteProductMatrix", "rect": r.tolist(),
            "rect_as": ["array", "DenseRectangularMatrix"][int(rng.integers(2))],
            "pos_def": None if rng.random() < 0.3 else gen_pd_any(rng, mdim)}


def gen_lowrank(rng, n, depth=1, sign=None):
    k = int(rng.integers(1, max(2, n)))
    sign = int(rng.choice([-1, 1])) if sign is None else sign
    for shrink in (1.0, 0.5, 0.25, 0.125, 0.0625):
        rec = {"cls": "PositiveDefiniteLowRankUpdateMatrix",
               "factor": (dy(rng, -1, 1, 8, (n, k)) * shrink).tolist(),
               "factor_as": ["array", "DenseRectangularMatrix"][int(rng.integers(2))],
               "pos_def": gen_pd_any(rng, n),
               "inner": None if rng.random() < 0.35 else gen_pd_any(rng, k),
               "sign": sign}
        p = dense_of_recipe(rec["pos_def"])
        kk = np.eye(k) if rec["inner"] is None else dense_of_recipe(rec["inner"])
        u = _arr(rec["factor"])
        mtx = p + sign * u @ kk @ u.T
        ev = np.linalg.eigvalsh((mtx + mtx.T) / 2)
        if ev.min() > 0.2 and ev.max() / ev.min() < 200 and np.any(u):
            return rec
    rec["factor"] = (np.eye(n, k) * 0.25).tolist()
    return rec


def dense_of_recipe(rec):
    """Dense array of a (non-post-processed) PD recipe, by the NumPy formulas."""
    cls = rec["cls"]
    if cls == "IdentityMatrix":
        return np.eye(rec["n"])
    if "ScaledIdentity" in cls:
        return rec["scalar"] * np.eye(rec["n"])
    if "Diagonal" in cls and "Block" not in cls:
        return np.diag(_arr(rec["diagonal"]))
    if "TriangularFactored" in cls:
        a = _arr(rec["array"])
        f = np.tril(a) if rec["lower"] else np.triu(a)
        if rec.get("factor_as") == "InverseTriangularMatrix":
            f = np.linalg.inv(f)
        return rec.get("sign", 1) * f @ f.T
    if cls in ("DenseDefiniteMatrix", "DensePositiveDefiniteMatrix"):
        return _arr(rec["array"])
    if cls == "DensePositiveDefiniteProductMatrix":
        r = _arr(rec["rect"])
        p = np.eye(r.shape[1]) if rec.get("pos_def") is None else dense_of_recipe(rec["pos_def"])
        return r @ p @ r.T
    if cls == "PositiveDefiniteLowRankUpdateMatrix":
        u = _arr(rec["factor"])
        kk = np.eye(u.shape[1]) if rec.get("inner") is None else dense_of_recipe(rec["inner"])
        return dense_of_recipe(rec["pos_def"]) + rec["sign"] * u @ kk @ u.T
    if cls == "PositiveDefiniteBlockDiagonalMatrix":
        return sla.block_diag(*[dense_of_recipe(b) for b in rec["blocks"]])
    raise ValueError(cls)


def well_conditioned(rec):
    """Spectrum of the (pre-`post`) matrix within [0.2, 40] in absolute value: keeps the
    finite-difference oracle accurate to ~1e-9 relative and float rounding at ~1e-13."""
    m = dense_of_recipe({k: v for k, v in rec.items() if k != "post"})
    ev = np.abs(np.linalg.eigvalsh((m + m.T) / 2))
    return bool(ev.min() >= 0.2 and ev.max() <= 40.0)


def gen_delta(rng, sp):
    k = sp["kind"]
    if k == "block":
        return tuple(gen_delta(rng, b) for b in sp["blocks"])
    th = sp["theta"]
    if np.ndim(th) == 0:
        return float(dy(rng, -2, 2, 4) or 1.0)
    d = dy(rng, -2, 2, 4, np.shape(th))
    if not np.any(d):
        d.flat[0] = 1.0
    if k == "softabs":
        d = (d + d.T) / 2
    return d


def gen_top(rng, fam, n):
    """Top-level recipe of family `fam` and size `n`."""
    if fam == "sid":
        pos = bool(rng.integers(2))
        c = float(dy(rng, 0.5, 3, 8)) * (1.0 if pos else float(rng.choice([-1.0, 1.0])))
        return {"cls": "PositiveScaledIdentityMatrix" if pos else "ScaledIdentityMatrix", "n": n, "scalar": c}
    if fam == "diag":
        pos = bool(rng.integers(2))
        d = dy(rng, 0.5, 3, 8, n)
        if not pos:
            d = d * rng.choice([-1.0, 1.0], n)
        return {"cls": "PositiveDiagonalMatrix" if pos else "DiagonalMatrix", "diagonal": d.tolist()}
    if fam == "tri":
        lower = bool(rng.integers(2))
        how = ["array", "TriangularMatrix", "InverseTriangularMatrix"][int(rng.integers(3))]
        pd = rng.random() < 0.3
        rec = {"cls": "TriangularFactoredPositiveDefiniteMatrix" if pd else "TriangularFactoredDefiniteMatrix",
               "array": gen_tri(rng, n, lower, junk=(how != "InverseTriangularMatrix" and rng.random() < 0.6)).tolist(),
               "lower": lower, "factor_as": how}
        if not pd:
            rec["sign"] = int(rng.choice([-1, 1]))
        return rec
    if fam == "dense":
        lower = bool(rng.integers(2))
        f = gen_tri(rng, n, lower)
        posdef = bool(rng.integers(2))
        fac = None
        r = rng.random()
        if r < 0.3:
            a = f @ f.T
            fac = {"as": "TriangularMatrix", "array": f.tolist(), "lower": lower}
        elif r < 0.5:
            # factor given by its inverse g: factor = g^-1, array = g^-1 g^-T (symmetrised floats)
            b = sla.solve_triangular(f, np.eye(n), lower=lower)
            a = b @ b.T
            a = (a + a.T) / 2
            fac = {"as": "InverseTriangularMatrix", "array": f.tolist(), "lower": lower}
        else:
            a = f @ f.T
        if rng.random() < 0.5:
            return {"cls": "DenseDefiniteMatrix", "array": ((1 if posdef else -1) * a).tolist(), "factor": fac, "is_posdef": posdef}
        return {"cls": "DensePositiveDefiniteMatrix", "array": a.tolist(), "factor": fac}
    if fam == "prod":
        return gen_prod(rng, n)
    if fam == "lowrank":
        return gen_lowrank(rng, n)
    if fam == "block":
        sizes = split_sizes(rng, n) if n > 1 else [1]
        if rng.random() < 0.2:
            sizes = [1] * n if n <= 3 else sizes
        return {"cls": "PositiveDefiniteBlockDiagonalMatrix", "blocks": [gen_pd_recipe(rng, s, depth=1 if rng.random() < 0.8 else 0) for s in sizes]}
    if fam == "identity":
        return {"cls": "IdentityMatrix", "n": n, "post": [["scale", float(dy(rng, 0.5, 3, 8)) * float(rng.choice([-1.0, 1.0]))]]}
    raise ValueError(fam)


def add_post(rng, rec):
    """Derived objects that stay differentiable: scalar multiples, negation, inverse."""
    fam_pos_only = rec["cls"] in ("PositiveDefiniteLowRankUpdateMatrix", "PositiveDefiniteBlockDiagonalMatrix")
    ops = []
    r = rng.random()
    a = float(dy(rng, 0.5, 4, 4))
    if r < 0.35:
        ops.append(["scale", a if fam_pos_only or rng.random() < 0.5 else -a])
    elif r < 0.5:
        ops.append(["rscale", a])
    elif r < 0.6:
        ops.append(["div", a])
    elif r < 0.7 and not fam_pos_only:
        ops.append(["neg"])
    elif r < 0.9:
        ops.append(["inv"])
    else:
        ops += [["inv"], ["scale", a]]
    return {**rec, "post": ops}


# ---------------------------------------------------------------------------------------
# SoftAbs inputs

_HAD4 = 0.5 * np.array([[1, 1, 1, 1], [1, -1, 1, -1], [1, 1, -1, -1], [1, -1, -1, 1.0]])


def _perm(rng, n):
    return np.eye(n)[rng.permutation(n)]


def softabs_inputs(ctx, rng, escalate=False):
    """(tag, H, coeff) — random, exactly repeated, near repeated, ulp-gap.  `escalate` (a broken C11S softabs_*
    obligation): twice the random cases plus eigenvalues straddling the series / closed-form switch |coeff x| = 1e-3."""
    out = []
    coeffs = [0.5, 1.0, 1.5, 2.25, 4.0, 0.25, 8.0]
    if escalate:
        for c in coeffs:
            for y in (0.5e-3, 0.99e-3, 1.01e-3, 2e-3, 5e-3, 0.99e-2, 1.01e-2, 5e-2, -0.99e-3, -1.01e-3):
                out.append(("switch-eig", np.diag([y / c, 1.25, -0.75]), c))
                out.append(("switch-eig", _HAD4 @ np.diag([y / c, -y / c, 2.0, y / c]) @ _HAD4.T, c))
    for _ in range((2 if escalate else 1) * ctx.n(150, 1500)):
        n = int(rng.integers(1, 6))
        h = dy(rng, -2, 2, 8, (n, n))
        h = (h + h.T) / 2 + np.diag(dy(rng, -1, 1, 8, n))
        out.append(("random", h, float(rng.choice(coeffs))))
    # exactly repeated eigenvalues: c*I, diagonal with repeats, permutation / Hadamard conjugates
    for n in range(1, 6):
        for c in (1.0, -0.75, 2.5):
            out.append(("cI", c * np.eye(n), float(rng.choice(coeffs))))
    for _ in range(ctx.n(12, 60)):
        n = int(rng.integers(2, 6))
        vals = dy(rng, -3, 3, 4, n)
        vals[int(rng.integers(1, n))] = vals[0]
        vals = np.where(vals == 0, 0.5, vals)
        p = _perm(rng, n)
        out.append(("perm-diag-repeat", p @ np.diag(vals) @ p.T, float(rng.choice(coeffs))))
    for vals in ([1, 1, 3, 3], [2, 2, 2, -1], [1, 1, 1, 1], [-2, 0.5, 0.5, 3]):
        out.append(("hadamard-repeat", _HAD4 @ np.diag(vals) @ _HAD4.T, float(rng.choice(coeffs))))
    for _ in range(ctx.n(6, 30)):
        n = int(rng.integers(1, 4))
        c = float(dy(rng, 0.5, 2, 4))
        a, _f = gen_pd_array(rng, 2)
        out.append(("cI-plus-block", sla.block_diag(c * np.eye(n), a), float(rng.choice(coeffs))))
    # near repeated (gap 1e-3 .. 1e-14): divided differences / midpoint derivative must be accurate
    for gap in (1e-3, 1e-4, 1e-5, 1e-6, 1e-7, 1e-8, 1e-9, 1e-10, 1e-12, 1e-14):
        out.append(("near-repeat", _HAD4 @ np.diag([1.0, 1.0 + gap, 3.0, -2.0]) @ _HAD4.T, 1.0))
        out.append(("near-repeat", np.diag([0.5, 0.5 + gap, 2.0]), 1.5))
    # exactly zero and tiny eigenvalues of the unregularised array (removable singularity of x coth(c x))
    for c in (0.5, 1.0, 2.25):
        out.append(("zero-eig", np.diag([0.0, 2.0]), c))
        out.append(("zero-eig", np.array([[1.0, 1.0], [1.0, 1.0]]), c))
        out.append(("zero-eig", np.diag([0.0, 0.0, -1.5]), c))
        out.append(("zero-eig", np.zeros((1, 1)), c))
        for tiny in (1e-3, 1e-5, 1e-7, 1e-9, -1e-6):
            out.append(("tiny-eig", np.diag([tiny, 1.25, -0.75]), c))
            out.append(("tiny-eig", _HAD4 @ np.diag([tiny, -tiny, 2.0, -1.0]) @ _HAD4.T, c))
    # mathematically repeated eigenvalues that eigh returns a few ulps apart
    out.append(("ulp", np.array([[2.0, 1, 1], [1, 2, 1], [1, 1, 2]]), 1.0))
    out.append(("ulp", np.eye(3) + 0.1 * np.ones((3, 3)), 1.0))
    out.append(("ulp", 2 * np.eye(4) + np.ones((4, 4)), 1.0))
    out.append(("ulp", 0.7 * np.eye(3) + 0.3 * np.ones((3, 3)), 1.5))
    for _ in range(ctx.n(4, 20)):
        n = int(rng.integers(3, 6))
        q, _r = np.linalg.qr(rng.standard_normal((n, n)))
        vals = dy(rng, 0.5, 3, 4, n)
        vals[1] = vals[0]
        h = (q * vals) @ q.T
        out.append(("ulp-rot", (h + h.T) / 2, 1.0))
    return out


# ---------------------------------------------------------------------------------------


def _report(ctx, fails, case, extra=None):
    for sig, text in fails:
        ctx.violation(sig, f"{text}  [case {case['recipe']['cls']}]", {"case": case, **(extra or {})})


def run(ctx: common.Ctx):
    rng = common.rng_for(ctx)
    ctx.rule = (
        "per class family (sid, diag, tri, dense, prod, lowrank, block, identity*scalar) sizes 1..5, both signs, "
        "lower/upper, factor as array/TriangularMatrix/InverseTriangularMatrix, with/without inner matrices, "
        "derived objects (scalar multiples, negation, inverse) that stay differentiable; dyadic parameters with "
        "bounded condition number; non-trivial = size >= 2 or non-scalar parameter. SoftAbs: random symmetric, "
        "exactly repeated, near repeated (gap >= 1e-6) and ulp-gap eigenvalues"
    )
    ctx.assumptions += [
        "a / b in the code is modelled as a * b' with b * b' = 1 checked (inverses are checked data)",
        "d log|x| = dx / x (logarithmic derivative of det stands for the gradient of log|det|)",
        "finite differences: 4th-order central, h = 2^-12, tolerance 2e-6 * max(1, |g|) on parameters with "
        "condition number < ~200",
        "SoftAbs: the C11 theorems are for polynomial spectral functions; the real x/tanh(alpha x) is tied at the source "
        "level only (C11S softabs_*: extracted bodies = Daleckii-Krein forms with f, f' as data; two-branch softabs / "
        "grad_softabs) and judged numerically by finite differences",
    ]
    # ---- corpus: minimised past failures, always replayed first -----------------------------------
    import json

    for f in sorted((common.VERIF / "corpus" / "C11").glob("*.json")):
        obj = json.loads(f.read_text())
        fails, _info = oracle_case(obj["case"])
        ctx.case({"corpus": f.name}, nontrivial=True)
        ctx.count("corpus")
        for _sig, text in fails:
            ctx.violation(obj.get("signature", _sig), f"corpus/{f.name}: {text}", {"case": obj["case"], "corpus": f.name})
    fams = ["sid", "diag", "tri", "dense", "prod", "lowrank", "block", "identity"]
    # a broken C11S obligation (an extracted gradient formula no longer evaluates to the model's definition)
    # escalates the failing-input search; the driver only needs the model modules
    broken_s = [o["theorem"] for o in ctx.obligations if not o["ok"] and ".C11S." in o["theorem"]]
    if not ctx.build_ok:
        common.lake_build(LEAN_EXTRA)
    if broken_s:
        ctx.extra["escalated_by"] = broken_s[:8]
    per_fam = (2 if broken_s else 1) * ctx.n(400, 4000)
    cases = []
    for fam in fams:
        for i in range(per_fam if fam != "identity" else max(4, per_fam // 8)):
            n = 1 + (i % 5)
            if fam == "prod":
                n = 1 + (i % 4)
            if fam == "block":
                n = 2 + (i % 5)
            for _attempt in range(40):
                rec = gen_top(rng, fam, n)
                if rec["cls"] == "IdentityMatrix" or well_conditioned(rec):
                    break
                ctx.count("generator_resampled_ill_conditioned")
            else:
                ctx.count("generator_gave_up")
                continue
            if fam != "identity" and rng.random() < 0.3:
                rec = add_post(rng, rec)
            cases.append({"family": fam, "recipe": rec, "v": gen_vec(rng, n).tolist()})
    # blocks containing SoftAbs blocks (direct oracle only)
    for _ in range(ctx.n(6, 40)):
        n1, n2 = int(rng.integers(1, 4)), int(rng.integers(1, 4))
        h = dy(rng, -2, 2, 8, (n1, n1))
        if abs(np.linalg.det((h + h.T) / 2 + np.eye(n1))) < 1e-3:
            h = h + np.eye(n1)
        rec = {"cls": "PositiveDefiniteBlockDiagonalMatrix", "blocks": [
            {"cls": "SoftAbsRegularizedPositiveDefiniteMatrix", "array": ((h + h.T) / 2 + np.eye(n1)).tolist(), "coeff": 1.5},
            gen_pd_recipe(rng, n2, depth=1)]}
        if not well_conditioned(rec["blocks"][1]):
            continue
        cases.append({"family": "block-softabs", "recipe": rec, "v": gen_vec(rng, n1 + n2).tolist()})
    # ---- implementation + direct oracle ---------------------------------------------------
    reqs, req_cases = [], []
    for case in cases:
        rec = case["recipe"]
        try:
            with warnings.catch_warnings():
                warnings.simplefilter("ignore")
                with np.errstate(all="ignore"):
                    m = _with_timeout(lambda r=rec: build(r))
        except Exception as e:  # noqa: BLE001
            ctx.disagreement(f"constructing {rec['cls']} raised {type(e).__name__}: {e}", {"case": case})
            continue
        from mici import matrices as mm

        if not isinstance(m, mm.DifferentiableMatrix) or getattr(m, "is_differentiable", True) is False:
            ctx.count("derived_not_differentiable:" + type(m).__name__)
            continue
        try:
            sp = spec_of(m, rec)
        except Exception as e:  # noqa: BLE001
            ctx.disagreement(f"cannot read parameters of {type(m).__name__}: {e}", {"case": case})
            continue
        case["delta"] = s_tolist(gen_delta(rng, sp))
        fails, info = oracle_case(case)
        post = "+".join(o[0] for o in rec.get("post", []))
        ctx.case({"cls": rec["cls"], "post": post, "n": size_of(sp), "v": case["v"]},
                 nontrivial=size_of(sp) >= 2 or sp["kind"] not in ("sid",))
        ctx.count(f"class:{type(m).__name__}")
        ctx.count(f"family:{case['family']}" + (f":{post}" if post else ""))
        ctx.count(f"size:{size_of(sp)}")
        _count_options(ctx, rec)
        _report(ctx, fails, case)
        if info is not None and modelable(sp):
            d = s_fromlist(case["delta"], get_theta(sp))
            reqs.append(f"grad {common.vstr(case['v'])} {req_spec(sp, d)}")
            req_cases.append((case, info, d))
    # ---- correspondence with the Lean model ------------------------------------------------
    model = common.run_driver("C11", reqs) if reqs else []
    for line, (case, info, d) in zip(model, req_cases, strict=True):
        parts = line.split(" ")
        if parts[0] != "ok" or len(parts) != 5:
            ctx.disagreement(f"model answered {line[:80]!r} for {info['tname']}", {"case": case})
            ctx.count("model_not_ok:" + parts[0])
            continue
        ctx.count("model_compared")
        mgl, mgq = parse_struct(parts[1]), parse_struct(parts[2])
        dl, dq = float(common.parse_frac(parts[3])), float(common.parse_frac(parts[4]))
        for g, mg, exact, nm in ((info["gl"], mgl, dl, "grad_log_abs_det"), (info["gq"], mgq, dq, "grad_quadratic_form_inv")):
            if check_structure(g, info["sp"], nm):
                continue  # already reported
            diff = s_maxdiff(g, mg)
            if not diff <= RTOL_MODEL * max(1.0, s_maxabs(mg)):
                ctx.disagreement(
                    f"{info['tname']}.{nm}: implementation array differs from the model's by {diff!r}",
                    {"case": case, "impl": s_tolist(g), "model": s_tolist(mg)},
                )
                continue
            got = s_inner(g, d)
            if not abs(got - exact) <= RTOL_MODEL * max(1.0, s_norm(mg) * s_norm(d)):
                ctx.disagreement(
                    f"{info['tname']}.{nm}: <grad, delta> = {got!r} but exact directional derivative is {exact!r}",
                    {"case": case},
                )
    # ---- SoftAbs: direct oracle only -----------------------------------------------------------
    run_softabs(ctx, rng, escalate=any("softabs" in t for t in broken_s))
    # ---- malformed requests must be refused ---------------------------------------------------
    bad = common.run_driver("C11", ["grad [1] sid 2 1 1", "grad [1,2] dense [[1,2],[3]] [[0,0],[0,0]]", "nonsense",
                                    "grad [1,2] dense [[1,2],[3,4]] [[0,0],[0,0]]", "grad [1] sid 1 0 1"])
    if bad[:3] != ["bad-op"] * 3 or not bad[3].startswith("precond") or not bad[4].startswith("precond"):
        raise common.MachineryError(f"driver accepted malformed requests: {bad}")


def _count_options(ctx, rec):
    cls = rec["cls"]
    if "TriangularFactored" in cls:
        ctx.count(f"tri:{'lower' if rec['lower'] else 'upper'}:sign={rec.get('sign', 1):+d}:{rec.get('factor_as')}")
    elif cls in ("DenseDefiniteMatrix", "DensePositiveDefiniteMatrix"):
        ctx.count(f"dense:posdef={rec.get('is_posdef', True)}:factor={(rec.get('factor') or {}).get('as')}")
    elif cls == "DensePositiveDefiniteProductMatrix":
        ctx.count(f"prod:inner={(rec.get('pos_def') or {}).get('cls')}")
    elif cls == "PositiveDefiniteLowRankUpdateMatrix":
        ctx.count(f"lowrank:sign={rec['sign']:+d}:pos_def={rec['pos_def']['cls']}:inner={(rec.get('inner') or {}).get('cls')}")
    elif cls == "PositiveDefiniteBlockDiagonalMatrix":
        for b in rec["blocks"]:
            ctx.count(f"block-of:{b['cls']}")


def softabs_branch_fails(coeff, y):
    """Direct oracle on `softabs` / `grad_softabs` themselves just below the switch |coeff x| = 1e-3: the series
    branch must agree with the closed forms x / tanh(coeff x) and 1 / tanh(coeff x) - coeff x / sinh(coeff x)^2
    (whose float64 evaluation is accurate to ~1e-9 relative there) to 1e-7 relative."""
    from mici import matrices as mm

    fails = []
    with warnings.catch_warnings():
        warnings.simplefilter("ignore")
        with np.errstate(all="ignore"):
            m = mm.SoftAbsRegularizedPositiveDefiniteMatrix(np.diag([1.0, 2.0]), coeff)
            x = np.array([y / coeff])
            want = {"softabs": x / np.tanh(x * coeff),
                    "grad_softabs": 1.0 / np.tanh(coeff * x) - coeff * x / np.sinh(coeff * x) ** 2}
            for nm, w in want.items():
                got = np.asarray(getattr(m, nm)(x), dtype=float)
                if got.shape != w.shape or not np.all(np.abs(got - w) <= 1e-7 * np.abs(w) + 1e-15):
                    fails.append((f"SoftAbsRegularizedPositiveDefiniteMatrix.{nm} series branch",
                                  f"{nm}({float(x[0])!r}) with coeff {coeff!r} is {got.tolist()!r}, closed form gives "
                                  f"{w.tolist()!r}"))
    return fails


def run_softabs(ctx, rng, escalate=False):
    from mici import matrices as mm

    for coeff in (0.25, 0.5, 1.0, 2.25, 8.0):
        for y in (0.999e-3, 0.9e-3, -0.999e-3):
            ctx.count("softabs_branch_switch_checked")
            try:
                fails = softabs_branch_fails(coeff, y)
            except Exception as e:  # noqa: BLE001
                fails = [("SoftAbsRegularizedPositiveDefiniteMatrix.softabs raised", f"{type(e).__name__}: {e}")]
            for sig, text in fails:
                ctx.violation(sig, text, {"softabs_branch": {"coeff": coeff, "y": y}})

    # an exactly zero eigenvalue of the unregularised array is a regular point: x / tanh(coeff x) has a removable
    # singularity at 0 (value 1/coeff, derivative 0); the matrix and both gradients must be finite there
    try:
        with warnings.catch_warnings():
            warnings.simplefilter("ignore")
            z = mm.SoftAbsRegularizedPositiveDefiniteMatrix(np.zeros((2, 2)), 2.0)
            ok = np.allclose(np.array(z.array), 0.5 * np.eye(2)) and np.all(np.isfinite(z.grad_log_abs_det)) and np.all(
                np.isfinite(z.grad_quadratic_form_inv(np.array([1.0, -2.0]))))
        if not ok:
            raise ValueError("non-finite or wrong values")  # noqa: TRY301
        ctx.count("softabs_zero_eigenvalue_accepted")
    except Exception as e:  # noqa: BLE001
        ctx.violation("SoftAbsRegularizedPositiveDefiniteMatrix zero eigenvalue",
                      f"SoftAbsRegularizedPositiveDefiniteMatrix(zeros((2, 2)), 2.0) should be I/2 with finite gradients "
                      f"(softabs(0) = 1/coeff): {type(e).__name__}: {e}",
                      {"case": {"family": "softabs:zero", "recipe": {"cls": "SoftAbsRegularizedPositiveDefiniteMatrix",
                                                                        "array": [[0.0, 0.0], [0.0, 0.0]], "coeff": 2.0},
                                "v": [1.0, -2.0], "delta": [[0.25, 0.5], [0.5, -0.125]]}})
    for tag, h, coeff in softabs_inputs(ctx, rng, escalate):
        n = h.shape[0]
        rec = {"cls": "SoftAbsRegularizedPositiveDefiniteMatrix", "array": h.tolist(), "coeff": coeff}
        case = {"family": "softabs:" + tag, "recipe": rec, "v": gen_vec(rng, n).tolist()}
        try:
            with warnings.catch_warnings():
                warnings.simplefilter("ignore")
                m = build(rec)
        except Exception as e:  # noqa: BLE001
            ctx.count(f"softabs_rejected:{tag}:{type(e).__name__}")
            ctx.violation("SoftAbsRegularizedPositiveDefiniteMatrix construction raised",
                          f"constructing SoftAbsRegularizedPositiveDefiniteMatrix for a finite symmetric array raised "
                          f"{type(e).__name__}: {e} [case {tag}]", {"case": {**case, "delta": np.zeros((n, n)).tolist()}})
            continue
        sp = spec_of(m, rec)
        case["delta"] = s_tolist(gen_delta(rng, sp))
        gap = softabs_gap_class(m)
        fails, _info = oracle_case(case)
        ctx.case({"cls": rec["cls"], "tag": tag, "n": n, "gap": gap, "coeff": coeff}, nontrivial=n >= 2)
        ctx.count(f"softabs:{tag}:gap={gap}")
        ctx.count("class:SoftAbsRegularizedPositiveDefiniteMatrix")
        if gap == "ulp":
            fails = [(SIG_ULP if "grad_quadratic_form_inv" in s else s, t) for s, t in fails]
        elif gap == "exact":
            fails = [("SoftAbsRegularizedPositiveDefiniteMatrix.grad_quadratic_form_inv repeated eigenvalues"
                      if "grad_quadratic_form_inv" in s else s, t) for s, t in fails]
        _report(ctx, fails, case, {"eigenvalue_gap_class": gap})


def replay(ctx, obj):
    if "softabs_branch" in obj:
        fails = softabs_branch_fails(obj["softabs_branch"]["coeff"], obj["softabs_branch"]["y"])
        for sig, text in fails:
            print(f"  {sig}: {text}")
        return bool(fails)
    case = obj["case"]
    fails, _info = oracle_case(case)
    for sig, text in fails:
        print(f"  {sig}: {text}")
    return bool(fails)


LEVEL_TEXT = (
    "Lean 4 theorems over any commutative ring with an element eps, eps*eps = 0 (instantiated at DualNumber Q in the "
    "examples; dense_logdet_dual / dense_quad_dual read the eps-coefficient at real parameters): for every size, parameter, "
    "direction delta and vector v, with the gradient formulas written as the Python bodies compute them and inverses as "
    "checked data (M*X = 1), (logdet) det M(theta+eps*delta) = det M(theta) * (1 + eps*<grad_log_abs_det, delta>) and (quad) "
    "M(theta+eps*delta) is invertible and its inverse Xh satisfies v.Xh v = v.X v + eps*<grad_quadratic_form_inv(v), delta>. "
    "Classes: scaledIdentity_logdet/_quad, diagonal_logdet/_quad, trifactored_logdet / trifactored_gradq_sign (sign s with "
    "s*s = 1, lower and upper, gradient w.r.t. the full array argument so the tril/triu truncation is forced), "
    "dense_logdet/_quad (symmetric parameter value, arbitrary direction), product_logdet/_quad (R P R^T, P symmetric), "
    "lowrank_logdet/_quad (P + s U K U^T with the factor s), blockdiag_logdet/_quad (two blocks; tuple of gradients, vector "
    "split). trifactored_gradq_reverted_wrong and lowrank_logdet_reverted_wrong prove that the pre-fix formulas "
    "(extra sign / missing sign) contradict these theorems on 1x1 instances. SoftAbs: softabs_matrix_partial, "
    "softabs_logdet_partial, softabs_quad_partial, softabs_J_partial prove the Daleckii-Krein form of both gradients, "
    "including coincident eigenvalues, for POLYNOMIAL spectral functions only. Tie to the code: every gradient entry and a "
    "random directional derivative are compared with the driver's exact evaluation of the same Lean definitions in "
    "DualNumber Q (M*X = 1, Mh*Xh = 1 and, for n <= 4, the det identity are decided in the driver), and directly with "
    "4th-order finite differences of dense NumPy formulas (this also covers the real SoftAbs, incl. exactly repeated, "
    "ulp-apart and near-repeated eigenvalues). Source-level tie of SoftAbs (Props/C11S, sEval over any ordered field, "
    "spectral function f, derivative f', tanh, sinh as data): the extracted grad_log_abs_det evaluates to Q diag(f'(lam)/f(lam)) "
    "Q^T (softabs_logdet_formula) and the extracted grad_quadratic_form_inv - including its two masked item assignments and "
    "the test |la-lb| <= tol*max(|la+lb|,1) - to -Q((e e^T) o J)Q^T with J = f' at the midpoint on (near-)coincident pairs, "
    "divided difference elsewhere (softabs_quad_formula; softabs_quad_formula_poly: for tol = 0 and polynomial f it is "
    "literally the matrix of softabs_quad_partial); softabs / grad_softabs as extracted are the series branch for "
    "|coeff x| < 1e-3 and the closed form otherwise (softabs_two_branch, grad_softabs_two_branch)."
)
LEVEL_NOTE = (
    "Trusted: Lean kernel, axioms {propext, Classical.choice, Quot.sound}; d log|x| = dx/x (the gradient of log|det| is "
    "stated as the logarithmic derivative of det); a/b modelled as a*b' with b*b' = 1; the inverse the code computes "
    "(Cholesky, triangular solves, Woodbury) is taken to be the inverse (that is C10). softabs_*_partial: tanh is not "
    "algebraic, so the real SoftAbs class (x/tanh(alpha x), its float coincidence threshold sqrt(eps)) is covered by finite "
    "differences only; the model's j_mtx is proved equal to the divided-difference matrix for tolerance 0. C11S softabs_*: "
    "NumPy operator semantics (broadcasting, np.where, boolean-mask item assignment as np.where of the lifted right-hand "
    "side) and the extractor's inlining of locals are trusted; NOT proved: that the series branches approximate the closed "
    "forms and that grad_softabs is the derivative of softabs (numerical oracle only). Block diagonal is "
    "proved for two blocks (k blocks = iterated binary case, as the driver assembles it). Exactly zero and tiny eigenvalues of "
    "the unregularised SoftAbs array are regular points (softabs(0) = 1/coeff) and are judged like any other input. Float rounding is outside the theorems: inputs are "
    "dyadic with spectrum in [0.2, 40]; tolerances 1e-8 (exact model) and 2e-6 (finite differences); an error between the "
    "two is reported without a concrete failing input."
)
TECHNIQUE = (
    "Lean 4 theorems in dual-number style (eps^2 = 0: Jacobi formula, first-order inverse, Daleckii-Krein for polynomials) "
    "per differentiable class + exact DualNumber-Q evaluation of the same definitions compared with the implementation + "
    "finite-difference oracle on dense NumPy formulas + AST translator (tools/extractors/matrix_ops.py) of the gradient "
    "method bodies, each proved (Props/C11S, for all values, by evaluation of the extracted expression) to be the model "
    "definition the C11 theorems are about"
)
