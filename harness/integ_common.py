"""Shared library of the integrator property checks C02, C03, C06, C07.

Everything is described by JSON-ready *spec dicts* (every float a ``float.hex()`` string; ``enc`` /
``dec`` / ``arr`` / ``fl`` convert) so that a failing input can be written to a replay file and rebuilt
exactly:

    sysw  = build_system(sys_spec)          # SysW: .system (real mici system) .target .constr .M .mpoly
    integ = build_integrator(sysw, integ_spec)
    state = build_state(state_spec)         # mici.states.ChainState(pos, mom, dir)

sys_spec   {"kind": <SYSTEM_KINDS>, "dim": d, "aux": bool (derivative functions also return the values),
            "target": {"kind": quadratic|quartic|cubic|banana, "dim", "A"|"b"|"c"|"e"|"a"|"beta"},
            "metric": {"kind": <METRIC_KINDS>, "dim", "diag"|"M"|"s"|"L"|"Q","eigval"|"blocks"}   (tractable kinds),
            "constr": {"kind": <CONSTRAINT_KINDS>, "dim", "r2"|"B"|"a","b"|"r"|"alpha"}, "hausdorff": bool (constrained),
            "riem":   {"c0","alpha"| "a","b" | "M0","alpha","beta" | "L0","alpha","beta" | "softabs_coeff"}}
integ_spec {"kind": <INTEGRATOR_KINDS>, "step_size": hex, "free": [hex], "initial_h1": bool   (symcomp),
            "solver": direct|steffensen, "solver_kwargs": {...}                               (implicit_*),
            "n_inner": k, "proj": newton|quasi_newton|newton_line_search, "proj_kwargs": {...}  (constrained_leapfrog),
            "reverse_check_tol": hex (optional)}
state_spec {"pos": [hex], "mom": [hex], "dir": +1|-1}

Random specs (all randomness from the numpy Generator passed in; inputs are small dyadic rationals):

    random_system_spec(rng, kind, dim=None, target_kind=None, metric_kind=None, constraint_kind=None, hausdorff=None)
    random_integrator_spec(rng, kind, step_size, tight=False, n_free=None)    tight: solver tolerances 1e-13
    random_state_spec(rng, sysw, pos_scale=1, mom_scale=1, dir_=None)         on T*M if constrained
    dyadic_step(sysw, factor)                                                 2^k <= factor / frequency scale

All user functions handed to mici (targets, constraints, position dependent metrics) are sparse
polynomials (:class:`PolyTensor`, exact derivatives by ``.jac()``), so the exact rational model of a case
is available through ``PolyTensor.terms()`` / ``.exact(q)`` (``sysw.target.poly``, ``sysw.constr.poly``,
``sysw.mpoly``).  Independent references: ``metric_dense(spec)``, ``SysW.vector_field`` /
``reference_flow`` (DOP853), ``SysW.tangent_basis`` / ``retract_to_bundle`` (constrained), ``expected_coefficients``.
Oracle helpers: ``snapshot`` / ``same_snapshot`` / ``cache_values_correct``, ``step_map``, ``fd_jacobian``,
``omega``, ``coefficient_failures``, ``with_timeout``, ``describe``, ``selfcheck``.
"""
from __future__ import annotations

import signal
from fractions import Fraction

import numpy as np

from . import common

STATS: dict = __import__("collections").Counter()  # library level counters (dumped into ctx.count by the harnesses)

# --------------------------------------------------------------------------------------
# serialisation: floats <-> float.hex()


def enc(x):
    """JSON-ready encoding with floats as hex strings (exact)."""
    if x is None or isinstance(x, (bool, str)):
        return x
    if isinstance(x, (int, np.integer)):
        return int(x)
    if isinstance(x, (float, np.floating)):
        return float(x).hex()
    if isinstance(x, np.ndarray):
        return enc(x.tolist())
    if isinstance(x, (list, tuple)):
        return [enc(v) for v in x]
    if isinstance(x, dict):
        return {k: enc(v) for k, v in x.items()}
    raise TypeError(f"cannot encode {type(x)}")


def _is_hex(s: str) -> bool:
    t = s.lstrip("+-")
    return t.startswith("0x") or t in ("inf", "nan")


def dec(x):
    """Inverse of :func:`enc` (lists stay lists)."""
    if isinstance(x, str):
        return float.fromhex(x) if _is_hex(x) else x
    if isinstance(x, list):
        return [dec(v) for v in x]
    if isinstance(x, dict):
        return {k: dec(v) for k, v in x.items()}
    return x


def arr(x) -> np.ndarray:
    """Decoded float array of an encoded (nested) list."""
    return np.array(dec(x), dtype=float)


def fl(x) -> float:
    return float(dec(x))


# --------------------------------------------------------------------------------------
# timeouts


class Timeout(Exception):
    pass


def with_timeout(fn, secs=10.0):
    def handler(signum, frame):  # noqa: ARG001
        raise Timeout

    old = signal.signal(signal.SIGALRM, handler)
    signal.setitimer(signal.ITIMER_REAL, secs)
    try:
        return fn()
    finally:
        signal.setitimer(signal.ITIMER_REAL, 0)
        signal.signal(signal.SIGALRM, old)


# --------------------------------------------------------------------------------------
# dyadic random numbers


def dy(rng, shape=(), denom=16, lo=-2.0, hi=2.0):
    """Random multiples of 1/denom in [lo, hi]."""
    a = rng.integers(int(np.ceil(lo * denom)), int(np.floor(hi * denom)) + 1, size=shape)
    out = np.asarray(a, dtype=float) / denom
    return float(out) if shape == () else out


def dy_nonzero(rng, shape=(), denom=16, lo=-2.0, hi=2.0):
    while True:
        a = dy(rng, shape, denom, lo, hi)
        if np.all(np.asarray(a) != 0):
            return a


def dy_spd(rng, d, denom=4, scale=1.0):
    """Dyadic symmetric positive definite matrix: c I + L L^T with small dyadic L."""
    L = np.tril(dy(rng, (d, d), denom, -1.0, 1.0))
    c = dy(rng, (), 4, 0.5, 1.5)
    return (c * np.eye(d) + L @ L.T) * scale


def dy_lower(rng, d, denom=4):
    """Dyadic lower-triangular factor with diagonal in [0.75, 1.5]."""
    L = np.tril(dy(rng, (d, d), denom, -0.75, 0.75), -1)
    L[np.diag_indices(d)] = dy(rng, (d,), 4, 0.75, 1.5)
    return L


# --------------------------------------------------------------------------------------
# sparse polynomial tensors with exact derivatives


class PolyTensor:
    """Tensor valued polynomial  q |-> sum_t C[t] * prod_i q_i^exps[t, i]  (shape C.shape[1:]).

    Monomials are evaluated by repeated multiplication, so for small dyadic inputs every
    intermediate value is exact.
    """

    def __init__(self, d, shape, terms):
        """terms: dict  exps(tuple of d ints) -> coefficient array of `shape`."""
        self.d = d
        self.shape = tuple(shape)
        items = [(e, np.asarray(c, dtype=float).reshape(self.shape)) for e, c in sorted(terms.items())]
        items = [(e, c) for e, c in items if np.any(c != 0)]
        if not items:
            items = [((0,) * d, np.zeros(self.shape))]
        self.exps = np.array([e for e, _ in items], dtype=int).reshape(len(items), d)
        self.C = np.stack([c for _, c in items])
        self._maxe = int(self.exps.max()) if self.exps.size else 0
        self._cols = np.arange(d)
        self._jac = None

    def __call__(self, q):
        q = np.asarray(q, dtype=float)
        P = np.empty((self._maxe + 1, self.d))
        P[0] = 1.0
        for k in range(1, self._maxe + 1):
            P[k] = P[k - 1] * q
        monos = P[self.exps, self._cols].prod(axis=1)
        return np.tensordot(monos, self.C, axes=1)

    def jac(self) -> "PolyTensor":
        """Derivative: tensor of shape (*shape, d) with [..., i] = d/dq_i."""
        if self._jac is None:
            terms: dict = {}
            for e, c in zip(self.exps, self.C):
                for i in range(self.d):
                    if e[i] > 0:
                        ne = tuple(int(v) for v in e)
                        ne = ne[:i] + (ne[i] - 1,) + ne[i + 1:]
                        t = terms.setdefault(ne, np.zeros((*self.shape, self.d)))
                        t[..., i] += e[i] * c
            self._jac = PolyTensor(self.d, (*self.shape, self.d), terms)
        return self._jac

    def terms(self):
        """[(exps tuple, nested list of Fraction coefficients)] — the exact rational polynomial."""
        out = []
        for e, c in zip(self.exps, self.C):
            fr = np.vectorize(lambda v: Fraction(*float(v).as_integer_ratio()), otypes=[object])(c)
            out.append((tuple(int(v) for v in e), fr.tolist()))
        return out

    def exact(self, q):
        """Exact value at a rational point (list of Fraction) as nested lists / Fraction."""
        q = [common.frac(v) for v in q]
        tot = np.zeros(self.shape, dtype=object) + Fraction(0)
        for e, c in self.terms():
            m = Fraction(1)
            for qi, ei in zip(q, e):
                m *= qi**ei
            tot = tot + np.array(c, dtype=object) * m
        return tot


def _unit(d, *idx_pows):
    e = [0] * d
    for i, p in idx_pows:
        e[i] += p
    return tuple(e)


def _add(terms, e, c):
    terms[e] = terms.get(e, 0) + c


def quad_form_terms(d, A, scale=0.5):
    """terms of scale * q^T A q."""
    terms: dict = {}
    for i in range(d):
        for j in range(d):
            if A[i, j] != 0:
                _add(terms, _unit(d, (i, 1), (j, 1)), scale * A[i, j])
    return terms


# --------------------------------------------------------------------------------------
# targets (negative log densities)

TARGET_KINDS = ("quadratic", "quartic", "cubic", "banana")


def random_target_spec(rng, d, kind=None, kinds=TARGET_KINDS):
    kind = kind or str(rng.choice(list(kinds)))
    if kind == "banana" and d < 2:
        kind = "quartic"
    spec = {"kind": kind, "dim": d}
    if kind in ("quadratic", "quartic", "cubic"):
        spec["A"] = enc(dy_spd(rng, d))
    if kind == "doublewell":
        # non-log-concave: negative definite quadratic part, confined by the quartic term; the Hessian has
        # negative eigenvalues near the origin (SoftAbs metrics must handle them: seed C03-3)
        spec["A"] = enc(-dy_spd(rng, d))
    if kind in ("quartic", "doublewell"):
        spec["b"] = enc(dy(rng, (d,), 8, 0.125, 1.0))
    if kind == "cubic":
        spec["c"] = enc(dy(rng, (d,), 16, -0.25, 0.25))
        spec["e"] = enc(dy(rng, (), 16, -0.25, 0.25) if d >= 2 else 0.0)
    if kind == "banana":
        spec["a"] = enc(dy(rng, (d,), 4, 0.5, 2.0))
        spec["beta"] = enc(dy_nonzero(rng, (), 8, -0.5, 0.5))
    return spec


def target_poly(spec) -> PolyTensor:
    d, kind = spec["dim"], spec["kind"]
    if kind in ("quadratic", "quartic", "cubic", "doublewell"):
        terms = quad_form_terms(d, arr(spec["A"]))
        if kind in ("quartic", "doublewell"):
            for i, b in enumerate(arr(spec["b"])):
                _add(terms, _unit(d, (i, 4)), 0.25 * b)
        if kind == "cubic":
            for i, c in enumerate(arr(spec["c"])):
                _add(terms, _unit(d, (i, 3)), c)
            if d >= 2:
                _add(terms, _unit(d, (0, 2), (d - 1, 1)), fl(spec["e"]))
    elif kind == "banana":
        # 1/2 a0 q0^2 + 1/2 sum_{i>=1} a_i (q_i - beta q0^2)^2
        a, beta = arr(spec["a"]), fl(spec["beta"])
        terms = {}
        _add(terms, _unit(d, (0, 2)), 0.5 * a[0])
        for i in range(1, d):
            _add(terms, _unit(d, (i, 2)), 0.5 * a[i])
            _add(terms, _unit(d, (i, 1), (0, 2)), -a[i] * beta)
            _add(terms, _unit(d, (0, 4)), 0.5 * a[i] * beta * beta)
    else:
        raise ValueError(kind)
    return PolyTensor(d, (), terms)


class Target:
    def __init__(self, spec):
        self.spec = spec
        self.dim = spec["dim"]
        self.poly = target_poly(spec)
        self.gpoly = self.poly.jac()
        self.hpoly = self.gpoly.jac()
        self.tpoly = self.hpoly.jac()

    def f(self, q):
        return float(self.poly(q))

    def grad(self, q):
        return self.gpoly(q)

    def hess(self, q):
        return self.hpoly(q)

    def tress(self, q):
        return self.tpoly(q)

    def mtp(self, q):
        T = self.tpoly(q)
        return lambda m: np.tensordot(m, T, axes=2)


# --------------------------------------------------------------------------------------
# metrics of the constant-metric systems

METRIC_KINDS = (
    "none", "diag", "dense", "identity", "scaled", "scaled_implicit", "diag_obj", "dense_obj", "chol", "eig", "block",
)


def random_metric_spec(rng, d, kind=None, kinds=METRIC_KINDS):
    kind = kind or str(rng.choice(list(kinds)))
    if kind == "block" and d < 2:
        kind = "dense_obj"
    spec = {"kind": kind, "dim": d}
    if kind in ("diag", "diag_obj"):
        spec["diag"] = enc(dy(rng, (d,), 4, 0.25, 3.0))
    elif kind in ("dense", "dense_obj"):
        spec["M"] = enc(dy_spd(rng, d))
    elif kind in ("scaled", "scaled_implicit"):
        spec["s"] = enc(dy(rng, (), 4, 0.25, 3.0))
    elif kind == "chol":
        spec["L"] = enc(dy_lower(rng, d))
    elif kind == "eig":
        v = dy_nonzero(rng, (d,), 4, -1.0, 1.0)
        spec["Q"] = enc(np.eye(d) - 2.0 * np.outer(v, v) / float(v @ v))  # Householder reflection
        spec["eigval"] = enc(dy(rng, (d,), 4, 0.25, 3.0))
    elif kind == "block":
        k = int(rng.integers(1, d))
        spec["blocks"] = [enc(dy_spd(rng, k)), enc(dy_spd(rng, d - k))]
    return spec


def metric_arg(spec):
    """The object passed as ``metric=`` to the mici system."""
    from mici import matrices as mm

    kind, d = spec["kind"], spec["dim"]
    if kind == "none":
        return None
    if kind == "diag":
        return arr(spec["diag"])
    if kind == "dense":
        return arr(spec["M"])
    if kind == "identity":
        return mm.IdentityMatrix(d)
    if kind == "scaled":
        return mm.PositiveScaledIdentityMatrix(fl(spec["s"]), d)
    if kind == "scaled_implicit":  # implicitly sized scaled identity (size=None)
        return mm.PositiveScaledIdentityMatrix(fl(spec["s"]))
    if kind == "diag_obj":
        return mm.PositiveDiagonalMatrix(arr(spec["diag"]))
    if kind == "dense_obj":
        return mm.DensePositiveDefiniteMatrix(arr(spec["M"]))
    if kind == "chol":
        return mm.TriangularFactoredPositiveDefiniteMatrix(arr(spec["L"]), factor_is_lower=True)
    if kind == "eig":
        return mm.EigendecomposedPositiveDefiniteMatrix(arr(spec["Q"]), arr(spec["eigval"]))
    if kind == "block":
        return mm.PositiveDefiniteBlockDiagonalMatrix(
            [mm.DensePositiveDefiniteMatrix(arr(b)) for b in spec["blocks"]]
        )
    raise ValueError(kind)


def metric_dense(spec) -> np.ndarray:
    """Dense array of the metric described by the spec (independent of mici)."""
    kind, d = spec["kind"], spec["dim"]
    if kind in ("none", "identity"):
        return np.eye(d)
    if kind in ("diag", "diag_obj"):
        return np.diag(arr(spec["diag"]))
    if kind in ("dense", "dense_obj"):
        return arr(spec["M"])
    if kind in ("scaled", "scaled_implicit"):
        return fl(spec["s"]) * np.eye(d)
    if kind == "chol":
        L = arr(spec["L"])
        return L @ L.T
    if kind == "eig":
        Q = arr(spec["Q"])
        return Q @ np.diag(arr(spec["eigval"])) @ Q.T
    if kind == "block":
        b0, b1 = (arr(b) for b in spec["blocks"])
        M = np.zeros((d, d))
        M[: len(b0), : len(b0)] = b0
        M[len(b0):, len(b0):] = b1
        return M
    raise ValueError(kind)


# --------------------------------------------------------------------------------------
# constraints

CONSTRAINT_KINDS = ("sphere", "ellipsoid", "linear", "two", "quartic", "graph")


def random_constraint_spec(rng, d, kind=None, kinds=CONSTRAINT_KINDS, r2_range=(0.5, 4.0)):
    kind = kind or str(rng.choice(list(kinds)))
    if kind == "two" and d < 3:
        kind = "sphere"
    spec = {"kind": kind, "dim": d}
    if kind in ("sphere", "two"):
        spec["r2"] = enc(dy(rng, (), 4, *r2_range))
    if kind == "ellipsoid":
        spec["B"] = enc(dy_spd(rng, d))
    if kind in ("linear", "two"):
        while True:
            a = dy(rng, (d,), 4, -1.0, 1.0)
            b = dy(rng, (), 8, -0.25, 0.25)
            if not np.any(a):
                continue
            # sphere and plane must intersect in a circle of decent radius
            if kind == "linear" or b * b <= 0.25 * fl(spec["r2"]) * float(a @ a):
                break
        spec["a"] = enc(a)
        spec["b"] = enc(b)
    if kind == "quartic":
        spec["r"] = enc(dy(rng, (), 4, 0.5, 3.0))
    if kind == "graph":
        spec["alpha"] = enc(dy_nonzero(rng, (), 8, -0.75, 0.75))
    return spec


def constraint_poly(spec) -> PolyTensor:
    d, kind = spec["dim"], spec["kind"]

    def vec(n, k, c):
        v = np.zeros(n)
        v[k] = c
        return v

    terms: dict = {}
    if kind == "sphere":
        n = 1
        for i in range(d):
            _add(terms, _unit(d, (i, 2)), vec(1, 0, 1.0))
        _add(terms, _unit(d), vec(1, 0, -fl(spec["r2"])))
    elif kind == "ellipsoid":
        n = 1
        for e, c in quad_form_terms(d, arr(spec["B"]), 1.0).items():
            _add(terms, e, vec(1, 0, c))
        _add(terms, _unit(d), vec(1, 0, -1.0))
    elif kind == "linear":
        n = 1
        for i, a in enumerate(arr(spec["a"])):
            _add(terms, _unit(d, (i, 1)), vec(1, 0, a))
        _add(terms, _unit(d), vec(1, 0, -fl(spec["b"])))
    elif kind == "two":
        n = 2
        for i in range(d):
            _add(terms, _unit(d, (i, 2)), vec(2, 0, 1.0))
        _add(terms, _unit(d), vec(2, 0, -fl(spec["r2"])))
        for i, a in enumerate(arr(spec["a"])):
            _add(terms, _unit(d, (i, 1)), vec(2, 1, a))
        _add(terms, _unit(d), vec(2, 1, -fl(spec["b"])))
    elif kind == "quartic":
        n = 1
        for i in range(d - 1):
            _add(terms, _unit(d, (i, 2)), vec(1, 0, 1.0))
        _add(terms, _unit(d, (d - 1, 4)), vec(1, 0, 1.0))
        _add(terms, _unit(d), vec(1, 0, -fl(spec["r"])))
    elif kind == "graph":
        n = 1
        _add(terms, _unit(d, (d - 1, 1)), vec(1, 0, 1.0))
        for i in range(d - 1):
            _add(terms, _unit(d, (i, 3)), vec(1, 0, -fl(spec["alpha"])))
    else:
        raise ValueError(kind)
    return PolyTensor(d, (n,), terms)


class Constraint:
    def __init__(self, spec):
        self.spec = spec
        self.dim = spec["dim"]
        self.poly = constraint_poly(spec)
        self.jpoly = self.poly.jac()
        self.hpoly = self.jpoly.jac()
        self.n = self.poly.shape[0]

    def c(self, q):
        return self.poly(q)

    def jac(self, q):
        return self.jpoly(q)

    def hess(self, q):
        """(n_constr, d, d) array of second derivatives."""
        return self.hpoly(q)

    def mhp(self, q):
        H = self.hpoly(q)
        return lambda m: np.tensordot(m, H, axes=2)

    def retract(self, q, tol=1e-15, max_iter=100):
        """Point on the manifold near q (Gauss-Newton along the constraint normals)."""
        q = np.array(q, dtype=float)
        if self.spec["kind"] == "graph":
            q[-1] = fl(self.spec["alpha"]) * float(np.sum(q[:-1] ** 3))
            return q
        for _ in range(max_iter):
            c = self.c(q)
            if np.max(np.abs(c)) <= tol:
                break
            J = self.jac(q)
            q = q - J.T @ np.linalg.solve(J @ J.T, c)
        return q


# --------------------------------------------------------------------------------------
# position dependent metrics

def riemannian_metric_poly(kind, rspec, d) -> PolyTensor:
    terms: dict = {}
    if kind == "riem_scalar":
        _add(terms, _unit(d), fl(rspec["c0"]))
        for i in range(d):
            _add(terms, _unit(d, (i, 2)), fl(rspec["alpha"]))
        return PolyTensor(d, (), terms)
    if kind == "riem_diag":
        c0, a, b = arr(rspec["c0"]), arr(rspec["a"]), arr(rspec["b"])
        for i in range(d):
            e = np.zeros(d)
            e[i] = 1.0
            _add(terms, _unit(d), c0[i] * e)
            _add(terms, _unit(d, (i, 2)), a[i] * e)
            _add(terms, _unit(d, ((i + 1) % d, 2)), b[i] * e)
        return PolyTensor(d, (d,), terms)
    if kind == "riem_dense":
        alpha, beta = fl(rspec["alpha"]), fl(rspec["beta"])
        _add(terms, _unit(d), arr(rspec["M0"]))
        for i in range(d):
            for j in range(d):
                E = np.zeros((d, d))
                E[i, j] = alpha
                _add(terms, _unit(d, (i, 1), (j, 1)), E)
            _add(terms, _unit(d, (i, 2)), beta * np.eye(d))
        return PolyTensor(d, (d, d), terms)
    if kind == "riem_chol":
        alpha, beta = fl(rspec["alpha"]), fl(rspec["beta"])
        _add(terms, _unit(d), arr(rspec["L0"]))
        for i in range(d):
            E = np.zeros((d, d))
            E[i, i] = alpha
            _add(terms, _unit(d, (i, 2)), E)
            for j in range(i):
                E = np.zeros((d, d))
                E[i, j] = beta
                _add(terms, _unit(d, (i, 1), (j, 1)), E)
        return PolyTensor(d, (d, d), terms)
    raise ValueError(kind)


def random_riemannian_spec(rng, kind, d):
    if kind == "riem_scalar":
        return {"c0": enc(dy(rng, (), 4, 0.5, 2.0)), "alpha": enc(dy(rng, (), 16, 0.0625, 0.5))}
    if kind == "riem_diag":
        return {
            "c0": enc(dy(rng, (d,), 4, 0.5, 2.0)),
            "a": enc(dy(rng, (d,), 16, 0.0625, 0.5)),
            "b": enc(dy(rng, (d,), 16, 0.0, 0.25)),
        }
    if kind == "riem_dense":
        return {
            "M0": enc(dy_spd(rng, d)),
            "alpha": enc(dy(rng, (), 16, 0.0625, 0.5)),
            "beta": enc(dy(rng, (), 16, 0.0, 0.25)),
        }
    if kind == "riem_chol":
        return {
            "L0": enc(dy_lower(rng, d)),
            "alpha": enc(dy(rng, (), 16, 0.0625, 0.375)),
            "beta": enc(dy(rng, (), 16, -0.25, 0.25)),
        }
    if kind == "riem_softabs":
        return {"softabs_coeff": enc(dy(rng, (), 4, 0.5, 2.0))}
    raise ValueError(kind)


# --------------------------------------------------------------------------------------
# systems

UNCONSTRAINED_TRACTABLE = ("euclidean", "gaussian")
CONSTRAINED = ("constrained", "gaussian_constrained")
RIEMANNIAN = ("riem_scalar", "riem_diag", "riem_dense", "riem_chol", "riem_softabs")
SYSTEM_KINDS = UNCONSTRAINED_TRACTABLE + CONSTRAINED + RIEMANNIAN
TRACTABLE_KINDS = UNCONSTRAINED_TRACTABLE + CONSTRAINED


def random_system_spec(rng, kind, dim=None, target_kind=None, metric_kind=None, constraint_kind=None,
                       hausdorff=None, aux=None, r2_range=(0.5, 4.0)):
    """Random system spec.  dims 1-5 (constrained: 2-5; softabs / dense Riemannian: 1-3)."""
    if dim is None:
        if kind in CONSTRAINED:
            dim = int(rng.integers(2, 6))
        elif kind in RIEMANNIAN:
            dim = int(rng.integers(1, 4))
        else:
            dim = int(rng.integers(1, 6))
    spec = {"kind": kind, "dim": dim, "aux": bool(rng.integers(2)) if aux is None else bool(aux)}
    tk = target_kind
    if kind == "riem_softabs" and tk is None:
        tk = str(rng.choice(["quartic", "banana", "quadratic", "doublewell", "doublewell"]))
    spec["target"] = random_target_spec(rng, dim, tk)
    if kind in TRACTABLE_KINDS:
        spec["metric"] = random_metric_spec(rng, dim, metric_kind)
    if kind in CONSTRAINED:
        spec["constr"] = random_constraint_spec(rng, dim, constraint_kind, r2_range=r2_range)
        if kind == "constrained":
            spec["hausdorff"] = bool(rng.integers(2)) if hausdorff is None else bool(hausdorff)
    if kind in RIEMANNIAN:
        spec["riem"] = random_riemannian_spec(rng, kind, dim)
    return spec


class SysW:
    """A real mici system together with the independent description it was built from."""

    def __init__(self, spec):
        import mici

        self.spec = spec
        self.kind = kind = spec["kind"]
        self.dim = d = spec["dim"]
        self.target = T = Target(spec["target"])
        aux = bool(spec.get("aux", False))
        self.constr = None
        self.metric_spec = spec.get("metric")
        self.M = metric_dense(spec["metric"]) if "metric" in spec else None
        S = mici.systems

        def nld(q):
            return T.f(q)

        def gnld(q):
            return (T.grad(q), T.f(q)) if aux else T.grad(q)

        if kind in ("euclidean", "gaussian"):
            cls = S.EuclideanMetricSystem if kind == "euclidean" else S.GaussianEuclideanMetricSystem
            kw = {}
            if spec["metric"]["kind"] != "none" or spec.get("explicit_none", False):
                kw["metric"] = metric_arg(spec["metric"])
            self.system = cls(neg_log_dens=nld, grad_neg_log_dens=gnld, **kw)
        elif kind in CONSTRAINED:
            self.constr = Cn = Constraint(spec["constr"])

            def cfun(q):
                return Cn.c(q)

            def jfun(q):
                return (Cn.jac(q), Cn.c(q)) if aux else Cn.jac(q)

            def mhpfun(q):
                return (Cn.mhp(q), Cn.jac(q), Cn.c(q)) if aux else Cn.mhp(q)

            kw = {"metric": metric_arg(spec["metric"])}
            if kind == "constrained":
                haus = bool(spec["hausdorff"])
                self.system = S.DenseConstrainedEuclideanMetricSystem(
                    neg_log_dens=nld, constr=cfun, dens_wrt_hausdorff=haus, grad_neg_log_dens=gnld,
                    jacob_constr=jfun, mhp_constr=None if haus else mhpfun, **kw,
                )
            else:
                self.system = S.GaussianDenseConstrainedEuclideanMetricSystem(
                    neg_log_dens=nld, constr=cfun, grad_neg_log_dens=gnld, jacob_constr=jfun,
                    mhp_constr=mhpfun, **kw,
                )
        elif kind in RIEMANNIAN and kind != "riem_softabs":
            self.mpoly = mp = riemannian_metric_poly(kind, spec["riem"], d)
            jp = mp.jac()

            def mfun(q):
                v = mp(q)
                return float(v) if kind == "riem_scalar" else v

            def vjp(q):
                Jq = jp(q)

                def f(v):
                    return np.tensordot(np.asarray(v, dtype=float), Jq, axes=np.ndim(v))

                return (f, mfun(q)) if aux else f

            if kind == "riem_scalar":
                self.system = S.ScalarRiemannianMetricSystem(
                    neg_log_dens=nld, metric_scalar_func=mfun, vjp_metric_scalar_func=vjp, grad_neg_log_dens=gnld)
            elif kind == "riem_diag":
                self.system = S.DiagonalRiemannianMetricSystem(
                    neg_log_dens=nld, metric_diagonal_func=mfun, vjp_metric_diagonal_func=vjp, grad_neg_log_dens=gnld)
            elif kind == "riem_dense":
                self.system = S.DenseRiemannianMetricSystem(
                    neg_log_dens=nld, metric_func=mfun, vjp_metric_func=vjp, grad_neg_log_dens=gnld)
            else:
                self.system = S.CholeskyFactoredRiemannianMetricSystem(
                    neg_log_dens=nld, metric_chol_func=mfun, vjp_metric_chol_func=vjp, grad_neg_log_dens=gnld)
        elif kind == "riem_softabs":
            def hfun(q):
                return (T.hess(q), T.grad(q), T.f(q)) if aux else T.hess(q)

            def mtpfun(q):
                return (T.mtp(q), T.hess(q), T.grad(q), T.f(q)) if aux else T.mtp(q)

            self.system = S.SoftAbsRiemannianMetricSystem(
                neg_log_dens=nld, grad_neg_log_dens=gnld, hess_neg_log_dens=hfun, mtp_neg_log_dens=mtpfun,
                softabs_coeff=fl(spec["riem"]["softabs_coeff"]),
            )
        else:
            raise ValueError(kind)

    # -- convenience ---------------------------------------------------------------------
    @property
    def constrained(self):
        return self.kind in CONSTRAINED

    @property
    def tractable(self):
        return self.kind in TRACTABLE_KINDS

    def state(self, pos, mom, dir_=1):
        import mici

        return mici.states.ChainState(pos=np.array(pos, dtype=float), mom=np.array(mom, dtype=float), dir=dir_)

    def h(self, z):
        d = self.dim
        return float(self.system.h(self.state(z[:d], z[d:])))

    def vector_field(self, z):
        """Hamiltonian vector field of the system's own h (constrained: index-reduced DAE)."""
        d = self.dim
        st = self.state(z[:d], z[d:])
        sysm = self.system
        if not self.constrained:
            return np.concatenate([np.asarray(sysm.dh_dmom(st), dtype=float), -np.asarray(sysm.dh_dpos(st), dtype=float)])
        q = z[:d]
        Minv = np.linalg.inv(self.M)
        v = Minv @ z[d:]
        g = np.asarray(sysm.dh1_dpos(st), dtype=float) + np.asarray(sysm.dh2_dpos(st), dtype=float)
        J = self.constr.jac(q)
        H = self.constr.hess(q)
        G = J @ Minv @ J.T
        lam = np.linalg.solve(G, np.einsum("i,cij,j->c", v, H, v) - J @ Minv @ g)
        return np.concatenate([v, -g - J.T @ lam])

    def reference_flow(self, z, t, rtol=1e-13, atol=1e-13):
        """High accuracy solution at time t of Hamilton's equations of system.h from z."""
        import warnings

        from scipy.integrate import solve_ivp

        if t == 0:
            return np.array(z, dtype=float)
        with warnings.catch_warnings():
            warnings.simplefilter("ignore")
            sol = solve_ivp(lambda _t, y: self.vector_field(y), (0.0, t), np.array(z, dtype=float),
                            method="DOP853", rtol=rtol, atol=atol)
        if not sol.success:
            raise RuntimeError("reference ODE solve failed: " + str(sol.message))
        return sol.y[:, -1]

    def tangent_basis(self, z):
        """Orthonormal basis (columns, shape (2d, 2(d-c))) of T_z(T*M): J dq = 0 and
        d(J M^-1 p) = 0.  For unconstrained systems the identity."""
        d = self.dim
        if not self.constrained:
            return np.eye(2 * d)
        q, p = z[:d], z[d:]
        Minv = np.linalg.inv(self.M)
        J = self.constr.jac(q)
        H = self.constr.hess(q)
        K = np.einsum("cij,j->ci", H, Minv @ p)
        Lm = np.block([[J, np.zeros_like(J)], [K, J @ Minv]])
        _, s, Vt = np.linalg.svd(Lm)
        rank = int(np.sum(s > 1e-12 * s[0]))
        return Vt[rank:].T

    def retract_to_bundle(self, z):
        """Nearby point of the cotangent bundle T*M (identity on T*M up to rounding): position by
        Gauss-Newton along the constraint normals, momentum by the M^-1-orthogonal projection.
        Independent of the implementation (dense linear algebra on the spec)."""
        if not self.constrained:
            return np.array(z, dtype=float)
        d = self.dim
        q = self.constr.retract(z[:d])
        J = self.constr.jac(q)
        Minv = np.linalg.inv(self.M)
        p = z[d:] - J.T @ np.linalg.solve(J @ Minv @ J.T, J @ (Minv @ z[d:]))
        return np.concatenate([q, p])

    def scale(self):
        """Rough frequency scale sqrt(lambda_max(M^-1 (Hess + I))) used to pick stable step sizes."""
        d = self.dim
        H = np.abs(self.target.hess(np.ones(d))) + np.eye(d)
        if self.M is not None:
            H = np.linalg.inv(self.M) @ H
        return float(np.sqrt(np.max(np.abs(np.linalg.eigvals(H))))) + 1.0


def build_system(spec) -> SysW:
    common.import_repo()
    return SysW(spec)


# --------------------------------------------------------------------------------------
# integrators

EXPLICIT_KINDS = ("leapfrog", "symcomp", "bcss2", "bcss3", "bcss4")
IMPLICIT_KINDS = ("implicit_leapfrog", "implicit_midpoint")
INTEGRATOR_KINDS = EXPLICIT_KINDS + IMPLICIT_KINDS + ("constrained_leapfrog",)
FP_SOLVERS = ("direct", "steffensen")
PROJ_SOLVERS = ("newton", "quasi_newton", "newton_line_search")


def compatible_system_kinds(ikind):
    if ikind in EXPLICIT_KINDS:
        return UNCONSTRAINED_TRACTABLE
    if ikind == "constrained_leapfrog":
        return CONSTRAINED
    return RIEMANNIAN + UNCONSTRAINED_TRACTABLE


def random_free_coefficients(rng, n=None):
    """0-6 dyadic free coefficients (multiples of 1/32, |c| <= 1/2, so that sub-steps stay moderate)."""
    n = int(rng.integers(0, 7)) if n is None else n
    return [float(v) for v in dy(rng, (n,), 32, -0.25, 0.5)]


def random_integrator_spec(rng, kind, step_size, *, tight=False, n_free=None):
    spec = {"kind": kind, "step_size": enc(float(step_size))}
    if kind == "symcomp":
        spec["free"] = enc(random_free_coefficients(rng, n_free))
        spec["initial_h1"] = bool(rng.integers(2))
    if kind in IMPLICIT_KINDS:
        spec["solver"] = str(rng.choice(FP_SOLVERS))
        if tight:
            spec["solver_kwargs"] = {"convergence_tol": enc(1e-13), "max_iters": 400}
    if kind == "constrained_leapfrog":
        spec["n_inner"] = int(rng.integers(1, 4))
        spec["proj"] = str(rng.choice(PROJ_SOLVERS))
        if tight:
            spec["proj_kwargs"] = {"constraint_tol": enc(1e-13), "position_tol": enc(1e-12), "max_iters": 200}
    return spec


def build_integrator(sysw, spec):
    import mici

    I, sv = mici.integrators, mici.solvers
    system = sysw.system if isinstance(sysw, SysW) else sysw
    kind = spec["kind"]
    eps = None if spec.get("step_size") is None else fl(spec["step_size"])
    if kind == "leapfrog":
        return I.LeapfrogIntegrator(system, eps)
    if kind == "symcomp":
        return I.SymmetricCompositionIntegrator(
            system, [float(v) for v in dec(spec["free"])], step_size=eps, initial_h1_flow_step=bool(spec["initial_h1"]))
    if kind == "bcss2":
        return I.BCSSTwoStageIntegrator(system, eps)
    if kind == "bcss3":
        return I.BCSSThreeStageIntegrator(system, eps)
    if kind == "bcss4":
        return I.BCSSFourStageIntegrator(system, eps)
    kw = {}
    if "reverse_check_tol" in spec:
        kw["reverse_check_tol"] = fl(spec["reverse_check_tol"])
    if kind in IMPLICIT_KINDS:
        solver = {"direct": sv.solve_fixed_point_direct, "steffensen": sv.solve_fixed_point_steffensen}[spec.get("solver", "direct")]
        cls = I.ImplicitLeapfrogIntegrator if kind == "implicit_leapfrog" else I.ImplicitMidpointIntegrator
        skw = dec(spec.get("solver_kwargs", {}))
        return cls(system, eps, fixed_point_solver=solver, fixed_point_solver_kwargs=dict(skw), **kw)
    if kind == "constrained_leapfrog":
        solver = {
            "newton": sv.solve_projection_onto_manifold_newton,
            "quasi_newton": sv.solve_projection_onto_manifold_quasi_newton,
            "newton_line_search": sv.solve_projection_onto_manifold_newton_with_line_search,
        }[spec.get("proj", "newton")]
        pkw = dec(spec.get("proj_kwargs", {}))
        return I.ConstrainedLeapfrogIntegrator(
            system, eps, n_inner_step=int(spec.get("n_inner", 1)), projection_solver=solver,
            projection_solver_kwargs=dict(pkw), **kw)
    raise ValueError(kind)


def with_step_size(ispec, eps):
    out = dict(ispec)
    out["step_size"] = enc(float(eps))
    return out


# --------------------------------------------------------------------------------------
# states


def random_state_spec(rng, sysw: SysW, pos_scale=1.0, mom_scale=1.0, dir_=None):
    """Random dyadic state; for constrained systems the position is moved onto the manifold (exactly where
    possible, otherwise Gauss-Newton to 1e-15) at a point with a well conditioned constraint Jacobian and the
    momentum is projected into the cotangent space with the system's own ``project_onto_cotangent_space``
    (cross-checked against an independent dense projection, which is used instead on disagreement; the
    outcome is counted in ``STATS``)."""
    d = sysw.dim
    pos = dy(rng, (d,), 16, -1.5 * pos_scale, 1.5 * pos_scale)
    mom = dy(rng, (d,), 16, -1.5 * mom_scale, 1.5 * mom_scale)
    if dir_ is None:
        dir_ = int(rng.choice([1, -1]))
    if sysw.constrained:
        kind = sysw.constr.spec["kind"]
        for _ in range(50):
            if kind in ("sphere", "two", "ellipsoid", "quartic") and np.max(np.abs(pos)) < 0.25:
                pos = dy(rng, (d,), 16, -1.5, 1.5)
                continue
            try:
                q = sysw.constr.retract(pos)
            except np.linalg.LinAlgError:
                q = None
            if q is not None and np.all(np.isfinite(q)) and np.max(np.abs(sysw.constr.c(q))) < 1e-13:
                J = sysw.constr.jac(q)
                rn = np.linalg.norm(J, axis=1)
                # well conditioned constraint Jacobian: rows not small and not nearly parallel
                if np.all(rn >= 0.2) and np.linalg.svd(J / rn[:, None], compute_uv=False)[-1] > 0.25:
                    pos = q
                    break
            pos = dy(rng, (d,), 16, -1.5, 1.5)
        else:
            raise common.MachineryError(f"could not find a point on the manifold for {sysw.constr.spec}")
        # independent projection (dense linear algebra on the spec), so that the precondition "state in the
        # cotangent bundle" holds whatever the implementation does; the system's own projection is compared
        J = sysw.constr.jac(pos)
        Minv = np.linalg.inv(sysw.M)
        mom_ind = mom - J.T @ np.linalg.solve(J @ Minv @ J.T, J @ (Minv @ mom))
        try:
            st = sysw.state(pos, mom)
            mom_sys = np.array(sysw.system.project_onto_cotangent_space(mom.copy(), st), dtype=float)
            agree = bool(np.max(np.abs(mom_sys - mom_ind)) <= 1e-12 * max(1.0, float(np.max(np.abs(mom)))))
        except Exception:  # noqa: BLE001
            agree = False
        STATS["cotangent_projection_agrees" if agree else "cotangent_projection_DISAGREES"] += 1
        mom = mom_sys if agree else mom_ind
    return {"pos": enc(pos), "mom": enc(mom), "dir": dir_}


def build_state(sspec):
    common.import_repo()
    import mici

    return mici.states.ChainState(pos=arr(sspec["pos"]), mom=arr(sspec["mom"]), dir=int(sspec.get("dir", 1)))


def state_spec_of(state):
    return {"pos": enc(np.asarray(state.pos)), "mom": enc(np.asarray(state.mom)), "dir": int(state.dir)}


def zvec(state):
    return np.concatenate([np.asarray(state.pos, dtype=float), np.asarray(state.mom, dtype=float)])


def populate_cache(sysw: SysW, state, level=2):
    """Call the cached system methods so that the state's cache holds arrays shared by copies."""
    s = sysw.system
    if level >= 1:
        s.h(state)
        s.dh_dpos(state)
        s.dh_dmom(state)
    if level >= 2:
        s.h1(state)
        s.dh1_dpos(state)
        s.dh2_dpos(state)
        s.dh2_dmom(state)
        if sysw.constrained:
            s.constr(state)
            s.jacob_constr(state)
            s.gram(state)


# --------------------------------------------------------------------------------------
# bitwise snapshots


def _entry(v):
    if v is None:
        return ("none",)
    if isinstance(v, np.ndarray):
        return ("array", str(v.dtype), v.shape, v.tobytes())
    if isinstance(v, (bool, int, float, complex, np.generic)):
        return ("scalar", type(v).__name__, np.asarray(v).tobytes())
    if callable(v) and not hasattr(v, "shape"):
        return ("callable", id(v))
    # mici matrix objects and anything else: identity + bitwise contents of array attributes
    inner = []
    try:
        for k, a in sorted(vars(v).items()):
            if isinstance(a, np.ndarray):
                inner.append((k, str(a.dtype), a.shape, a.tobytes()))
            elif isinstance(a, (bool, int, float, np.generic)):
                inner.append((k, "scalar", np.asarray(a).tobytes()))
    except TypeError:
        pass
    return ("object", type(v).__name__, id(v), tuple(inner))


def snapshot(state):
    """Bitwise snapshot of every state variable and of every cache entry."""
    snap = {"vars": {}, "cache": {}, "ids": {}}
    for name, val in state._variables.items():  # noqa: SLF001
        snap["vars"][name] = _entry(np.asarray(val)) if not isinstance(val, np.ndarray) else _entry(val)
        snap["ids"][name] = id(val)
    for key, val in state._cache.items():  # noqa: SLF001
        snap["cache"][key] = _entry(val)
    return snap


def same_snapshot(a, b):
    """(True, "") or (False, description of the first difference)."""
    for name in sorted(set(a["vars"]) | set(b["vars"])):
        if a["vars"].get(name) != b["vars"].get(name):
            return False, f"state variable {name} changed"
        if a["ids"].get(name) != b["ids"].get(name):
            return False, f"state variable {name} rebound to another object"
    ka = {k: v for k, v in a["cache"].items() if v != ("none",)}
    kb = {k: v for k, v in b["cache"].items() if v != ("none",)}
    for key in sorted(set(ka) | set(kb), key=str):
        if ka.get(key) != kb.get(key):
            how = "added" if key not in ka else ("dropped" if key not in kb else "changed")
            return False, f"cache entry {key[0]} {how}"
    return True, ""


def cache_values_correct(sysw: SysW, state, rtol=1e-12, atol=1e-13):
    """Every array / scalar cached in `state` equals the value recomputed on a fresh state.

    Returns a list of names of wrong entries."""
    fresh = sysw.state(state.pos, state.mom, state.dir)
    bad = []
    for (name, _sid), val in list(state._cache.items()):  # noqa: SLF001
        if val is None or not isinstance(val, (np.ndarray, float, np.floating)):
            continue
        meth = name.split(".", 1)[1]
        fn = getattr(sysw.system, meth, None)
        if fn is None:
            continue
        try:
            ref = fn(fresh)
        except Exception:  # noqa: BLE001
            continue
        if not isinstance(ref, (np.ndarray, float, np.floating)):
            continue
        if np.shape(ref) != np.shape(val) or not np.allclose(ref, val, rtol=rtol, atol=atol, equal_nan=True):
            bad.append(meth)
    return bad


# --------------------------------------------------------------------------------------
# step maps and finite differences


def run_steps(integ, state, n):
    for _ in range(n):
        state = integ.step(state)
    return state


def step_map(sysw: SysW, integ, n=1, dir_=1):
    """z = (pos, mom) |-> z after n real integrator steps."""
    d = sysw.dim

    def f(z):
        return zvec(run_steps(integ, sysw.state(z[:d], z[d:], dir_), n))

    return f


def fd_jacobian(step_fn, z, h=1e-4, order=2, basis=None):
    """Central-difference Jacobian of step_fn at z (columns = directions; `basis` columns if given).

    order=2: (f(z+hv)-f(z-hv))/2h;  order=4: five point stencil."""
    z = np.asarray(z, dtype=float)
    B = np.eye(z.size) if basis is None else np.asarray(basis)
    cols = []
    for k in range(B.shape[1]):
        v = B[:, k]
        if order == 2:
            cols.append((step_fn(z + h * v) - step_fn(z - h * v)) / (2 * h))
        else:
            cols.append(
                (8.0 * (step_fn(z + h * v) - step_fn(z - h * v)) - (step_fn(z + 2 * h * v) - step_fn(z - 2 * h * v)))
                / (12 * h)
            )
    return np.stack(cols, axis=1)


def omega(d):
    Z, I = np.zeros((d, d)), np.eye(d)
    return np.block([[Z, I], [-I, Z]])


# --------------------------------------------------------------------------------------
# self test of this library (derivatives of the polynomial zoo) — run by each harness once


def selfcheck(rng, n=6):
    """Finite-difference validation of the analytic derivatives supplied to mici; raises
    MachineryError on a mismatch (a bug in this library, not in mici)."""

    def fd(f, q, h=1e-5):
        cols = []
        for i in range(q.size):
            e = np.zeros(q.size)
            e[i] = h
            cols.append((np.asarray(f(q + e)) - np.asarray(f(q - e))) / (2 * h))
        return np.stack(cols, axis=-1)

    for _ in range(n):
        d = int(rng.integers(2, 5))
        q = dy(rng, (d,), 16, -1.0, 1.0)
        T = Target(random_target_spec(rng, d))
        C = Constraint(random_constraint_spec(rng, d))
        checks = [
            (fd(T.f, q), T.grad(q)), (fd(T.grad, q), T.hess(q)), (fd(T.hess, q), T.tress(q)),
            (fd(C.c, q), C.jac(q)), (fd(C.jac, q), C.hess(q)),
        ]
        for kind in ("riem_scalar", "riem_diag", "riem_dense", "riem_chol"):
            mp = riemannian_metric_poly(kind, random_riemannian_spec(rng, kind, d), d)
            checks.append((fd(mp, q), mp.jac()(q)))
        for a, b in checks:
            if not np.allclose(a, b, rtol=1e-6, atol=1e-7):
                raise common.MachineryError("integ_common.selfcheck: analytic derivative mismatch")


# --------------------------------------------------------------------------------------
# helpers shared by the harnesses


def dyadic_step(sysw: SysW, factor=0.25):
    """Largest power of two <= factor / sysw.scale()."""
    return float(2.0 ** np.floor(np.log2(factor / sysw.scale())))


def integrator_class_name(ispec):
    return {
        "leapfrog": "LeapfrogIntegrator", "symcomp": "SymmetricCompositionIntegrator",
        "bcss2": "BCSSTwoStageIntegrator", "bcss3": "BCSSThreeStageIntegrator", "bcss4": "BCSSFourStageIntegrator",
        "implicit_leapfrog": "ImplicitLeapfrogIntegrator", "implicit_midpoint": "ImplicitMidpointIntegrator",
        "constrained_leapfrog": "ConstrainedLeapfrogIntegrator",
    }[ispec["kind"]]


def describe(case):
    """Short human readable description of a case dict."""
    s, i = case.get("system", {}), case.get("integrator", {})
    bits = [s.get("kind", "?"), f"dim={s.get('dim')}", f"target={s.get('target', {}).get('kind')}"]
    if "metric" in s:
        bits.append(f"metric={s['metric']['kind']}")
    if "constr" in s:
        bits.append(f"constraint={s['constr']['kind']}")
        if "hausdorff" in s:
            bits.append(f"hausdorff={s['hausdorff']}")
    if i:
        bits.append(f"step_size={fl(i['step_size']) if i.get('step_size') is not None else None}")
        for k in ("solver", "proj", "n_inner", "initial_h1"):
            if k in i:
                bits.append(f"{k}={i[k]}")
        if "free" in i:
            bits.append(f"free={dec(i['free'])}")
    if "n" in case:
        bits.append(f"n={case['n']}")
    if "state" in case:
        bits.append(f"dir={case['state'].get('dir')}")
    return " ".join(str(b) for b in bits)


def coefficient_failures(integ, system, exact=True):
    """Palindrome / consistency conditions on a live SymmetricCompositionIntegrator.

    Returns list of (tag, message); tags: 'length', 'palindrome', 'flows', 'sum_a', 'sum_b'."""
    out = []
    co, flows = list(integ.coefficients), list(integ.flows)
    if len(co) != len(flows) or len(co) % 2 != 1:
        out.append(("length", f"len(coefficients)={len(co)}, len(flows)={len(flows)}"))
        return out
    if any(a != b for a, b in zip(co, co[::-1])):
        out.append(("palindrome", f"coefficients not palindromic: {co}"))

    def which(f):
        fn = getattr(f, "__func__", f)
        if getattr(f, "__self__", None) is system and fn is type(system).h1_flow:
            return 1
        if getattr(f, "__self__", None) is system and fn is type(system).h2_flow:
            return 2
        return 0

    tags = [which(f) for f in flows]
    first = 1 if integ.initial_h1_flow_step else 2
    want = [first if k % 2 == 0 else 3 - first for k in range(len(flows))]
    if tags != want:
        out.append(("flows", f"flows are {tags}, expected alternating {want}"))
        return out
    for tag, name in ((first, "sum_a"), (3 - first, "sum_b")):
        cs = [c for c, t in zip(co, tags) if t == tag]
        if exact:
            tot = sum((Fraction(*float(c).as_integer_ratio()) for c in cs), Fraction(0))
            ok = tot == 1
        else:
            tot = float(np.sum(cs))
            ok = abs(tot - 1.0) <= 1e-15 * max(1, len(cs))
        if not ok:
            out.append((name, f"coefficients of flow {'A' if name == 'sum_a' else 'B'} sum to {float(tot)!r} != 1: {co}"))
    return out


# free coefficients published in Blanes, Casas & Sanz-Serna (2014), eqs (6.4), (6.7), (6.8)
BCSS_FREE = {
    "bcss2": [(3 - 3**0.5) / 6],
    "bcss3": [0.11888010966548, 0.29619504261126],
    "bcss4": [0.071353913450279725904, 0.191667800000000000000, 0.268548791161230105820],
}


def expected_coefficients(free):
    """Full palindromic coefficient list (a_0, b_1, a_1, ..., b_1, a_0) of the S = len(free)+1 stage symmetric
    composition, derived independently: the a's and the b's each sum to one (exact Fractions)."""
    fr = [Fraction(*float(c).as_integer_ratio()) for c in free]
    n = len(fr)
    a, b = fr[0::2], fr[1::2]          # a_0, a_1, ... and b_1, b_2, ...
    stages = n + 1                     # number of B sub-steps S; there are S + 1 A sub-steps
    if stages % 2 == 1:                # S odd: middle element is b_{(S+1)/2}; free a's are all a_0..a_{(S-1)/2}
        a_dep = Fraction(1, 2) - sum(a) if len(a) < (stages + 1) // 2 else None
        half_a = a + ([a_dep] if a_dep is not None else [])
        b_mid = 1 - 2 * sum(b)
        half = []
        for k in range(len(half_a)):
            half.append(half_a[k])
            if k < len(b):
                half.append(b[k])
        full = half + [b_mid] + half[::-1]
    else:                              # S even: middle element is a_{S/2}
        b_dep = Fraction(1, 2) - sum(b)
        half_b = b + [b_dep]
        a_mid = 1 - 2 * sum(a)
        half = []
        for k in range(len(half_b)):
            half.append(a[k])
            half.append(half_b[k])
        full = half + [a_mid] + half[::-1]
    return [float(c) for c in full], full
