"""C16 — adaptation confined to warm-up; stages partition the iterations exactly.

Model: lean/MiciVerif/Model/Stagers.lean, theorems lean/MiciVerif/Props/C16.lean.
Tie: (X) exhaustive comparison of the real stagers' stage tables with the model's for all
n_warm in a range x window settings x multipliers; real sampler runs with recording
adapters compared with the model's list of stages that adapt.
Direct oracle (search): the property statement itself on the real stage tables and on
per-iteration parameters recorded in real runs.
"""
from __future__ import annotations

import signal
from fractions import Fraction

import numpy as np

from . import common

PROP = "C16"
LEAN_MODULES = ["MiciVerif.Props.C16", "MiciVerif.Props.C16S"]
# Generated/StagersSrc.lean: stagers.py translated to Lean on every run; Props/C16S.lean proves
# generated = model (src_*_eq_model, src_init_validates) and transports the C16 theorems
GENERATED = ["pysrc"]
LEAN_EXTRA = ["MiciVerif.Model.Stagers", "MiciVerif.Proto"]
# (B5) stage loop of sample_chains: Generated/SamplerSkeleton.lean vs Model/SamplerSkeleton.lean, Props/C16K.lean
LEAN_MODULES, GENERATED = [*LEAN_MODULES, "MiciVerif.Props.C16K"], [*GENERATED, "sampler_skeleton"]


class _Timeout(Exception):
    pass


def _with_timeout(fn, secs=5.0):
    def handler(signum, frame):  # noqa: ARG001
        raise _Timeout

    old = signal.signal(signal.SIGALRM, handler)
    signal.setitimer(signal.ITIMER_REAL, secs)
    try:
        return fn()
    finally:
        signal.setitimer(signal.ITIMER_REAL, 0)
        signal.signal(signal.SIGALRM, old)


class _A:
    def __init__(self, fast):
        self.is_fast = fast


def impl_stages(kind, cfg, n_warm, n_main, trace_warm):
    """Stage table of the real stager, canonicalised to the model's output format."""
    import mici

    fast, slow = _A(True), _A(False)
    adapters = {"t": [fast, slow]}
    tf = [lambda s: {}]
    if kind == "win":
        a, b, c, m = cfg
        stager = mici.stagers.WindowedWarmUpStager(a, b, c, float(m))
    else:
        stager = mici.stagers.WarmUpStager()
    stages = _with_timeout(
        lambda: stager.stages(n_warm, n_main, adapters, tf, trace_warm_up=trace_warm)
    )
    out = []
    for name, st in stages.items():
        if st.adapters is None:
            k = "main"
        else:
            lst = list(st.adapters["t"])
            k = "slow" if slow in lst else "fast"
            if fast not in lst:
                k = "nofast"
        out.append((int(st.n_iter), k, st.trace_funcs is not None, bool(st.record_stats), name))
    return out


def fmt(stages):
    return ",".join(f"{n}:{k}:{int(t)}:{int(s)}" for n, k, t, s, _ in stages)


def oracle_stage_table(stages, n_warm, n_main, trace_warm, kind):
    """The property statement on one real stage table. Returns list of failure strings."""
    bad = []
    warm = [s for s in stages if s[1] != "main"]
    if sum(s[0] for s in warm) != n_warm:
        bad.append(f"warm-up stage lengths sum to {sum(s[0] for s in warm)} != {n_warm}")
    mains = [s for s in stages if s[1] == "main"]
    if n_main > 0:
        if not stages or stages[-1][1] != "main" or stages[-1][0] != n_main or len(mains) != 1:
            bad.append("final stage is not the single main stage of the requested length")
        elif not (stages[-1][2] and stages[-1][3]):
            bad.append("main stage not traced/recorded")
    elif mains:
        bad.append("main stage present although n_main == 0")
    for n, k, t, s, name in warm:
        if k == "nofast":
            bad.append(f"fast adapter inactive in warm-up stage {name}")
        if k == "slow" and kind == "win" and not name.startswith("Slow adaptive"):
            bad.append(f"slow adapter active outside slow windows: {name}")
        if (t, s) != (trace_warm, trace_warm):
            bad.append(f"warm-up stage {name} trace/stat flags {t},{s} != trace_warm_up={trace_warm}")
    return bad


# ---------------------------------------------------------------------------------------
# real sampler runs with recording adapters


def real_run(stager_kind, cfg, n_warm, n_main, n_chain, seed):
    """Run the real sampler with a recording transition/adapters.

    Returns (events, params_per_iteration_main, params_after_finalize_log).
    """
    import mici
    from mici.transitions import Transition

    log = []

    class T(Transition):
        state_variables = {"pos"}

        def __init__(self):
            self.param = ("init",)

        @property
        def statistic_types(self):
            return {"tok": (np.int64, -1)}

        def sample(self, state, rng):
            state.pos = state.pos + 1
            tr.used.append(self.param)
            return state, {"tok": 0}

    class Rec(mici.adapters.Adapter):
        def __init__(self, fast, tag):
            self._fast = fast
            self.tag = tag

        @property
        def is_fast(self):
            return self._fast

        def initialize(self, chain_state, transition):
            log.append(("init", self.tag))
            transition.param = ("initialized", self.tag, len(log))
            return {"n": 0}

        def update(self, adapt_state, chain_state, trans_stats, transition):
            adapt_state["n"] += 1
            log.append(("upd", self.tag))
            transition.param = ("updated", self.tag, len(log))

        def finalize(self, adapt_states, chain_states, transition, rngs):
            ns = [a["n"] for a in adapt_states] if not isinstance(adapt_states, dict) else [adapt_states["n"]]
            log.append(("fin", self.tag, tuple(ns)))
            transition.param = ("finalized", self.tag, len(log))

    tr = T()
    tr.used = []
    sampler = mici.samplers.MarkovChainMonteCarloMethod(np.random.default_rng(seed), {"t": tr})
    if stager_kind == "win":
        a, b, c, m = cfg
        stager = mici.stagers.WindowedWarmUpStager(a, b, c, float(m))
    else:
        stager = mici.stagers.WarmUpStager()
    init = [{"pos": np.zeros(1)} for _ in range(n_chain)]
    _with_timeout(
        lambda: sampler.sample_chains(
            n_warm, n_main, init, adapters={"t": [Rec(True, "F"), Rec(False, "S")]}, stager=stager,
            display_progress=False, n_process=1,
        ),
        60,
    )
    return log, tr.used, tr.param


def expected_events(adapting, n_chain):
    """From the model's list of adapting stages ('kind:n') the adapter event log of a sequential run."""
    ev = []
    for item in adapting:
        k, n = item.split(":")
        n = int(n)
        tags = ["F", "S"] if k == "slow" else ["F"]
        for _c in range(n_chain):
            ev += [("init", t) for t in tags]
            ev += [("upd", t) for _ in range(n) for t in tags]
        ev += [("fin", t, tuple([n] * n_chain)) for t in tags]
    return ev


def run(ctx: common.Ctx):
    from .c20 import _n, src_obligation_status

    rng = common.rng_for(ctx)
    # a broken src_* obligation (stagers.py no longer translates to the model) escalates the
    # stage-table search (tripled budgets) plus targeted boundary / invalid settings
    src_broken = src_obligation_status(ctx, "MiciVerif.Props.C16S")
    ctx.rule = (
        "stage tables: exhaustive over n_warm range x window configs x dyadic multipliers x n_main in {0,7} "
        "x trace_warm_up; non-trivial = table with >= 2 slow windows or a zero-length stage. "
        "real runs: sampler with recording adapters; non-trivial = run containing an adapting stage "
        "and a zero-length or main stage"
    )
    ctx.assumptions += [
        "int(0.15*n) and int(0.1*n) equal floor(15n/100), floor(n/10) (validated on the explored range)",
        "slow_window_multiplier values explored are dyadic so float products are exact",
    ]
    configs = [(25, 75, 50), (1, 0, 0), (3, 2, 1), (10, 5, 5), (100, 150, 50), (7, 0, 3)]
    mults = [Fraction(2), Fraction(1), Fraction(3, 2), Fraction(5, 2), Fraction(3)]
    n_max = _n(ctx, 700, 3000)
    reqs, metas = [], []
    for (a, b, c) in configs:
        for m in mults:
            for n_warm in range(0, n_max + 1):
                for n_main in (0, 7):
                    t = (n_warm + n_main) % 2 == 1
                    reqs.append(f"win {a} {b} {c} {m.numerator}/{m.denominator} {n_warm} {n_main} {int(t)}")
                    metas.append(("win", (a, b, c, m), n_warm, n_main, t))
    for n_warm in range(0, 60):
        for n_main in (0, 1, 9):
            for t in (False, True):
                reqs.append(f"warm {n_warm} {n_main} {int(t)}")
                metas.append(("warm", None, n_warm, n_main, t))
    # random large values
    for _ in range(_n(ctx, 200, 2000)):
        a, b, c = (int(x) for x in rng.integers(1, 400, 3))
        b -= 1
        c -= 1
        m = mults[int(rng.integers(len(mults)))]
        n_warm = int(rng.integers(0, 200000))
        reqs.append(f"win {a} {b} {c} {m.numerator}/{m.denominator} {n_warm} 5 0")
        metas.append(("win", (a, b, c, m), n_warm, 5, False))
    if src_broken:
        # targeted: the switch between the settings and the fallback sizes, tiny warm-up counts
        for _ in range(1500):
            a, b, c = (int(x) for x in rng.integers(1, 60, 3))
            b -= 1
            c -= 1
            m = mults[int(rng.integers(len(mults)))]
            for n_warm in {max(0, a + b + c + d) for d in (-2, -1, 0, 1, 2)} | {int(rng.integers(0, 40))}:
                reqs.append(f"win {a} {b} {c} {m.numerator}/{m.denominator} {n_warm} 3 1")
                metas.append(("win", (a, b, c, m), n_warm, 3, True))
    model = common.run_driver("C16", reqs)
    adapting_of = {}
    for req, meta, mline in zip(reqs, metas, model, strict=True):
        kind, cfg, n_warm, n_main, t = meta
        mtab, _, madapt = mline.partition(" | ")
        adapting_of[req] = [x for x in madapt.split(",") if x]
        try:
            st = impl_stages(kind, cfg, n_warm, n_main, t)
        except _Timeout:
            ctx.violation(
                f"{kind}-stager stages() did not return",
                f"stages() did not return within 5 s for {req}",
                {"request": req},
            )
            continue
        except Exception as e:  # noqa: BLE001
            ctx.disagreement(f"impl raised {type(e).__name__}: {e}", {"request": req})
            continue
        itab = fmt(st)
        nslow = sum(1 for s in st if s[1] == "slow")
        ctx.case(req, nontrivial=nslow >= 2 or any(s[0] == 0 for s in st))
        ctx.count(f"{kind}:slow_windows={min(nslow, 6)}")
        if any(s[0] == 0 for s in st):
            ctx.count("zero_length_stage")
        if itab != mtab:
            ctx.disagreement(f"stage table differs: impl {itab} model {mtab}", {"request": req})
        for b in oracle_stage_table(st, n_warm, n_main, t, kind):
            ctx.violation(f"{kind}-stager stage table: {b.split(' ')[0]}", f"{req}: {b}", {"request": req, "impl_table": itab})
    # rejected settings must be rejected (termination precondition), not hang
    import mici

    bad_settings = [(0, 75, 50, 2.0), (25, 75, 50, 0.5)]
    if src_broken:
        bad_settings += [(-3, 75, 50, 2.0), (25, 75, 50, 0.0), (25, 75, 50, 0.999), (0, 0, 0, 1.0), (1, 0, 0, -2.0)]
    for bad in bad_settings:
        try:
            stg = _with_timeout(lambda b=bad: mici.stagers.WindowedWarmUpStager(*b))
            try:
                _with_timeout(lambda s=stg: s.stages(1000, 10, {"t": []}, None), 3)
                ctx.count("invalid_setting_accepted_but_terminates")
            except _Timeout:
                ctx.violation(
                    "WindowedWarmUpStager window<1 or multiplier<1",
                    f"stages() never returns for settings {bad}",
                    {"settings": list(bad)},
                )
        except ValueError:
            ctx.count("invalid_setting_rejected")
        except _Timeout:
            ctx.violation(
                "WindowedWarmUpStager window<1 or multiplier<1",
                f"constructor never returns for settings {bad}",
                {"settings": list(bad)},
            )
        except Exception as e:  # noqa: BLE001
            # an inadmissible setting was accepted and the window loop fails in an uncontrolled way
            ctx.violation(
                "WindowedWarmUpStager window<1 or multiplier<1",
                f"settings {bad} are accepted and stages() raises {type(e).__name__}: {e}",
                {"settings": list(bad)},
            )
    # ---- real runs -------------------------------------------------------------------
    runs = []
    for _ in range(ctx.n(40, 400)):
        kind = "win" if rng.random() < 0.8 else "warm"
        cfg = configs[int(rng.integers(len(configs)))] if rng.random() < 0.5 else (
            int(rng.integers(1, 6)), int(rng.integers(0, 6)), int(rng.integers(0, 6)))
        m = mults[int(rng.integers(len(mults)))]
        n_warm = int(rng.choice([0, 1, 2, 3, 5, 6, 8, 13, 20, 37]))
        n_main = int(rng.choice([0, 1, 4]))
        n_chain = int(rng.integers(1, 4))
        runs.append((kind, (*cfg, m), n_warm, n_main, n_chain))
    rreqs = [
        (f"win {c[0]} {c[1]} {c[2]} {c[3].numerator}/{c[3].denominator} {nw} {nm} 0" if k == "win" else f"warm {nw} {nm} 0")
        for k, c, nw, nm, _ in runs
    ]
    rmodel = common.run_driver("C16", rreqs)
    for (k, c, nw, nm, nc), req, mline in zip(runs, rreqs, rmodel, strict=True):
        adapting = [x for x in mline.partition(" | ")[2].split(",") if x]
        case = {"run": req, "n_chain": nc}
        try:
            log, used, _final = real_run(k, c if k == "win" else None, nw, nm, nc, ctx.seed)
        except _Timeout:
            ctx.violation("sample_chains did not return", f"real run hung: {case}", case)
            continue
        except Exception as e:  # noqa: BLE001
            ctx.disagreement(f"real run raised {type(e).__name__}: {e}", case)
            continue
        ctx.case(case, nontrivial=bool(adapting) and (nm > 0 or "0:" in mline))
        ctx.count("real_run")
        exp = expected_events(adapting, nc)
        if log != exp:
            ctx.disagreement(
                f"adapter event log differs from model for {case}: impl has {len(log)} events, model {len(exp)}",
                {**case, "impl_head": log[:12], "model_head": exp[:12]},
            )
        # direct oracle: parameters during the main stage
        n_main_calls = nm * nc
        main_used = used[len(used) - n_main_calls:] if n_main_calls else []
        if main_used:
            if len(set(main_used)) != 1:
                ctx.violation("main stage parameter changes", f"transition parameter changed during main stage: {case}", case)
            fins = [i for i, e in enumerate(log) if e[0] == "fin" and any(x > 0 for x in e[2])]
            want = ("finalized", log[fins[-1]][1], fins[-1] + 1) if fins else ("init",)
            if main_used[0] != want:
                ctx.violation(
                    "main stage parameter not from last updating stage",
                    f"main stage used {main_used[0]}, expected {want} (value finalized by last stage with >=1 update): {case}",
                    {**case, "used": str(main_used[0]), "expected": str(want)},
                )
        # adapters must not be touched by a stage without iterations
        for e in log:
            if e[0] == "fin" and all(x == 0 for x in e[2]):
                ctx.violation("zero-iteration adaptive stage", f"adapter finalized after a stage without updates: {case}", case)
                break
    # ---- real HMC with the real dual averaging adapter: step size in main stage ---------
    real_hmc(ctx, rng)


def real_hmc(ctx, rng):
    import mici

    fin_log = []

    class DA(mici.adapters.DualAveragingStepSizeAdapter):
        def update(self, adapt_state, chain_state, trans_stats, transition):
            super().update(adapt_state, chain_state, trans_stats, transition)
            adapt_state["_n"] = adapt_state.get("_n", 0) + 1

        def finalize(self, adapt_states, chain_states, transition, rngs):
            super().finalize(adapt_states, chain_states, transition, rngs)
            sts = [adapt_states] if isinstance(adapt_states, dict) else list(adapt_states)
            fin_log.append((sum(a.get("_n", 0) for a in sts), float(transition.integrator.step_size)))

    for _ in range(ctx.n(10, 60)):
        n_warm = int(rng.choice([1, 2, 5, 6, 9, 14, 30]))
        n_main = int(rng.integers(1, 5))
        n_chain = int(rng.integers(1, 3))
        fin_log.clear()
        system = mici.systems.EuclideanMetricSystem(
            neg_log_dens=lambda q: 0.5 * float(q @ q), grad_neg_log_dens=lambda q: q
        )
        integ = mici.integrators.LeapfrogIntegrator(system, step_size=0.123)
        sampler = mici.samplers.StaticMetropolisHMC(system, integ, np.random.default_rng(ctx.seed), n_step=2)
        case = {"hmc": [n_warm, n_main, n_chain]}
        try:
            out = _with_timeout(
                lambda: sampler.sample_chains(
                    n_warm, n_main, [np.ones(2) * (i + 1) for i in range(n_chain)],
                    adapters=[DA(), mici.adapters.OnlineVarianceMetricAdapter()], display_progress=False,
                ),
                120,
            )
        except mici.errors.AdaptationError as e:
            # documented outcome (C17 `finalize_error_iff`): a slow window that ends with fewer than
            # two position samples over all chains cannot estimate a variance
            probe = mici.adapters.OnlineVarianceMetricAdapter()
            stages = mici.stagers.WindowedWarmUpStager().stages(n_warm, n_main, {"t": [probe]}, None)
            too_few = any(
                st.adapters and any(a is probe for a in st.adapters.get("t", [])) and 0 < st.n_iter * n_chain < 2
                for st in stages.values()
            )
            if too_few and "At least two chain samples" in str(e):
                ctx.case(case, nontrivial=False)
                ctx.count("real_hmc_too_few_samples_error")
            else:
                ctx.disagreement(f"HMC run raised {type(e).__name__}: {e}", case)
            continue
        except Exception as e:  # noqa: BLE001
            ctx.disagreement(f"HMC run raised {type(e).__name__}: {e}", case)
            continue
        ctx.case(case)
        ctx.count("real_hmc_run")
        ss = np.array(out.statistics["step_size"])
        updating = [s for n, s in fin_log if n > 0]
        want = updating[-1] if updating else 0.123
        if not np.all(ss == ss.flat[0]):
            ctx.violation("main stage parameter changes", f"step_size varies in main stage: {case}", case)
        elif float(ss.flat[0]) != want:
            ctx.violation(
                "main stage parameter not from last updating stage",
                f"main-stage step_size {float(ss.flat[0])} != {want} finalized by last stage with updates: {case}",
                {**case, "got": float(ss.flat[0]), "want": want},
            )


def replay(ctx, obj):
    if "request" in obj:
        parts = obj["request"].split()
        if parts[0] == "win":
            a, b, c = (int(x) for x in parts[1:4])
            m = common.parse_frac(parts[4])
            n_warm, n_main, t = int(parts[5]), int(parts[6]), parts[7] == "1"
            try:
                st = impl_stages("win", (a, b, c, m), n_warm, n_main, t)
            except _Timeout:
                return True
            return bool(oracle_stage_table(st, n_warm, n_main, t, "win"))
        n_warm, n_main, t = int(parts[1]), int(parts[2]), parts[3] == "1"
        st = impl_stages("warm", None, n_warm, n_main, t)
        return bool(oracle_stage_table(st, n_warm, n_main, t, "warm"))
    if "settings" in obj:
        import mici

        try:
            stg = mici.stagers.WindowedWarmUpStager(*obj["settings"])
            _with_timeout(lambda: stg.stages(1000, 10, {"t": []}, None), 3)
        except _Timeout:
            return True
        except ValueError:
            return False
        except Exception:  # noqa: BLE001
            return True
        return False
    # real-run replays: re-run the whole check section
    sub = common.Ctx(ctx.prop, ctx.tier, ctx.seed)
    run(sub)
    return any(v["signature"] == obj.get("signature") for v in sub.violations)

LEVEL_TEXT = (
    "Lean 4 proof for the model of both stagers and of the sampler's stage loop: for every warm-up/main count, "
    "every admissible window configuration (1 <= initial window, 1 <= multiplier, any rational multiplier) the "
    "warm-up stage lengths sum exactly to n_warm (windows_sum, windowed_warm_sum, warmUp_warm_sum), the final stage "
    "is the single main stage (…_main_last), slow adapters only in the windows between the two fast stages "
    "(windowed_shape), main stages and empty stages change no parameter and the main stage runs with the values "
    "finalized by the last stage with >= 1 iteration (params_from_updating_stages, main_uses_warmup_result). "
    "The model is tied to the code by exhaustive comparison of stage tables (n_warm 0..700/3000 x 6 configs x 5 "
    "multipliers) and by real sampler runs with recording adapters."
)
LEVEL_NOTE = (
    "Trusted: Lean kernel, axioms {propext, Classical.choice, Quot.sound}; int(0.15 n), int(0.1 n) modelled as exact "
    "floors and validated on the explored range (the sum theorem holds for any fractions with f15+f10 <= n); float "
    "multipliers explored are dyadic; adapters are abstract (any initialize/update/finalize); the correspondence "
    "harness. Not modelled: progress bars, multiprocess execution of a stage (C14)."
)
TECHNIQUE = "Lean 4 theorems (induction over the window loop and the stage list) + exhaustive model/implementation stage-table comparison"

# --- source translator tie (tools/extractors/pysrc.py, Props/C16S.lean) ---
LEVEL_TEXT += (
    " SOURCE TIE (Props/C16S.lean): on every run tools/extractors/pysrc.py translates WarmUpStager.stages, WindowedWarmUpStager.__init__ (validation) and WindowedWarmUpStager.stages (the three sizes incl. int(0.15 n), int(0.1 n), the while loop as a fuel-recursive function, order / lengths / kinds / trace and statistics flags of the emitted stages) into Lean over Nat/Rat; src_warmUp_stages_eq_model, src_windows_eq_model (induction over the fuel), src_init_eq_model, src_windowed_stages_eq_model prove generated = model; src_init_validates shows every stager accepted by __init__ satisfies the termination preconditions; src_windows_sum, src_windows_growing, src_windows_ratio (the slow windows grow: all but the last, remainder-absorbing, window are non-decreasing, at least the initial size, and each is int(multiplier * previous)), src_windowed_warm_sum, src_warmUp_warm_sum, src_main_last, src_windowed_shape restate the stager theorems for the generated definitions. The sampler's stage loop (samplers.py) is not translated."
)
LEVEL_NOTE += (
    ' Translator conventions (trusted, validated by the stage-table correspondence): Python ints are Nat (truncated subtraction), float settings Rat, decimal float literals the rationals they denote (0.15 = 3/20), int() = floor, the stage dictionary = list of its values in insertion order (labels checked pairwise different), adapters= abstracted to fast/slow/main after checking the defining comprehension of fast_adapters, fuel of the loop = bound + 1. A broken src_* obligation escalates the stage-table search (tripled range, boundary configurations, more invalid settings).'
)
TECHNIQUE += ' + source-to-Lean translation of stagers.py with generated = model equalities re-proved on every run'
