"""C10 — structured matrix expressions agree with dense linear algebra.

Model: lean/MiciVerif/Model/Matrices.lean (`MExpr`: one constructor per matrix class, `denote`,
`T`, `inv`, `smul`, `leftMul`, `rightMul`, `diagonal`, `sdet`, `cls`), theorems
lean/MiciVerif/Props/C10.lean (structural induction over `MExpr`, unbounded depth; Woodbury /
determinant lemma / Ambikasaran square root with sign).

Tie (X): random expression trees over all classes and constructor options are built three times
from one JSON-able spec: as real mici objects, as a Lean `MExpr` (through Driver/C10.lean, exact
rationals, Gauss-Jordan inverses that are *decided* correct before use) and as a dense NumPy
computation.  Every observable is compared impl vs dense (direct oracle -> violation) and impl vs
model (correspondence -> disagreement).  A second family of trees (irrational data: float
orthogonal matrices, SoftAbs, dense product matrices, arbitrary scalars, inverse-triangular dense
factors) is compared against dense NumPy only.
"""
from __future__ import annotations

import math
import signal
import warnings
from fractions import Fraction

import numpy as np
import scipy.linalg as sla

from . import common

PROP = "C10"
LEAN_MODULES = ["MiciVerif.Props.C10", "MiciVerif.Props.C10S"]
GENERATED = ["matrix_ops"]
LEAN_EXTRA = [
    "MiciVerif.Model.Matrices",
    "MiciVerif.Model.MatricesEval",
    "MiciVerif.Lemmas.MatricesBlock",
    "MiciVerif.Lemmas.MatricesTri",
    "MiciVerif.Lemmas.MatricesLowRank",
    "MiciVerif.Lemmas.MatricesExprA",
    "MiciVerif.Lemmas.MatricesExprB",
    "MiciVerif.Lemmas.MatricesExprC",
    "MiciVerif.Lemmas.MatricesExprD",
    "MiciVerif.Proto",
]

RTOL = 1e-8
COND_NODE = 2e3  # every generated square node is at most this ill-conditioned
COND_ROOT = 1e5


class _Timeout(Exception):
    pass


def _with_timeout(fn, secs=20.0):
    def handler(signum, frame):  # noqa: ARG001
        raise _Timeout

    old = signal.signal(signal.SIGALRM, handler)
    signal.setitimer(signal.ITIMER_REAL, secs)
    try:
        return fn()
    finally:
        signal.setitimer(signal.ITIMER_REAL, 0)
        signal.signal(signal.SIGALRM, old)


def mm():
    import mici.matrices as m

    return m


# ---------------------------------------------------------------------------------------
# random parameters (dyadic, well conditioned)


def dy(rng, lo=-8, hi=8, den=4):
    """Dyadic number k/den, k in [lo, hi]."""
    return float(int(rng.integers(lo, hi + 1))) / den


def dy_nz(rng, lo=2, hi=12, den=4, signed=True):
    v = float(int(rng.integers(lo, hi + 1))) / den
    if signed and rng.random() < 0.5:
        v = -v
    return v


def rand_tri(rng, n, lower, pos_diag=False):
    """Well-conditioned triangular matrix with dyadic entries."""
    a = np.zeros((n, n))
    for i in range(n):
        for j in range(n):
            if i == j:
                a[i, j] = dy_nz(rng, 4, 10, 4, signed=not pos_diag)
            elif (j < i) == lower:
                a[i, j] = dy(rng, -3, 3, 8)
    return a


def rand_rect(rng, m, n, scale=4):
    return np.array([[dy(rng, -4, 4, scale) for _ in range(n)] for _ in range(m)]).reshape(m, n)


def rand_dense_sq(rng, n):
    """Diagonally dominant dyadic matrix."""
    a = rand_rect(rng, n, n, 8)
    for i in range(n):
        a[i, i] = dy_nz(rng, 8, 14, 4)
    return a


def rand_orth_exact(rng, n):
    """Exactly orthogonal matrix with dyadic entries: signed permutation, with a 4x4 Hadamard/2
    block mixed in when n >= 4."""
    q = np.zeros((n, n))
    perm = rng.permutation(n)
    for i in range(n):
        q[i, perm[i]] = 1.0 if rng.random() < 0.5 else -1.0
    if n >= 4 and rng.random() < 0.7:
        h = 0.5 * np.array([[1, 1, 1, 1], [1, -1, 1, -1], [1, 1, -1, -1], [1, -1, -1, 1]], dtype=float)
        b = np.eye(n)
        idx = rng.permutation(n)[:4]
        b[np.ix_(idx, idx)] = h
        q = q @ b
    return q


def rand_orth_float(rng, n):
    q, r = np.linalg.qr(rng.standard_normal((n, n)))
    return q * np.sign(np.diag(r))


def L(a):
    return np.asarray(a, dtype=float).tolist()


def A(x):
    return np.array(x, dtype=float)


# ---------------------------------------------------------------------------------------
# spec -> dense reference / mici object / Lean tokens


def dense(sp):
    k = sp[0]
    if k == "I":
        return np.eye(sp[1])
    if k == "SI":
        return sp[3] * np.eye(sp[1])
    if k == "DG":
        return np.diag(A(sp[2]))
    if k == "TR":  # inverse, lower, array, make_tri
        a = A(sp[3])
        a = np.tril(a) if sp[2] else np.triu(a)
        return np.linalg.inv(a) if sp[1] else a
    if k == "TF":  # pd, sign, fkind, lower, array
        a = A(sp[5])
        a = np.tril(a) if sp[4] else np.triu(a)
        f = np.linalg.inv(a) if sp[3] == "invtri" else a
        return sp[2] * (f @ f.T)
    if k == "DD":  # pd, sign, array, fkind, lower, F
        return A(sp[3])
    if k == "LU":
        return A(sp[1])
    if k == "ILU":
        return np.linalg.inv(A(sp[1]))
    if k == "DS":
        return A(sp[1])
    if k == "OR":
        return A(sp[1])
    if k == "SO":
        return sp[1] * A(sp[2])
    if k == "ES":
        q = A(sp[2])
        return q @ np.diag(A(sp[3])) @ q.T
    if k == "SA":  # softabs: array, coeff
        ev, q = np.linalg.eigh(A(sp[1]))
        with np.errstate(all="ignore"):  # x coth(c x) -> 1/c as x -> 0 (removable singularity)
            f = np.where(np.abs(ev * sp[2]) < 1e-8, 1.0 / sp[2], ev / np.tanh(ev * sp[2]))
        return q @ np.diag(f) @ q.T
    if k == "PP":  # dense pd product: R, P|None
        r = dense(sp[1]) if isinstance(sp[1][0], str) else A(sp[1])
        p = np.eye(r.shape[1]) if sp[2] is None else dense(sp[2])
        return r @ p @ r.T
    if k == "RE":
        return A(sp[1])
    if k == "BD":
        return sla.block_diag(*[dense(c) for c in sp[2]])
    if k == "BR":
        return np.concatenate([dense(c) for c in sp[1]], axis=1)
    if k == "BC":
        return np.concatenate([dense(c) for c in sp[1]], axis=0)
    if k == "MM":
        return dense(sp[1]) @ dense(sp[2])
    if k == "PR":
        out = dense(sp[1][0])
        for c in sp[1][1:]:
            out = out @ dense(c)
        return out
    if k == "LR":  # kind, sign, U, V, S, K, cap
        u = dense(sp[3])
        v = u.T if sp[4] is None else dense(sp[4])
        s = dense(sp[5])
        kk = np.eye(u.shape[1]) if sp[6] is None else dense(sp[6])
        return s + sp[2] * (u @ kk @ v)
    if k == "T":
        return dense(sp[1]).T
    if k == "INV":
        return np.linalg.inv(dense(sp[1]))
    if k == "SM":  # sg, r, form, x
        return sp[1] * sp[2] * sp[2] * dense(sp[4])
    if k == "SC":  # arbitrary scalar (dense-only): c, form, x
        return sp[1] * dense(sp[3])
    raise ValueError(k)


def build(sp):
    M = mm()
    k = sp[0]
    if k == "I":
        return M.IdentityMatrix(sp[1])
    if k == "SI":
        return (M.PositiveScaledIdentityMatrix if sp[2] else M.ScaledIdentityMatrix)(sp[3], sp[1])
    if k == "DG":
        return (M.PositiveDiagonalMatrix if sp[1] else M.DiagonalMatrix)(A(sp[2]))
    if k == "TR":
        cls = M.InverseTriangularMatrix if sp[1] else M.TriangularMatrix
        a = A(sp[3])
        if sp[4]:
            return cls(a, lower=bool(sp[2]))
        a = np.tril(a) if sp[2] else np.triu(a)
        return cls(a, lower=bool(sp[2]), make_triangular=False)
    if k == "TF":
        a = A(sp[5])
        lower = bool(sp[4])
        if sp[3] == "arr":
            fac = a
        elif sp[3] == "tri":
            fac = M.TriangularMatrix(a, lower=lower)
        else:
            fac = M.InverseTriangularMatrix(a, lower=lower)
        if sp[1]:
            if sp[3] == "arr":
                return M.TriangularFactoredPositiveDefiniteMatrix(fac, factor_is_lower=lower)
            return M.TriangularFactoredPositiveDefiniteMatrix(fac)
        if sp[3] == "arr":
            return M.TriangularFactoredDefiniteMatrix(fac, sign=sp[2], factor_is_lower=lower)
        return M.TriangularFactoredDefiniteMatrix(fac, sign=sp[2])
    if k == "DD":
        a = A(sp[3])
        fac = None
        if sp[4] == "tri":
            fac = M.TriangularMatrix(A(sp[6]), lower=bool(sp[5]))
        elif sp[4] == "invtri":
            fac = M.InverseTriangularMatrix(A(sp[6]), lower=bool(sp[5]))
        if sp[1]:
            return M.DensePositiveDefiniteMatrix(a, fac)
        return M.DenseDefiniteMatrix(a, fac, is_posdef=(sp[2] == 1))
    if k == "LU":
        a = A(sp[1])
        if sp[2] == "lu":
            return M.DenseSquareMatrix(a, sla.lu_factor(a), False)
        if sp[2] == "luT":
            return M.DenseSquareMatrix(a, sla.lu_factor(a.T), True)
        return M.DenseSquareMatrix(a)
    if k == "ILU":
        a = A(sp[1])
        if sp[2]:
            return M.InverseLUFactoredSquareMatrix(a, sla.lu_factor(a.T), inv_lu_transposed=True)
        return M.InverseLUFactoredSquareMatrix(a, sla.lu_factor(a), inv_lu_transposed=False)
    if k == "DS":
        a = A(sp[1])
        if sp[4] == "none":
            return M.DenseSymmetricMatrix(a)
        q = A(sp[2])
        return M.DenseSymmetricMatrix(a, q if sp[4] == "arr" else M.OrthogonalMatrix(q), A(sp[3]))
    if k == "OR":
        return M.OrthogonalMatrix(A(sp[1]))
    if k == "SO":
        return M.ScaledOrthogonalMatrix(sp[1], A(sp[2]))
    if k == "ES":
        q = A(sp[2])
        qq = q if sp[4] == "arr" else M.OrthogonalMatrix(q)
        cls = M.EigendecomposedPositiveDefiniteMatrix if sp[1] else M.EigendecomposedSymmetricMatrix
        return cls(qq, A(sp[3]))
    if k == "SA":
        return M.SoftAbsRegularizedPositiveDefiniteMatrix(A(sp[1]), sp[2])
    if k == "PP":
        r = build(sp[1]) if isinstance(sp[1][0], str) else A(sp[1])
        return M.DensePositiveDefiniteProductMatrix(r, None if sp[2] is None else build(sp[2]))
    if k == "RE":
        return M.DenseRectangularMatrix(A(sp[1]))
    if k == "BD":
        cls = {"sq": M.SquareBlockDiagonalMatrix, "sym": M.SymmetricBlockDiagonalMatrix,
               "pd": M.PositiveDefiniteBlockDiagonalMatrix}[sp[1]]
        return cls([build(c) for c in sp[2]])
    if k == "BR":
        return M.BlockRowMatrix([build(c) for c in sp[1]])
    if k == "BC":
        return M.BlockColumnMatrix([build(c) for c in sp[1]])
    if k == "MM":
        return build(sp[1]) @ build(sp[2])
    if k == "PR":
        cls = {"plain": M.MatrixProduct, "sq": M.SquareMatrixProduct, "inv": M.InvertibleMatrixProduct}[sp[2]]
        return cls([build(c) for c in sp[1]])
    if k == "LR":
        u = build(sp[3])
        s = build(sp[5])
        kk = None if sp[6] is None else build(sp[6])
        cap = None
        if sp[7]:
            ud = dense(sp[3])
            vd = ud.T if sp[4] is None else dense(sp[4])
            kd = np.eye(ud.shape[1]) if sp[6] is None else dense(sp[6])
            c = np.linalg.inv(kd) + sp[2] * (vd @ np.linalg.inv(dense(sp[5])) @ ud)
            cap = {"sq": M.DenseSquareMatrix, "sym": M.DenseSymmetricMatrix,
                   "pd": M.DensePositiveDefiniteMatrix}[sp[1]](c)
        if sp[1] == "sq":
            return M.SquareLowRankUpdateMatrix(u, build(sp[4]), s, kk, cap, sp[2])
        cls = M.SymmetricLowRankUpdateMatrix if sp[1] == "sym" else M.PositiveDefiniteLowRankUpdateMatrix
        return cls(u, s, kk, cap, sp[2])
    if k == "T":
        return build(sp[1]).T
    if k == "INV":
        return build(sp[1]).inv
    if k in ("SM", "SC"):
        if k == "SM":
            c, form, x = sp[1] * sp[2] * sp[2], sp[3], build(sp[4])
        else:
            c, form, x = sp[1], sp[2], build(sp[3])
        if form == "mul":
            return x * c
        if form == "rmul":
            return c * x
        if form == "div":
            return x / (1.0 / c)
        if form == "neg":
            assert c == -1.0
            return -x
        if form == "np":
            return np.float64(c) * x
    raise ValueError(k)


def lm(a):
    return "[" + ",".join(common.vstr(r) for r in np.atleast_2d(A(a))) + "]"


def lean(sp):
    """Prefix-notation tokens for Driver/C10.lean; None if the spec has no exact model."""
    k = sp[0]
    b = lambda x: "1" if x else "0"  # noqa: E731
    sg = lambda s: "+" if s > 0 else "-"  # noqa: E731
    if k == "I":
        return f"I {sp[1]}"
    if k == "SI":
        return f"SI {sp[1]} {b(sp[2])} {common.fstr(sp[3])}"
    if k == "DG":
        return f"DG {b(sp[1])} {common.vstr(sp[2])}"
    if k == "TR":
        a = A(sp[3])
        a = np.tril(a) if sp[2] else np.triu(a)
        return f"TR {b(sp[1])} {b(sp[2])} {lm(a)}"
    if k == "TF":
        a = A(sp[5])
        a = np.tril(a) if sp[4] else np.triu(a)
        return f"TF {b(sp[1])} {sg(sp[2])} {b(sp[3] == 'invtri')} {b(sp[4])} {lm(a)}"
    if k == "DD":
        if sp[4] == "invtri":
            return None
        f = A(sp[6])
        f = np.tril(f) if sp[5] else np.triu(f)
        return f"DD {b(sp[1])} {sg(sp[2])} {lm(sp[3])} 0 {b(sp[5])} {lm(f)}"
    if k == "LU":
        return f"LU 0 {lm(sp[1])}"
    if k == "ILU":
        return f"LU 1 {lm(sp[1])}"
    if k == "DS":
        return f"DS {lm(sp[1])} {lm(sp[2])} {common.vstr(sp[3])}"
    if k == "OR":
        return f"OR {lm(sp[1])}"
    if k == "SO":
        return f"SO {common.fstr(sp[1])} {lm(sp[2])}"
    if k == "ES":
        return f"ES {b(sp[1])} {lm(sp[2])} {common.vstr(sp[3])}"
    if k == "RE":
        return f"RE {lm(sp[1])}"
    if k in ("SA", "PP", "SC", "PR"):
        return None

    def nest(tag, cs):
        ts = [lean(c) for c in cs]
        if any(t is None for t in ts):
            return None
        out = ts[-1]
        for t in reversed(ts[:-1]):
            out = f"{tag} {t} {out}"
        return out

    if k == "BD":
        return nest(f"BD {sp[1]}", sp[2])
    if k == "BR":
        return nest("BR", sp[1])
    if k == "BC":
        return nest("BC", sp[1])
    if k == "MM":
        a, c = lean(sp[1]), lean(sp[2])
        return None if a is None or c is None else f"MM {a} {c}"
    if k == "LR":
        u = lean(sp[3])
        v = lean(["T", sp[3]]) if sp[4] is None else lean(sp[4])
        s = lean(sp[5])
        n_in = dense(sp[3]).shape[1]
        kk = f"I {n_in}" if sp[6] is None else lean(sp[6])
        if None in (u, v, s, kk):
            return None
        return f"LR {sp[1]} {sg(sp[2])} {u} {v} {s} {kk}"
    if k == "T":
        a = lean(sp[1])
        return None if a is None else f"TT {a}"
    if k == "INV":
        a = lean(sp[1])
        return None if a is None else f"IV {a}"
    if k == "SM":
        a = lean(sp[4])
        r = Fraction(*float(sp[2]).as_integer_ratio())
        return None if a is None else f"SM {sg(sp[1])} {r.numerator}/{r.denominator} {a}"
    raise ValueError(k)


# ---------------------------------------------------------------------------------------
# typed random generation

KINDS = ("pd", "sym", "inv", "any")


def depth_of(sp):
    best = 0
    for x in sp[1:]:
        if isinstance(x, list) and x and isinstance(x[0], str) and x[0].isupper():
            best = max(best, depth_of(x))
        elif isinstance(x, list):
            for y in x:
                if isinstance(y, list) and y and isinstance(y[0], str) and y[0].isupper():
                    best = max(best, depth_of(y))
    return 1 + best


def tags_of(sp, acc=None):
    acc = set() if acc is None else acc
    acc.add(sp[0])
    for x in sp[1:]:
        if isinstance(x, list) and x and isinstance(x[0], str) and x[0].isupper():
            tags_of(x, acc)
        elif isinstance(x, list):
            for y in x:
                if isinstance(y, list) and y and isinstance(y[0], str) and y[0].isupper():
                    tags_of(y, acc)
    return acc


def cond_ok(d, lim=COND_NODE):
    if d.shape[0] != d.shape[1]:
        return True
    try:
        c = np.linalg.cond(d)
    except np.linalg.LinAlgError:
        return False
    return bool(np.isfinite(c) and c < lim and np.max(np.abs(d)) < 1e4)


def is_pd(d):
    if not np.allclose(d, d.T, rtol=1e-12, atol=1e-12):
        return False
    ev = np.linalg.eigvalsh((d + d.T) / 2)
    return bool(ev.min() > 0.05 * max(1.0, ev.max()) / COND_NODE * 50)


class Gen:
    def __init__(self, rng, exact: bool, max_depth: int, max_n: int):
        self.rng = rng
        self.exact = exact
        self.max_depth = max_depth
        self.max_n = max_n

    def choice(self, xs, p=None):
        return xs[int(self.rng.choice(len(xs), p=p))]

    def sq_scalar(self, positive):
        r = float(self.choice([0.5, 1.0, 1.5, 2.0, 0.75, 1.25]))
        sgn = 1 if positive or self.rng.random() < 0.5 else -1
        return sgn, r

    # -- leaves -----------------------------------------------------------------------
    def leaf(self, kind, n):
        rng = self.rng
        if kind == "pd":
            opts = ["I", "SI", "DG", "TF", "DD", "ES"]
            if not self.exact:
                opts += ["SA", "PP"]
            t = self.choice(opts)
            if t == "I":
                return ["I", n]
            if t == "SI":
                return ["SI", n, 1, dy_nz(rng, 2, 12, 4, signed=False)]
            if t == "DG":
                return ["DG", 1, [dy_nz(rng, 2, 12, 4, signed=False) for _ in range(n)]]
            if t == "TF":
                lower = int(rng.random() < 0.5)
                return ["TF", 1, 1, self.choice(["arr", "tri", "invtri"]), lower,
                        L(self.tri_arr(n, lower, junk=True))]
            if t == "DD":
                return self.dense_def(n, pd=1, sign=1)
            if t == "ES":
                return self.eig(n, pd=1)
            if t == "SA":
                for _ in range(50):
                    a = rand_rect(rng, n, n, 4)
                    a = (a + a.T) / 2
                    if np.min(np.abs(np.linalg.eigvalsh(a))) > 0.1:
                        break
                else:
                    a = np.eye(n)
                if rng.random() < 0.15:
                    # an exactly zero eigenvalue of the unregularised array (softabs(0) = 1/coeff, a removable
                    # singularity of x / tanh(coeff x)): diagonal with a zero entry, conjugated by a permutation
                    d = np.array([0.0] + [float(dy_nz(rng, 2, 12, 4)) for _ in range(n - 1)])
                    perm = rng.permutation(n)
                    a = np.diag(d)[np.ix_(perm, perm)]
                return ["SA", L(a), float(self.choice([0.5, 1.0, 2.0]))]
            if t == "PP":
                m2 = n + int(rng.integers(1, 3))
                inner = None if rng.random() < 0.4 else self.gen("pd", m2, 1)
                r = rand_rect(rng, n, m2, 4) + np.eye(n, m2)
                return ["PP", L(r) if rng.random() < 0.7 else ["RE", L(r)], inner]
        if kind == "sym":
            t = self.choice(["pdleaf", "SI", "DG", "TF", "DD", "DS", "ES"], p=[0.2, 0.1, 0.15, 0.15, 0.1, 0.2, 0.1])
            if t == "pdleaf":
                return self.leaf("pd", n)
            if t == "SI":
                return ["SI", n, 0, dy_nz(rng, 2, 12, 4)]
            if t == "DG":
                return ["DG", 0, [dy_nz(rng, 2, 12, 4) for _ in range(n)]]
            if t == "TF":
                lower = int(rng.random() < 0.5)
                return ["TF", 0, self.choice([1, -1]), self.choice(["arr", "tri", "invtri"]), lower,
                        L(self.tri_arr(n, lower, junk=True))]
            if t == "DD":
                return self.dense_def(n, pd=0, sign=self.choice([1, -1]))
            if t == "DS":
                q = rand_orth_exact(rng, n) if self.exact else rand_orth_float(rng, n)
                ev = A([dy_nz(rng, 2, 12, 4) for _ in range(n)])
                a = q @ np.diag(ev) @ q.T
                a = (a + a.T) / 2
                return ["DS", L(a), L(q), L(ev), self.choice(["none", "arr", "orth"])]
            if t == "ES":
                return self.eig(n, pd=0)
        if kind == "inv":
            t = self.choice(["symleaf", "TR", "LU", "ILU", "OR", "SO"], p=[0.3, 0.2, 0.2, 0.1, 0.1, 0.1])
            if t == "symleaf":
                return self.leaf("sym", n)
            if t == "TR":
                lower = int(rng.random() < 0.5)
                mk = int(rng.random() < 0.5)
                return ["TR", int(rng.random() < 0.4), lower, L(self.tri_arr(n, lower, junk=bool(mk))), mk]
            if t == "LU":
                return ["LU", L(rand_dense_sq(rng, n)), self.choice(["none", "lu", "luT"])]
            if t == "ILU":
                return ["ILU", L(rand_dense_sq(rng, n)), int(rng.random() < 0.5)]
            q = rand_orth_exact(rng, n) if (self.exact or rng.random() < 0.3) else rand_orth_float(rng, n)
            if t == "OR":
                return ["OR", L(q)]
            return ["SO", dy_nz(rng, 2, 10, 4), L(q)]
        raise ValueError(kind)

    def tri_arr(self, n, lower, junk):
        a = rand_tri(self.rng, n, lower, pos_diag=bool(self.rng.random() < 0.5))
        if junk:  # entries in the ignored triangle
            other = rand_rect(self.rng, n, n, 2)
            a = a + (np.triu(other, 1) if lower else np.tril(other, -1))
        return a

    def dense_def(self, n, pd, sign):
        rng = self.rng
        fk = self.choice(["none", "tri"] if self.exact else ["none", "tri", "invtri"])
        if fk == "invtri":
            lower = int(rng.random() < 0.5)
            g = rand_tri(rng, n, lower)
            f = np.linalg.inv(g)
            a = sign * (f @ f.T)
            return ["DD", pd, sign, L((a + a.T) / 2), "invtri", lower, L(g)]
        # factor absent -> numpy Cholesky recovers the lower factor with positive diagonal
        lower = 1 if fk == "none" else int(rng.random() < 0.5)
        f = rand_tri(rng, n, lower, pos_diag=(fk == "none"))
        a = sign * (f @ f.T)
        return ["DD", pd, sign, L(a), fk, lower, L(f)]

    def eig(self, n, pd):
        rng = self.rng
        q = rand_orth_exact(rng, n) if (self.exact or rng.random() < 0.3) else rand_orth_float(rng, n)
        ev = [dy_nz(rng, 2, 12, 4, signed=not pd) for _ in range(n)]
        return ["ES", pd, L(q), ev, self.choice(["arr", "orth"])]

    # -- recursive --------------------------------------------------------------------
    def gen(self, kind, n, depth, m=None):
        """Spec of a matrix of class-kind `kind` (`pd`/`sym`/`inv`: n x n; `any`: m x n)."""
        for _ in range(60):
            sp = self._gen(kind, n, depth, m)
            try:
                d = dense(sp)
            except np.linalg.LinAlgError:
                continue
            if not cond_ok(d):
                continue
            if kind == "pd" and not is_pd(d):
                continue
            return sp
        return self.leaf(kind, n) if kind != "any" else ["RE", L(rand_rect(self.rng, m, n))]

    def split(self, n):
        a = int(self.rng.integers(1, n))
        return a, n - a

    def _gen(self, kind, n, depth, m):
        rng = self.rng
        if kind == "any":
            if m == n and rng.random() < 0.5:
                return self.gen("inv", n, depth)
            if depth <= 1 or rng.random() < 0.3:
                if m == n:
                    return self.leaf("inv", n)
                return ["RE", L(rand_rect(rng, m, n))]
            t = self.choice(["BR", "BC", "MM", "T", "SM"])
            if t == "BR" and n >= 2:
                a, b = self.split(n)
                return ["BR", [self.gen("any", a, depth - 1, m), self.gen("any", b, depth - 1, m)]]
            if t == "BC" and m >= 2:
                a, b = self.split(m)
                return ["BC", [self.gen("any", n, depth - 1, a), self.gen("any", n, depth - 1, b)]]
            if t == "MM":
                k = int(rng.integers(1, self.max_n + 1))
                if not self.exact and rng.random() < 0.3:
                    k2 = int(rng.integers(1, self.max_n + 1))
                    return ["PR", [self.gen("any", k, depth - 1, m), self.gen("any", k2, max(1, depth - 2), k),
                                   self.gen("any", n, max(1, depth - 2), k2)], "plain"]
                return ["MM", self.gen("any", k, depth - 1, m), self.gen("any", n, depth - 1, k)]
            if t == "T":
                return ["T", self.gen("any", m, depth - 1, n)]
            sgn, r = self.sq_scalar(False)
            return self.smul(sgn, r, self.gen("any", n, depth - 1, m))
        if depth <= 1 or rng.random() < 0.15:
            return self.leaf(kind, n)
        if kind == "pd":
            t = self.choice(["BD", "LR", "INV", "SM", "T", "leaf"], p=[0.2, 0.3, 0.2, 0.15, 0.05, 0.1])
        elif kind == "sym":
            t = self.choice(["pd", "BD", "LR", "INV", "SM", "T", "leaf"], p=[0.15, 0.15, 0.3, 0.15, 0.15, 0.05, 0.05])
        else:
            t = self.choice(["sym", "BD", "LR", "INV", "SM", "T", "MM", "leaf"],
                            p=[0.15, 0.1, 0.2, 0.15, 0.1, 0.1, 0.15, 0.05])
        if t == "leaf":
            return self.leaf(kind, n)
        if t in ("pd", "sym"):
            return self.gen(t, n, depth)
        if t == "BD":
            if n < 2:
                return self.leaf(kind, n)
            parts = []
            left = n
            while left > 0:
                a = int(rng.integers(1, left + 1)) if len(parts) < 2 else left
                if not parts and a == n:
                    a = n - 1
                parts.append(a)
                left -= a
            bk = {"pd": "pd", "sym": "sym", "inv": "sq"}[kind]
            return ["BD", bk, [self.gen(kind, a, depth - 1) for a in parts]]
        if t == "T":
            return ["T", self.gen(kind, n, depth - 1)]
        if t == "INV":
            return ["INV", self.gen(kind, n, depth - 1)]
        if t == "SM":
            sgn, r = self.sq_scalar(kind == "pd")
            return self.smul(sgn, r, self.gen(kind, n, depth - 1))
        if t == "MM":
            if not self.exact and rng.random() < 0.4:
                k = int(rng.integers(2, 4))
                return ["PR", [self.gen("inv", n, max(1, depth - 1 - (i > 0))) for i in range(k)], "inv"]
            return ["MM", self.gen("inv", n, depth - 1), self.gen("inv", n, depth - 1)]
        if t == "LR":
            k = int(rng.integers(1, n + 1))
            sign = self.choice([1, -1])
            lk = {"pd": "pd", "sym": "sym", "inv": "sq"}[kind]
            base = self.gen(kind, n, depth - 1)
            inner = None if rng.random() < 0.3 else self.gen(kind, k, max(1, depth - 2))
            scale = 4 if sign == 1 else 8
            for _ in range(40):
                if depth >= 3 and rng.random() < 0.3 and k >= 1:
                    u = self.gen("any", k, depth - 2, n)
                else:
                    u = ["RE", L(rand_rect(rng, n, k, scale))]
                ud = dense(u)
                if lk != "pd" or np.linalg.cond(ud.T @ ud) < 1e3:
                    break  # positive-definite updates: full column rank (the sqrt needs chol(UᵀU))
            else:
                u = ["RE", L(np.eye(n, k) / 4)]
            v = None
            if lk == "sq":
                v = ["RE", L(rand_rect(rng, k, n, scale))] if rng.random() < 0.7 else ["T", u]
            return ["LR", lk, sign, u, v, base, inner, int(rng.random() < 0.3)]
        raise ValueError(t)

    def smul(self, sgn, r, x):
        if not self.exact and self.rng.random() < 0.5:
            c = float(self.choice([0.3, 1.7, 2.5, 0.1, 3.0])) * sgn
            return ["SC", c, self.choice(["mul", "rmul", "div", "np"]), x]
        if sgn == -1 and r == 1.0 and self.rng.random() < 0.7:
            return ["SM", -1, 1.0, "neg", x]
        return ["SM", sgn, r, self.choice(["mul", "rmul", "div", "np"]), x]


# ---------------------------------------------------------------------------------------
# observables


def close_arr(a, b, scale=None, rtol=RTOL):
    a = np.asarray(a, dtype=float)
    b = np.asarray(b, dtype=float)
    if a.shape != b.shape:
        return False
    if not (np.all(np.isfinite(a)) and np.all(np.isfinite(b))):
        return False
    s = max(1.0, float(np.max(np.abs(b))) if b.size else 1.0) if scale is None else scale
    return bool(np.max(np.abs(a - b), initial=0.0) <= rtol * s)


def supports_logdet(obj):
    """A product / block / low-rank object only has a log_abs_det if all its parts have one.  Square-shaped
    objects of a non-square CLASS (DenseRectangularMatrix, BlockRowMatrix, BlockColumnMatrix, MatrixProduct)
    have none (adjudicated as misuse of those classes: counted, not flagged)."""
    M = mm()
    if not isinstance(obj, M.SquareMatrix):
        return False
    if isinstance(obj, M.MatrixProduct):
        return all(supports_logdet(x) for x in obj.matrices)
    if isinstance(obj, M.SquareBlockDiagonalMatrix):
        return all(supports_logdet(x) for x in obj.blocks)
    if isinstance(obj, M.SquareLowRankUpdateMatrix):
        return supports_logdet(obj.square_matrix) and supports_logdet(obj.inner_square_matrix)
    return True


def observe(obj, d, bl, br, deep=True):
    """All observables of a mici object, with the dense reference value of each.

    Returns list of (name, impl_value_or_exception, reference_value, tolerance_scale)."""
    M = mm()
    out = []

    def rec(name, fn, ref, scale=None):
        try:
            with warnings.catch_warnings():
                warnings.simplefilter("ignore")
                val = _with_timeout(fn)
        except _Timeout:
            val = RuntimeError("timeout")
        except Exception as e:  # noqa: BLE001
            val = e
        out.append((name, val, ref, scale))

    m, n = d.shape
    rec("shape", lambda: tuple(obj.shape), (m, n))
    rec("array", lambda: np.array(obj.array), d)
    rec("matmul_mat", lambda: obj @ bl, d @ bl)
    rec("matmul_vec", lambda: obj @ bl[:, 0], d @ bl[:, 0])
    rec("rmatmul_mat", lambda: br @ obj, br @ d)
    rec("rmatmul_vec", lambda: br[0] @ obj, br[0] @ d)
    rec("T.array", lambda: np.array(obj.T.array), d.T)
    rec("T@", lambda: obj.T @ br.T, d.T @ br.T)
    if m == n:
        rec("diagonal", lambda: np.array(obj.diagonal), np.diag(d))
    has_ld = supports_logdet(obj)
    if has_ld:
        sgn_, lad = np.linalg.slogdet(d)
        rec("log_abs_det", lambda: float(obj.log_abs_det), lad, max(1.0, abs(lad)))
    if isinstance(obj, M.InvertibleMatrix):
        di = np.linalg.inv(d)
        rec("inv.array", lambda: np.array(obj.inv.array), di)
        rec("inv@", lambda: obj.inv @ bl, di @ bl)
        rec("@inv", lambda: br @ obj.inv, br @ di)
        if deep:
            rec("inv.T.array", lambda: np.array(obj.inv.T.array), di.T)
            rec("T.inv.array", lambda: np.array(obj.T.inv.array), di.T)
            rec("inv.inv.array", lambda: np.array(obj.inv.inv.array), d)
            if has_ld:
                rec("inv.log_abs_det", lambda: float(obj.inv.log_abs_det), -np.linalg.slogdet(d)[1],
                    max(1.0, abs(np.linalg.slogdet(d)[1])))
            rec("inv.diagonal", lambda: np.array(obj.inv.diagonal), np.diag(di))
    if isinstance(obj, M.SymmetricMatrix):
        rec("T is self", lambda: obj.T is obj, True)
        rec("eigval(sorted)", lambda: np.sort(np.array(obj.eigval, dtype=float).reshape(-1) * np.ones(n)),
            np.sort(np.linalg.eigvalsh((d + d.T) / 2)))

        def recon():
            q = np.array(obj.eigvec.array)
            ev = np.array(obj.eigval, dtype=float).reshape(-1) * np.ones(n)
            return q @ np.diag(ev) @ q.T

        rec("eigvec@diag(eigval)@eigvec.T", recon, d)
        rec("eigvec orthogonal", lambda: (lambda q: q @ q.T)(np.array(obj.eigvec.array)), np.eye(n))
        if deep:
            # eigendecompositions of DERIVED symmetric objects (they may reuse the parent's cached factors)
            def recon_of(make):
                def f():
                    o = make()
                    if not isinstance(o, M.SymmetricMatrix):
                        return None
                    q = np.array(o.eigvec.array)
                    ev = np.array(o.eigval, dtype=float).reshape(-1) * np.ones(n)
                    return q @ np.diag(ev) @ q.T
                return f

            def rec_recon(name, make, ref):
                try:
                    with warnings.catch_warnings():
                        warnings.simplefilter("ignore")
                        val = _with_timeout(recon_of(make))
                except _Timeout:
                    val = RuntimeError("timeout")
                except Exception as e:  # noqa: BLE001
                    val = e
                if val is not None:
                    out.append((name, val, ref, None))

            if isinstance(obj, M.InvertibleMatrix):
                rec_recon("inv: eigvec@diag(eigval)@eigvec.T", lambda: obj.inv, np.linalg.inv(d))
            rec_recon("(2.5*x): eigvec@diag(eigval)@eigvec.T", lambda: 2.5 * obj, 2.5 * d)
            rec_recon("(-x): eigvec@diag(eigval)@eigvec.T", lambda: -obj, -d)
    if isinstance(obj, M.PositiveDefiniteMatrix):
        rec("sqrt@sqrt.T", lambda: (lambda s: s @ s.T)(np.array(obj.sqrt.array)), d)
        rec("sqrt@vec", lambda: obj.sqrt @ (obj.sqrt.T @ bl[:, 0]), d @ bl[:, 0])
        if deep:
            rec("inv.sqrt", lambda: (lambda s: s @ s.T)(np.array(obj.inv.sqrt.array)), np.linalg.inv(d))
            rec("sqrt.inv", lambda: (lambda s: s.T @ s)(np.array(obj.sqrt.inv.array)), np.linalg.inv(d))
    if deep:
        rec("(2.5*x).array", lambda: np.array((2.5 * obj).array), 2.5 * d)
        rec("(-x).array", lambda: np.array((-obj).array), -d)
        rec("(x/4).array", lambda: np.array((obj / 4).array), d / 4)
        if isinstance(obj, M.InvertibleMatrix):
            rec("(-x).inv.array", lambda: np.array((-obj).inv.array), -np.linalg.inv(d))
            rec("(x*0.5).inv@", lambda: (obj * 0.5).inv @ bl, 2 * np.linalg.inv(d) @ bl)
        if has_ld:
            lad = np.linalg.slogdet(d)[1]
            rec("(-2x).log_abs_det", lambda: float((-2.0 * obj).log_abs_det), lad + n * math.log(2.0),
                max(1.0, abs(lad)))
    return out


def judge(val, ref, scale):
    """None if fine, else a description."""
    if isinstance(val, Exception):
        return f"raised {type(val).__name__}: {val}"
    if isinstance(ref, (bool, tuple)):
        return None if val == ref else f"got {val!r}, expected {ref!r}"
    try:
        v = np.asarray(val, dtype=float)
    except Exception as e:  # noqa: BLE001
        return f"not numeric: {type(val).__name__} ({e})"
    r = np.asarray(ref, dtype=float)
    if v.shape != r.shape:
        return f"shape {v.shape} != {r.shape}"
    if close_arr(v, r, scale):
        return None
    err = float(np.max(np.abs(v - r))) if np.all(np.isfinite(v)) else float("nan")
    sc = scale or max(1.0, float(np.max(np.abs(r), initial=0)))
    return f"max abs error {err:.3e} (scale {sc:.3g})"


def family(sp):
    """Signature family of a spec: outermost class-like tags and low-rank signs."""
    tags = sorted(tags_of(sp))
    sig = "+".join(tags)

    def has_down(s):
        if s[0] == "LR" and s[2] == -1:
            return True
        for x in s[1:]:
            if isinstance(x, list) and x and isinstance(x[0], str) and x[0].isupper() and has_down(x):
                return True
            if isinstance(x, list):
                for y in x:
                    if isinstance(y, list) and y and isinstance(y[0], str) and y[0].isupper() and has_down(y):
                        return True
        return False

    return sig + (" LowRankUpdate sign=-1" if has_down(sp) else "")


def rand_b(rng, rows, cols):
    return np.array([[dy(rng, -4, 4, 2) for _ in range(cols)] for _ in range(rows)]).reshape(rows, cols)


def check_tree(ctx, sp, bl, br, model_line, deep=True):
    """Direct oracle + correspondence for one spec. Returns number of violations found."""
    case = {"spec": sp, "bl": L(bl), "br": L(br)}
    fam = family(sp)
    nviol = 0
    try:
        with warnings.catch_warnings():
            warnings.simplefilter("ignore")
            obj = _with_timeout(lambda: build(sp))
    except Exception as e:  # noqa: BLE001
        ctx.violation(f"construct {sp[0]} [{fam}]", f"building the expression raised {type(e).__name__}: {e}",
                      {**case, "observable": "construct"})
        return 1
    d = dense(sp)
    obs = observe(obj, d, bl, br, deep)
    # second pass on a FRESH object whose lazily cached properties are touched first, in an order derived
    # from the spec: objects derived afterwards (.inv, .T, scalar multiples, sqrt) may reuse cached factors
    # of the parent and must still agree with dense algebra (seeds C10-1, C10-2, C07-2, C19-1)
    if deep:
        try:
            with warnings.catch_warnings():
                warnings.simplefilter("ignore")
                obj_w = _with_timeout(lambda: build(sp))
                order = ["eigval", "eigvec", "sqrt", "log_abs_det", "factor", "lu_and_piv", "capacitance_matrix",
                         "T", "inv", "diagonal", "array"]
                import random as _random  # noqa: PLC0415

                rnd = _random.Random(common.stable_hash(case))
                rnd.shuffle(order)
                for nm in order[: rnd.randint(1, 5)]:
                    try:
                        _with_timeout(lambda nm=nm: getattr(obj_w, nm))
                    except Exception:  # noqa: BLE001, S110
                        pass
            obs += [("warm:" + nm_, v_, r_, s_) for nm_, v_, r_, s_ in observe(obj_w, d, bl, br, deep)
                    if nm_ not in ("shape", "T is self")]
        except Exception as e:  # noqa: BLE001
            ctx.violation(f"construct {sp[0]} [{fam}]", f"building the expression a second time raised {type(e).__name__}: {e}",
                          {**case, "observable": "construct"})
            return 1
    if sp[0] == "LR":  # the capacitance matrix itself, with the sign: K^-1 + sign V S^-1 U
        ud = dense(sp[3])
        vd = ud.T if sp[4] is None else dense(sp[4])
        kd = np.eye(ud.shape[1]) if sp[6] is None else dense(sp[6])
        cref = np.linalg.inv(kd) + sp[2] * (vd @ np.linalg.inv(dense(sp[5])) @ ud)
        try:
            with warnings.catch_warnings():
                warnings.simplefilter("ignore")
                cval = np.array(obj.capacitance_matrix.array)
        except Exception as e:  # noqa: BLE001
            cval = e
        obs.append(("capacitance_matrix.array", cval, cref, None))
    bad = {}
    for name, val, ref, scale in obs:
        j = judge(val, ref, scale)
        if j is not None:
            bad[name] = j
    for name, j in bad.items():
        nviol += 1
        ctx.violation(f"{type(obj).__name__}.{name} [{fam}]",
                      f"{type(obj).__name__}.{name} differs from dense NumPy: {j}",
                      {**case, "observable": name})
    # correspondence with the Lean model
    if model_line is not None:
        parts = model_line.split(";")
        if model_line == "bad-op" or len(parts) != 11:
            ctx.disagreement(f"driver answered {model_line[:80]!r}", case)
            return nviol
        cls, m_, n_, wf, isinv, hasdet, den, diag, sdet, lmul, rmul = parts
        M = mm()
        if wf != "1":
            ctx.disagreement("model: WF decided false for a generated expression (generator/model mismatch)", case)
            return nviol
        if cls != type(obj).__name__:
            ctx.disagreement(f"class: impl {type(obj).__name__} model {cls}", case)
        if (int(m_), int(n_)) != tuple(obj.shape):
            ctx.disagreement(f"shape: impl {obj.shape} model {(m_, n_)}", case)
        if (isinv == "1") != isinstance(obj, M.InvertibleMatrix):
            ctx.disagreement(f"invertible-class: impl {isinstance(obj, M.InvertibleMatrix)} model {isinv}", case)
        vals = {name: val for name, val, _, _ in obs}

        def cmp(name, mval, scale=None):
            v = vals.get(name)
            if v is None or isinstance(v, Exception):
                return
            if not close_arr(np.asarray(v, dtype=float), mval, scale):
                ctx.disagreement(f"{name}: impl and Lean model differ for {type(obj).__name__}", case)

        pm = lambda s: np.array([[float(x) for x in common.parse_vec("[" + r.strip("[]") + "]")]  # noqa: E731
                                  for r in s[1:-1].split("],[")], dtype=float)
        dm = pm(den).reshape(d.shape)
        if not close_arr(dm, d):
            ctx.disagreement("denote: Lean model and dense NumPy reference differ", case)
        cmp("array", dm)
        if diag != "-":
            cmp("diagonal", np.array([float(x) for x in common.parse_vec(diag)]))
        if sdet != "-" and "log_abs_det" in vals:
            sd = common.parse_frac(sdet)
            if sd == 0:
                ctx.disagreement("model sdet = 0", case)
            else:
                lad = math.log(abs(sd.numerator)) - math.log(sd.denominator)
                cmp("log_abs_det", np.asarray(lad), max(1.0, abs(lad)))
        if (hasdet == "1") != ("log_abs_det" in vals and not isinstance(vals["log_abs_det"], Exception)):
            ctx.disagreement(f"log_abs_det availability: model HasDet={hasdet}", case)
        if lmul != "-":
            cmp("matmul_mat", pm(lmul).reshape((d @ bl).shape))
        if rmul != "-":
            cmp("rmatmul_mat", pm(rmul).reshape((br @ d).shape))
    return nviol


# ---------------------------------------------------------------------------------------
# fixed edge cases: implicit sizes, size 1, constructor validation


def implicit_and_edge_cases(ctx, rng):
    M = mm()
    v = rand_b(rng, 3, 1)[:, 0]
    B = rand_b(rng, 3, 2)

    def expect(name, fn, ref):
        try:
            with warnings.catch_warnings():
                warnings.simplefilter("ignore")
                val = fn()
        except Exception as e:  # noqa: BLE001
            val = e
        ctx.case({"edge": name}, nontrivial=False)
        ctx.count("edge_case")
        j = judge(val, ref, None)
        if j is not None:
            ctx.violation(f"implicit-size {name}", f"{name}: {j}", {"edge": name})

    for c in (1.0, 2.5, -0.5):
        mk = (lambda: M.IdentityMatrix()) if c == 1.0 else (lambda c=c: M.ScaledIdentityMatrix(c))
        tag = "IdentityMatrix()" if c == 1.0 else f"ScaledIdentityMatrix({c})"
        expect(f"{tag} @ v", lambda: mk() @ v, c * v)
        expect(f"v @ {tag}", lambda: v @ mk(), c * v)
        expect(f"{tag} @ B", lambda: mk() @ B, c * B)
        expect(f"{tag}.inv @ v", lambda: mk().inv @ v, v / c)
        expect(f"{tag}.T @ v", lambda: mk().T @ v, c * v)
        expect(f"(2*{tag}) @ v", lambda: (2 * mk()) @ v, 2 * c * v)
        expect(f"(-{tag}).inv @ v", lambda: (-mk()).inv @ v, -v / c)
    for c in (2.5, -0.5):
        for attr in ("diagonal", "eigval"):
            try:
                val = getattr(M.ScaledIdentityMatrix(c), attr) * v
            except Exception as e:  # noqa: BLE001
                val = e
            ctx.count("edge_case")
            j = judge(val, c * v, None)
            if j is not None:
                ctx.violation("ScaledIdentityMatrix.diagonal implicit size",
                              f"ScaledIdentityMatrix({c}).{attr} * v with implicit size: {j}",
                              {"edge": f"ScaledIdentityMatrix({c}).{attr} implicit"})
    expect("IdentityMatrix().sqrt @ v", lambda: M.IdentityMatrix().sqrt @ v, v)
    expect("IdentityMatrix().diagonal * v", lambda: M.IdentityMatrix().diagonal * v, v)
    expect("IdentityMatrix().eigval * v", lambda: M.IdentityMatrix().eigval * v, v)
    expect("IdentityMatrix().log_abs_det", lambda: M.IdentityMatrix().log_abs_det, 0.0)
    expect("PositiveScaledIdentityMatrix(4.).sqrt @ v", lambda: M.PositiveScaledIdentityMatrix(4.0).sqrt @ v, 2 * v)
    # constructors must reject what they document to reject
    for name, fn in [
        ("ScaledIdentityMatrix(0)", lambda: M.ScaledIdentityMatrix(0.0, 2)),
        ("PositiveScaledIdentityMatrix(-1)", lambda: M.PositiveScaledIdentityMatrix(-1.0, 2)),
        ("PositiveDiagonalMatrix([1,-1])", lambda: M.PositiveDiagonalMatrix(np.array([1.0, -1.0]))),
        ("x * 0", lambda: M.IdentityMatrix(2) * 0),
        ("x / 0", lambda: M.DiagonalMatrix(np.array([1.0, 2.0])) / 0),
        ("shape mismatch @", lambda: M.IdentityMatrix(2) @ np.ones(3)),
        ("TriangularFactored sign=2", lambda: M.TriangularFactoredDefiniteMatrix(np.eye(2), sign=2, factor_is_lower=True)),
    ]:
        ctx.count("edge_case")
        try:
            fn()
            ctx.violation(f"constructor accepts {name}", f"{name} did not raise", {"edge": name})
        except (ValueError, NotImplementedError):
            pass
        except Exception as e:  # noqa: BLE001
            ctx.violation(f"constructor {name}", f"{name} raised {type(e).__name__}: {e}", {"edge": name})


def fixed_findings(ctx, rng):  # noqa: ARG001
    """Deterministic inputs of findings of this property (fixed ones must stay fixed; the known one is
    re-detected on every run and reported under its registered signature)."""
    M = mm()
    U = np.array([[1.0, 0.5], [0.25, 1.0], [0.5, 0.5]])
    P = M.PositiveDefiniteBlockDiagonalMatrix(
        [M.PositiveDiagonalMatrix(np.array([2.0, 3.0])), M.PositiveScaledIdentityMatrix(2.0, 1)])
    dP = np.diag([2.0, 3.0, 2.0])
    sig = "negative multiple of PositiveDefiniteBlockDiagonalMatrix loses symmetric class"
    ctx.count("finding_probe")
    try:
        with warnings.catch_warnings():
            warnings.simplefilter("ignore")
            negP = -P
            ok = isinstance(negP, M.SymmetricMatrix) and negP.T is negP and close_arr(negP.array, -dP)
            lr = M.PositiveDefiniteLowRankUpdateMatrix(M.DenseRectangularMatrix(U), P)
            d = dP + U @ U.T
            for c in (-1.0, -2.0):
                x = lr * c
                ok = ok and isinstance(x, M.SymmetricMatrix) and close_arr(x.array, c * d)
                ok = ok and close_arr(x.inv.array, np.linalg.inv(c * d))
        if not ok:
            ctx.violation(sig, "negative multiple of a PD block-diagonal / PD low-rank over it is wrong or not symmetric-class",
                          {"finding": "neg-pd-blockdiag"})
    except Exception as e:  # noqa: BLE001
        ctx.violation(sig, f"-(PD low-rank update over PD block-diagonal) raised {type(e).__name__}: {e}",
                      {"finding": "neg-pd-blockdiag"})
    # KNOWN finding (registered in known_findings.json): rank-deficient factor, matrix still PD
    ctx.count("finding_probe")
    for sign in (1, -1):
        F = np.array([[0.5, 0.25], [-0.5, -0.25]])
        try:
            with warnings.catch_warnings():
                warnings.simplefilter("ignore")
                m = M.PositiveDefiniteLowRankUpdateMatrix(
                    F, M.PositiveDiagonalMatrix(np.array([3.75, 4.75])),
                    M.DensePositiveDefiniteMatrix(np.diag([1.0, 0.5625])), sign=sign)
                d = np.diag([3.75, 4.75]) + sign * F @ np.diag([1.0, 0.5625]) @ F.T
                s_ = np.array(m.sqrt.array)
                good = close_arr(s_ @ s_.T, d)
        except Exception as e:  # noqa: BLE001
            good = False
            why = f"raised {type(e).__name__}: {e}"
        else:
            why = "sqrt @ sqrt.T differs from the matrix"
        if not good:
            ctx.violation("PositiveDefiniteLowRankUpdateMatrix.sqrt rank-deficient factor",
                          f"sqrt of a positive-definite low-rank update (sign={sign}) with rank-deficient factor_matrix: {why}",
                          {"finding": "lowrank-sqrt-rank-deficient", "sign": sign})
            break
    # counted only (adjudicated as misuse of the rectangular class)
    try:
        pr = M.DenseRectangularMatrix(np.eye(2)) @ M.DenseSquareMatrix(2 * np.eye(2))
        if type(pr).__name__ != "SquareMatrixProduct" or not close_arr(pr.array, 2 * np.eye(2)):
            ctx.violation("product class selection", f"square non-invertible @ invertible gave {type(pr).__name__}",
                          {"finding": "product-class"})
        try:
            pr.log_abs_det  # noqa: B018
        except AttributeError:
            ctx.count("square_shaped_DenseRectangularMatrix_in_SquareMatrixProduct_has_no_log_abs_det")
    except Exception as e:  # noqa: BLE001
        ctx.violation("product class selection",
                      f"DenseRectangularMatrix(2x2) @ DenseSquareMatrix raised {type(e).__name__}: {e}",
                      {"finding": "product-class"})


# ---------------------------------------------------------------------------------------


def gen_root(g: Gen, rng):
    kind = g.choice(list(KINDS), p=[0.25, 0.25, 0.25, 0.25])
    depth = int(rng.integers(1, g.max_depth + 1))
    if depth < g.max_depth and rng.random() < 0.4:
        depth += 1
    n = int(rng.integers(1, g.max_n + 1))
    if kind == "any":
        m = int(rng.integers(1, g.max_n + 1))
        sp = g.gen("any", n, depth, m)
    else:
        sp = g.gen(kind, n, depth)
    return sp


def run(ctx: common.Ctx):
    rng = common.rng_for(ctx)
    ctx.rule = (
        "random expression trees over all matrix classes; non-trivial = tree of depth >= 2 containing an inverse, "
        "transpose, scalar multiple, product, block or low-rank node; every observable (array, @ both sides with "
        "vectors and matrices, T, inv, diagonal, log_abs_det, eigval/eigvec, sqrt, scalar multiples, second-level "
        "combinations) compared with dense NumPy (rtol 1e-8) and, for exact trees, with the Lean model's rational denote"
    )
    ctx.assumptions += [
        "parameters are dyadic rationals; every generated square node has condition number < 2e3 (root < 1e5)",
        "exact trees use scalars +-r^2 (r dyadic) and exactly orthogonal dyadic matrices so the model data are rational",
        "LAPACK triangular/LU solves are modelled as multiplication by a checked exact inverse",
        "DenseRectangularMatrix is only generated with non-square shape (a square-shaped one inside a "
        "SquareMatrixProduct has no log_abs_det: adjudicated as misuse, counted only)",
        "factor matrices of positive-definite low-rank updates have full column rank (the rank-deficient "
        "case is the registered known finding and is probed deterministically)",
    ]
    max_depth = ctx.n(4, 7)
    max_n = ctx.n(4, 5)
    # A broken C10S obligation (the class algebra extracted from the source no longer equals the model's)
    # escalates the failing-input search; the driver only needs the model modules, make sure they are built.
    broken_s = [o["theorem"] for o in ctx.obligations if not o["ok"] and ".C10S." in o["theorem"]]
    if not ctx.build_ok:
        common.lake_build(LEAN_EXTRA)
    esc = 2 if broken_s else 1
    if broken_s:
        ctx.extra["escalated_by"] = broken_s[:8]
    # ---- corpus (past disagreements / finding inputs), always first -------------------------
    import json  # noqa: PLC0415

    corpus = sorted((common.VERIF / "corpus" / "C10").glob("*.json"))
    items = [json.loads(f.read_text()) for f in corpus]
    if items:
        lines = common.run_driver(
            "C10", [f"all {lm(A(o['bl']))} {lm(A(o['br']))} {lean(o['spec'])}" for o in items], timeout=600)
        for o, line in zip(items, lines, strict=True):
            ctx.case({"corpus": o["name"]}, nontrivial=True)
            ctx.count("corpus")
            check_tree(ctx, o["spec"], A(o["bl"]), A(o["br"]), line, deep=True)
    # ---- exact trees: model + dense ---------------------------------------------------
    g = Gen(rng, True, max_depth, max_n)
    specs, reqs, bls, brs = [], [], [], []
    n_exact = esc * ctx.n(2200, 12000)
    tries = 0
    while len(specs) < n_exact and tries < 20 * n_exact:
        tries += 1
        sp = gen_root(g, rng)
        d = dense(sp)
        if not cond_ok(d, COND_ROOT):
            ctx.count("rejected_root")
            continue
        tok = lean(sp)
        if tok is None:
            continue
        bl = rand_b(rng, d.shape[1], 2)
        br = rand_b(rng, 2, d.shape[0])
        specs.append(sp)
        bls.append(bl)
        brs.append(br)
        reqs.append(f"all {lm(bl)} {lm(br)} {tok}")
    model = common.run_driver("C10", reqs, timeout=3000)
    for sp, bl, br, line in zip(specs, bls, brs, model, strict=True):
        dep = depth_of(sp)
        tags = tags_of(sp)
        ctx.case({"spec": sp}, nontrivial=dep >= 2 and bool(tags & {"INV", "T", "SM", "MM", "BD", "LR", "BR", "BC"}))
        ctx.count(f"exact:depth={dep}")
        for t in tags:
            ctx.count(f"exact:node:{t}")
        if "LR" in tags and "sign=-1" in family(sp):
            ctx.count("exact:lowrank_downdate")
        check_tree(ctx, sp, bl, br, line, deep=True)
    # ---- dense-only trees ---------------------------------------------------------------
    g2 = Gen(rng, False, max_depth, max_n)
    n_dense = esc * ctx.n(2200, 12000)
    done = 0
    tries = 0
    while done < n_dense and tries < 20 * n_dense:
        tries += 1
        sp = gen_root(g2, rng)
        try:
            d = dense(sp)
        except np.linalg.LinAlgError:
            continue
        if not cond_ok(d, COND_ROOT):
            ctx.count("rejected_root")
            continue
        bl = rand_b(rng, d.shape[1], 2)
        br = rand_b(rng, 2, d.shape[0])
        dep = depth_of(sp)
        tags = tags_of(sp)
        ctx.case({"spec": sp}, nontrivial=dep >= 2 and bool(tags & {"INV", "T", "SM", "SC", "MM", "BD", "LR", "BR", "BC"}))
        ctx.count(f"dense:depth={dep}")
        for t in tags:
            ctx.count(f"dense:node:{t}")
        check_tree(ctx, sp, bl, br, None, deep=True)
        done += 1
    implicit_and_edge_cases(ctx, rng)
    fixed_findings(ctx, rng)


def replay(ctx, obj):
    if "finding" in obj:
        sub = common.Ctx(ctx.prop, ctx.tier, ctx.seed)
        fixed_findings(sub, common.rng_for(sub))
        return any(v["replay"].get("finding") == obj["finding"] for v in sub.violations)
    if "edge" in obj:
        sub = common.Ctx(ctx.prop, ctx.tier, ctx.seed)
        implicit_and_edge_cases(sub, common.rng_for(sub))
        return any(v["replay"].get("edge") == obj["edge"] for v in sub.violations)
    sp = obj["spec"]
    bl, br = A(obj["bl"]), A(obj["br"])
    sub = common.Ctx(ctx.prop, ctx.tier, ctx.seed)
    check_tree(sub, sp, bl, br, None, deep=True)
    want = obj.get("observable")
    return any(v["replay"].get("observable") == want for v in sub.violations) or (
        want is None and bool(sub.violations))


LEVEL_TEXT = (
    "Lean 4 proof, by structural induction over an expression type MExpr with one constructor per mici matrix class "
    "(identity, (positive) scaled identity, (positive) diagonal, triangular / inverse triangular, triangular-factored "
    "(positive) definite, dense (positive) definite with checked factor, dense square / inverse-LU with checked inverse, "
    "dense symmetric with checked eigen-data, orthogonal, scaled orthogonal, eigendecomposed, rectangular, block "
    "diagonal/row/column, the three product classes, the three low-rank update classes with sign and capacitance "
    "object); unbounded depth, all sizes, any field. For every well-formed expression (constructor preconditions + "
    "defining equations of all checked factors, decided exactly by the driver): leftMul_agrees, rightMul_agrees, "
    "leftMul_vec_agrees, matmul_agrees, matmul_invertible, matmul_rect_plain (product-class selection), "
    "transpose_agrees, transpose_wf, inv_agrees (two-sided), inv_agrees_nonsing (= Mathlib inverse), inv_wf, "
    "inv_inv_agrees, inv_transpose_comm, smul_agrees, smul_wf, neg_agrees (non-zero scalar multiples sg*r^2), "
    "diagonal_agrees, sdet_agrees / sdet_abs_agrees (the determinant composed the way log_abs_det is composed equals "
    "|det| of the dense array); low-rank updates WITH SIGN in checked-inverse form: lowrank_woodbury_signed with "
    "capacitance C = K^-1 + sign V S^-1 U, lowrank_det_signed, lowrank_unsigned_capacitance_wrong (the pre-fix formula "
    "is refuted on a concrete downdate), ambikasaran_identity, lowrank_sqrt_signed; square roots sqrt_scaledId, "
    "sqrt_diag, sqrt_triFact, sqrt_denseDef, sqrt_eigSym, sqrt_blockDiag; eigen-data eig_diag, eig_denseSym, "
    "eig_blockDiag; evaluator_agrees (the value-level evaluator run by the driver equals the model functions). "
    "Tied to the code by random expression trees (depth <= 4 quick / 7 thorough, sizes 1..5 incl. block sums, both "
    "signs, upper/lower, factors given or absent, precomputed LU/eigen/capacitance data) compared with the model's exact "
    "rational denote/diagonal/sdet/leftMul/rightMul/class name and with dense NumPy for every observable. "
    "Props/C10S (translator tie, re-decided on every run against Generated/MatrixOps.lean = the effective bodies of "
    "_scalar_multiply/_construct_transpose/_construct_inv/_construct_sqrt/... of all 42 classes extracted from the "
    "current source, super()/type(self) resolved per concrete class): for EVERY model expression e the class the "
    "source returns for an object of class cls e on the branch selected by the sign of the scalar equals cls (smul sg "
    "r e) / cls (T e) / cls (inv e) (smul_class_agrees, transpose_class_agrees, inv_class_agrees), "
    "isinstance(., InvertibleMatrix/PositiveDefiniteMatrix/SymmetricMatrix) is the model's predicate, "
    "_choose_matrix_product_class is the model's chooseProd (chooseProduct_agrees); closure facts decided on the table "
    "(pd_inv_closed, pd_pos_scale_closed, pd_neg_scale_symmetric_not_pd, sym_scale_closed, sym_transpose_is_self, "
    "invertible_closed, pd_has_sqrt, every_class_scales_and_transposes); operator wrappers (-M = _scalar_multiply(-1), "
    "M/c = _scalar_multiply(1/c), M@N = chosen product class, lazy .T/.inv/.sqrt; no class overrides them); the "
    "constructor ARGUMENTS of every operation of every modelled class, path by path (params_*: lower flipped under "
    "transpose, same array and lower under inverse, 1/scalar, sign kept / flipped, factor.inv.T, ...); the capacitance "
    "matrix expression of the three low-rank classes evaluates for all values to K^-1 + sign V S^-1 U (capacitance_formula); "
    "the for-loops of _left/_right_matrix_multiply of the three product classes, extracted as folds, evaluate for EVERY "
    "chain of factors to the model's leftMul / rightMul of the product expression (product_leftMul_loop, "
    "product_rightMul_loop) and the comprehensions of the block-diagonal / block-row / block-column classes to the model's "
    "block operations for two blocks (blockdiag_/blockrow_/blockcol_multiply_agrees); no method of the table is left "
    "unrepresented (no_unknown_methods)."
)
LEVEL_NOTE = (
    "Trusted: Lean kernel, axioms {propext, Classical.choice, Quot.sound}; LAPACK solves/factorisations are modelled as "
    "multiplication by checked exact inverses / given factors (Cholesky, eigh, LU, sqrtm are data with their defining "
    "equations as hypotheses; the driver obtains inverses by Gauss-Jordan over Q and decides WF before answering); "
    "log_abs_det is modelled by the determinant it is the log-abs of (sum of logs = product; sign lost: theorem is "
    "sdet^2 = det^2, |sdet| = |det| over ordered fields); scalar multiples are sg*r^2 in the model (factored classes need "
    "sqrt|c|); n-ary products/blocks are nested binary nodes; float rounding is outside the theorems and bounded by "
    "conditioning (cond < 2e3 per generated node, 1e5 at the root) with rtol 1e-8. Classes with irrational data "
    "(SoftAbs, DensePositiveDefiniteProductMatrix, float orthogonal factors, arbitrary scalars, inverse-triangular dense "
    "factors, explicit n-ary product constructors) and implicit sizes are compared with dense NumPy only. Square-shaped "
    "objects of non-square classes have no log_abs_det (adjudicated misuse: counted). Known finding re-detected every "
    "run: PositiveDefiniteLowRankUpdateMatrix.sqrt with a column-rank-deficient factor."
)
TECHNIQUE = (
    "Lean 4 theorems by structural induction over matrix expressions (Mathlib matrices over a field, checked-inverse "
    "data) + random expression-tree correspondence against the exact rational model and dense NumPy + AST translator "
    "(tools/extractors/matrix_ops.py) of every class's operation bodies into a symbolic table whose class algebra and "
    "constructor arguments are proved equal to the model's (Props/C10S, decide +kernel / case analysis over MExpr)"
)
