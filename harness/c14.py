"""C14 — sampling is reproducible and independent of process scheduling.

Model: lean/MiciVerif/Model/Sampler.lean (`stagePar`: workers take chains from the queue in any
order, each gets a pickled copy of the chain's generator, outputs sorted by chain index, generator
state handed back to the parent), theorems lean/MiciVerif/Props/C14.lean.

Tie (X): real runs of the counting kernel (harness/c13.py) under n_process 1..4 and per-chain
delay patterns (the chain id travels in the state; the transition / trace function sleep a
chain-dependent few ms so that pick-up and completion orders vary).  The worker pid is recorded
as a statistic, so the schedule that really happened (which worker ran which chains, per stage)
is reconstructed and fed to the Lean model; the model's arrays / final states / draw log are
compared with the run.  Raw draws are recorded, so stream identity and replay are observed directly.
Direct oracle: pairwise equality of all runs of one configuration with the sequential, undelayed
run; every draw of chain c lies in stream c; positions consumed by a chain strictly increase
(never replayed) across iterations and stages; a chain's output does not depend on the number /
initial states of the other chains when there is no adaptation.  Real HMC (static / dynamic, with
and without dual-averaging + metric adapters, windowed stager) with delays: bitwise equality.
"""
from __future__ import annotations

import time

import numpy as np

from . import c13, common

PROP = "C14"
# Props/C14S.lean: generated control skeleton of the sequential / worker / parallel functions vs the model's
LEAN_MODULES = ["MiciVerif.Props.C14", "MiciVerif.Props.C14S"]
# --- B13: reading of the worker / queue part of the parallel mode (Model/SamplerParSem.lean) = stagePar
LEAN_MODULES += ["MiciVerif.Props.C14P"]
# --- end B13
GENERATED = ["sampler_skeleton"]
LEAN_EXTRA = c13.LEAN_EXTRA


def recorded_stage_rows(cfg):
    """[(stage index, first row, n rows)] of the stages that record."""
    out, off = [], 0
    for k, (n, _kind, traced, rec) in enumerate(c13.stage_table(cfg)):
        if n > 0 and (traced or rec):
            out.append((k, off, n))
            off += n
    return out


def observed_modes(cfg, res):
    """Mode token for the model from the worker pids recorded in the run (stages that do not
    record: any valid schedule; the result does not depend on it by C14.schedule_independent)."""
    if cfg["n_process"] == 1:
        return "seq", None
    n = len(cfg["inits"])
    table = c13.stage_table(cfg)
    default = [[c] for c in range(n)]
    scheds = [default for _ in table]
    seen = []
    for k, off, _cnt in recorded_stage_rows(cfg):
        groups: dict[int, list[int]] = {}
        for c in range(n):
            pid = res["pids"][c][off]
            groups.setdefault(pid, []).append(c)
        scheds[k] = [sorted(g) for g in groups.values()]
        seen.append(sorted(len(g) for g in groups.values()))
    return "par:1:" + ";".join(c13.sched_token(s) for s in scheds), seen


def draw_intervals(cfg, arrays_c):
    """(start, count) of every recorded consumption of one chain, in time order."""
    iv = []
    ja = 0 if (cfg["hasA"] and cfg["aStats"]) else None
    jb = 1 if cfg["hasA"] else 0
    nrow = len(arrays_c[jb])
    for r in range(nrow):
        if ja is not None and arrays_c[ja][r] not in (None, "partial") and cfg["da"] > 0:
            iv.append((arrays_c[ja][r][1] - 1, cfg["da"], r, "a"))
        cell = arrays_c[jb][r]
        if cell not in (None, "partial") and cell[2] > 0:
            iv.append((cell[1] - 1, cell[2], r, "b"))
    return iv


def oracle_streams(cfg, res):
    """Distinct streams / no replay, read off the recorded raw draws. Returns list of (sig, what)."""
    bad = []
    for c, arrs in enumerate(res["arrays"]):
        prev_end = 0
        for start, cnt, r, op in draw_intervals(cfg, arrs):
            if start < 0:
                code = start + 1
                where = "an unknown stream" if code == -1 else f"stream {(-code) // 1000000 - 1} position {(-code) % 1000000 - 1}"
                bad.append(("chain draws from another chain's stream", f"chain {c} row {r} op {op} drew from {where}"))
                break
            if start < prev_end:
                bad.append((
                    "stream replayed within a run",
                    f"chain {c} row {r} op {op} consumed positions [{start},{start + cnt}) although positions "
                    f"below {prev_end} were already consumed",
                ))
                break
            prev_end = start + cnt
        for f in res["finals"]:
            if f[4] < 0:
                bad.append(("chain draws from another chain's stream", f"final state {f} holds a draw of a foreign stream"))
                break
    return bad


def canon(res):
    return {"arrays": res["arrays"], "finals": res["finals"], "lengths": res["lengths"]}


# ---------------------------------------------------------------------------------------
# real HMC with per-chain delays


def hmc_trace(state):
    d = c13.HOOK.delays
    if d is not None:
        s = d.get(int(state.cid), 0.0)
        if s:
            time.sleep(s)
    return {"pos": state.pos, "cid": state.cid, "mom0": state.mom[0]}


def hmc_run(spec, n_process, delays):
    """spec = (kind, adapt, n_warm, n_main, n_chain, trace_warm, seed)."""
    import logging

    import mici

    logging.getLogger("mici").setLevel(logging.CRITICAL + 1)
    kind, adapt, n_warm, n_main, n_chain, trace_warm, seed = spec
    system = mici.systems.EuclideanMetricSystem(neg_log_dens=c13._nld, grad_neg_log_dens=c13._grad)  # noqa: SLF001
    integ = mici.integrators.LeapfrogIntegrator(system, step_size=None if adapt != "none" else 0.3)
    rng = np.random.default_rng(seed)
    if kind == "static":
        sampler = mici.samplers.StaticMetropolisHMC(system, integ, rng, n_step=2)
    elif kind == "random":
        sampler = mici.samplers.RandomMetropolisHMC(system, integ, rng, n_step_range=(1, 4))
    else:
        sampler = mici.samplers.DynamicMultinomialHMC(system, integ, rng, max_tree_depth=3)
    inits = [
        mici.states.ChainState(pos=np.array([0.4 * (c + 1), -0.3, 0.1 * c]), mom=None, dir=1, cid=c)
        for c in range(n_chain)
    ]
    adapters = {
        "none": None,
        "da": [mici.adapters.DualAveragingStepSizeAdapter()],
        "da+var": [mici.adapters.DualAveragingStepSizeAdapter(), mici.adapters.OnlineVarianceMetricAdapter()],
        "da+cov": [mici.adapters.DualAveragingStepSizeAdapter(), mici.adapters.OnlineCovarianceMetricAdapter()],
    }[adapt]
    c13.HOOK.reset()
    c13.HOOK.delays = delays
    try:
        out = c13.with_timeout(
            lambda: sampler.sample_chains(
                n_warm, n_main, inits, adapters=adapters, trace_funcs=[hmc_trace], n_process=n_process,
                trace_warm_up=trace_warm, display_progress=False,
                stager=mici.stagers.WindowedWarmUpStager(2, 2, 2) if adapt in ("da+var", "da+cov") else None,
            ),
            180,
        )
    finally:
        c13.HOOK.reset()
    res = {
        "traces": {k: [np.array(a) for a in v] for k, v in out.traces.items()},
        "stats": {k: [np.array(a) for a in v] for k, v in out.statistics.items()},
        "finals": [(np.array(s.pos), np.array(s.mom), int(s.dir)) for s in out.final_states],
        "step": float(integ.step_size),
    }
    return res


def hmc_diff(a, b):
    for k in a["traces"]:
        for c, (x, y) in enumerate(zip(a["traces"][k], b["traces"][k], strict=True)):
            if not np.array_equal(x, y, equal_nan=x.dtype.kind == "f"):
                r = int(np.argmax([not np.array_equal(u, v, equal_nan=x.dtype.kind == "f") for u, v in zip(x, y, strict=True)]))
                return f"trace {k} chain {c} first differs at row {r}"
    for k in a["stats"]:
        for c, (x, y) in enumerate(zip(a["stats"][k], b["stats"][k], strict=True)):
            if not np.array_equal(x, y, equal_nan=x.dtype.kind == "f"):
                return f"statistic {k} chain {c} differs"
    for c, (x, y) in enumerate(zip(a["finals"], b["finals"], strict=True)):
        if not (np.array_equal(x[0], y[0]) and np.array_equal(x[1], y[1]) and x[2] == y[2]):
            return f"final state of chain {c} differs"
    if a["step"] != b["step"]:
        return f"adapted step size differs: {a['step']} vs {b['step']}"
    return None


# ---------------------------------------------------------------------------------------


def gen_cfg14(rng, multi_stage):
    cfg = c13.gen_cfg(rng, small=True)
    n_chain = int(rng.integers(2, 6))
    cfg["inits"] = [[c, int(rng.integers(0, 4))] for c in range(n_chain)]
    cfg["memmap"] = "mem"
    cfg["db"] = int(rng.integers(1, 3))
    if multi_stage:
        cfg["nw"] = int(rng.choice([2, 3, 5, 6, 8]))
        cfg["nm"] = int(rng.choice([1, 2, 3]))
    else:
        cfg["nw"] = 0
        cfg["nm"] = int(rng.choice([2, 4, 6]))
    cfg["tw"] = bool(rng.random() < 0.7)
    cfg["nf"] = int(rng.choice([1, 2]))
    return cfg


def delay_pattern(rng, n_chain, kind):
    if kind == "none":
        return None
    if kind == "first_slow":
        return {0: 0.006}
    if kind == "last_slow":
        return {n_chain - 1: 0.006}
    if kind == "decreasing":
        return {c: 0.001 * (n_chain - c) for c in range(n_chain)}
    return {c: float(rng.choice([0.0, 0.001, 0.003, 0.005])) for c in range(n_chain)}


def check_cfg(ctx, cfg, variants, reqs_out):
    """Baseline + variants of one configuration. Model requests are queued in reqs_out."""
    case0 = c13.describe(cfg)
    base = c13.real_run({**cfg, "n_process": 1})
    ctx.case(case0, nontrivial=len([1 for t in c13.stage_table(cfg) if t[0] > 0]) >= 2)
    if base["error"]:
        ctx.disagreement(f"sequential run raised {base['error']}", case0)
        return
    for b in c13.oracle_complete({**cfg, "n_process": 1}, base):
        ctx.violation(f"C14 sequential baseline: {b.split(':')[0][:50]}", f"{b} for {case0}", {"cfg": {**cfg, "n_process": 1}})
    for sig, what in oracle_streams(cfg, base):
        ctx.violation(sig, f"{what} (n_process=1) for {case0}", {"cfg": {**cfg, "n_process": 1}, "delays": None})
    for npr, dk, delays in variants:
        vcfg = {**cfg, "n_process": npr}
        case = {**c13.describe(vcfg), "delays": delays, "delay_kind": dk}
        res = c13.real_run(vcfg, delays=delays)
        ctx.case(case, nontrivial=True)
        ctx.count(f"n_process={npr}")
        ctx.count(f"delay={dk}")
        replay = {"cfg": vcfg, "delays": delays}
        if res["error"]:
            ctx.violation("C14 parallel run raised", f"n_process={npr} run raised {res['error']} for {case}", replay)
            continue
        if canon(res) != canon(base):
            d = c13.diff_arrays(cfg, res["arrays"], base["arrays"], f"n_process={npr}", "n_process=1")
            if d is None:
                d = f"final states {res['finals']} vs {base['finals']}"
            multi = len(recorded_stage_rows(cfg)) >= 1 and len([1 for t in c13.stage_table(cfg) if t[0] > 0]) >= 2
            ctx.violation(
                "outputs depend on n_process/schedule" + (" (multi-stage)" if multi else ""),
                f"{d} (delays {delays}) for {case}", replay,
            )
        for sig, what in oracle_streams(cfg, res):
            ctx.violation(sig, f"{what} (n_process={npr}, delays {delays}) for {case}", replay)
        modes, seen = observed_modes(vcfg, res)
        for s in seen or []:
            ctx.count("observed_schedule_group_sizes=" + "/".join(str(v) for v in s))
        reqs_out.append((c13.model_request(vcfg, modes), vcfg, res, case))


def replay_corpus(ctx):
    """Past failing inputs (corpus/C14/*.json) are re-executed first."""
    import json

    for f in sorted((common.VERIF / "corpus" / PROP).glob("*.json")):
        obj = json.loads(f.read_text())
        ctx.count("corpus_case")
        try:
            still = replay(ctx, obj)
        except Exception as e:  # noqa: BLE001
            ctx.disagreement(f"corpus case {f.name} raised {type(e).__name__}: {e}", {"corpus": f.name})
            continue
        if still:
            ctx.violation(obj.get("signature", "corpus:" + f.name), f"corpus case {f.name} fails: {obj.get('comment', '')}",
                          {k: v for k, v in obj.items() if k not in ("comment", "signature")})


def run(ctx: common.Ctx):
    c13.classes()
    replay_corpus(ctx)
    rng = common.rng_for(ctx)
    ctx.rule = (
        "counting-kernel configurations (2-5 chains, single- and multi-stage, adapters none/fast/fast+slow/slow, "
        "bit generators PCG64/PCG64DXSM/Philox/MT19937/SFC64) each run sequentially and under n_process 2-4 with "
        "delay patterns {none, first slow, last slow, decreasing, random}; non-trivial = parallel run or multi-stage. "
        "HMC: static/random/dynamic x adapters none/da/da+var/da+cov x n_process 1-4 x delays"
    )
    ctx.assumptions += [
        "OS schedules are sampled (perturbed by delays), not enumerated; the schedule that happened is read "
        "off the recorded worker pids and replayed in the model",
        "user adapters establish the transition parameters in `initialize` (true of the built-in ones); "
        "hypothesis `AdaptLocal` of the theorems",
    ]
    reqs: list = []
    n_cfg = ctx.n(18, 300) * (c13.skeleton_escalation(ctx) if ctx.quick else 1)
    for k in range(n_cfg):
        cfg = gen_cfg14(rng, multi_stage=k % 3 != 0)
        n_chain = len(cfg["inits"])
        variants = []
        for _ in range(ctx.n(3, 5)):
            npr = int(rng.choice([2, 2, 3, 4]))
            dk = str(rng.choice(["none", "first_slow", "last_slow", "decreasing", "random"]))
            variants.append((npr, dk, delay_pattern(rng, n_chain, dk)))
        check_cfg(ctx, cfg, variants, reqs)
    # fixed multi-stage configuration: 8 warm-up + 5 main, 2 processes (the probe of DESIGN §6 item 10)
    fixed = {**c13.DEFAULT, "inits": [[0, 0], [1, 0], [2, 1]], "nw": 8, "nm": 5, "tw": True, "hs": False,
             "stager": "warm", "nf": 1}
    check_cfg(ctx, fixed, [(2, "none", None), (3, "decreasing", {0: 0.003, 1: 0.002, 2: 0.001})], reqs)
    # correspondence with the model under the observed schedules
    model = common.run_driver("C14", [r[0] for r in reqs]) if reqs else []
    for (req, vcfg, res, case), mline in zip(reqs, model, strict=True):
        m = c13.parse_model(mline)
        d = c13.diff_arrays(vcfg, res["arrays"], [c["arrays"] for c in m["chains"]])
        if d:
            ctx.disagreement("arrays differ from model under observed schedule: " + d, {**case, "request": req})
        elif res["finals"] != m["finals"]:
            ctx.disagreement(f"final states differ from model: impl {res['finals']} model {m['finals']}", {**case, "request": req})
        else:
            # the model's draw log: every recorded draw interval must appear in it, in order
            for c, arrs in enumerate(res["arrays"]):
                log = m["chains"][c]["log"]
                it = iter(log)
                for start, cnt, r, op in draw_intervals(vcfg, arrs):
                    if not any(e == (start, cnt) for e in it):
                        ctx.disagreement(
                            f"chain {c} row {r} op {op}: recorded draws [{start},+{cnt}) not in model log {log[:8]}…",
                            {**case, "request": req},
                        )
                        break
    # independence of a chain from the other chains (no adaptation)
    for _ in range(ctx.n(30, 200)):
        cfg = gen_cfg14(rng, multi_stage=bool(rng.random() < 0.5))
        cfg["hf"] = cfg["hs"] = False
        cfg["stager"] = "warm"
        n = len(cfg["inits"])
        keep = int(rng.integers(0, n))
        other = {**cfg, "inits": [[c, int(rng.integers(0, 6))] if c != keep else cfg["inits"][c] for c in range(int(rng.integers(keep + 1, 6)))]}
        a, b = c13.real_run(cfg), c13.real_run(other)
        case = {"cfg": c13.describe(cfg), "other_inits": other["inits"], "chain": keep}
        ctx.case(case)
        ctx.count("independence_pair")
        if a["error"] or b["error"]:
            ctx.disagreement(f"run raised {a['error'] or b['error']}", case)
        elif a["arrays"][keep] != b["arrays"][keep] or a["finals"][keep] != b["finals"][keep]:
            ctx.violation(
                "chain output depends on other chains",
                f"chain {keep} differs between inits {cfg['inits']} and {other['inits']}: {case}",
                {"cfg": cfg, "other_inits": other["inits"], "chain": keep},
            )
    # real HMC
    specs = [
        ("static", "none", 0, 4, 3, False, 11), ("static", "da", 6, 3, 3, True, 12),
        ("dynamic", "da+var", 9, 3, 2, True, 13), ("random", "da+cov", 8, 2, 3, False, 14),
    ]
    for _ in range(ctx.n(4, 30)):
        specs.append((
            str(rng.choice(["static", "random", "dynamic"])), str(rng.choice(["none", "da", "da+var", "da+cov"])),
            int(rng.choice([0, 4, 7, 9])), int(rng.integers(1, 4)), int(rng.integers(2, 5)), bool(rng.random() < 0.5),
            int(rng.integers(0, 1000)),
        ))
    for spec in specs:
        if spec[1] != "none" and spec[2] == 0:
            spec = (*spec[:2], 6, *spec[3:])
        case0 = {"hmc": list(spec)}
        try:
            base = hmc_run(spec, 1, None)
        except Exception as e:  # noqa: BLE001
            ctx.disagreement(f"sequential HMC run raised {type(e).__name__}: {e}", case0)
            continue
        ctx.case(case0)
        for _ in range(ctx.n(2, 3)):
            npr = int(rng.choice([2, 3, 4]))
            dk = str(rng.choice(["none", "first_slow", "decreasing", "random"]))
            delays = delay_pattern(rng, spec[4], dk)
            case = {"hmc": list(spec), "n_process": npr, "delays": delays}
            try:
                res = hmc_run(spec, npr, delays)
            except Exception as e:  # noqa: BLE001
                ctx.violation("C14 parallel run raised", f"HMC run raised {type(e).__name__}: {e} for {case}", case)
                continue
            ctx.case(case)
            ctx.count(f"hmc_{spec[0]}_{spec[1]}")
            d = hmc_diff(res, base)
            if d:
                ctx.violation(
                    "outputs depend on n_process/schedule" + (" (multi-stage)" if spec[2] > 0 else ""),
                    f"HMC {d} between n_process=1 and {case}", case,
                )


def replay(ctx, obj):
    c13.classes()
    if "hmc" in obj:
        spec = tuple(obj["hmc"])
        try:
            base = hmc_run(spec, 1, None)
            res = hmc_run(spec, obj["n_process"], {int(k): v for k, v in (obj.get("delays") or {}).items()} or None)
        except Exception:  # noqa: BLE001
            return True
        return hmc_diff(res, base) is not None
    if "other_inits" in obj:
        cfg = obj["cfg"]
        a, b = c13.real_run(cfg), c13.real_run({**cfg, "inits": obj["other_inits"]})
        k = obj["chain"]
        return bool(a["error"] or b["error"] or a["arrays"][k] != b["arrays"][k] or a["finals"][k] != b["finals"][k])
    if "cfg" in obj:
        cfg = obj["cfg"]
        delays = {int(k): v for k, v in (obj.get("delays") or {}).items()} or None
        # schedules are not reproducible exactly: repeat a few times
        for _ in range(3):
            base = c13.real_run({**cfg, "n_process": 1})
            res = c13.real_run(cfg, delays=delays)
            if res["error"] or base["error"] or canon(res) != canon(base) or oracle_streams(cfg, res):
                return True
        return False
    return False


LEVEL_TEXT = (
    "Lean 4 proof for the model of parallel / sequential stage execution: for EVERY assignment of chains to "
    "workers and every order in which workers deliver their outputs the collated stage result (arrays, final "
    "states, adapter states, parent generators) is the same (schedule_independent) and equals the sequential "
    "result, for multi-stage runs (nprocess_independent; the model of the code before the generator hand-back "
    "provably restarts the stream: old_model_replays); chain c only ever draws from stream c "
    "(chains_distinct_streams); the positions consumed by the successive iterations, stages and adapter "
    "finalisations of a chain are consecutive, hence pairwise disjoint (no_replay); without adaptation a chain's "
    "output does not depend on the other chains (chain_independent). Hypothesis on user adapters: the transition "
    "parameters a chain run depends on are (re)established by `initialize` (AdaptLocal; primitive sufficient "
    "conditions in adaptLocal_sufficient, proved for the harness's counting kernel with its fast/slow adapters in "
    "counting_kernel_adaptLocal; the parallel-mode versions of the stream facts are streams_and_no_replay_parallel). "
    "Tied to the code by real "
    "runs under n_process 1-4 with per-chain delays whose observed schedules are replayed in the model, with raw "
    "draws recorded."
    " Source-text tie (Props/C14S): the statement trees of _sample_chains_sequential, _sample_chains_worker and _sample_chains_parallel are re-extracted on every run and proved equal to the trees the model's seqStep / workerRun / stagePar were written against; separate theorems: generators created once per call and passed to every stage and to finalize, sequential mode passes the parent's objects, the worker returns its generator state, the parent writes it back by chain index, outputs sorted by chain index, every chain queued once."
)
LEVEL_NOTE = (
    "Partial: real OS schedules are sampled (perturbed by delays), not enumerated; process pools, pickling of "
    "generators / states / transitions, the manager queues and memmap files are exercised, not proved. Generators "
    "are modelled as (stream id, position) with `jumped(i)` giving stream i; statistical independence of jumped / "
    "spawned streams is NumPy's. The base generator is not advanced by sample_chains (chain 0 = jumped(0) = the "
    "base stream): two successive calls on one sampler replay the same streams — outside 'within a run'."
)
TECHNIQUE = (
    "Lean 4 theorems (permutation / sorted-list arguments over an executable model of the worker pool) + real "
    "multi-process runs with observed-schedule replay in the model and pairwise output equality"
    " + AST-extracted control skeleton of the hand-off code proved equal to the model's (decide +kernel)"
)
