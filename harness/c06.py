"""C06 — a step of size eps approximates the exact flow of the system's own Hamiltonian over time eps to
second order; symmetric compositions are consistent.

Model: lean/MiciVerif/Model/Integrators.lean, theorems lean/MiciVerif/Props/C06.lean.
Direct oracles (this file, on the real code): one real step of size eps, eps/2, eps/4 against a
high-accuracy ODE solution (scipy DOP853, rtol = atol = 1e-13) of Hamilton's equations built from the
system's own dh_dmom / dh_dpos (constrained systems: index-reduced DAE with the analytic constraint
Hessian); observed orders of the local error (>= 2.7) and of the one-step energy error (>= 1.7),
first-order sanity (local error << displacement) and an absolute bound C eps^3; live coefficient lists
of SymmetricCompositionIntegrator / BCSS* are palindromic with per-flow sums exactly one.
"""
from __future__ import annotations

import numpy as np

from . import common
from . import integ_common as ic

PROP = "C06"
LEAN_MODULES = ["MiciVerif.Props.C06", "MiciVerif.Props.C06S"]
GENERATED = ["integ_steps"]   # tools/extractors/integ_steps.py -> Generated/IntegSteps.lean (step structure of every class)
LEAN_EXTRA = ["MiciVerif.Model.Integrators", "MiciVerif.Lemmas.IntegratorsExec", "MiciVerif.Proto", "MiciVerif.Model.IntegratorsImplicit", "MiciVerif.Model.IntegratorsTangent"]


# ---------------------------------------------------------------------------------------
# FILLED IN BY LEAN-SIDE AUTHOR
def correspondence(ctx):
    """Lean model vs real integrators: coefficient lists (exact) and single steps for several step sizes."""
    from . import integ_corr

    rng = common.rng_for(ctx, 1)
    integ_corr.coefficient_cases(ctx, rng, ctx.n(60, 600))
    integ_corr.step_cases(ctx, rng, ctx.n(45, 400), eps_list=[0.5, 0.25, 0.125, 0.0625], tag="steps")
    integ_corr.implicit_cases(ctx, rng, ctx.n(30, 300))
    integ_corr.constrained_cases(ctx, rng, ctx.n(12, 150))


# ---------------------------------------------------------------------------------------
# direct oracles

ORDER_LOCAL_MIN = 2.7
ORDER_ENERGY_MIN = 1.7
FLOOR_EXPLICIT = 1e-12
FLOOR_ITERATIVE = 1e-10   # iterative solvers are run with tight tolerances (1e-13)
RATIO_MAX = 0.05          # local error at eps/4 must be below 5% of the displacement over eps/4
C_ABS = 20.0              # e(eps) <= C_ABS * (eps * freq)^3 * (1 + |z| + |X_h(z)|)   (calibrated loosely)
CASE_TIMEOUT = 120.0


def _cls(case):
    return ic.integrator_class_name(case["integrator"])


def measure(case):
    """Errors of real steps against the reference flow.

    Returns dict(status=..., rows=[per state: dict(e=[3], de=[3], disp=..)], eps=[3])."""
    import mici

    sysw = ic.build_system(case["system"])
    d = sysw.dim
    eps0 = ic.fl(case["integrator"]["step_size"])
    epss = [eps0, eps0 / 2, eps0 / 4]
    rows = []
    for sspec in case["states"]:
        st0 = ic.build_state(sspec)
        z0 = ic.zvec(st0)
        dr = int(st0.dir)
        h0 = sysw.h(z0)
        e, de = [], []
        ref = None
        for eps in epss:
            integ = ic.build_integrator(sysw, ic.with_step_size(case["integrator"], eps))
            try:
                with np.errstate(all="ignore"):
                    s1 = integ.step(sysw.state(z0[:d], z0[d:], dr))
            except mici.errors.IntegratorError as ex:
                return {"status": "error:" + type(ex).__name__}
            z1 = ic.zvec(s1)
            if not np.all(np.isfinite(z1)):
                return {"status": "nonfinite"}
            ref = sysw.reference_flow(z0, dr * eps)
            e.append(float(np.max(np.abs(z1 - ref))))
            de.append(abs(sysw.h(z1) - h0))
        rows.append({"e": e, "de": de, "disp": float(np.max(np.abs(ref - z0))),
                     "znorm": float(np.max(np.abs(z0))) + float(np.max(np.abs(sysw.vector_field(z0))))})
    return {"status": "ok", "rows": rows, "eps": epss, "freq": sysw.scale()}


def judge(case, m, info=None):
    """Apply the C06 oracles to the measurements; list of (signature, what)."""
    info = info if info is not None else {}
    cls = _cls(case)
    fails = []
    floor = FLOOR_EXPLICIT if case["integrator"]["kind"] in ic.EXPLICIT_KINDS else FLOOR_ITERATIVE
    rows, epss = m["rows"], m["eps"]
    ratios, absr = [], []
    # pooled over the states (robust against a vanishing leading error coefficient at a single state)
    et = [sum(r["e"][k] for r in rows) for k in range(3)]
    dt = [sum(r["de"][k] for r in rows) for k in range(3)]
    nfl = floor * len(rows)
    ords = [float(np.log2(et[1] / et[2]))] if et[2] > nfl and et[1] > nfl else []
    eords = [float(np.log2(dt[0] / dt[2]) / 2.0)] if dt[2] > nfl and dt[0] > nfl else []
    for r in rows:
        e = r["e"]
        if r["disp"] > 1e-6:
            ratios.append(e[2] / r["disp"])
        absr.append(max(e[k] / ((epss[k] * m["freq"]) ** 3 * (1 + r["znorm"])) for k in range(3)))
    desc = ic.describe(case)
    info["order"] = ords[0] if ords else None
    info["eorder"] = eords[0] if eords else None
    info["ratio"] = float(np.median(ratios)) if ratios else None
    info["abs"] = float(max(absr))
    if ords and info["order"] < ORDER_LOCAL_MIN:
        fails.append((f"{cls} local error order", f"observed order of the local error {info['order']:.2f} < {ORDER_LOCAL_MIN} (errors at eps, eps/2, eps/4 summed over the states: {et}) [{desc}]"))
    if eords and info["eorder"] < ORDER_ENERGY_MIN:
        fails.append((f"{cls} energy error order", f"observed order of the one-step energy error {info['eorder']:.2f} < {ORDER_ENERGY_MIN} (|Δh| at eps, eps/2, eps/4 summed over the states: {dt}) [{desc}]"))
    if ratios and info["ratio"] > RATIO_MAX:
        fails.append((f"{cls} not consistent", f"local error at eps/4 is {info['ratio']:.2f} x the displacement of the exact flow over eps/4 (a consistent step has ratio O(eps^2)) [{desc}]"))
    if info["abs"] > C_ABS:
        fails.append((f"{cls} local error bound", f"local error exceeds {C_ABS} (eps*freq)^3 (1+|z|+|X_h(z)|): ratio {info['abs']:.1f} [{desc}]"))
    return fails


def check_case(case, info=None):
    info = info if info is not None else {}
    if case["check"] == "coefficients":
        sysw = ic.build_system(case["system"])
        integ = ic.build_integrator(sysw, case["integrator"])
        cls = _cls(case)
        out = [(f"{cls} coefficients {tag}", msg + f" [{ic.describe(case)}]")
               for tag, msg in ic.coefficient_failures(integ, sysw.system, exact=case["integrator"]["kind"] == "symcomp")]
        if case["integrator"]["kind"] == "symcomp" and len(integ.coefficients) != 2 * len(case["integrator"]["free"]) + 3:
            out.append((f"{cls} coefficients length", f"{len(integ.coefficients)} coefficients for {len(case['integrator']['free'])} free ones"))
        # independent derivation of the full list from the free coefficients (published values for BCSS)
        kind = case["integrator"]["kind"]
        free = [float(v) for v in ic.dec(case["integrator"]["free"])] if kind == "symcomp" else ic.BCSS_FREE[kind]
        want, _ = ic.expected_coefficients(free)
        got = [float(c) for c in integ.coefficients]
        if len(got) == len(want):
            dev = max(abs(a - b) for a, b in zip(got, want))
            if dev > (0.0 if kind == "symcomp" else 1e-15):
                out.append((f"{cls} coefficients differ from the documented scheme",
                            f"coefficients {got} differ from (a_0, b_1, a_1, ...) = {want} derived from the free coefficients {free} by {dev:.3e}"))
        info["status"] = "ok"
        return out
    cls = _cls(case)
    try:
        m = measure(case)
    except ic.Timeout:
        raise
    except common.MachineryError:
        raise
    except Exception as e:  # noqa: BLE001
        info["status"] = "exception"
        return [(f"{cls}.step raises {type(e).__name__}", f"step raised {type(e).__name__}: {e} [{ic.describe(case)}]")]
    info["status"] = m["status"]
    if m["status"] != "ok":
        return []
    fails = judge(case, m, info)
    # The statement is asymptotic: a stiff state (large forces / curvature) may not be in the asymptotic
    # regime at eps0.  Re-measure with eps0/4 and eps0/16 before reporting; a step that is not second
    # order accurate (e.g. advances a different amount of time) fails at every level.
    k = 0
    while fails and k < 2:
        k += 1
        c2 = dict(case)
        c2["integrator"] = ic.with_step_size(case["integrator"], ic.fl(case["integrator"]["step_size"]) / 4.0**k)
        try:
            m2 = measure(c2)
        except ic.Timeout:
            raise
        except Exception:  # noqa: BLE001
            break
        if m2["status"] != "ok":
            break
        fails = judge(c2, m2, info)
    info["refinements"] = k
    return fails


def _make_case(rng, ikind, skind, n_states=3):
    sspec = ic.random_system_spec(rng, skind)
    sysw = ic.build_system(sspec)
    eps0 = ic.dyadic_step(sysw, 0.5)
    ispec = ic.random_integrator_spec(rng, ikind, eps0, tight=True)
    if ikind == "symcomp":
        # keep the sub-steps moderate so that eps0 is inside the asymptotic regime
        ispec["free"] = ic.enc([float(v) for v in ic.dy(rng, (len(ispec["free"]),), 32, 0.0625, 0.375)])
    states = [ic.random_state_spec(rng, sysw) for _ in range(n_states)]
    return {"check": "order", "system": sspec, "integrator": ispec, "states": states}


def broken_structure_tie(ctx):
    """(broken?, integrator kinds whose generated step-structure table differs from the clean-tree copy, definitions).
    Broken = a `Props/C06S.lean` obligation (generated table = structure of the hand model) no longer checks."""
    broken = (not ctx.build_ok) or any((not o["ok"]) and ".C06S." in o["theorem"] for o in ctx.obligations)
    if not broken:
        return False, [], []
    try:
        import sys as _sys

        tools = str(common.VERIF / "tools")
        if tools not in _sys.path:
            _sys.path.insert(0, tools)
        from extractors import integ_steps

        kinds, names = integ_steps.changed_kinds(common.REPO, common.LEAN / "MiciVerif" / "Generated.expected" / "IntegSteps.lean")
    except Exception as e:  # noqa: BLE001
        kinds, names = list(ic.INTEGRATOR_KINDS), [f"<{type(e).__name__}: {e}>"]
    if not kinds:
        kinds = list(ic.INTEGRATOR_KINDS)
    return True, kinds, names


def broken_structure_theorems(ctx, module="C06S"):
    """Names of the theorems of Props/<module>.lean at which the build log reports an error (the build stops being
    per-theorem once a module fails, so the log is mapped back to the enclosing `theorem`)."""
    import re

    path = common.LEAN / "MiciVerif" / "Props" / f"{module}.lean"
    try:
        lines = path.read_text().splitlines()
    except OSError:
        return []
    out = []
    for m in re.finditer(rf"error: MiciVerif/Props/{module}\.lean:(\d+):", ctx.build_log or ""):
        ln = int(m.group(1))
        for i in range(min(ln, len(lines)) - 1, -1, -1):
            mm = re.match(r"^theorem\s+(\S+)", lines[i])
            if mm:
                if mm.group(1) not in out:
                    out.append(mm.group(1))
                break
            if re.match(r"^example\b", lines[i]):
                break
    return out


def tie_note(ctx, kinds, names, module="C06S"):
    ths = broken_structure_theorems(ctx, module)
    return (f" | BROKEN PROOF OBLIGATION {module}: " + (", ".join(ths[:6]) if ths else "module does not build")
            + f" (generated definitions differing from the clean-tree table: {', '.join(names[:8])}; classes: {', '.join(kinds)})")


def direct_oracles(ctx):
    rng = common.rng_for(ctx, 6)
    ic.selfcheck(common.rng_for(ctx, 99), 3)
    escalate, esc_kinds, esc_names = broken_structure_tie(ctx)
    if escalate:
        ctx.count("search_escalated:" + ",".join(esc_kinds))
        ctx.extra["structure_tie_broken"] = {"kinds": esc_kinds, "generated_definitions_differing": esc_names}
    # (a) coefficient consistency on live objects
    for r in range(ctx.n(300, 3000) * (3 if escalate and any(k in esc_kinds for k in ("symcomp", "bcss2", "bcss3", "bcss4")) else 1)):
        ikind = ("symcomp", "symcomp", "symcomp", "bcss2", "bcss3", "bcss4")[r % 6] if r >= 24 else ("symcomp", "bcss2", "bcss3", "bcss4")[r % 4]
        skind = ("euclidean", "gaussian")[r % 2]
        sspec = ic.random_system_spec(rng, skind, dim=int(rng.integers(1, 4)))
        ispec = ic.random_integrator_spec(rng, ikind, 0.125, n_free=(r // 6) % 7 if ikind == "symcomp" else None)
        case = {"check": "coefficients", "system": sspec, "integrator": ispec}
        ctx.case({"coeff": ispec.get("free", ikind), "init": ispec.get("initial_h1")}, nontrivial=ikind == "symcomp" and len(ispec["free"]) > 0)
        ctx.count(f"coefficients:{ikind}:n_free={len(ispec.get('free', []))}")
        try:
            fails = check_case(case)
        except Exception as e:  # noqa: BLE001
            fails = [(f"{_cls(case)} construction raises", f"{type(e).__name__}: {e} [{ic.describe(case)}]")]
        for sig, what in fails:
            if escalate and ikind in esc_kinds:
                what += tie_note(ctx, esc_kinds, esc_names)
            ctx.violation(sig, what, case)
    # (b) observed orders against the reference flow
    plan = []
    for ikind in ic.INTEGRATOR_KINDS:
        for skind in ic.compatible_system_kinds(ikind):
            reps = ctx.n(10, 100) if ikind in ic.EXPLICIT_KINDS else ctx.n(8, 80) if ikind in ic.IMPLICIT_KINDS else ctx.n(40, 400)
            if ikind in ic.IMPLICIT_KINDS and skind in ic.UNCONSTRAINED_TRACTABLE:
                reps = ctx.n(3, 30)
            if escalate and ikind in esc_kinds:
                # the step-structure table of this class changed: aim the search at it
                reps = 4 * reps if ikind in ic.EXPLICIT_KINDS else 3 * reps
            plan += [(ikind, skind)] * reps
    for ikind, skind in plan:
        try:
            case = _make_case(rng, ikind, skind)
        except common.MachineryError:
            raise
        except Exception as e:  # noqa: BLE001
            ctx.violation(f"{ikind} construction raises", f"building {ikind} on {skind} raised {type(e).__name__}: {e}", {"check": "build"})
            continue
        info: dict = {}
        try:
            fails = ic.with_timeout(lambda c=case, i=info: check_case(c, i), CASE_TIMEOUT)
        except ic.Timeout:
            info["status"] = "timeout"
            fails = [(f"{_cls(case)}.step does not return", f"order measurement did not finish in {CASE_TIMEOUT} s [{ic.describe(case)}]")]
        st = info.get("status", "?")
        ctx.case({"i": ikind, "s": skind, "id": common.stable_hash(case)}, nontrivial=st == "ok" and info.get("order") is not None)
        ctx.count(f"order:{ikind}:{skind}:{st}")
        if st == "ok":
            if info.get("order") is None:
                ctx.count("order:local_error_at_rounding_level")
            else:
                o = info["order"]
                ctx.count("order:local=" + ("<2.7" if o < 2.7 else "2.7-3.3" if o < 3.3 else "3.3-4.5" if o < 4.5 else ">4.5"))
            if info.get("eorder") is None:
                ctx.count("order:energy_error_at_rounding_level")
            if info.get("refinements"):
                ctx.count(f"order:refined_step_size_x{info['refinements']}")
        for sig, what in fails:
            if escalate and ikind in esc_kinds:
                what += tie_note(ctx, esc_kinds, esc_names)
            ctx.violation(sig, what, case)
    for k, v in ic.STATS.items():
        ctx.count("lib:" + k, v)


def run(ctx: common.Ctx):
    ctx.rule = (
        "coefficients: live SymmetricCompositionIntegrator objects for dyadic free-coefficient lists of length "
        "0-6 x both initial flows, BCSS 2/3/4; orders: every integrator class x compatible system class (as C02) "
        "x 3 dyadic states x dir in {+1,-1} x step sizes eps0, eps0/2, eps0/4 with eps0 = 2^k <= 0.5/frequency "
        "scale; non-trivial = measurable local error (above rounding level) at all three step sizes"
    )
    ctx.assumptions += [
        "reference flow: scipy DOP853 rtol=atol=1e-13 on the system's own dh_dmom/dh_dpos (constrained: index-reduced "
        "DAE with analytic constraint Hessian and the system's own dh1_dpos + dh2_dpos)",
        "iterative solvers run with tightened tolerances (1e-13 / 1e-12) so that solver noise is below the local error",
        "thresholds: local order >= 2.7, energy order >= 1.7 (errors pooled over 3 states; energy order from eps0 vs eps0/4), local error at eps/4 <= 0.05 x "
        "displacement, local error <= 20 (eps freq)^3 (1+|z|+|X_h(z)|); a failing case is re-measured at eps0/4 and eps0/16 before it is reported",
    ]
    from . import integ_corr
    import sys

    integ_corr.replay_corpus(ctx, sys.modules[__name__])
    correspondence(ctx)
    direct_oracles(ctx)


def replay(ctx, obj):  # noqa: ARG001
    if obj.get("check") == "build":
        return True
    case = {k: obj[k] for k in ("check", "system", "integrator", "states") if k in obj}
    try:
        return bool(ic.with_timeout(lambda: check_case(case), CASE_TIMEOUT))
    except ic.Timeout:
        return True
    except Exception:  # noqa: BLE001
        return True


LEVEL_TEXT = (
    'Lean 4 proof: for EVERY list of free coefficients the derived composition coefficients are palindromic and the '
    'coefficients paired with flow A and with flow B each sum to one (coeffs_palindrome, coeffs_sum_a, coeffs_sum_b, '
    'coeffs_length_flows; leapfrog/BCSS2/3/4 are instances). Leapfrog on a NON-LINEAR potential: exact algebraic identity '
    'step = second-order Taylor jet of the exact flow + (0, eps^3/4 H N g(q) - eps/2 r(delta)) with r the Taylor remainder '
    'of the gradient at a displacement delta = O(eps) (leapfrog_jet_pos, leapfrog_jet_mom, leapfrog_local_error, '
    'leapfrog_local_error_quadratic, leapfrog_energy_error_1d). ALL symmetric compositions on linear systems: the step '
    'matrix equals 1 + eps F + eps^2/2 F^2 + eps^3 rest(eps) with F the Hamiltonian vector field matrix and rest an explicit '
    'polynomial, for every free list and both initial flows (ordered_sums_palindrome, stepProd_jet, symComp_order2_linear, '
    'stepMatrix_spec linking the matrix to the model step). Negative control: a step whose sub-steps use the full time step '
    'has first-order jet x + 2 eps f(x) (fullstep_first_order_defect). STRUCTURE TIE (Props/C06S.lean, re-decided on every run '
    'against Generated/IntegSteps.lean, which tools/extractors/integ_steps.py regenerates from integrators.py by pure ast): for '
    'every class the ordered list of calls of `_step` with their time arguments as exact rationals of `time_step`, the helper '
    'descriptors (flow / fixed-point solve / explicit update + reverse check / constrained retraction loop) and '
    '`Integrator.step` equal the structure of the hand models (*_steps_eq_model, stepWrapper_eq_model), running the generated '
    'tables IS leapfrog / glStep / imStep / conStep (*_run_eq_model); SymmetricCompositionIntegrator.__init__/_step translated '
    'statement by statement into Lean functions equal deriveCoeffs / flowsList / symComp for EVERY free list '
    '(coefficients_eq_model, flows_eq_model, symComp_generated_eq_model); BCSS decimal literals equal the published values digit '
    'for digit (bcss_literals_eq_published, bcss_floats_close); per class the fractions of every component sum to exactly 1 and '
    'the arrangement is an (adjoint-paired) palindrome (*_consistent, constrainedLeapfrog_inner_sum). Tie: live `integrator.coefficients` vs the model '
    'exactly; single and multiple steps of real integrators vs the exact-rational model for eps in {1/2,1/4,1/8,1/16}; '
    'implicit leapfrog/midpoint and constrained leapfrog (linear constraints) vs the model (which mirrors the time_step/2 '
    'and time_step/n_inner arrangement). Direct oracle: observed order of '
    'local error (>= 2.7) and energy error (>= 1.7) of the real step against an independent high-accuracy ODE/DAE reference '
    "of the system's OWN Hamiltonian for all integrators x system classes, plus absolute consistency bounds and published "
    'BCSS coefficient values; when a C06S obligation is broken the search is multiplied (x3-4) for the classes whose table changed.'
)
LEVEL_NOTE = (
    'Trusted: Lean kernel, axioms {propext, Classical.choice, Quot.sound}; the analytic fact that the Taylor remainder of a '
    'C^2 gradient is O(|delta|^2) and that agreement of jets to order eps^2 means local error O(eps^3) (DESIGN section 4 (iv)); '
    'SciPy DOP853 as reference integrator; tolerances of the observed-order test; the translator plug-in integ_steps.py and '
    'the interpretation of its tables (Lemmas/IntegSteps.lean: glRun / imRun / conRun; fail closed: unknown shapes make '
    'translator_complete fail). PARTIAL: for implicit and constrained '
    'integrators and for non-linear targets under general compositions second order is established by the observed-order '
    'oracle, not by a theorem.'
)
TECHNIQUE = 'Lean 4 theorems (coefficient identities, exact jet identities in non-commutative rings) + model/implementation correspondence + observed-order oracle against an independent ODE/DAE reference'
