"""C12 — numerical failures inside a trajectory are contained as rejections.

Theorems: lean/MiciVerif/Props/C12.lean (generated-table obligations, fixed-point solver
soundness for every fault script, containment on the orbit-level transition model).
Tie: (T) tools/extractors/errors.py regenerates Generated/Errors.lean from the source;
(X) the real fixed-point solvers vs the Lean solver model on the same fault scripts.
Fault enumeration / direct oracle: for sampled (quick) or all (thorough) call indices k of
the user-supplied functions × fault kinds × transition × integrator × solver configurations,
inject the fault into the real code in a 3-iteration chain and check: `sample` returns, the
state stays finite and is the previous state or a finite-energy candidate, failures are
recorded in the statistics, later iterations run, no foreign exception escapes a solver.
"""
from __future__ import annotations

import math
import sys
from fractions import Fraction

import numpy as np

from . import common

PROP = "C12"
GENERATED = ["errors", "solver_loops"]
LEAN_MODULES = ["MiciVerif.Props.C12", "MiciVerif.Props.C12T", "MiciVerif.Props.C12S"]
LEAN_EXTRA = ["MiciVerif.Model.Solvers", "MiciVerif.Proto", "MiciVerif.Generated.Errors"]
# >>> builder B8: source-skeleton tie of transitions.py / Integrator.step (tools/extractors/transition_skeleton.py ->
# Generated/TransitionSkeleton.lean; theorems in Props/C12K.lean).  A broken C12K obligation makes `escalated(ctx)`
# true like any other broken obligation (exhaustive fault plan).
GENERATED = [*GENERATED, "transition_skeleton"]
LEAN_MODULES = [*LEAN_MODULES, "MiciVerif.Props.C12K"]
# <<< builder B8


class Foreign(Exception):
    pass


# ---------------------------------------------------------------------------------------
# (X) fixed-point solvers vs model


def fp_section(ctx, rng):
    import mici
    from mici.errors import ConvergenceError

    reqs, metas = [], []
    a_vals = [Fraction(1, 2), Fraction(-1, 2), Fraction(1, 4), Fraction(3, 4), Fraction(1), Fraction(2), Fraction(-2), Fraction(0)]
    kinds = ["none", "nan", "pinf", "ninf", "value", "linalg", "milinalg", "foreign"]
    for _ in range(4000 if escalated(ctx) else ctx.n(400, 4000)):
        meth = "direct" if rng.random() < 0.5 else "steff"
        a = a_vals[int(rng.integers(len(a_vals)))]
        b = Fraction(int(rng.integers(-8, 9)), 4)
        x0 = Fraction(int(rng.integers(-8, 9)), 2)
        ctol = Fraction(1, 2 ** int(rng.integers(6, 30)))
        dtol = Fraction(2 ** int(rng.integers(4, 12)))
        maxit = int(rng.integers(1, 40))
        kind = kinds[int(rng.integers(len(kinds)))]
        k = -1 if kind == "none" else int(rng.integers(0, 10))
        mk = "linalg" if kind == "milinalg" else kind
        reqs.append(f"fp {meth} {common.fstr(a)} {common.fstr(b)} {common.fstr(x0)} {common.fstr(ctol)} {common.fstr(dtol)} {maxit} {k} {mk}")
        metas.append((meth, a, b, x0, ctol, dtol, maxit, k, kind))
    model = common.run_driver("C12", reqs)
    for req, (meth, a, b, x0, ctol, dtol, maxit, k, kind), mline in zip(reqs, metas, model, strict=True):
        calls = [0]

        def func(x, a=float(a), b=float(b), k=k, kind=kind):
            i = calls[0]
            calls[0] += 1
            if i == k:
                if kind == "nan":
                    return np.full_like(x, np.nan)
                if kind == "pinf":
                    return np.full_like(x, np.inf)
                if kind == "ninf":
                    return np.full_like(x, -np.inf)
                if kind == "value":
                    raise ValueError("injected")
                if kind == "linalg":
                    raise np.linalg.LinAlgError("injected")
                if kind == "milinalg":
                    raise mici.errors.LinAlgError("injected")
                raise Foreign("injected")
            return a * x + b

        solver = mici.solvers.solve_fixed_point_direct if meth == "direct" else mici.solvers.solve_fixed_point_steffensen
        with np.errstate(all="ignore"):
            try:
                x = solver(func, np.array([float(x0)]), convergence_tol=float(ctol), divergence_tol=float(dtol), max_iters=maxit)
                got = ("ok", float(x[0]))
            except ConvergenceError:
                got = ("conv", None)
            except Foreign:
                got = ("foreign", None)
            except Exception as e:  # noqa: BLE001
                got = ("escaped:" + type(e).__name__, None)
        ctx.case(req, nontrivial=kind != "none" or got[0] != "ok")
        ctx.count(f"fp:{meth}:{kind}:{got[0]}")
        # direct oracle: only a converged result, ConvergenceError, or the injected foreign exception
        if got[0].startswith("escaped") or (got[0] == "foreign" and kind != "foreign"):
            ctx.violation(f"solver lets {got[0]} escape", f"{req}: exception {got[0]} escaped the solver", {"request": req, "kind": "fp"})
            continue
        if got[0] == "ok":
            calls2 = [10 ** 9]
            # stopping test at the returned point: |f(x)-x| small relative to tol? (direct: x = f(x_prev), |x-x_prev|<tol)
            if not math.isfinite(got[1]):
                ctx.violation("solver returned non-finite", f"{req}: returned {got[1]}", {"request": req, "kind": "fp"})
                continue
        mparts = mline.split()
        if mparts[0] != got[0]:
            # near-tie: error within 1e-6 relative of a tolerance can flip the float comparison
            ctx.disagreement(f"fixed-point outcome differs: impl {got} model {mline}", {"request": req})
            continue
        if got[0] == "ok":
            mv = mparts[1]
            if mv in ("nan", "pinf", "ninf"):
                ctx.disagreement(f"fixed-point value differs: impl {got} model {mline}", {"request": req})
            elif not common.close(got[1], float(common.parse_frac(mv)), 1e-9, 1e-12):
                ctx.disagreement(f"fixed-point value differs: impl {got} model {mline}", {"request": req})


# ---------------------------------------------------------------------------------------
# fault enumeration on real chains


def in_solver() -> bool:
    f = sys._getframe(2)
    while f is not None:
        if f.f_code.co_name.startswith("solve_"):
            return True
        f = f.f_back
    return False


class Injector:
    """Wraps user functions; fires fault `kind` at the k-th eligible call of function `target`."""

    def __init__(self):
        self.target = None
        self.k = -1
        self.kind = None
        self.counts = {}
        self.fired = None
        self.iteration = -1

    def arm(self, target, k, kind):
        self.target, self.k, self.kind = target, k, kind
        self.counts = {}
        self.fired = None

    def wrap(self, name, fn):
        def wrapped(*args):
            val = fn(*args)
            if name == self.target and self.fired is None:
                exc = self.kind in ("value", "linalg", "milinalg")
                if exc and not in_solver():
                    return val
                c = self.counts.get(name, 0)
                self.counts[name] = c + 1
                if c == self.k:
                    self.fired = self.iteration
                    return self.fault(val)
            return val

        return wrapped

    def fault(self, val):
        import mici

        if self.kind == "value":
            raise ValueError("injected")
        if self.kind == "linalg":
            raise np.linalg.LinAlgError("injected")
        if self.kind == "milinalg":
            raise mici.errors.LinAlgError("injected")
        bad = {"nan": np.nan, "pinf": np.inf, "ninf": -np.inf}[self.kind]
        if isinstance(val, tuple):
            return tuple(self.fault_val(v, bad) for v in val)
        return self.fault_val(val, bad)

    @staticmethod
    def fault_val(v, bad):
        if callable(v):
            return v
        if np.isscalar(v):
            return bad
        out = np.array(v, dtype=float)
        out.flat[0] = bad
        return out


def make_config(name, inj):
    """Returns (system, integrator, init_state_fn, targets)."""
    import mici
    from mici.states import ChainState

    if name == "euclid-leapfrog":
        nld = inj.wrap("neg_log_dens", lambda q: 0.5 * float(q @ q) + 0.1 * float(np.sum(q ** 4)))
        grad = inj.wrap("grad_neg_log_dens", lambda q: q + 0.4 * q ** 3)
        system = mici.systems.EuclideanMetricSystem(neg_log_dens=nld, grad_neg_log_dens=grad)
        integ = mici.integrators.LeapfrogIntegrator(system, step_size=0.3)
        return system, integ, lambda: ChainState(pos=np.array([0.3, -0.5]), mom=None, dir=1), ["neg_log_dens", "grad_neg_log_dens"]
    if name.startswith("constr-"):
        solver = {
            "constr-newton": mici.solvers.solve_projection_onto_manifold_newton,
            "constr-quasi": mici.solvers.solve_projection_onto_manifold_quasi_newton,
            "constr-linesearch": mici.solvers.solve_projection_onto_manifold_newton_with_line_search,
        }[name]
        nld = inj.wrap("neg_log_dens", lambda q: 0.5 * float(q @ q))
        grad = inj.wrap("grad_neg_log_dens", lambda q: 1.0 * q)
        constr = inj.wrap("constr", lambda q: np.array([q @ q - 1.0]))
        jac = inj.wrap("jacob_constr", lambda q: (2 * q)[None, :])
        system = mici.systems.DenseConstrainedEuclideanMetricSystem(
            nld, constr, dens_wrt_hausdorff=True, grad_neg_log_dens=grad, jacob_constr=jac)
        integ = mici.integrators.ConstrainedLeapfrogIntegrator(system, step_size=0.2, n_inner_step=2, projection_solver=solver)
        return system, integ, lambda: ChainState(pos=np.array([0.6, 0.0, 0.8]), mom=None, dir=1), ["constr", "jacob_constr", "neg_log_dens", "grad_neg_log_dens"]
    if name.startswith("riem-"):
        nld = inj.wrap("neg_log_dens", lambda q: 0.5 * float(q @ q))
        grad = inj.wrap("grad_neg_log_dens", lambda q: 1.0 * q)
        metric = inj.wrap("metric_diagonal_func", lambda q: 1.0 + q ** 2)
        vjp = inj.wrap("vjp_metric_diagonal_func", lambda q: (lambda v: 2 * q * v))
        system = mici.systems.DiagonalRiemannianMetricSystem(
            nld, metric_diagonal_func=metric, grad_neg_log_dens=grad, vjp_metric_diagonal_func=vjp)
        fps = mici.solvers.solve_fixed_point_steffensen if name.endswith("steff") else mici.solvers.solve_fixed_point_direct
        cls = mici.integrators.ImplicitMidpointIntegrator if "midpoint" in name else mici.integrators.ImplicitLeapfrogIntegrator
        integ = cls(system, step_size=0.2, fixed_point_solver=fps)
        return system, integ, lambda: ChainState(pos=np.array([0.3, -0.5]), mom=None, dir=1), [
            "metric_diagonal_func", "vjp_metric_diagonal_func", "neg_log_dens", "grad_neg_log_dens"]
    raise KeyError(name)


def make_transition(tname, system, integ):
    import mici

    if tname == "static":
        return mici.transitions.MetropolisStaticIntegrationTransition(system, integ, n_step=3)
    if tname == "random":
        return mici.transitions.MetropolisRandomIntegrationTransition(system, integ, n_step_range=(1, 4))
    if tname == "multinomial":
        return mici.transitions.MultinomialDynamicIntegrationTransition(system, integ, max_tree_depth=3)
    return mici.transitions.SliceDynamicIntegrationTransition(system, integ, max_tree_depth=3)


def run_chain(cfg, tname, target, k, kind, seed, n_iter=3):
    """Run a short chain with one injected fault. Returns list of problems (strings) + info."""
    import mici

    inj = Injector()
    system, integ, init, _targets = make_config(cfg, inj)
    trans = make_transition(tname, system, integ)
    momtrans = mici.transitions.IndependentMomentumTransition(system)
    rng = np.random.default_rng(seed)
    state = init()
    problems = []
    with np.errstate(all="ignore"):
        state, _ = momtrans.sample(state, rng)
        system.h(state)  # warm caches with the valid initial state
        inj.arm(target, k, kind)
        flagged_iter = None
        for it in range(n_iter):
            inj.iteration = it
            prev_pos, prev_mom = np.array(state.pos), None
            try:
                state, _ = momtrans.sample(state, rng)
                prev_mom = np.array(state.mom)
                state, stats = trans.sample(state, rng)
            except Exception as e:  # noqa: BLE001
                problems.append(f"iteration {it}: {type(e).__name__} escaped transition.sample ({e})")
                return problems, inj.fired
            undeclared = set(stats) - set(trans.statistic_types)
            if undeclared:
                problems.append(f"iteration {it}: transition returned undeclared statistics {sorted(undeclared)} (the sampler cannot record them)")
                return problems, inj.fired
            if not (np.all(np.isfinite(state.pos)) and np.all(np.isfinite(state.mom))):
                problems.append(f"iteration {it}: chain state not finite: pos={state.pos} mom={state.mom}")
                return problems, inj.fired
            moved = not np.array_equal(state.pos, prev_pos)
            if moved:
                hval = float(system.h(state))
                if math.isnan(hval) or hval == math.inf:
                    problems.append(f"iteration {it}: moved to a state of energy {hval}")
            err_flag = bool(stats.get("convergence_error") or stats.get("non_reversible_step") or stats.get("diverging"))
            # >>> builder B8: a Metropolis trajectory that met an integrator error is a rejection (Props/C12.lean
            # `metropolis_contained`, Props/C12K.lean `sem_metropolis_contained`): the chain must not have moved
            if tname in ("static", "random") and moved and (
                    err_flag or (tname == "static" and stats.get("n_step") is not None and stats["n_step"] < 3)):
                problems.append(f"iteration {it}: Metropolis transition moved although its trajectory failed "
                                f"(n_step={stats.get('n_step')}, flags={err_flag}, accept_stat={stats.get('accept_stat')})")
            # <<< builder B8
            if inj.fired == it and flagged_iter is None:
                flagged_iter = it
                if kind in ("value", "linalg", "milinalg") and not (stats.get("convergence_error") or stats.get("non_reversible_step")):
                    problems.append(f"iteration {it}: {kind} error inside a solver not recorded in statistics {stats}")
                if err_flag and stats.get("accept_stat") != 0.0:
                    problems.append(f"iteration {it}: error flag set but accept_stat={stats.get('accept_stat')}")
    return problems, inj.fired


CONFIGS = ["euclid-leapfrog", "constr-newton", "constr-quasi", "constr-linesearch",
           "riem-leapfrog-direct", "riem-leapfrog-steff", "riem-midpoint-direct"]
TRANS = ["static", "random", "multinomial", "slice"]
VALUE_KINDS = ["nan", "pinf", "ninf"]
EXC_KINDS = ["value", "linalg", "milinalg"]


def proj_translation_changed() -> bool:
    """The projection solvers' bodies as translated from the tree under test (Generated/SolverLoopsProj.lean,
    regenerated by this run; their proof obligations are C04S's) differ from the clean-tree translation."""
    try:
        g = (common.LEAN / "MiciVerif" / "Generated" / "SolverLoopsProj.lean").read_text()
        e = (common.LEAN / "MiciVerif" / "Generated.expected" / "SolverLoopsProj.lean").read_text()
    except OSError:
        return True
    return g != e


def escalated(ctx) -> bool:
    # a broken proof obligation (C12, C12T tables, C12S `src_*_eq_model`) or a changed translation of a projection
    # solver escalates the failing-input search to the exhaustive plan
    return (not ctx.build_ok) or any(not o["ok"] for o in ctx.obligations) or proj_translation_changed()


def chain_section(ctx, rng):
    escalate = escalated(ctx)
    if escalate:
        ctx.count("search_escalated_to_exhaustive")
    plan = []
    for cfg in CONFIGS:
        inj = Injector()
        _s, _i, _init, targets = make_config(cfg, inj)
        for tname in TRANS:
            for target in targets:
                kinds = list(VALUE_KINDS)
                if target in ("constr", "jacob_constr", "metric_diagonal_func", "vjp_metric_diagonal_func"):
                    kinds += EXC_KINDS
                for kind in kinds:
                    full = (not ctx.quick) or escalate
                    ks = range(0, 40) if full else sorted({int(x) for x in rng.integers(0, 30, 2)})
                    for k in ks:
                        plan.append((cfg, tname, target, k, kind))
    if ctx.quick and not escalate:
        idx = rng.permutation(len(plan))[: 420]
        plan = [plan[i] for i in sorted(idx)]
    for cfg, tname, target, k, kind in plan:
        case = {"config": cfg, "transition": tname, "target": target, "k": k, "fault": kind, "seed": ctx.seed}
        try:
            problems, fired = run_chain(cfg, tname, target, k, kind, ctx.seed)
        except Exception as e:  # noqa: BLE001
            ctx.disagreement(f"fault run crashed in harness/impl setup: {type(e).__name__}: {e}", case)
            continue
        ctx.case(case, nontrivial=fired is not None)
        ctx.count(f"chain:{cfg}:{'fired' if fired is not None else 'not-reached'}")
        ctx.count(f"fault:{kind}")
        for pr in problems[:1]:
            ctx.violation(f"containment {cfg} {tname} {target} {kind}", f"{pr} ({case})", {**case, "kind": "chain"})


def solver_direct_section(ctx, rng):
    """Call the projection solvers directly with faulting system functions (incl. the set-up calls)."""
    import mici
    from mici.errors import ConvergenceError
    from mici.states import ChainState

    solvers = {
        "newton": mici.solvers.solve_projection_onto_manifold_newton,
        "quasi": mici.solvers.solve_projection_onto_manifold_quasi_newton,
        "linesearch": mici.solvers.solve_projection_onto_manifold_newton_with_line_search,
    }
    for sname, solver in solvers.items():
        for target in ("constr", "jacob_constr"):
            for kind in VALUE_KINDS + EXC_KINDS:
                for k in range(0, 6):
                    inj = Injector()
                    system, _integ, _init, _ = make_config("constr-newton", inj)
                    prev = ChainState(pos=np.array([0.6, 0.0, 0.8]), mom=np.array([0.4, 0.3, -0.3]), dir=1)
                    state = prev.copy()
                    with np.errstate(all="ignore"):
                        system.h2_flow(state, 0.1)
                        inj.arm(target, k, kind)
                        # exception faults must count every call here (all are inside the solver)
                        case = {"solver": sname, "target": target, "k": k, "fault": kind, "kind": "solver-direct"}
                        try:
                            out = solver(state, prev, 0.1, system)
                            res = "ok"
                            c = system.constr(out)
                            if not np.all(np.abs(c) < 1e-8):
                                ctx.violation(f"projection solver {sname} returned unconverged", f"|c|={np.abs(c).max()} ({case})", case)
                        except ConvergenceError:
                            res = "conv"
                        except Exception as e:  # noqa: BLE001
                            res = "escaped"
                            ctx.violation(f"projection solver {sname} lets {type(e).__name__} escape", f"{type(e).__name__}: {e} ({case})", case)
                    ctx.case(case, nontrivial=inj.fired is not None)
                    ctx.count(f"solver-direct:{sname}:{res}")


def sampler_section(ctx, rng):
    """Faults injected while sampling through `sample_chains`: the run must complete, the failure must be
    recorded in the returned statistics and the traces must stay finite."""
    import mici

    plan = []
    for cfg in ("euclid-leapfrog", "constr-newton", "constr-quasi", "riem-leapfrog-direct"):
        for hmc in ("static", "random", "multinomial", "slice"):
            for kind in ("nan", "pinf", "value"):
                plan.append((cfg, hmc, kind))
    if ctx.quick:
        plan = [plan[i] for i in sorted(rng.permutation(len(plan))[:16])]
    for cfg, hmc, kind in plan:
        inj = Injector()
        system, integ, init, targets = make_config(cfg, inj)
        target = targets[0]
        if kind == "value" and target not in ("constr", "jacob_constr", "metric_diagonal_func", "vjp_metric_diagonal_func"):
            continue
        k = int(rng.integers(3, 40))
        case = {"config": cfg, "hmc": hmc, "target": target, "k": k, "fault": kind, "seed": ctx.seed, "kind": "sampler"}
        cls = {"static": mici.samplers.StaticMetropolisHMC, "random": mici.samplers.RandomMetropolisHMC,
               "multinomial": mici.samplers.DynamicMultinomialHMC, "slice": mici.samplers.DynamicSliceHMC}[hmc]
        kw = {"n_step": 3} if hmc == "static" else {"n_step_range": (1, 4)} if hmc == "random" else {"max_tree_depth": 3}
        sampler = cls(system, integ, np.random.default_rng(ctx.seed), **kw)
        st = init()
        with np.errstate(all="ignore"):
            try:
                st.mom = system.sample_momentum(st, np.random.default_rng(1))
                system.h(st)
                inj.arm(target, k, kind)
                inj.iteration = 0
                out = sampler.sample_chains(0, 6, [st], adapters=None, display_progress=False, n_process=1)
            except Exception as e:  # noqa: BLE001
                ctx.violation(f"containment sampler {cfg} {hmc} {kind}",
                              f"{type(e).__name__} escaped sample_chains: {e} ({case})", case)
                continue
        ctx.case(case, nontrivial=inj.fired is not None)
        ctx.count(f"sampler:{hmc}:{'fired' if inj.fired is not None else 'not-reached'}")
        pos = np.asarray(out.traces["pos"])
        if not np.all(np.isfinite(pos)):
            ctx.violation(f"containment sampler {cfg} {hmc} {kind}", f"non-finite positions recorded ({case})", case)


# >>> builder B8: faults in the energy evaluation of a TRIAL state (`IntegrationTransition._h_trial_state`; Props/C12K.lean
# `skel_h_trial_state_maps_errors_to_nan`, `skel_trial_energies_use_h_trial_state`; revert C12-trial-energy-escape)
def run_trial_energy(tname, kind, k, seed, n_iter=2):
    """`system.h` raises ValueError / numpy LinAlgError / mici LinAlgError at its k-th call on a state other than the
    chain's current one (real Euclidean system + leapfrog).  Returns (problems, fired)."""
    import mici

    inj = Injector()
    system, integ, init, _ = make_config("euclid-leapfrog", inj)
    trans = make_transition(tname, system, integ)
    r = np.random.default_rng(seed)
    state = init()
    state.mom = system.sample_momentum(state, r)
    real_h = system.h
    cur = {"pos": None, "n": 0, "fired": False}

    def h(st):
        if not np.array_equal(st.pos, cur["pos"]):
            c = cur["n"]
            cur["n"] += 1
            if c == k:
                cur["fired"] = True
                if kind == "value":
                    raise ValueError("injected")
                if kind == "linalg":
                    raise np.linalg.LinAlgError("injected")
                raise mici.errors.LinAlgError("injected")
        return real_h(st)

    system.h = h
    problems = []
    with np.errstate(all="ignore"):
        for it in range(n_iter):
            cur["pos"] = np.array(state.pos)
            try:
                state, _stats = trans.sample(state, r)
            except Exception as e:  # noqa: BLE001
                problems.append(f"iteration {it}: {type(e).__name__} raised by the energy of a trial state escaped transition.sample ({e})")
                break
            if not (np.all(np.isfinite(state.pos)) and np.all(np.isfinite(state.mom))):
                problems.append(f"iteration {it}: chain state not finite: pos={state.pos} mom={state.mom}")
                break
            if not np.array_equal(state.pos, cur["pos"]):
                hval = float(real_h(state))
                if math.isnan(hval) or hval == math.inf:
                    problems.append(f"iteration {it}: moved to a state of energy {hval}")
    return problems, cur["fired"]


def trial_energy_section(ctx, rng):
    for tname in TRANS:
        for kind in EXC_KINDS:
            for k in range(0, 8 if escalated(ctx) or not ctx.quick else 3):
                case = {"transition": tname, "fault": kind, "k": k, "seed": ctx.seed, "kind": "trial-energy"}
                try:
                    problems, fired = run_trial_energy(tname, kind, k, ctx.seed)
                except Exception as e:  # noqa: BLE001
                    ctx.disagreement(f"trial-energy fault run crashed in harness/impl setup: {type(e).__name__}: {e}", case)
                    continue
                ctx.case(case, nontrivial=fired)
                ctx.count(f"trial-energy:{tname}:{'fired' if fired else 'not-reached'}")
                for pr in problems[:1]:
                    ctx.violation(f"containment trial energy {tname} {kind}", f"{pr} ({case})", case)
# <<< builder B8


def run(ctx: common.Ctx):
    rng = common.rng_for(ctx)
    ctx.rule = (
        "fixed-point solvers: random affine maps x -> a x + b with a scripted fault (NaN, ±inf, ValueError, numpy/mici "
        "LinAlgError, foreign) at a call index, compared with the Lean model; chains: fault at call index k of each user "
        "function × fault kind × 7 (system, integrator, solver) configs × 4 transitions (quick: sampled, thorough: every k<40); "
        "non-trivial = the fault was actually reached"
    )
    ctx.assumptions += [
        "ValueError/LinAlgError faults are injected only while a solve_* frame is on the stack (the property covers errors inside an iterative solve)",
        "faults in the user-supplied norm function are out of scope",
    ]
    ctx.exhaustive = not ctx.quick
    fp_section(ctx, rng)
    solver_direct_section(ctx, rng)
    chain_section(ctx, rng)
    sampler_section(ctx, rng)
    trial_energy_section(ctx, rng)  # builder B8


def replay(ctx, obj):
    if obj.get("kind") == "sampler":
        sub = common.Ctx(ctx.prop, "thorough", obj["seed"])
        sampler_section(sub, common.rng_for(sub))
        return bool(sub.violations)
    if obj.get("kind") == "trial-energy":  # builder B8
        problems, _ = run_trial_energy(obj["transition"], obj["fault"], obj["k"], obj["seed"])
        return bool(problems)
    if obj.get("kind") == "chain":
        problems, _ = run_chain(obj["config"], obj["transition"], obj["target"], obj["k"], obj["fault"], obj["seed"])
        return bool(problems)
    sub = common.Ctx(ctx.prop, ctx.tier, ctx.seed)
    rng = common.rng_for(sub)
    if obj.get("kind") == "solver-direct":
        solver_direct_section(sub, rng)
    else:
        fp_section(sub, rng)
    return any(v["signature"] == obj.get("signature") for v in sub.violations) or bool(sub.disagreements)


LEVEL_TEXT = (
    "Lean 4: (1) obligations decided on tables regenerated from the source on every run: every user-influenced call "
    "inside the five iterative solvers is inside a try converting ValueError/LinAlgError to ConvergenceError "
    "(solver_user_calls_protected), every solver return is guarded by its convergence test and the body ends in raise "
    "ConvergenceError (solver_returns_guarded), every integrator step of a transition is inside try/except "
    "IntegratorError (transition_steps_protected), the raised error classes are IntegratorErrors; (2) for every iterate "
    "type, fault script, norm, tolerances and iteration limit the fixed-point solvers return only a point at which the "
    "stopping test held or raise ConvergenceError, foreign exceptions escape only if the user function raised one "
    "(direct_sound, direct_no_foreign, steffensen_sound, steffensen_no_foreign); (2b) the BODIES of the two fixed-point "
    "solvers are translated from the source on every run into fuel-recursive Lean definitions (Generated/SolverLoops.lean: "
    "try/for/except skeleton, handler generated from the except tuple, call numbering, IEEE comparison operators) and proved "
    "equal to the hand model for every parameter instantiation, fuel and fault script (src_direct_eq_model, "
    "src_steffensen_eq_model, max_iters >= 1; src_*_zero_iters: with max_iters = 0 the code raises UnboundLocalError), and "
    "(2) is transported to the generated definitions (src_direct_sound, src_direct_no_foreign, src_steffensen_sound, "
    "src_steffensen_no_foreign); (3) on the orbit-level transition model "
    "(C01) a state returned with positive probability is the start or a point of strictly positive weight, for every "
    "tree and fault pattern (final_contained, metropolis_contained). Fault enumeration on the real code over call index "
    "× fault kind × configuration checks containment, finiteness, flags and continuation directly."
)
LEVEL_NOTE = (
    "Trusted: Lean kernel, axioms {propext, Classical.choice, Quot.sound}; the AST extractors (fail-closed flags; the "
    "solver-loop translator's conventions: exceptions only from user/system calls, messages not evaluated, Steffensen's "
    "update formula matched textually and abstracted as the parameter `upd`); the "
    "lexical notion of protection (a call inside the try body); orbit abstraction of C01; harness. The projection solvers' "
    "loop post-conditions are C04's theorems; here they are covered by the table obligations and by direct fault "
    "injection. Errors raised by the density/gradient outside an iterative solve are outside the property."
)
TECHNIQUE = ("Lean 4 theorems + decide on AST-extracted protection tables + solver bodies translated from the source and proved "
             "equal to the model + fault enumeration against the real transitions/solvers")

# >>> builder B8: source-skeleton tie
LEVEL_TEXT += (
    " Source tie of the transitions (Props/C12K.lean, re-checked against Generated/TransitionSkeleton.lean regenerated "
    "from transitions.py / integrators.py on every run): the statement trees of _process_integrator_error, "
    "_h_trial_state, Integrator.step, _sample_n_step and _build_tree equal the annotated expected trees; named "
    "projections from the generated trees: _h_trial_state maps ValueError/LinAlgError to NaN and every trial energy "
    "goes through it, the integrator steps (and in _build_tree the energy, leaf creation and divergence test) are inside "
    "try/except IntegratorError whose handler records the error and returns no tree and no proposal, a NaN energy gets "
    "weight 0, only the matching declared flag is set and only declared statistics are written, a failed trajectory is "
    "never accepted (accept test and accept_stat guarded by `not integration_error`), a terminated _build_tree discards "
    "its sub-tree, Integrator.step converts ValueError/LinAlgError; sem_metropolis_contained: the reading of the "
    "generated _sample_n_step on any orbit returns with positive probability only the start or a point of non-zero "
    "weight, and after a failing step the start with certainty (n_step = steps taken, accept_stat 0, error recorded); "
    "sem_dynamic_contained: the reading of the generated loop of DynamicIntegrationTransition.sample on any trajectory "
    "tree (the _build_tree calls read from the generated body of _build_tree: one try around step, energy, leaf and "
    "divergence test, handler returning no tree) returns only the start or a point of "
    "positive weight. Added oracles on the real code: a Metropolis transition whose trajectory failed must not move; "
    "ValueError / numpy / mici LinAlgError raised by system.h at a trial state must not escape any transition."
)
# <<< builder B8
