"""C15 — interrupting sampling returns a consistent prefix of the run.

Model: lean/MiciVerif/Model/Sampler.lean (`stepOp`: a `KeyboardInterrupt` raised by a user function
inside operation j of iteration i of chain c in stage k; `seqStep` break, `workerRun` break, stage
loop return before adapter finalisation), theorems lean/MiciVerif/Props/C15.lean.

Tie (X): the counting kernel of harness/c13.py calls a hook in every transition / trace function;
the hook raises `KeyboardInterrupt` at the k-th user-function call (sequential runs) or at a given
(chain, iteration, operation) (2-process runs, where calls of different chains interleave), for
sampled (quick) or all (thorough) call indices of short runs, single- and multi-stage, in-memory and
memmap (.npy read back).  The interrupted run is compared cell by cell with the model's prediction.
Direct oracle: against the *uninterrupted real run*: every cell completed before the interrupt is
equal, every other cell is still fill, later stages not started, chains finished before are
untouched, the call returns normally, final states count completed transitions.  Real HMC runs
(Static / Dynamic, with and without adapters) with the interrupt raised from neg_log_dens, its
gradient or the trace function.
"""
from __future__ import annotations

import tempfile
from pathlib import Path

import numpy as np

from . import c13, common

PROP = "C15"
# Props/C15S.lean: generated control skeleton of the interrupt paths vs the model's
LEAN_MODULES = ["MiciVerif.Props.C15", "MiciVerif.Props.C15S"]
# --- B13: interrupt path through the worker / queue / parent loop of the parallel mode, read on the model's state
LEAN_MODULES += ["MiciVerif.Props.C15P"]
# --- end B13
GENERATED = ["sampler_skeleton"]
# --- B16: fill-value facts of _init_traces / _init_stats / _open_new_memmap re-derived from the regenerated
# storage skeleton (Props/C15K.lean: NaN for every inexact dtype kind, both storage kinds)
LEAN_MODULES += ["MiciVerif.Props.C15K"]
GENERATED += ["sampler_storage_skeleton"]
# --- end B16
LEAN_EXTRA = c13.LEAN_EXTRA

SIG_ADAPTIVE = "interrupt in adaptive stage: sample_chains raised"


def stage_rows(cfg):
    """per stage: (first row or None if not recording, n)"""
    out, off = [], 0
    for (n, _kind, traced, rec) in c13.stage_table(cfg):
        if n > 0 and (traced or rec):
            out.append((off, n))
            off += n
        else:
            out.append((None, n))
    return out


def locate(cfg, call):
    """hook call (cid, x, opname, callno) -> (stage, chain, local iteration, op index) or None if
    the call is not inside an iteration (the trace call of _init_traces)."""
    cid, x, opname, _callno = call
    ci = [c for c, _ in cfg["inits"]].index(cid)
    x0 = cfg["inits"][ci][1]
    g = x - x0 if opname in ("a", "b") else x - x0 - 1
    if g < 0:
        return None
    acc = 0
    for k, (n, _kind, _t, _r) in enumerate(c13.stage_table(cfg)):
        if g < acc + n:
            return (k, ci, g - acc, c13.op_index(cfg, opname))
        acc += n
    return None


def before(i0, j0, i, j):
    return i < i0 or (i == i0 and j < j0)


def expected_from_base(cfg, base_arrays, where, parallel):
    """The C15 statement: the arrays an interrupted run must return, from the uninterrupted run's."""
    k0, c0, i0, j0 = where
    rows = stage_rows(cfg)
    res = []
    for c, arrs in enumerate(base_arrays):
        out = []
        for j, a in enumerate(arrs):
            if a == "absent":
                out.append(a)
                continue
            col = [None] * len(a)
            for k, (off, n) in enumerate(rows):
                if off is None:
                    continue
                for i in range(n):
                    r = off + i
                    if k < k0:
                        keep = True
                    elif k > k0:
                        keep = False
                    elif c == c0:
                        keep = before(i0, j0, i, j)
                    else:
                        keep = True if parallel else c < c0
                    if keep:
                        col[r] = a[r]
            out.append(col)
        res.append(out)
    return res


def expected_counts(cfg, where, parallel):
    """(x, na) of the returned final states: completed transitions only."""
    k0, c0, i0, j0 = where
    table = c13.stage_table(cfg)
    done_before = sum(n for n, *_ in table[:k0])
    n0 = table[k0][0]
    jb = c13.op_index(cfg, "b")
    out = []
    for c, (_cid, x0) in enumerate(cfg["inits"]):
        if c == c0:
            its = done_before + i0
            out.append((x0 + its + (1 if j0 > jb else 0), its + (1 if (cfg["hasA"] and j0 > 0) else 0) if cfg["hasA"] else 0))
        elif parallel or c < c0:
            its = done_before + n0
            out.append((x0 + its, its if cfg["hasA"] else 0))
        else:
            break  # sequential: chains after the interrupted one are not returned
    return out


def check_interrupt(ctx, cfg, base, call_index, call, parallel, reqs):
    where = locate(cfg, call)
    if where is None:
        ctx.count("interrupt_outside_iteration_not_covered")
        return
    k0, c0, i0, j0 = where
    table = c13.stage_table(cfg)
    vcfg = {**cfg, "n_process": 2 if parallel else 1}
    spec = ("struct", *call) if parallel else ("count", call_index)
    res = c13.real_run(vcfg, intr_spec=spec)
    case = {**c13.describe(vcfg), "interrupt_call": call_index, "at": list(call), "where": list(where)}
    replay = {"cfg": vcfg, "spec": list(spec), "call": list(call)}
    adaptive = table[k0][1] != "main" and (cfg["hf"] or cfg["hs"])
    ctx.case(case, nontrivial=True)
    ctx.count("parallel" if parallel else "sequential")
    ctx.count(f"op={call[2]}")
    ctx.count(f"stage_kind={table[k0][1]}")
    ctx.count(f"memmap={cfg['memmap']}")
    if not res["fired"] and not parallel:
        ctx.disagreement("hook did not fire", case)
        return
    if res["error"]:
        sig = SIG_ADAPTIVE if adaptive else "interrupted sample_chains raised"
        ctx.violation(sig, f"interrupted run raised {res['error']} instead of returning: {case}", replay)
        return
    # direct oracle: prefix of the uninterrupted real run
    want = expected_from_base(cfg, base["arrays"], where, parallel)
    d = c13.diff_arrays(cfg, res["arrays"], want, "interrupted", "prefix-of-uninterrupted")
    if d:
        ctx.violation("interrupted run is not a prefix of the uninterrupted run", f"{d}: {case}", replay)
    if res["lengths"] != base["lengths"]:
        ctx.violation("interrupted run array lengths", f"lengths {res['lengths']} vs {base['lengths']}: {case}", replay)
    cnt = expected_counts(cfg, where, parallel)
    got = [(f[1], f[2]) for f in res["finals"]]
    if got != cnt:
        ctx.violation(
            "final states are not states reached by completed transitions",
            f"(x, na) of returned final states {got} != {cnt}: {case}", replay,
        )
    if "files" in res and res["files"]["bad"]:
        ctx.violation("interrupted memmap not flushed", f"{res['files']['bad'][:3]}: {case}", replay)
    if cfg["memmap"] != "mem" and not parallel:
        # every array the interrupted chain was writing must be flushed after the interrupt
        after = {name for name, fired in res["flushed"] if fired}
        need = set()
        _n, _kind, traced, rec = table[k0]
        if rec:
            need |= {f"stats_{c0}_b_{k_}.npy" for k_ in ("x", "u0", "d", "par", "met", "odd", "pid")}
        if traced and cfg["nf"] >= 1:
            need |= {f"trace_{c0}_{k_}.npy" for k_ in ("x", "cid", "u0")}
        if not need <= after:
            ctx.violation(
                "interrupted memmap not flushed",
                f"arrays {sorted(need - after)[:4]} of the interrupted chain were not flushed after the interrupt: {case}", replay,
            )
        ctx.count("flush_observed")
    # later stages not started: rows of later stages are fill is part of `want`; also no transition ran
    modes = c13.default_modes(vcfg)
    if parallel:
        # any schedule in which the interrupted chain is the last of its worker
        n = len(cfg["inits"])
        others = [c for c in range(n) if c != c0]
        modes = "par:1:" + c13.sched_token([[c0], others] if others else [[c0]])
    reqs.append((c13.model_request(vcfg, modes, where), vcfg, res, case))


def gen_cfg15(rng):
    cfg = c13.gen_cfg(rng, small=True)
    n_chain = int(rng.integers(1, 4))
    cfg["inits"] = [[c, int(rng.integers(0, 3))] for c in range(n_chain)]
    cfg["nw"] = int(rng.choice([0, 0, 2, 3, 4, 6]))
    cfg["nm"] = int(rng.choice([1, 2, 3, 4]))
    cfg["ncalls"] = int(rng.choice([1, 1, 2]))
    cfg["memmap"] = str(rng.choice(["mem", "dir", "dir", "tmp"]))
    if cfg["stager"] not in ("warm", None) and cfg["nw"] == 0:
        cfg["stager"] = "warm"
    return cfg


# ---------------------------------------------------------------------------------------
# real HMC


class _HmcHooks:
    def __init__(self):
        self.k = None
        self.count = 0
        self.events = None
        self.fired = None
        self.target = None  # (cid, pos bytes) for the data-triggered trace interrupt


HH = _HmcHooks()


def _call(kind):
    if HH.events is not None:
        HH.events.append(kind)
    if HH.k is not None and HH.count == HH.k:
        HH.count += 1
        HH.fired = kind
        raise KeyboardInterrupt
    HH.count += 1


def h_nld(q):
    _call("nld")
    return 0.5 * float(q @ q) + 0.25 * float(np.sum(q**4))


def h_grad(q):
    _call("grad")
    return q + q**3


def h_trace(state):
    if HH.target is not None:
        # the first call in the parent is the one of _init_traces (outside any iteration): never raise there
        HH.count += 1
        if HH.count > 1 and int(state.cid) == HH.target[0] and state.pos.tobytes() == HH.target[1]:
            raise KeyboardInterrupt
    else:
        _call("trace")
    # traced quantities of several inexact dtypes: rows never reached must read NaN in all of them
    # (seed C15-3: only float64 arrays were pre-filled with NaN)
    return {"pos": state.pos, "cid": state.cid, "pos32": state.pos.astype(np.float32),
            "cplx": np.complex64(complex(state.pos[0], state.pos[1])), "half": np.float16(state.pos[0])}


def _mark_classes():
    import mici

    class MarkMomentum(mici.transitions.IndependentMomentumTransition):
        def sample(self, state, rng):
            if HH.events is not None:
                HH.events.append("iter_begin")
            return super().sample(state, rng)

    class MarkStatic(mici.transitions.MetropolisStaticIntegrationTransition):
        def sample(self, state, rng):
            out = super().sample(state, rng)
            if HH.events is not None:
                HH.events.append("integ_end")
            return out

    class MarkDynamic(mici.transitions.MultinomialDynamicIntegrationTransition):
        def sample(self, state, rng):
            out = super().sample(state, rng)
            if HH.events is not None:
                HH.events.append("integ_end")
            return out

    return MarkMomentum, MarkStatic, MarkDynamic


_MARK = None


def mark_classes():
    global _MARK  # noqa: PLW0603
    if _MARK is None:
        _MARK = _mark_classes()
        for c in _MARK:
            c.__module__ = __name__
            c.__qualname__ = c.__name__
            globals()[c.__name__] = c
    return _MARK


def hmc_run(spec, k=None, record=False, n_process=1, target=None, memdir=None):
    """spec = (kind, adapt, n_warm, n_main, n_chain, trace_warm, seed)."""
    import logging

    import mici

    logging.getLogger("mici").setLevel(logging.CRITICAL + 1)
    kind, adapt, n_warm, n_main, n_chain, trace_warm, seed = spec
    MarkMomentum, MarkStatic, MarkDynamic = mark_classes()
    system = mici.systems.EuclideanMetricSystem(neg_log_dens=h_nld, grad_neg_log_dens=h_grad)
    integ = mici.integrators.LeapfrogIntegrator(system, step_size=None if adapt != "none" else 0.3)
    it = MarkStatic(system, integ, 2) if kind == "static" else MarkDynamic(system, integ, max_tree_depth=2)
    sampler = mici.samplers.HamiltonianMonteCarlo(system, np.random.default_rng(seed), it, MarkMomentum(system))
    inits = [
        mici.states.ChainState(pos=np.array([0.4 * (c + 1), -0.3]), mom=np.array([0.2, 0.1 * (c + 1)]), dir=1, cid=c)
        for c in range(n_chain)
    ]
    adapters = {
        "none": None,
        "da": [mici.adapters.DualAveragingStepSizeAdapter()],
        "da+var": [mici.adapters.DualAveragingStepSizeAdapter(), mici.adapters.OnlineVarianceMetricAdapter()],
    }[adapt]
    HH.k, HH.count, HH.fired, HH.target = k, 0, None, target
    HH.events = [] if record else None
    kwargs = {}
    if memdir is not None:
        kwargs.update(force_memmap=True, memmap_path=memdir)
    err = None
    out = None
    try:
        out = c13.with_timeout(
            lambda: sampler.sample_chains(
                n_warm, n_main, inits, adapters=adapters, trace_funcs=[h_trace], n_process=n_process,
                trace_warm_up=trace_warm, display_progress=False, stager=mici.stagers.WarmUpStager(), **kwargs,
            ),
            120,
        )
    except BaseException as e:  # noqa: BLE001
        err = f"{type(e).__name__}: {e}"
    events, fired = HH.events, HH.fired
    HH.k, HH.events, HH.target = None, None, None
    if out is None:
        return {"error": err, "events": events, "fired": fired}
    res = {
        "error": None, "events": events, "fired": fired,
        "pos": [np.array(a) for a in out.traces["pos"]],
        "aux": {k_: [np.array(a) for a in out.traces[k_]] for k_ in ("pos32", "cplx", "half") if k_ in out.traces},
        "stats": {k_: [np.array(a) for a in v] for k_, v in out.statistics.items()},
        "finals": [(np.array(s.pos), np.array(s.mom), int(s.dir)) for s in out.final_states],
    }
    if memdir is not None:
        bad = []
        for c in range(n_chain):
            disk = np.load(Path(memdir) / f"trace_{c}_pos.npy")
            if not np.array_equal(disk, res["pos"][c], equal_nan=True):
                bad.append(f"trace_{c}_pos.npy")
            disk = np.load(Path(memdir) / f"stats_{c}_integration_transition_n_step.npy")
            if not np.array_equal(disk, res["stats"]["n_step"][c]):
                bad.append(f"stats_{c}_integration_transition_n_step.npy")
        res["files_bad"] = bad
    return res


def classify_calls(events):
    """For every user-function call of the uninterrupted run: is it inside an iteration?"""
    out = []
    inside = False
    seen_iter = False
    for e in events:
        if e == "iter_begin":
            inside, seen_iter = True, True
        elif e == "integ_end":
            inside = False
        elif e == "trace":
            out.append(seen_iter)  # every trace call except the one of _init_traces
        else:
            out.append(inside)
    return out


def hmc_prefix_check(base, res, n_chain, n_warm_rows=0):
    """Rows of the interrupted run are either equal to the uninterrupted run's or fill; written rows
    form a prefix in (chain, row) order for sequential runs; the trace row of a row never exists
    without its statistics. Returns list of failure strings."""
    bad = []
    seen_fill = False
    for c in range(n_chain):
        if len(res["pos"][c]) != len(base["pos"][c]):
            return [f"chain {c}: length {len(res['pos'][c])} != {len(base['pos'][c])}"]
    nrow = len(base["pos"][0])
    # time order of a sequential run: stage by stage, chain by chain, row by row
    order = [(c, r) for lo, hi in ((0, n_warm_rows), (n_warm_rows, nrow)) for c in range(n_chain) for r in range(lo, hi)]
    for c, r in order:
        if True:
            tr_fill = bool(np.all(np.isnan(res["pos"][c][r])))
            st_fill = int(res["stats"]["n_step"][c][r]) == -1 and np.isnan(res["stats"]["accept_stat"][c][r])
            if not tr_fill and not np.array_equal(res["pos"][c][r], base["pos"][c][r]):
                bad.append(f"chain {c} row {r}: trace differs from uninterrupted run")
            if not st_fill:
                for k_, v in res["stats"].items():
                    a, b = v[c][r], base["stats"][k_][c][r]
                    if not (a == b or (a != a and b != b)):
                        bad.append(f"chain {c} row {r}: statistic {k_} {a} differs from uninterrupted {b}")
            else:
                for k_, v in res["stats"].items():
                    a = v[c][r]
                    if not (a != a or a == -1 or a is np.False_ or a == False):  # noqa: E712
                        bad.append(f"chain {c} row {r}: statistic {k_} = {a} written although row is fill")
            for k_, v in res.get("aux", {}).items():
                a, b = v[c][r], base.get("aux", {}).get(k_, v)[c][r]
                if tr_fill and not bool(np.all(np.isnan(a))):
                    bad.append(f"chain {c} row {r}: traced quantity {k_} ({v[c].dtype}) reads {a!r} in a row that "
                               "was never reached (fill value must be NaN)")
                elif not tr_fill and not np.array_equal(a, b, equal_nan=True):
                    bad.append(f"chain {c} row {r}: traced quantity {k_} differs from uninterrupted run")
            if not tr_fill and st_fill:
                bad.append(f"chain {c} row {r}: trace present without statistics")
            if (not tr_fill or not st_fill) and seen_fill:
                bad.append(f"chain {c} row {r}: written after an unwritten row (not a prefix)")
            if tr_fill:
                seen_fill = True
    return bad[:4]


def run_hmc(ctx, rng):
    specs = [
        ("static", "none", 0, 3, 2, False, 21), ("static", "da", 4, 2, 2, True, 22),
        ("dynamic", "none", 0, 3, 1, False, 23), ("static", "da+var", 5, 2, 2, True, 24),
        ("dynamic", "da", 3, 2, 2, False, 25),
    ]
    for spec in specs:
        n_chain = spec[4]
        base = hmc_run(spec, record=True)
        case0 = {"hmc": list(spec)}
        if base["error"]:
            ctx.disagreement(f"uninterrupted HMC run raised {base['error']}", case0)
            continue
        inside = classify_calls(base["events"])
        kinds = [e for e in base["events"] if e in ("nld", "grad", "trace")]
        n_calls = len(kinds)
        idxs = list(range(n_calls)) if not ctx.quick else sorted({int(v) for v in rng.integers(0, n_calls, 20)})
        for k in idxs:
            case = {"hmc": list(spec), "k": k, "call": kinds[k]}
            if not inside[k]:
                ctx.count("interrupt_outside_iteration_not_covered")
                continue
            memdir = tempfile.TemporaryDirectory(prefix="c15h-") if k % 3 == 0 else None
            try:
                res = hmc_run(spec, k=k, memdir=memdir.name if memdir else None)
            finally:
                if memdir is not None:
                    memdir.cleanup()
            ctx.case(case)
            ctx.count(f"hmc_{spec[0]}_{spec[1]}_{kinds[k]}")
            if res["error"]:
                adaptive = spec[1] != "none"
                ctx.violation(
                    SIG_ADAPTIVE if adaptive else "interrupted sample_chains raised",
                    f"interrupted HMC run raised {res['error']}: {case}", case,
                )
                continue
            for b in hmc_prefix_check(base, res, len(res["pos"]), spec[2] if spec[5] else 0):
                ctx.violation("interrupted run is not a prefix of the uninterrupted run", f"HMC {b}: {case}", case)
            if res.get("files_bad"):
                ctx.violation("interrupted memmap not flushed", f"HMC {res['files_bad']}: {case}", case)
            # final states are valid chain states: position of the last completed iteration
            if not (1 <= len(res["finals"]) <= n_chain):
                ctx.violation("final states are not states reached by completed transitions",
                              f"HMC returned {len(res['finals'])} final states: {case}", case)
        # 2-process run, interrupt raised by the trace function of one chain at a given recorded state
        if base["pos"][0].shape[0] >= 2 and n_chain >= 2:
            c0 = int(rng.integers(0, n_chain))
            rows = base["pos"][c0]
            r0 = int(rng.integers(0, len(rows)))
            # first row holding this position (a rejected proposal repeats a position)
            r_first = min(r for r in range(len(rows)) if np.array_equal(rows[r], rows[r0]))
            case = {"hmc": list(spec), "parallel_trace_interrupt": [c0, r_first]}
            res = hmc_run(spec, n_process=2, target=(c0, rows[r_first].tobytes()))
            ctx.case(case)
            ctx.count("hmc_parallel_trace_interrupt")
            if res["error"]:
                ctx.violation(
                    SIG_ADAPTIVE if spec[1] != "none" else "interrupted sample_chains raised",
                    f"interrupted 2-process HMC run raised {res['error']}: {case}", case,
                )
                continue
            n_warm_rows = spec[2] if spec[5] else 0
            in_warm = r_first < n_warm_rows
            for c in range(n_chain):
                for r in range(len(base["pos"][c])):
                    got, want = res["pos"][c][r], base["pos"][c][r]
                    stage_of_r_warm = r < n_warm_rows
                    if c == c0:
                        should = r < r_first
                    else:
                        should = stage_of_r_warm if in_warm else True
                    if should and not np.array_equal(got, want):
                        ctx.violation("interrupted run is not a prefix of the uninterrupted run",
                                      f"HMC 2-process chain {c} row {r} differs / missing: {case}", case)
                        break
                    if not should and not np.all(np.isnan(got)):
                        ctx.violation("interrupted run is not a prefix of the uninterrupted run",
                                      f"HMC 2-process chain {c} row {r} written after the interrupt: {case}", case)
                        break


def replay_corpus(ctx):
    """Past failing inputs (corpus/C15/*.json) are re-executed first."""
    import json

    for f in sorted((common.VERIF / "corpus" / PROP).glob("*.json")):
        obj = json.loads(f.read_text())
        ctx.count("corpus_case")
        try:
            still = replay(ctx, obj)
        except Exception as e:  # noqa: BLE001
            ctx.disagreement(f"corpus case {f.name} raised {type(e).__name__}: {e}", {"corpus": f.name})
            continue
        if still:
            ctx.violation(obj.get("signature", "corpus:" + f.name), f"corpus case {f.name} fails: {obj.get('comment', '')}",
                          {k: v for k, v in obj.items() if k not in ("comment", "signature")})


def run(ctx: common.Ctx):
    c13.classes()
    replay_corpus(ctx)
    rng = common.rng_for(ctx)
    ctx.rule = (
        "counting-kernel runs (1-3 chains, <= 12 iterations, single/multi-stage, adapters none/fast/fast+slow/slow, "
        "in-memory / memmap) interrupted at sampled (quick) or every (thorough) user-function call index, sequential, "
        "and at sampled (chain, iteration, operation) for 2-process runs; HMC (static/dynamic, adapters none/da/da+var) "
        "interrupted from neg_log_dens / gradient / trace function; every case is non-trivial (an interrupt inside an iteration)"
    )
    ctx.assumptions += [
        "the interrupt is a KeyboardInterrupt raised synchronously by a user function (asynchronous signal "
        "delivery at arbitrary bytecodes is not covered)",
        "interrupts outside an iteration (adapter.initialize's density calls, the trace call of _init_traces) "
        "are outside the property's quantifier: counted, not checked",
    ]
    reqs: list = []
    fixed = [
        {**c13.DEFAULT, "inits": [[0, 0], [1, 1]], "nw": 3, "nm": 2, "tw": True, "hs": True, "hf": True, "memmap": "dir"},
        {**c13.DEFAULT, "inits": [[0, 0], [1, 0], [2, 0]], "nw": 4, "nm": 2, "tw": False, "hs": True, "hf": False,
         "stager": ["win", 1, 1, 1, "2"]},
    ]
    # --- B16: the fill value every unreached row must read: _init_traces called directly over dtype x shape x storage
    # kind (all combinations when an obligation of Props/C15K / C13K is broken)
    c13.storage_oracle(ctx, fill_only=True)
    # --- end B16
    esc = c13.skeleton_escalation(ctx)  # > 1: the orchestration code is not the code the model was written against
    cfgs = fixed + [gen_cfg15(rng) for _ in range(ctx.n(30, 200))]
    n_par = 0
    for cfg in cfgs:
        base = c13.real_run({**cfg, "n_process": 1}, log_calls=True)
        case0 = c13.describe(cfg)
        if base["error"]:
            ctx.disagreement(f"uninterrupted run raised {base['error']}", case0)
            continue
        calls = base["calls"]
        if ctx.quick and esc == 1:
            idxs = sorted({int(v) for v in rng.integers(0, len(calls), 12)} | {len(calls) - 1})
        else:
            idxs = list(range(len(calls)))
        for k in idxs:
            check_interrupt(ctx, cfg, base, k, calls[k], False, reqs)
        # 2-process: a few structural interrupt points per configuration
        if len(cfg["inits"]) >= 2 and n_par < ctx.n(24, 400):
            for k in sorted({int(v) for v in rng.integers(0, len(calls), ctx.n(2, 4))}):
                n_par += 1
                check_interrupt(ctx, {**cfg, "memmap": "dir" if cfg["memmap"] != "mem" else "mem"}, base, k, calls[k], True, reqs)
    model = common.run_driver("C15", [r[0] for r in reqs]) if reqs else []
    for (req, vcfg, res, case), mline in zip(reqs, model, strict=True):
        m = c13.parse_model(mline)
        if not m["stopped"]:
            ctx.disagreement("model did not stop at the interrupt", {**case, "request": req})
            continue
        d = c13.diff_arrays(vcfg, res["arrays"], [c["arrays"] for c in m["chains"]])
        if d:
            ctx.disagreement("interrupted arrays differ from model: " + d, {**case, "request": req})
        if res["finals"] != m["finals"]:
            ctx.disagreement(f"interrupted final states differ: impl {res['finals']} model {m['finals']}", {**case, "request": req})
    run_hmc(ctx, rng)
    all_workers_interrupted(ctx)


def all_workers_interrupted(ctx):
    """More chains than worker processes and EVERY running chain is interrupted at the same call site:
    all workers stop while chains are still queued; sample_chains must still return."""
    for n_chain, n_process, x, op in [(4, 2, 3, "t0"), (5, 2, 2, "b"), (3, 2, 4, "t0")][: ctx.n(2, 3)]:
        cfg = {**c13.DEFAULT, "inits": [[0, 0]] * n_chain, "nw": 0, "nm": 6, "tw": False, "hf": False, "hs": False,
               "n_process": n_process, "memmap": "mem"}
        case = {**c13.describe(cfg), "interrupt": ["any-chain", x, op]}
        res = c13.real_run(cfg, intr_spec=("any", x, op, 0), timeout=90.0)
        ctx.case(case, nontrivial=True)
        ctx.count("all_workers_interrupted")
        replay = {"all_workers": [n_chain, n_process, x, op]}
        if res["error"]:
            ctx.violation("all workers interrupted: sample_chains did not return",
                          f"{n_chain} chains on {n_process} processes, every running chain interrupted in {op} at x={x}: "
                          f"{res['error']} instead of returning the partial outputs: {case}", replay)
            continue
        base = c13.real_run({**cfg, "n_process": 1})
        if res.get("lengths") != base.get("lengths"):
            ctx.violation("interrupted run array lengths", f"lengths {res.get('lengths')} vs {base.get('lengths')}: {case}", replay)
        # --- B13: a worker that has reported an interrupt takes no further chain (model: `workerRun` stops after an
        # interrupted chain; Props/C15P `pool_interrupted_worker_takes_no_more`): every invocation of the worker
        # function takes exactly one chain here, the queue is FIFO, so exactly the first n_process chains are started
        # and the others keep their fill values ("rows not reached keep their fill values").
        n_started = min(n_process, n_chain)
        touched = [c for c, arrs in enumerate(res["arrays"]) if any(row is not None for a in arrs for row in a)]
        if len(res["finals"]) != n_started or any(c >= n_started for c in touched):
            ctx.violation("all workers interrupted: chains were started after the interrupt",
                          f"{n_chain} chains on {n_process} processes, every running chain interrupted in {op} at x={x}: "
                          f"{len(res['finals'])} final states returned and chains {touched} have written rows, although every "
                          f"worker had reported an interrupt after its first chain (expected chains 0..{n_started - 1} only): {case}",
                          replay)
        # --- end B13


def replay(ctx, obj):
    # --- B16
    if "storage" in obj:
        try:
            return any(b.startswith(("fill", "raised")) for b in c13.storage_case(obj))
        except Exception:  # noqa: BLE001
            return True
    # --- end B16
    if "all_workers" in obj:
        sub = common.Ctx(ctx.prop, "thorough", ctx.seed)
        c13.classes()
        all_workers_interrupted(sub)
        return bool(sub.violations)
    c13.classes()
    if "hmc" in obj:
        spec = tuple(obj["hmc"])
        if "k" in obj:
            base = hmc_run(spec, record=True)
            res = hmc_run(spec, k=obj["k"])
            if res["error"]:
                return True
            return bool(hmc_prefix_check(base, res, len(res["pos"]), spec[2] if spec[5] else 0))
        sub = common.Ctx(ctx.prop, ctx.tier, ctx.seed)
        run_hmc(sub, common.rng_for(sub))
        return bool(sub.violations)
    if "cfg" in obj:
        cfg = obj["cfg"]
        base = c13.real_run({**cfg, "n_process": 1}, log_calls=True)
        spec = tuple(obj["spec"])
        call = tuple(obj["call"])
        sub = common.Ctx(ctx.prop, ctx.tier, ctx.seed)
        idx = spec[1] if spec[0] == "count" else base["calls"].index(call)
        check_interrupt(sub, {**cfg, "n_process": 1}, base, idx, call, spec[0] == "struct", [])
        return bool(sub.violations)
    return False


LEVEL_TEXT = (
    "Lean 4 proof for the model of the interruptible chain / stage / run loops: when a user function raises "
    "KeyboardInterrupt inside operation j of iteration i of chain c in stage k, the returned arrays agree with the "
    "uninterrupted run on every cell completed before that point (earlier stages, earlier chains of the stage in "
    "sequential mode / all other chains in parallel mode, earlier iterations, earlier operations of the iteration) "
    "and every other cell is untouched (still fill); in particular the statistics of the interrupted iteration are "
    "present exactly for the transitions that completed and its trace row is absent when the interrupt comes from "
    "the (first) trace function; the returned state is the one reached by the completed transitions; later chains "
    "(sequential) and later stages are not started and adapters are not finalized (interrupt_prefix_chain, "
    "half_written_iteration_trace/_trans, interrupt_prefix_stage_seq, interrupt_prefix_stage_par [any schedule in "
    "which the interrupted chain is the last one its worker takes; adapter hypothesis AdaptLocal of C14], "
    "interrupt_stops_run, later_stages_not_started, uninterrupted_rows_final). Tied to the code by interrupting "
    "real runs at sampled/all user-call indices (sequential, 2-process, single/multi-stage, memmap with .npy "
    "read-back) and comparing with the model and with the uninterrupted real run."
    " Source-text tie (Props/C15S): the statement trees of the interrupt paths are re-extracted on every run: handler and finally-flush of _sample_chain, normal return after the try, break of the sequential loop, worker reporting the interrupt and stopping, parent recording it without raising, return of the stage loop directly after the chains ran and before _finalize_adapters / the offset update; the iteration body read as operations on the model state is Sampler.iterOps (an interrupt inside operation j leaves it and everything after it undone)."
)
LEVEL_NOTE = (
    "Partial: real asynchronous SIGINT delivery (at arbitrary bytecode boundaries, to parent and worker processes "
    "at once), memmap flushing and the process pool shutdown are exercised / not proved; the interrupt is a "
    "KeyboardInterrupt raised synchronously by a user callback. A transition is atomic in the model: the state "
    "returned after an interrupt is the last completed transition's state (in-place mutations a transition makes "
    "before calling the user function are not modelled), and the generator position after an interrupted "
    "transition is unspecified. Not covered (outside the property's quantifier, counted in the evidence): interrupts "
    "in adapter.initialize's density calls and in the trace call of _init_traces, which propagate to the caller."
)
TECHNIQUE = (
    "Lean 4 theorems (prefix/suffix decomposition of the operation sequence, frame lemmas) + fault injection at "
    "every user-function call index of real runs compared with the model and the uninterrupted run"
    " + AST-extracted control skeleton of the interrupt paths proved equal to the model's (decide +kernel)"
)
# --- B16
LEVEL_TEXT += (
    " Fill-value tie (Props/C15K): _init_traces / _init_stats / _open_new_memmap are re-extracted on every run; the "
    "fill rule `init = np.nan if np.issubdtype(dtype, np.inexact) else 0`, read as a function of the dtype kind, is "
    "proved to be NaN on every inexact kind (float16/32/64, longdouble, complex64/128, clongdouble) and 0 elsewhere, and "
    "to reach every created trace array with both storage kinds for all chain counts / lengths / shapes; a new memmap is "
    "filled completely before it is returned; statistics use the declared fill and every float statistic declares NaN."
)
LEVEL_NOTE += (
    " Fill-value tie: NumPy's subtype lattice (which kinds are sub-dtypes of np.inexact / np.floating / ...) is a table "
    "in Model/SamplerStorageSkeleton.lean, validated by calling _init_traces directly for 13 dtypes."
)
TECHNIQUE += " + AST-extracted fill rule read as a function of the dtype kind"
# --- end B16
