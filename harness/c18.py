"""C18 — memoisation delivers its efficiency contract.

Same model as C09 (lean/MiciVerif/Model/Cache.lean); theorems lean/MiciVerif/Props/C18.lean.

Tie (X): the random histories of C09 are compared on the *cost* side: for every call the model's
list of really evaluated wrapped methods, restricted to the methods that wrap a user model function,
must equal the evaluations counted by the user functions themselves (independent of `_call_counts`).
Leapfrog trajectories are written as op sequences (copy; dh1_dpos; mom in place; dh2_dmom; pos in
place; dh1_dpos; mom in place), run through the model and through the real decorators, and the real
LeapfrogIntegrator must evaluate exactly the same user functions the same number of times.

Tie (T, source text): Props/C18S.lean, on the statement trees regenerated from states.py
(tools/extractors/state_skeleton.py): recompute iff absent-or-None, one count per real evaluation, aux values stored
by zip, a copy keeps every cache entry; the generated wrappers read as model operations are free on a hit.  A broken
obligation adds histories targeted at the changed function and a second pass of the re-evaluation oracle.

Direct oracles on the real code (the property statement): calling again / on a copy / after assigning
a variable the method does not read evaluates no user function; after a derivative function that also
returns lower-order values those values are free; explicit integrators evaluate the gradient once per
new position (closed forms n*k + 1) also across the copies made by Metropolis and dynamic transitions
(1 + k * sum(n_step) gradient evaluations over a whole chain, never twice at the same position).
"""
from __future__ import annotations

import numpy as np

from . import c09 as base
from . import common

PROP = "C18"
LEAN_MODULES = ["MiciVerif.Props.C18", "MiciVerif.Props.C18S"]
LEAN_EXTRA = ["MiciVerif.Model.Cache", "MiciVerif.Proto", "MiciVerif.Generated.CacheDeps"]
GENERATED = ["cache_deps", "state_skeleton"]

USER_FNS = (
    "neg_log_dens", "grad_neg_log_dens", "hess_neg_log_dens", "mtp_neg_log_dens", "constr", "jacob_constr",
    "mhp_constr", "metric_func", "vjp_metric_func",
)
DIM = base.DIM


# ----------------------------------------------------------------------------------------
# correspondence on the cost side


def check_costs(ctx, table, case, model_line, zoos, rr):
    ops = case["ops"]
    model = base.parse_model_line(model_line, len(ops))
    for i, (op, mo, ro) in enumerate(zip(ops, model, rr.out, strict=False)):
        if isinstance(ro, tuple) and ro[0] == "exc":
            ctx.disagreement(f"implementation raised {ro[1]} at op {i} {op[:4]}", case)
            return False
        if op[0] != "m":
            if rr.user_evals[i]:
                ctx.disagreement(f"op {i} {op[:3]} evaluated {rr.user_evals[i]} user function(s)", case)
                return False
            continue
        if not isinstance(mo, tuple) or mo[0] != "v":
            ctx.disagreement(f"model answered {mo} for a call", case)
            return False
        pred = sorted((s, table["methods"][m]) for s, m in mo[3] if table["methods"][m] in USER_FNS)
        if pred != rr.user_keys[i]:
            sig = f"{zoos[op[2]].cls_name}.{table['methods'][op[3]]}"
            ctx.disagreement(
                f"user function evaluations differ at op {i} ({sig}): impl {rr.user_keys[i]} model {pred}", case)
            return False
        ctx.count("call:free" if not pred else "call:costly")
    return True


# ----------------------------------------------------------------------------------------
# leapfrog as an op sequence


def leapfrog_ops(table, cls, sid, n_st, n_steps, rng):
    """ops of `n_steps` calls of LeapfrogIntegrator.step starting from state `sid`; returns (ops, final sid, n_st)."""
    mid = table["mid"]
    ops = []
    gaussian = cls.startswith("Gaussian")

    def delta():
        return (base.dy(rng, 0.25, 1.0, DIM) * rng.choice([-1, 1], DIM)).tolist()

    def h1_flow(s):
        return [["m", s, 0, mid["dh1_dpos"]], ["i", s, "mom", delta()]]

    def h2_flow(s):
        if gaussian:
            return [["a", s, "pos", base.dy(rng, -1.5, 1.5, DIM).tolist()], ["a", s, "mom", base.dy(rng, -1.5, 1.5, DIM).tolist()]]
        return [["m", s, 0, mid["dh2_dmom"]], ["i", s, "pos", delta()]]

    for _ in range(n_steps):
        ops.append(["c", sid, False])
        sid = n_st
        n_st += 1
        ops += h1_flow(sid) + h2_flow(sid) + h1_flow(sid)
    return ops, sid, n_st


def real_integrator_counts(spec, init, integ_name, n_steps, pre_calls=()):
    """user function evaluations of n real integrator steps from a fresh state"""
    import mici

    zoo = base.build(spec)
    st = base.new_state(init)
    for m in pre_calls:
        getattr(zoo.system, m)(st)
    zoo.cnt.clear()
    integ = dict(base.integrators_for(spec["cls"], zoo.system, np.random.default_rng(0)))[integ_name](zoo.system)
    positions = []
    orig = zoo.system._grad_neg_log_dens  # noqa: SLF001

    def spy(q):
        positions.append(np.array(q).tobytes())
        return orig(q)

    zoo.system._grad_neg_log_dens = spy  # noqa: SLF001
    try:
        for _ in range(n_steps):
            st = integ.step(st)
    except mici.errors.Error:
        return None, None
    return dict(zoo.cnt), positions


STAGES = {"Leapfrog": 1, "BCSS2": 2, "BCSS3": 3, "BCSS4": 4}


# ----------------------------------------------------------------------------------------
# direct oracles


def traced_reads(table, zoo, meth, vals):
    from mici.states import ChainState

    log = []

    class Tracing(ChainState):
        def __getattr__(self, name):
            if name in self.__dict__.get("_variables", {}):
                log.append(name)
            return super().__getattr__(name)

    st = Tracing(pos=np.array(vals[0]), mom=np.array(vals[1]), dir=int(vals[2]))
    getattr(zoo.system, meth)(st)
    return set(log)


def oracle_no_reeval(ctx, table, rng):
    """call again / on a copy / on a pickled copy / after assigning a variable the method does not read."""
    for cls in table["classes"]:
        for rep in range(ctx.n(4, 20)):
            spec = base.random_spec(rng, cls)
            zoo = base.build(spec)
            for m in base.callable_methods(table, spec, with_cond=True):
                vals = base.init_vals(rng)
                case = {"kind": "no-reeval", "spec": spec, "meth": m, "vals": vals}
                try:
                    bad = run_no_reeval(table, zoo, m, vals, rng)
                except Exception as e:  # noqa: BLE001
                    ctx.disagreement(f"implementation raised {type(e).__name__}: {e} in {cls}.{m}", case)
                    continue
                ctx.case({"no_reeval": f"{cls}.{m}", "rep": rep}, nontrivial=True)
                ctx.count("no_reeval_cases")
                for what, n in bad:
                    unit = "wrapped method(s)" if what.endswith("[wrapped methods only]") else "user model function(s)"
                    ctx.violation(
                        f"re-evaluation: {cls}.{m} {what.split(' ')[0]}",
                        f"{cls}.{m}: {what} evaluated {n} {unit} again",
                        {**case, "what": what},
                    )


def run_no_reeval(table, zoo, m, vals, rng=None):
    import pickle

    rng = rng or np.random.default_rng(1)
    bad = []
    reads = traced_reads(table, zoo, m, vals)
    st = base.new_state(vals)
    f = getattr(zoo.system, m)
    f(st)

    def probe(state, what):
        """call on `state`; user functions (primary) and wrapped methods (via _call_counts) evaluated"""
        zoo.cnt.clear()
        before = sum(base.counts_of(state).values())
        f(state)
        wrapped = sum(base.counts_of(state).values()) - before
        if zoo.total():
            bad.append((what, zoo.total()))
        elif wrapped:
            bad.append((what + " [wrapped methods only]", wrapped))

    probe(st, "again on the same state")
    probe(st.copy(), "copy of the state")
    probe(st.copy(read_only=True), "read-only copy of the state")
    # pickling drops callable entries only: methods whose cached inputs are all non-callable stay free
    e = table["by"][(zoo.cls_name, m)]
    for x in base.VARS:
        if x in reads:
            continue
        st2 = st.copy()
        if x == "dir":
            st2.dir = -st2.dir
        elif x == "pos":
            st2.pos = np.array(base.dy(rng, -1.5, 1.5, DIM))
        else:
            if rng.random() < 0.5:
                st2.mom = np.array(base.dy(rng, -1.5, 1.5, DIM))
            else:
                st2.mom += 0.5
        probe(st2, f"assigning `{x}` (not read by the method: reads {sorted(reads)})")
    del pickle, e
    return bad


def oracle_aux_free(ctx, table, rng):
    """derivative function that also returns lower-order values makes later requests for them free"""
    for cls in table["classes"]:
        for (c, m), e in sorted(table["by"].items()):
            if c != cls or not e["withAux"]:
                continue
            convname = base.Zoo.AUX_CONV.get(m)
            if convname is None:
                ctx.count("aux_method_without_convention")
                continue
            for k in range(1, base.CONV_RANGE[convname]):
                spec = base.random_spec(rng, cls)
                spec["conv"][convname] = k
                spec["conv"]["hausdorff"] = 0
                if m in base.unavailable(spec):
                    continue
                vals = base.init_vals(rng)
                case = {"kind": "aux-free", "spec": spec, "meth": m, "k": k, "vals": vals}
                try:
                    bad = run_aux_free(table, case)
                except Exception as ex:  # noqa: BLE001
                    ctx.disagreement(f"implementation raised {type(ex).__name__}: {ex} in {cls}.{m}", case)
                    continue
                ctx.case({"aux_free": f"{cls}.{m}", "k": k}, nontrivial=True)
                ctx.count("aux_free_cases")
                for a, n in bad:
                    ctx.violation(
                        f"aux output not free: {cls}.{m} -> {a}",
                        f"{cls}.{m} returned {k} auxiliary value(s) but a later {cls}.{a} evaluated {n} user function(s)",
                        case,
                    )


def run_aux_free(table, case):
    zoo = base.build(case["spec"])
    cls, m, k = case["spec"]["cls"], case["meth"], case["k"]
    e = table["by"][(cls, m)]
    st = base.new_state(case["vals"])
    getattr(zoo.system, m)(st)
    bad = []
    for a in e["aux"][:k]:
        if (cls, a) not in table["by"] or not table["by"][(cls, a)]["stateOnly"]:
            continue
        zoo.cnt.clear()
        getattr(zoo.system, a)(st)
        if zoo.total():
            bad.append((a, zoo.total()))
        zoo.cnt.clear()
        getattr(zoo.system, a)(st.copy())
        if zoo.total():
            bad.append((a + " (on a copy)", zoo.total()))
    return bad


def oracle_once_per_position(ctx, table, rng):
    """on ONE state (no copies): between two assignments of `pos` every user function is evaluated at most once,
    whatever sequence of system methods is called (all user functions of all classes depend on `pos` only)"""
    for cls in table["classes"]:
        for _ in range(ctx.n(3, 20)):
            spec = base.random_spec(rng, cls)
            seed = int(rng.integers(1 << 30))
            case = {"kind": "once-per-position", "spec": spec, "seed": seed, "init": base.init_vals(rng), "n": 40}
            try:
                bad = run_once_per_position(table, case)
            except Exception as e:  # noqa: BLE001
                ctx.disagreement(f"implementation raised {type(e).__name__}: {e} in once-per-position oracle ({cls})", case)
                continue
            ctx.case({"once_per_position": cls}, nontrivial=True)
            ctx.count("once_per_position_cases")
            if bad:
                ctx.violation(f"re-evaluation: {cls} {bad[0]} twice at one position", f"{cls}: {bad[1]}", case)


def run_once_per_position(table, case):
    spec = case["spec"]
    zoo = base.build(spec)
    rng = np.random.default_rng(case["seed"])
    st = base.new_state(case["init"])
    meths = base.callable_methods(table, spec, with_cond=True)
    zoo.cnt.clear()
    trail = []
    for _ in range(case["n"]):
        u = rng.random()
        if u < 0.75:
            m = meths[int(rng.integers(len(meths)))]
            getattr(zoo.system, m)(st)
            trail.append(m)
            for name, n in zoo.cnt.items():
                if n > 1:
                    return (name, f"user function {name} evaluated {n} times at one position by the calls {trail[-8:]}")
        elif u < 0.85:
            st.pos = np.array(base.dy(rng, -1.5, 1.5, DIM))
            zoo.cnt.clear()
            trail.append("pos=")
        elif u < 0.93:
            st.mom = np.array(base.dy(rng, -1.5, 1.5, DIM))
            trail.append("mom=")
        elif u < 0.97:
            st.mom += 0.25
            trail.append("mom+=")
        else:
            st.dir = -st.dir
            trail.append("dir=")
    return None


def oracle_trajectories(ctx, table, rng):
    """explicit integrators: k*n + 1 gradient evaluations for n steps, never twice at one position"""
    for i in range(ctx.n(150, 1200)):
        cls = ["EuclideanMetricSystem", "GaussianEuclideanMetricSystem"][i % 2]
        spec = base.random_spec(rng, cls)
        name = list(STAGES)[int(rng.integers(len(STAGES)))]
        n = int(rng.integers(1, 9))
        init = base.init_vals(rng)
        warm = bool(rng.random() < 0.3)
        case = {"kind": "trajectory", "spec": spec, "integrator": name, "n": n, "init": init, "warm": warm}
        try:
            bad = run_trajectory(case)
        except Exception as e:  # noqa: BLE001
            ctx.disagreement(f"implementation raised {type(e).__name__}: {e} in {cls} {name}", case)
            continue
        ctx.case({"trajectory": cls, "integrator": name, "n": n, "warm": warm}, nontrivial=n >= 2)
        ctx.count(f"trajectory:{name}")
        if bad:
            ctx.violation(f"gradient evaluations: {name} {cls}", f"{cls} {name} n={n} warm={warm}: {bad}", case)


def run_trajectory(case):
    cnt, positions = real_integrator_counts(
        case["spec"], case["init"], case["integrator"], case["n"], pre_calls=("dh1_dpos",) if case["warm"] else ())
    if cnt is None:
        return None
    k = STAGES[case["integrator"]]
    want = k * case["n"] + (0 if case["warm"] else 1)
    got = cnt.get("grad_neg_log_dens", 0)
    bad = []
    if got != want:
        bad.append(f"{got} gradient evaluations, expected {want} (= {k}*n + {0 if case['warm'] else 1})")
    if len(set(positions)) != len(positions):
        bad.append(f"gradient evaluated {len(positions)} times at only {len(set(positions))} distinct positions")
    if cnt.get("neg_log_dens", 0):
        bad.append(f"{cnt['neg_log_dens']} neg_log_dens evaluations during integration")
    return "; ".join(bad) or None


def oracle_chains(ctx, table, rng):
    """gradient evaluations over whole chains: 1 + k * (total integrator steps), across all copies"""
    for i in range(ctx.n(150, 1200)):
        cls = ["EuclideanMetricSystem", "GaussianEuclideanMetricSystem"][i % 2]
        spec = base.random_spec(rng, cls)
        case = {
            "kind": "chain", "spec": spec, "integrator": list(STAGES)[int(rng.integers(len(STAGES)))],
            "transition": ["static", "random", "multinomial", "slice"][int(rng.integers(4))],
            "n": int(rng.integers(1, 5)), "n_iter": int(rng.integers(1, 6)), "mom_kind": int(rng.integers(2)),
            "init": base.init_vals(rng), "seed": int(rng.integers(1 << 30)),
        }
        try:
            bad, info = base._with_timeout(lambda c=case: run_chain(c), 60)  # noqa: SLF001
        except base._Timeout:  # noqa: SLF001
            ctx.count("chain_timeout")
            continue
        except Exception as e:  # noqa: BLE001
            ctx.disagreement(f"implementation raised {type(e).__name__}: {e} in chain {case['transition']}", case)
            continue
        if info == "integrator-error":
            ctx.count("chain_with_integrator_error_skipped")
            continue
        ctx.case({k: case[k] for k in ("integrator", "transition", "n", "n_iter")} | {"cls": cls}, nontrivial=info >= 2)
        ctx.count(f"chain:{case['transition']}:{case['integrator']}")
        if bad and bad.startswith("DUP-Q0"):
            ctx.count("chain:duplicate_gradient_at_initial_state")
            ctx.violation(
                "duplicate gradient at un-stepped state",
                f"{cls} {case['transition']}/{case['integrator']} {case['n_iter']} iterations from a fresh state: {bad[7:]} "
                "(Integrator.step copies before the first h1_flow, the original never caches its gradient)", case)
        elif bad:
            ctx.violation(
                f"gradient evaluations: {case['transition']} transition {case['integrator']}",
                f"{cls} {case['transition']}/{case['integrator']} {case['n_iter']} iterations: {bad}", case)


def run_chain(case):
    import mici

    zoo = base.build(case["spec"])
    system = zoo.system
    rng = np.random.default_rng(case["seed"])
    st = base.new_state(case["init"])
    integ = dict(base.integrators_for(case["spec"]["cls"], system, np.random.default_rng(0)))[case["integrator"]](system)
    T = mici.transitions
    momt = T.IndependentMomentumTransition(system) if case["mom_kind"] == 0 else T.CorrelatedMomentumTransition(system, 0.5)
    kind = case["transition"]
    if kind == "static":
        it = T.MetropolisStaticIntegrationTransition(system, integ, n_step=case["n"])
    elif kind == "random":
        it = T.MetropolisRandomIntegrationTransition(system, integ, n_step_range=(1, case["n"] + 1))
    elif kind == "multinomial":
        it = T.MultinomialDynamicIntegrationTransition(system, integ, max_tree_depth=case["n"])
    else:
        it = T.SliceDynamicIntegrationTransition(system, integ, max_tree_depth=case["n"])
    positions = []
    orig = system._grad_neg_log_dens  # noqa: SLF001

    def spy(q):
        positions.append(np.array(q).tobytes())
        return orig(q)

    system._grad_neg_log_dens = spy  # noqa: SLF001
    total_steps = 0
    n_new_h = 0
    for _ in range(case["n_iter"]):
        st, _ = momt.sample(st, rng)
        st, stats = it.sample(st, rng)
        if stats.get("convergence_error") or stats.get("non_reversible_step"):
            return None, "integrator-error"
        total_steps += int(stats["n_step"])
        n_new_h += int(stats["n_step"]) if kind in ("multinomial", "slice") else (1 if stats["n_step"] else 0)
    k = STAGES[case["integrator"]]
    bad = []
    got = zoo.cnt.get("grad_neg_log_dens", 0)
    q0 = np.array(case["init"][0], dtype=float).tobytes()
    dup_q0 = max(0, positions.count(q0) - 1)
    want = 1 + k * total_steps + dup_q0 if total_steps else got
    if got != want:
        bad.append(f"{got} gradient evaluations, expected 1 + {k}*{total_steps} = {want - dup_q0} (+{dup_q0} repeats at the initial position)")
    if len(set(positions)) != len(positions) - dup_q0:
        bad.append(f"gradient evaluated {len(positions)} times at only {len(set(positions))} distinct positions")
    if dup_q0 and not bad:
        return f"DUP-Q0 gradient at the chain's initial (never stepped) position evaluated {dup_q0 + 1} times", total_steps
    nld = zoo.cnt.get("neg_log_dens", 0)
    if case["spec"]["conv"].get("grad", 0):
        # the gradient function also returns the value: only the energy of the initial state (requested before any
        # gradient) costs an evaluation
        if nld > 1:
            bad.append(f"{nld} neg_log_dens evaluations although grad_neg_log_dens returns the value")
    else:
        want_nld = 1 + n_new_h
        if nld != want_nld:
            bad.append(f"{nld} neg_log_dens evaluations, expected {want_nld} (initial state + one per new state whose energy is needed)")
    return "; ".join(bad) or None, total_steps


# ----------------------------------------------------------------------------------------


def run(ctx: common.Ctx):
    table = base.load_table()
    rng = common.rng_for(ctx, 1)
    ctx.rule = (
        "cost correspondence: the C09 history generator (15-40 ops quick / 30-120 thorough, 1-3 system objects); "
        "non-trivial = history with a copy/pickle, an assignment and >= 5 calls.  leapfrog op-sequences: n = 1..8 steps; "
        "oracles: every state method of every class (again / copy / read-only copy / independent assignment), every "
        "auxiliary-output convention, trajectories n = 1..8 of 4 explicit integrators, chains of 1..5 transitions of 4 kinds"
    )
    ctx.assumptions += [
        "user model functions are deterministic and return fresh arrays; evaluations are counted by the functions themselves",
        "closed-form counts assume no integrator error inside the chain (runs with errors are skipped and counted)",
        "the efficiency contract is about evaluations of user functions, not about wall time",
    ]
    mismatches = base.cross_check_table(ctx, table)
    cdir = common.VERIF / "corpus" / PROP
    if cdir.exists():
        import json

        for f in sorted(cdir.glob("*.json")):
            obj = json.loads(f.read_text())
            ctx.count("corpus_replayed")
            try:
                again = replay(ctx, obj)
            except common.MachineryError:
                raise
            except Exception as e:  # noqa: BLE001  (an exception of the implementation is a finding, not a crash)
                ctx.violation(obj.get("signature", "corpus:" + f.name),
                              f"corpus case {f.name}: implementation raised {type(e).__name__}: {e}", obj)
                continue
            if again:
                ctx.violation(obj.get("signature", "corpus:" + f.name), f"corpus case {f.name} fails again", obj)
    # ---- cost correspondence on random histories ---------------------------------------------
    runs = base.histories(ctx, table, rng, ctx.n(2000, 6000), (15, 41) if ctx.quick else (30, 121))
    # ---- leapfrog op sequences -----------------------------------------------------------------
    lf = []
    for i in range(ctx.n(150, 1000)):
        cls = ["EuclideanMetricSystem", "GaussianEuclideanMetricSystem"][i % 2]
        spec = base.random_spec(rng, cls)
        n = int(rng.integers(1, 9))
        warm = bool(rng.random() < 0.3)
        pre = [["m", 0, 0, table["mid"]["dh1_dpos"]]] if warm else []
        ops, _, n_st = leapfrog_ops(table, cls, 0, 1, n, rng)
        ops = pre + ops
        init = base.init_vals(rng)
        case = {"specs": [spec], "init": init, "ops": ops, "leapfrog_n": n, "warm": warm}
        try:
            zoos, facts, rr = base.run_real(table, [spec], init, ops)
        except base._Timeout:  # noqa: SLF001
            ctx.disagreement("implementation did not return within 30 s", case)
            continue
        lf.append((case, zoos, facts, rr, base.wire_request(table, zoos, facts, ops, n_st)))
    # ---- escalation: an obligation about the statement trees generated from states.py is broken ----
    broken = base.skeleton_broken(ctx)
    if broken:
        focus = base.skeleton_focus(broken)
        ctx.extra["skeleton_obligations_broken"] = broken[:20]
        ctx.extra["escalated_focus"] = focus
        ctx.count("escalated_search(state skeleton obligation broken)")
        runs += base.targeted_histories(ctx, table, rng, ctx.n(800, 4000), focus)
    answers = common.run_driver("C18", [r[4] for r in runs + lf]) if runs or lf else []
    for (case, zoos, facts, rr, _req), line in zip(runs + lf, answers, strict=True):
        ops = case["ops"]
        kinds = [o[0] for o in ops]
        if "leapfrog_n" in case:
            n = case["leapfrog_n"]
            ctx.case({"leapfrog_ops": zoos[0].cls_name, "n": n, "warm": case["warm"]}, nontrivial=n >= 2)
            ctx.count("leapfrog_op_sequence")
            if not check_costs(ctx, table, case, line, zoos, rr):
                continue
            model = base.parse_model_line(line, len(ops))
            gid = table["mid"]["grad_neg_log_dens"]
            skip = 1 if case["warm"] else 0  # the warming call itself is not part of the trajectory
            n_model = sum(1 for mo in model[skip: len(ops)] if isinstance(mo, tuple) and mo[0] == "v" for k in mo[3] if k[1] == gid)
            want = n + (0 if case["warm"] else 1)
            if n_model != want:
                ctx.disagreement(f"model leapfrog: {n_model} gradient evaluations for n={n} warm={case['warm']}, theorem says {want}", case)
            try:
                cnt, _ = real_integrator_counts(case["specs"][0], case["init"], "Leapfrog", n, pre_calls=("dh1_dpos",) if case["warm"] else ())
            except Exception as e:  # noqa: BLE001
                ctx.disagreement(f"real LeapfrogIntegrator raised {type(e).__name__}: {e}", case)
                continue
            if cnt is not None:
                got = cnt.get("grad_neg_log_dens", 0)
                if got != n_model:
                    ctx.disagreement(
                        f"real LeapfrogIntegrator: {got} gradient evaluations for n={n} warm={case['warm']}, model op sequence {n_model}", case)
                other = {k: v for k, v in cnt.items() if k != "grad_neg_log_dens" and v}
                if other:
                    ctx.disagreement(f"real LeapfrogIntegrator evaluated other user functions {other}", case)
        else:
            nontrivial = (kinds.count("c") + kinds.count("p") >= 1 and kinds.count("a") + kinds.count("i") >= 1 and kinds.count("m") >= 5)
            ctx.case({"classes": [z.cls_name for z in zoos], "n_ops": len(ops)}, nontrivial=nontrivial)
            ctx.count(f"hist:n_sys={len(zoos)}")
            check_costs(ctx, table, case, line, zoos, rr)
    # ---- direct oracles ---------------------------------------------------------------------------
    oracle_no_reeval(ctx, table, rng)
    if broken:
        oracle_no_reeval(ctx, table, rng)  # second pass with new configurations / values
    oracle_aux_free(ctx, table, rng)
    oracle_once_per_position(ctx, table, rng)
    oracle_trajectories(ctx, table, rng)
    oracle_chains(ctx, table, rng)
    # declared-dependency precision, concretely: a cached method must survive assignments to variables it does not read
    base.finish_run(ctx, mismatches)
    ctx.extra["table"] = {
        "entries": len(table["entries"]),
        "imprecise_entries": [
            f"{e['cls']}.{e['meth']}: declared {e['declared']} true {e['trueDeps']}"
            for e in table["entries"] if e["cached"] and not set(e["declared"]) <= set(e["trueDeps"])],
    }


def replay(ctx, obj):
    kind = obj.get("kind")
    table = base.load_table()
    if kind == "no-reeval":
        zoo = base.build(obj["spec"])
        bad = run_no_reeval(table, zoo, obj["meth"], obj["vals"])
        return bool(bad)
    if kind == "aux-free":
        return bool(run_aux_free(table, obj))
    if kind == "trajectory":
        return bool(run_trajectory(obj))
    if kind == "once-per-position":
        return bool(run_once_per_position(table, obj))
    if kind == "chain":
        bad, _ = run_chain(obj)
        return bool(bad)
    sub = common.Ctx(ctx.prop, ctx.tier, ctx.seed)
    run(sub)
    return any(v["signature"] == obj.get("signature") for v in sub.violations)


LEVEL_TEXT = (
    "Lean 4 proof on the same state-machine model as C09: `table_precise` (the generated table declares no dependency a method's "
    "result does not have, also for keys registered through auxiliary outputs; kernel `decide`); `call_makes_warm`, "
    "`warm_call_is_free`, `no_reeval_again` (the same call again evaluates no wrapped method and changes no state); "
    "`no_reeval_copy` (nor on a copy / read-only copy); `no_reeval_indep` (on every reachable heap, nor after rebinding or "
    "in-place assignment of a variable outside the method's true dependencies); `aux_free` (after a with-aux method was evaluated "
    "the auxiliary outputs its user function returned are hits); `leapfrog_grad_count` / `leapfrog_fresh_grad_count` (n leapfrog "
    "steps, written as the operations LeapfrogIntegrator.step performs, evaluate the gradient wrapper n+1 times from a state "
    "without cached gradient and n times otherwise, after any prior history; `leapfrog_gaussian_grad_count` for the Gaussian-split "
    "h2_flow) with `generated_leapfrog_shape(_gaussian)` tying the hypothesis to the generated table for EuclideanMetricSystem "
    "and GaussianEuclideanMetricSystem. Props/C18S (statement trees regenerated from src/mici/states.py on this run): "
    "`skel_recompute_iff_absent_or_none` (the wrapped method is called at one place, guarded by `key not in cache or cache[key] "
    "is None`), `skel_call_count_incremented_only_on_compute`, `skel_hit_returns_cached_entry`, `skel_aux_values_stored_by_zip`, "
    "`skel_copy_keeps_all_cache_entries`, `skel_copy_shares_call_counts`, `skel_setattr_invalidates_only_dependents`, "
    "`skel_call_counts_never_none`, `sem_wrap_plans`; `sem_hit_is_free` / "
    "`sem_miss_counts_once` - the wrappers generated from the source, read as operations on the model heap, evaluate nothing on "
    "a valid entry and count the method once otherwise (whole-function equalities with the annotated model trees: Props/C09S)."
)
LEVEL_NOTE = (
    "The model counts evaluations of wrapped methods; the harness ties them to evaluations counted by the user functions "
    "themselves on the real classes (independent of _call_counts) and checks that the real LeapfrogIntegrator performs exactly the "
    "modelled op sequence's evaluations.  Checked on the real code only (closed forms in the harness, not Lean theorems): "
    "BCSS 2/3/4-stage integrators (k*n+1), Metropolis static/random and multinomial/slice dynamic "
    "transitions over whole chains (1 + k*sum(n_step) gradients plus repeats at the chain's initial never-stepped state, which is "
    "a KNOWN finding; neg_log_dens: at most 1 if the gradient function returns the value, else 1 + number of new states whose "
    "energy is needed), never twice at one position.  Chains with integrator errors are skipped and counted.  Pickling drops "
    "callable entries by design, so 'free after pickle' is not claimed."
)
TECHNIQUE = "proof (Lean 4) + generated table (decide) + model/implementation cost correspondence + counting oracles"
