import MiciVerif.Model.Momentum
import MiciVerif.Proto
import Mathlib.Algebra.Order.Field.Rat
open MiciVerif MiciVerif.Constrained MiciVerif.Momentum MiciVerif.Proto Matrix

/-! Line-protocol driver for C08 (model executed over ℚ); `c = 0` is an unconstrained system.

    pcov   n c J M            ↦ `ok <M − Jᵀ G⁻¹ J>`            (projected metric, exact)
    sample n c J M L z        ↦ `ok <P (L z)>`                 (`sample_momentum`, `L` = metric.sqrt as data)
    cm     n c J M L coeff a mom z
                              ↦ `<mom'> <draws>`               (`CorrelatedMomentumTransition.sample`;
                                 `mom` = `none` or a vector, `a` = value of (1-coeff²)^½ as data,
                                 every normal draw of the generator is `z`)
-/

def toVector? {α : Type} (n : Nat) (l : List α) : Option (Vector α n) :=
  if h : l.length = n then some ⟨l.toArray, by simpa using h⟩ else none
def toVec? (n : Nat) (s : String) : Option (Vec ℚ n) := do toVector? n (← parseVec? s)
def toMat? (m n : Nat) (s : String) : Option (Mat ℚ m n) := do
  let rows ← parseMat? s
  toVector? m (← rows.mapM (toVector? n))

def showV {n : Nat} (v : Vec ℚ n) : String := showVec v.toList
def showM {m n : Nat} (A : Mat ℚ m n) : String := showMat (A.toList.map (·.toList))

/-- metric inverse and Gram inverse as checked data -/
def setup (n c : Nat) (J M : String) : Option (Except Fault (Mat ℚ c n × Mat ℚ n n × Mat ℚ n n × Mat ℚ c c)) := do
  let J ← toMat? c n J
  let M ← toMat? n n M
  match checkedInv M with
  | .error e => some (.error e)
  | .ok N =>
    match checkedInv (innerProduct J N J) with
    | .error e => some (.error e)
    | .ok Ginv => some (.ok (J, M, N, Ginv))

def doPcov (n c : Nat) (J M : String) : Option String := do
  match ← setup n c J M with
  | .error _ => some "fault"
  | .ok (J, M, _, Ginv) => some s!"ok {showM (mat (M.fn - J.fnᵀ * Ginv.fn * J.fn))}"

def doSample (n c : Nat) (J M L z : String) : Option String := do
  let L ← toMat? n n L
  let z ← toVec? n z
  match ← setup n c J M with
  | .error _ => some "fault"
  | .ok (J, _, N, Ginv) =>
    some s!"ok {showV (vec (sampleMomentumConstrained J.fn N.fn Ginv.fn L.fn z.fn))}"

def doCm (n c : Nat) (J M L coeff a mom z : String) : Option String := do
  let L ← toMat? n n L
  let z ← toVec? n z
  let coeff ← parseRat? coeff
  let a ← parseRat? a
  let mom : Option (Fin n → ℚ) ← (if mom = "none" then some none else (toVec? n mom).map (fun v => some v.fn))
  match ← setup n c J M with
  | .error _ => some "fault"
  | .ok (J, _, N, Ginv) =>
    let S := fun x => (vec (sampleMomentumConstrained J.fn N.fn Ginv.fn L.fn x)).fn
    let r := correlatedSample S coeff a mom (fun _ => z.fn) 0
    some s!"{showV (vec r.1)} {r.2}"

def stepLine (line : String) : String :=
  match line.splitOn " " with
  | ["pcov", n, c, J, M] =>
    match n.toNat?, c.toNat? with
    | some n, some c => (doPcov n c J M).getD "bad-op"
    | _, _ => "bad-op"
  | ["sample", n, c, J, M, L, z] =>
    match n.toNat?, c.toNat? with
    | some n, some c => (doSample n c J M L z).getD "bad-op"
    | _, _ => "bad-op"
  | ["cm", n, c, J, M, L, coeff, a, mom, z] =>
    match n.toNat?, c.toNat? with
    | some n, some c => (doCm n c J M L coeff a mom z).getD "bad-op"
    | _, _ => "bad-op"
  | _ => "bad-op"

def main : IO Unit := run stepLine
