import MiciVerif.Model.LogRep
import MiciVerif.Proto
open MiciVerif MiciVerif.LogRep MiciVerif.Proto

/-! Line-protocol driver for C20: the definitions of `Model/LogRep.lean` executed on IEEE
doubles (`Float`) with Python's `math` semantics and a trace of the primitive calls.

Doubles cross the protocol as their 64-bit patterns (decimal `UInt64`), which is exact and
also carries `±inf` / `nan`.

Lean's `Float` has `exp` and `log` (the C library's, as used by CPython) but no `log1p` /
`expm1`: they are emulated with Kahan's formulas
  `log1p x = if 1+x == 1 then x else log(1+x) * x / ((1+x) - 1)`,
  `expm1 x = let u = exp x; if u == 1 then x else if u-1 == -1 then -1 else (u-1) * x / log u`,
accurate to a few ulp; the harness therefore compares values within a small ulp budget and
branch decisions / call sequences exactly.

  f1 l1p|l1m <bits>                 log1p_exp / log1m_exp
  f2 lse|lde <bits> <bits>          log_sum_exp / log_diff_exp
  op <name> <bits> R|P <bits>       LogRepFloat(log_val=·) <name> (LogRepFloat(log_val=·) | plain)
  acc <bits> R:<bits>,P:<bits>,…    sequence of `+=`
answers: `<bits> <err 0|1> <name>:<argbits>,…`  (value, raised?, primitive calls in order)
         `R|P|B <bits> <err>` for operators (LogRepFloat / plain float / bool as 0|1). -/

structure PyFloat where
  v : Float
  err : Bool := false
  calls : List (String × Float) := []

namespace PyFloat

def pure (x : Float) : PyFloat := ⟨x, false, []⟩
def raise (calls : List (String × Float)) : PyFloat := ⟨Float.ofBits 0x7FF8000000000000, true, calls⟩

def isInf (x : Float) : Bool := x == (1.0 / 0.0) || x == (-1.0 / 0.0)

def kahanLog1p (x : Float) : Float :=
  if x == (1.0 / 0.0) then x else
  let u := 1.0 + x
  if u == 1.0 then x else Float.log u * x / (u - 1.0)

def kahanExpm1 (x : Float) : Float :=
  let u := Float.exp x
  if u == 1.0 then x
  else
    let um1 := u - 1.0
    if um1 == -1.0 then -1.0 else um1 * x / Float.log u

/-- apply a unary primitive: strict in `err`, records the call -/
def un (name : String) (f : Float → Option Float) (x : PyFloat) : PyFloat :=
  if x.err then x else
  let calls := x.calls ++ [(name, x.v)]
  match f x.v with
  | some r => ⟨r, false, calls⟩
  | none => raise calls

def bin (f : Float → Float → Option Float) (x y : PyFloat) : PyFloat :=
  if x.err then x else if y.err then { y with calls := x.calls ++ y.calls } else
  match f x.v y.v with
  | some r => ⟨r, false, x.calls ++ y.calls⟩
  | none => raise (x.calls ++ y.calls)

/-- `math.exp`: OverflowError when the result overflows for a finite argument -/
def pyExp (x : Float) : Option Float :=
  let r := Float.exp x
  if isInf r && !isInf x then none else some r

/-- `math.log`: ValueError for arguments ≤ 0 (and -inf); NaN passes through -/
def pyLog (x : Float) : Option Float := if x <= 0.0 then none else some (Float.log x)

/-- `math.log1p`: ValueError for arguments ≤ -1 -/
def pyLog1p (x : Float) : Option Float := if x <= -1.0 then none else some (kahanLog1p x)

def pyExpm1 (x : Float) : Option Float :=
  let r := kahanExpm1 x
  if isInf r && !isInf x then none else some r

def prims : Prims PyFloat where
  exp := un "exp" pyExp
  expSat := un "expSat" (fun x => some (Float.exp x))
  log := un "log" pyLog
  log1p := un "log1p" pyLog1p
  expm1 := un "expm1" pyExpm1
  add := bin (fun a b => some (a + b))
  sub := bin (fun a b => some (a - b))
  mul := bin (fun a b => some (a * b))
  div := bin (fun a b => if b == 0.0 then none else some (a / b))
  neg := fun x => if x.err then x else { x with v := -x.v }
  lt := fun a b => !a.err && !b.err && a.v < b.v
  le := fun a b => !a.err && !b.err && a.v <= b.v
  eq := fun a b => !a.err && !b.err && a.v == b.v
  zero := pure 0.0
  negInf := pure (-1.0 / 0.0)
  nan := pure (Float.ofBits 0x7FF8000000000000)
  log2 := pure (Float.log 2.0)
  err := raise []

end PyFloat

open PyFloat

def parseF? (s : String) : Option PyFloat :=
  s.toNat?.bind (fun n => if n < 2 ^ 64 then some (PyFloat.pure (Float.ofBits (UInt64.ofNat n))) else none)

def showF (x : PyFloat) : String :=
  s!"{x.v.toBits.toNat} {if x.err then 1 else 0}"

def showCalls (x : PyFloat) : String :=
  ",".intercalate (x.calls.map (fun (n, a) => s!"{n}:{a.toBits.toNat}"))

def showFull (x : PyFloat) : String := showF x ++ " " ++ showCalls x

def showScalar : Scalar PyFloat → String
  | .rep r => "R " ++ showF r.logVal
  | .plain v => "P " ++ showF v

def showBool (b : Bool) : String := s!"B {if b then 1 else 0} 0"

def parseScalar? (k b : String) : Option (Scalar PyFloat) :=
  match k, parseF? b with
  | "R", some x => some (.rep ⟨x⟩)
  | "P", some x => some (.plain x)
  | _, _ => none

def doOp (name : String) (x : LogRepF PyFloat) (o : Scalar PyFloat) : Option String :=
  let P := prims
  let plain : Option PyFloat := match o with | .plain v => some v | _ => none
  match name with
  | "add" => some (showScalar (x.add P o))
  | "iadd" => some (showScalar (.rep (x.iadd P o)))
  | "sub" => some (showScalar (x.sub P o))
  | "mul" => some (showScalar (x.mul P o))
  | "div" => some (showScalar (x.div P o))
  | "lt" => some (showBool (x.lt P o))
  | "gt" => some (showBool (x.gt P o))
  | "le" => some (showBool (x.le P o))
  | "ge" => some (showBool (x.ge P o))
  | "eq" => some (showBool (x.beq P o))
  | "ne" => some (showBool (x.bne P o))
  | "rsub" => plain.map (fun v => "P " ++ showF (x.rsub P v))
  | "rdiv" => plain.map (fun v => "P " ++ showF (x.rdiv P v))
  | "neg" => some ("P " ++ showF (x.neg P))
  | "val" => some ("P " ++ showF (x.val P))
  | "ofval" => plain.map (fun v => "R " ++ showF (LogRepF.ofVal P v).logVal)
  | "ratio" =>
    match o with
    | .rep d => some (showScalar (weightRatio P (PyFloat.pure 1.0) x d))
    | _ => none
  | _ => none

def step (line : String) : String :=
  match line.splitOn " " with
  | ["f1", name, a] =>
    match parseF? a with
    | some a =>
      if name = "l1p" then showFull (log1pExp prims a)
      else if name = "l1m" then showFull (log1mExp prims a)
      else if name = "l1mold" then showFull (log1mExpOld prims a)
      else "bad-op"
    | none => "bad-op"
  | ["f2", name, a, b] =>
    match parseF? a, parseF? b with
    | some a, some b =>
      if name = "lse" then showFull (logSumExp prims a b)
      else if name = "lde" then showFull (logDiffExp prims a b)
      else "bad-op"
    | _, _ => "bad-op"
  | ["op", name, a, k, b] =>
    match parseF? a, parseScalar? k b with
    | some a, some o => (doOp name ⟨a⟩ o).getD "bad-op"
    | _, _ => "bad-op"
  | ["acc", a, items] =>
    match parseF? a, (items.splitOn ",").mapM (fun it =>
        match it.splitOn ":" with
        | [k, b] => parseScalar? k b
        | _ => none) with
    | some a, some os =>
      let r := os.foldl (fun (x : LogRepF PyFloat) o => ⟨{ (x.iadd prims o).logVal with calls := [] }⟩) ⟨a⟩
      "R " ++ showF r.logVal
    | _, _ => "bad-op"
  | _ => "bad-op"

def main : IO Unit := run step
