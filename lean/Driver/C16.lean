import MiciVerif.Model.Stagers
import MiciVerif.Proto
open MiciVerif MiciVerif.Stagers MiciVerif.Proto

def kindStr : Kind → String
  | .fast => "fast" | .slow => "slow" | .main => "main"

def showStage (s : Stage) : String :=
  s!"{s.n}:{kindStr s.kind}:{if s.traced then 1 else 0}:{if s.stats then 1 else 0}"

def showStages (l : List Stage) : String := ",".intercalate (l.map showStage)

/-- adapter that just logs which (kind, n) stages really adapted -/
def logA : Adapters (List String) := ⟨fun k n p => p ++ [s!"{kindStr k}:{n}"]⟩

def step (line : String) : String :=
  match line.splitOn " " with
  | ["win", a, b, c, m, nw, nm, t] =>
    match a.toNat?, b.toNat?, c.toNat?, parseRat? m, nw.toNat?, nm.toNat?, parseBool? t with
    | some a, some b, some c, some m, some nw, some nm, some t =>
      let st := windowedStages ⟨a, b, c, m⟩ nw nm t
      showStages st ++ " | " ++ ",".intercalate (runStages logA [] st)
    | _, _, _, _, _, _, _ => "bad-op"
  | ["warm", nw, nm, t] =>
    match nw.toNat?, nm.toNat?, parseBool? t with
    | some nw, some nm, some t =>
      let st := warmUpStages nw nm t
      showStages st ++ " | " ++ ",".intercalate (runStages logA [] st)
    | _, _, _ => "bad-op"
  | _ => "bad-op"

def main : IO Unit := run step
