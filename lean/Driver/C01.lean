import MiciVerif.Model.Transitions
import MiciVerif.Proto
open MiciVerif MiciVerif.Transitions MiciVerif.Transitions.Dist MiciVerif.Proto

/-! Line protocol for C01.

`metro n i fwd lo [w…] [badEdges…]`
    orbit window starts at index `lo`; `w` = weights of lo, lo+1, …; edge e joins e and e+1.
    → `j:dir:p/q,…` (distribution of `_sample_n_step`)
`metrostat n i fwd lo [w…] [badEdges…]` → `n_step | accept_stat | integration_error` (`metropolisStats`)
`metror nlo nhi i fwd lo [w…] [badEdges…]` → same for the random-length variant
`tree D k [w…] [ok…] [edge…] [term…]`
    perfect tree of depth D, start leaf k; `term` = flags of levels 1..D concatenated
    (level m has 2^(D-m) blocks).  → `c:p/q,… | nStep | acceptStat | iterations | err`
`dynz D i lo [w…] [ok…] [edge…] [term…]`
    orbit window starting at `lo` (length L); `term` = for level m = 1..D the flags of the
    blocks starting at lo, lo+1, …  (L entries per level).  → `j:p/q,…` of `dynamic`.
-/

def getD {α} (l : List α) (i : Nat) (d : α) : α := (l[i]?).getD d

def showDist {α} (sh : α → String) (d : Dist Rat α) [DecidableEq α] (support : List α) : String :=
  ",".intercalate ((support.filterMap (fun x =>
    let p := prob d x
    if p = 0 then none else some s!"{sh x}:{showRat p}")))

def mkOrbit (lo : Int) (w : List Rat) (bad : List Int) : MOrbit Rat :=
  { w := fun i => if i < lo then 0 else getD w (i - lo).toNat 0
    pathOk := fun a n =>
      (List.range n).all (fun t =>
        let e := a + t
        decide (lo ≤ e) && decide (e + 1 < lo + w.length) && !(bad.contains e)) }

def mkTree (w : List Rat) (ok : List Bool) (edge : List Bool) (term : List Bool) (D : Nat) :
    Nat → Nat → TTree Rat
  | 0, a => .leaf (getD w a 0) (getD ok a false)
  | m + 1, a =>
    -- offset of level (m+1) flags inside `term`: levels 1..m occupy Σ_{t=1..m} 2^(D-t)
    let off := (List.range m).foldl (fun acc t => acc + 2 ^ (D - (t + 1))) 0
    .node (mkTree w ok edge term D m a) (mkTree w ok edge term D m (a + 2 ^ m))
      (getD edge (a + 2 ^ m - 1) false) (getD term (off + a / 2 ^ (m + 1)) false)

def boolVec? (s : String) : Option (List Bool) :=
  (parseList? (fun t => parseBool? t) s)

def intVec? (s : String) : Option (List Int) := parseList? parseInt? s

def step (line : String) : String :=
  match line.splitOn " " with
  | ["metro", n, i, fwd, lo, w, bad] =>
    match n.toNat?, parseInt? i, parseBool? fwd, parseInt? lo, parseVec? w, intVec? bad with
    | some n, some i, some fwd, some lo, some w, some bad =>
      let o := mkOrbit lo w bad
      let d := metropolis o n (i, fwd)
      let supp := [(if fwd then i + n else i - n, fwd), (i, !fwd)].eraseDups
      showDist (fun (x : Int × Bool) => s!"{x.1}:{if x.2 then 1 else 0}") d supp
    | _, _, _, _, _, _ => "bad-op"
  | ["metrostat", n, i, fwd, lo, w, bad] =>
    match n.toNat?, parseInt? i, parseBool? fwd, parseInt? lo, parseVec? w, intVec? bad with
    | some n, some i, some fwd, some lo, some w, some bad =>
      let o : MOrbitS Rat :=
        { w := fun i => if i < lo then 0 else getD w (i - lo).toNat 0
          stepOk := fun e => decide (lo ≤ e) && decide (e + 1 < lo + w.length) && !(bad.contains e) }
      let st := metropolisStats o n (i, fwd)
      s!"{st.1} | {showRat st.2.1} | {if st.2.2 then 1 else 0}"
    | _, _, _, _, _, _ => "bad-op"
  | ["metror", nlo, nhi, i, fwd, lo, w, bad] =>
    match nlo.toNat?, nhi.toNat?, parseInt? i, parseBool? fwd, parseInt? lo, parseVec? w, intVec? bad with
    | some nlo, some nhi, some i, some fwd, some lo, some w, some bad =>
      let o := mkOrbit lo w bad
      let d := metropolisRandom o nlo nhi (i, fwd)
      let supp := ((List.range (nhi - nlo)).map (fun t =>
        ((if fwd then i + ((nlo + t : Nat) : Int) else i - ((nlo + t : Nat) : Int)), fwd))) ++ [(i, !fwd)]
      showDist (fun (x : Int × Bool) => s!"{x.1}:{if x.2 then 1 else 0}") d supp.eraseDups
    | _, _, _, _, _, _, _ => "bad-op"
  | ["tree", D, k, w, ok, edge, term] =>
    match D.toNat?, k.toNat?, parseVec? w, boolVec? ok, boolVec? edge, boolVec? term with
    | some D, some k, some w, some ok, some edge, some term =>
      if w.length ≠ 2 ^ D || ok.length ≠ 2 ^ D || edge.length + 1 ≠ 2 ^ D ||
          term.length + 1 ≠ 2 ^ D || k ≥ 2 ^ D then "bad-op" else
      let t := mkTree w ok edge term D D 0
      let d := final t k
      let v := visited t k
      showDist (fun (c : Nat) => toString c) d (List.range (2 ^ D)) ++
        s!" | {nStep t k} | {showRat (acceptStat t k)} | {v.2.2.1} | {if v.2.2.2 then 1 else 0}"
    | _, _, _, _, _, _ => "bad-op"
  | ["dynz", D, i, lo, w, ok, edge, term] =>
    match D.toNat?, parseInt? i, parseInt? lo, parseVec? w, boolVec? ok, boolVec? edge, boolVec? term with
    | some D, some i, some lo, some w, some ok, some edge, some term =>
      let L := w.length
      let idx := fun (a : Int) => (a - lo).toNat
      let inside := fun (a : Int) => decide (lo ≤ a) && decide (a < lo + L)
      let o : DOrbit Rat :=
        { w := fun a => if inside a then getD w (idx a) 0 else 0
          ok := fun a => inside a && getD ok (idx a) false
          edgeOk := fun a => inside a && inside (a + 1) && getD edge (idx a) false
          term := fun a m => if inside a && decide (1 ≤ m) then getD term ((m - 1) * L + idx a) true else true }
      let d := dynamic o D i
      showDist (fun (x : Int) => toString x) d
        ((List.range (2 ^ (D + 1))).map (fun (t : Nat) => i - 2 ^ D + (t : Int)))
    | _, _, _, _, _, _, _ => "bad-op"
  | _ => "bad-op"

def main : IO Unit := run step
