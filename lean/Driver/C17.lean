import MiciVerif.Model.Adapters
import MiciVerif.Proto
open MiciVerif MiciVerif.Adapters MiciVerif.Proto

/-! Line-protocol driver for C17 (exact `Rat` instance of `Model/Adapters.lean`).

  wvar  <positions>                       Welford states of the diagonal adapter after each update
  wcov  <positions>                       … of the dense adapter (mean; sum_diff_outer)
  mvar  dim off scale <chain>;<chain>;…       merged + regularised variance and metric diagonal
  mcov  dim off scale <chain>;<chain>;…       merged + regularised covariance, its exact inverse
  da    target regCoeff iterOffset regTarget <alphas> <sqrtIters> <smoothWs>
  search maxIters hInitNaN thr lo default <tokens>      (token: E | N | I | p/q)

`<positions>`, `<chain>` are matrices `[[..],[..]]` (rows = positions), `[]` = no positions. -/

def col (m : List (List Rat)) (i : Nat) : List Rat := m.map (fun r => r.getD i 0)

def dimOf (chains : List (List (List Rat))) : Nat :=
  (chains.findSome? (fun c => c.head?.map List.length)).getD 0

def showBool (b : Bool) : String := if b then "1" else "0"

def parseChains? (s : String) : Option (List (List (List Rat))) :=
  (s.splitOn ";").mapM parseMat?

/-- all intermediate states of a left fold -/
def scan {σ α} (f : σ → α → σ) (s : σ) (l : List α) : List σ :=
  (l.foldl (fun (acc : List σ × σ) x => let s' := f acc.2 x; (s' :: acc.1, s')) ([], s)).1.reverse

def transpose {α} (n : Nat) (cols : List (List α)) : List (List α) :=
  (List.range n).map (fun k => cols.filterMap (fun c => c[k]?))

def wvarAll (m : List (List Rat)) : String :=
  let d := (m.headD []).length
  -- per component: all Welford states
  let per := (List.range d).map (fun i => scan WState.update WState.init (col m i))
  "|".intercalate ((transpose m.length per).map (fun states =>
    showVec (states.map (·.mean)) ++ ";" ++ showVec (states.map (·.m2))))

def wcovAll (m : List (List Rat)) : String :=
  let d := (m.headD []).length
  let idx := List.range d
  let per := idx.map (fun a => idx.map (fun b =>
    scan CState.update CState.init ((col m a).zip (col m b))))
  "|".intercalate ((List.range m.length).map (fun k =>
    let st (a b : Nat) : CState Rat := (((per.getD a []).getD b []).getD k CState.init)
    showVec (idx.map (fun a => (st a a).meanA)) ++ ";" ++
      showMat (idx.map (fun a => idx.map (fun b => (st a b).c)))))

def exceptStr {α} (f : α → String) : Except AdaptErr α → String
  | .ok x => f x
  | .error .tooFewSamples => "err tooFewSamples"
  | .error .hInitNaN => "err hInitNaN"
  | .error .noInitStepSize => "err noInitStepSize"

def mvar (d off : Nat) (scale : Rat) (chains : List (List (List Rat))) : String :=
  let accs := (List.range d).map (fun i => merge (chains.map (fun c => (welford (col c i)).toC)))
  match accs.mapM id with
  | none => "err nochains"
  | some accs =>
    let nan := accs.any (·.nan)
    let n := (accs.headD CState.init).iter
    match accs.mapM (fun a => (finalizeVar off scale a).toOption) with
    | none => "err tooFewSamples"
    | some vars =>
      s!"n={n} nan={showBool nan} mean={showVec (accs.map (·.meanA))} var={showVec vars} metric={showVec (vars.map metricDiag)}"

def mcov (d off : Nat) (scale : Rat) (chains : List (List (List Rat))) : String :=
  let acc (a b : Nat) := merge (chains.map (fun c => welfordCov ((col c a).zip (col c b))))
  let idx := List.range d
  match idx.mapM (fun a => idx.mapM (fun b => acc a b)) with
  | none => "err nochains"
  | some accs =>
    let nan := accs.any (fun r => r.any (·.nan))
    let n := ((accs.headD []).headD CState.init).iter
    let ents := (idx.zip accs).mapM (fun (a, r) => (idx.zip r).mapM (fun (b, s) =>
      (finalizeCov off scale (a == b) s).toOption))
    match ents with
    | none => "err tooFewSamples"
    | some cov =>
      match matInv cov with
      | none => s!"n={n} nan={showBool nan} cov={showMat cov} singular"
      | some x =>
        -- inverses are checked data: decide cov * X = 1 exactly
        let ok := matMul cov x == identity d
        s!"n={n} nan={showBool nan} cov={showMat cov} metric={showMat x} check={showBool ok}"

def daRun (target regCoeff iterOffset regTarget : Rat) (alphas sqrtIters smoothWs : List Rat) : String :=
  let P : DAParams Rat := ⟨target, regCoeff, iterOffset, fun k => sqrtIters.getD (k - 1) 0,
    fun k => smoothWs.getD (k - 1) 0, id⟩
  let s0 : DAState Rat := DAState.init (some regTarget) 0
  let rec go (s : DAState Rat) : List Rat → List String
    | [] => []
    | a :: as =>
      let r := s.update P a
      s!"{showRat r.1.err};{showRat r.1.smoothed};{showRat r.2}" :: go r.1 as
  "|".intercalate (go s0 alphas)

def parseOutcome? (t : String) : Option (Outcome Rat) :=
  if t = "E" then some .err else if t = "N" then some .nan else if t = "I" then some .inf
  else (parseRat? t).map .val

def step (line : String) : String :=
  match line.splitOn " " with
  | ["wvar", m] =>
    match parseMat? m with
    | some m => wvarAll m
    | none => "bad-op"
  | ["wcov", m] =>
    match parseMat? m with
    | some m => wcovAll m
    | none => "bad-op"
  | ["mvar", d, off, scale, cs] =>
    match d.toNat?, off.toNat?, parseRat? scale, parseChains? cs with
    | some d, some off, some scale, some cs => if d = 0 then "bad-op" else mvar d off scale cs
    | _, _, _, _ => "bad-op"
  | ["mcov", d, off, scale, cs] =>
    match d.toNat?, off.toNat?, parseRat? scale, parseChains? cs with
    | some d, some off, some scale, some cs => if d = 0 then "bad-op" else mcov d off scale cs
    | _, _, _, _ => "bad-op"
  | ["da", t, g, t0, rt, al, sq, sw] =>
    match parseRat? t, parseRat? g, parseRat? t0, parseRat? rt, parseVec? al, parseVec? sq, parseVec? sw with
    | some t, some g, some t0, some rt, some al, some sq, some sw =>
      if sq.length = al.length ∧ sw.length = al.length then daRun t g t0 rt al sq sw else "bad-op"
    | _, _, _, _, _, _, _ => "bad-op"
  | ["search", mi, hn, thr, lo, dflt, toks] =>
    match mi.toNat?, parseBool? hn, parseRat? thr, parseInt? lo, parseOutcome? dflt,
      (toks.splitOn ",").mapM parseOutcome? with
    | some mi, some hn, some thr, some lo, some dflt, some toks =>
      let dH : Int → Outcome Rat := fun e =>
        if e < lo then dflt else toks.getD (e - lo).toNat dflt
      exceptStr (fun (e : Int) => s!"ok {e}") (findInitStepSize hn mi dH thr)
    | _, _, _, _, _, _ => "bad-op"
  | _ => "bad-op"

def main : IO Unit := run step
