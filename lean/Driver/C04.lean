import MiciVerif.Model.Constrained
import MiciVerif.Proto
import Mathlib.Algebra.Order.Field.Rat
open MiciVerif MiciVerif.Constrained MiciVerif.Proto Matrix

/-! Line-protocol driver for C04 (model executed over ℚ).

`proj n c J M p`
`solve kind n c A B d flow pos mom posPrev t ctol ptol dtol maxIters maxLs fault`
      fault = `none` | `c:i:thr` | `j:i:thr` (constraint / Jacobian raises ValueError where q[i] > thr)
      flow = `E:<M>` (Euclidean: Φqp = |t|·M⁻¹, Φpp = 1) or `D:<Φqp>|<Φpp>` (matrices as data)
`step kind n c A B d M lB lg lk haus pos mom t nInner ctol ptol dtol maxIters maxLs revTol`
      neg_log_dens ℓ(q) = ½ qᵀ lB q + lg·q + ¼ lk Σ qᵢ⁴, constraints ½ qᵀA_k q + B_k·q + d_k
-/

def toVector? {α : Type} (n : Nat) (l : List α) : Option (Vector α n) :=
  if h : l.length = n then some ⟨l.toArray, by simpa using h⟩ else none

def toVec? (n : Nat) (s : String) : Option (Vec ℚ n) := do toVector? n (← parseVec? s)

def toMat? (m n : Nat) (s : String) : Option (Mat ℚ m n) := do
  let rows ← parseMat? s
  toVector? m (← rows.mapM (toVector? n))

def toMats? (k m n : Nat) (s : String) : Option (Vector (Mat ℚ m n) k) := do
  if k = 0 then toVector? k [] else
  toVector? k (← (s.splitOn ";").mapM (toMat? m n))

def showV {n : Nat} (v : Vec ℚ n) : String := showVec v.toList

def parseKind? : String → Option SolverKind
  | "qn" => some .quasiNewton | "newton" => some .newton | "ls" => some .newtonLineSearch
  | _ => none

def reasonStr : Reason → String
  | .diverged => "diverged" | .fault => "fault" | .maxIters => "maxiters"

/-- fault script: `none`, or `c:i:thr` / `j:i:thr` — the constraint (resp. Jacobian) function
raises `ValueError` at every position with `q[i] > thr` -/
structure FaultSpec where
  inConstr : Bool
  idx : Nat
  thr : ℚ

def parseFault? (s : String) : Option (Option FaultSpec) :=
  if s = "none" then some none else
  match s.splitOn ":" with
  | [k, i, thr] => do
    let inC ← (if k = "c" then some true else if k = "j" then some false else none)
    some (some ⟨inC, ← i.toNat?, ← parseRat? thr⟩)
  | _ => none

def faults {n : Nat} (F : Option FaultSpec) (forConstr : Bool) (q : Vec ℚ n) : Bool :=
  match F with
  | none => false
  | some f => f.inConstr == forConstr && (match q.toList[f.idx]? with | some x => decide (x > f.thr) | none => false)

def mkOracles {n c : Nat} (Q : Quadrics ℚ n c)
    (flowD : Vec ℚ n → ℚ → Except Fault (Mat ℚ n n × Mat ℚ n n)) (F : Option FaultSpec := none) : Oracles ℚ n c where
  constr := fun q => if faults F true q then .error .valueError else .ok (Q.constr q)
  jacob := fun q => if faults F false q then .error .valueError else .ok (Q.jacob q)
  flowD := flowD
  inv := checkedInv
  normC := maxNorm
  normP := maxNorm

def parseFlow? (n : Nat) (s : String) : Option (Vec ℚ n → ℚ → Except Fault (Mat ℚ n n × Mat ℚ n n)) :=
  if s.startsWith "E:" then do
    let M ← toMat? n n (s.drop 2).toString
    match checkedInv M with
    | .error _ => none
    | .ok N => some fun _ a => .ok (mat (a • N.fn), mat 1)
  else if s.startsWith "D:" then
    match (s.drop 2).toString.splitOn "|" with
    | [a, b] => do
      let Φqp ← toMat? n n a
      let Φpp ← toMat? n n b
      some fun _ _ => .ok (Φqp, Φpp)
    | _ => none
  else none

def showOutcome {n : Nat} : Outcome ℚ n → String
  | .ok pos mom mu i => s!"ok {i} {showV pos} {showV mom} {showV mu}"
  | .convergenceError r i pos => s!"err {reasonStr r} {i} {showV pos}"
  | .unboundLocal => "unbound"

def doProj (n c : Nat) (J M p : String) : Option String := do
  let J ← toMat? c n J
  let M ← toMat? n n M
  let p ← toVec? n p
  match checkedInv M with
  | .error _ => some "fault"
  | .ok N =>
    match checkedInv (innerProduct J N J) with
    | .error _ => some "fault"
    | .ok Ginv => some s!"ok {showV (vec (project J.fn N.fn Ginv.fn p.fn))}"

def doSolve (kind : SolverKind) (n c : Nat) (a : List String) : Option String :=
  match a with
  | [A, B, d, flow, pos, mom, posPrev, t, ctol, ptol, dtol, maxIters, maxLs, fault] => do
    let Q : Quadrics ℚ n c := ⟨← toMats? c n n A, ← toMat? c n B, ← toVec? c d⟩
    let O := mkOracles Q (← parseFlow? n flow) (← parseFault? fault)
    let T : Tol ℚ := ⟨← parseRat? ctol, ← parseRat? ptol, ← parseRat? dtol⟩
    let r := solve kind O T (← maxIters.toNat?) (← maxLs.toNat?) (← parseRat? t)
      (← toVec? n pos) (← toVec? n mom) (← toVec? n posPrev)
    some (showOutcome r)
  | _ => none

/-- gradient of ℓ(q) = ½ qᵀ B q + g·q + ¼ κ Σ qᵢ⁴ -/
def gradEll {n : Nat} (B : Mat ℚ n n) (g : Vec ℚ n) (κ : ℚ) (q : Vec ℚ n) : Vec ℚ n :=
  vec fun i => (B.fn *ᵥ q.fn) i + g.fn i + κ * (q.fn i) ^ 3

def doStep (kind : SolverKind) (n c : Nat) (a : List String) : Option String :=
  match a with
  | [A, B, d, M, lB, lg, lk, haus, pos, mom, t, nInner, ctol, ptol, dtol, maxIters, maxLs, revTol] => do
    let Q : Quadrics ℚ n c := ⟨← toMats? c n n A, ← toMat? c n B, ← toVec? c d⟩
    let M ← toMat? n n M
    let lB ← toMat? n n lB
    let lg ← toVec? n lg
    let lk ← parseRat? lk
    let haus ← parseBool? haus
    match checkedInv M with
    | .error _ => none
    | .ok N =>
      let O := mkOracles Q (fun _ a => .ok (mat (a • N.fn), mat 1))
      let dh1 : Vec ℚ n → Except Fault (Vec ℚ n) := fun q =>
        let g := gradEll lB lg lk q
        if haus then .ok g else
          let J := Q.jacob q
          match checkedInv (innerProduct J N J) with
          | .error e => .error e
          | .ok Ginv =>
            let m : Mat ℚ c n := mat (Ginv.fn * (J.fn * N.fn))
            .ok (vec (g.fn + (Q.mhp m).fn))
      let S : StepSys ℚ n c :=
        { O with N := N, dh1 := dh1,
                 h2flow := fun dt (q, p) => .ok (vec (q.fn + dt • (N.fn *ᵥ p.fn)), p) }
      let C : StepCfg ℚ :=
        ⟨kind, ⟨← parseRat? ctol, ← parseRat? ptol, ← parseRat? dtol⟩, ← maxIters.toNat?, ← maxLs.toNat?,
          ← parseRat? revTol⟩
      match step S C (← nInner.toNat?) (← parseRat? t) (← toVec? n pos) (← toVec? n mom) with
      | .ok q p => some s!"ok {showV q} {showV p}"
      | .error (.convergenceError r) => some s!"err conv {reasonStr r}"
      | .error .nonReversible => some "err nonrev"
      | .error .integratorError => some "err other"
      | .error .unboundLocal => some "err unbound"
  | _ => none

def stepLine (line : String) : String :=
  match line.splitOn " " with
  | ["proj", n, c, J, M, p] =>
    match n.toNat?, c.toNat? with
    | some n, some c => (doProj n c J M p).getD "bad-op"
    | _, _ => "bad-op"
  | "solve" :: kind :: n :: c :: rest =>
    match parseKind? kind, n.toNat?, c.toNat? with
    | some k, some n, some c => (doSolve k n c rest).getD "bad-op"
    | _, _, _ => "bad-op"
  | "step" :: kind :: n :: c :: rest =>
    match parseKind? kind, n.toNat?, c.toNat? with
    | some k, some n, some c => (doStep k n c rest).getD "bad-op"
    | _, _, _ => "bad-op"
  | _ => "bad-op"

def main : IO Unit := run stepLine
