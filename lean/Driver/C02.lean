/-
Line-protocol driver for the explicit integrator / component-flow model (C02, C06, C07).
One response line per request line; malformed requests answer `bad-op`.

Tokens are separated by single spaces: rationals `p/q`, vectors `[a,b]`, matrices `[[a,b],[c,d]]`.
Targets are polynomial potentials with gradient  g(q) = A q + b3 ⊙ q³ + b2 ⊙ q² + d.

  coeffs F                                     → deriveCoeffs F
  h1 A b3 b2 d t q p                           → kick g t (q,p)
  drift N t q p                                → drift N t (q,p)
  harm Q w c s q p                             → harmonic flow with data (c,s)
  driftdmom N t δ                              → driftDmom
  harmdmom Q w c s δ                           → harmonicDmom
  euc A b3 b2 d N F init ε dir k q p           → k steps | k steps, flip, k steps   (SymmetricComposition)
  leap A b3 b2 d N ε dir k q p                 → same for LeapfrogIntegrator._step
  gauss A b3 b2 d Q w TABLE F init ε dir k q p → Gaussian-split system; TABLE = t;c;s|t;c;s|…
  gleap A b3 b2 d Q w TABLE ε dir k q p
  gl Sqq Sqp Spp A b3 b2 d ε dir k q p         → ImplicitLeapfrogIntegrator, h2 = q.Sqq q/2 + q.Sqp p + p.Spp p/2,
                                                 solver = solve_fixed_point_direct with its default tolerances
  im Sqq Sqp Spp A b3 b2 d ε dir k q p         → ImplicitMidpointIntegrator, same system
     answers `ok q p | ok q p`, or `err convergence|nonReversible` in place of a leg that raised
  con C d N Ginv A b3 b2 d0 nInner ε dir k q p → ConstrainedLeapfrogIntegrator on the LINEAR constraint C q = d,
     Euclidean metric (N = M⁻¹), Ginv = (C N Cᵀ)⁻¹; the projection solver parameter is the exact solution
     of the projection equation (what Newton / quasi-Newton / line-search converge to in one iteration)
-/
import MiciVerif.Lemmas.IntegratorsExec
import MiciVerif.Model.IntegratorsImplicit
import Mathlib.Algebra.Module.Prod
import Mathlib.Algebra.Order.Field.Rat

open MiciVerif MiciVerif.Integrators MiciVerif.Proto MiciVerif.IntegratorsExec

def fwdBack {n : Nat} (stepT : ℚ → Vec n × Vec n → Vec n × Vec n) (ε dir : ℚ) (k : Nat)
    (x : Vec n × Vec n) : String :=
  let s : State (Vec n × Vec n) ℚ := ⟨x, dir⟩
  let s1 := steps stepT ε k s
  let s2 := steps stepT ε k (flipDir s1)
  showState s1.x ++ " | " ++ showState s2.x

def wrap {n : Nat} (f : ℚ → Vec n × Vec n → Vec n × Vec n) : ℚ → Vec n × Vec n → Vec n × Vec n :=
  fun t x => force2 (f t x)

/-! implicit integrators -/

def showErr : IntErr → String
  | .convergence => "err convergence"
  | .nonReversible => "err nonReversible"

def stepsE {X : Type} (stepT : ℚ → X → Res X) (ε dir : ℚ) : Nat → X → Res X
  | 0, x => .ok x
  | k + 1, x => do
    let y ← stepT (dir * ε) x
    stepsE stepT ε dir k y

def fwdBackE {n : Nat} (stepT : ℚ → Vec n × Vec n → Res (Vec n × Vec n)) (ε dir : ℚ) (k : Nat)
    (x : Vec n × Vec n) : String :=
  match stepsE stepT ε dir k x with
  | .error e => showErr e ++ " | -"
  | .ok y =>
    "ok " ++ showState y ++ " | " ++
      (match stepsE stepT ε (-dir) k y with
       | .error e => showErr e
       | .ok z => "ok " ++ showState z)

def ctolQ : ℚ := 1 / 1000000000
def dtolQ : ℚ := 10000000000
def rtolQ : ℚ := 2 / 100000000

def norm2 {n : Nat} (z : Vec n × Vec n) : ℚ := max (maxNorm z.1) (maxNorm z.2)

def quadSystem {n : Nat} (g : Vec n → Vec n) (Sqq Sqp Spp : Mat n) : GLSystem (Vec n) :=
  ⟨g, fun q p => force (Sqq.mulVec q + Sqp.mulVec p),
      fun q p => force (Sqp.transpose.mulVec q + Spp.mulVec p)⟩

/-- Strict (array) representation of a vector for the solver iteration.  `solveDirect` is
polymorphic in the vector type; running it on arrays (with the conversions `toArr`/`ofArr`, inverse
to each other on length-`n` arrays) avoids re-evaluating towers of closures: a lambda returning a
`Fin n → ℚ` is eta-expanded by the compiler and would recompute its body on every component access. -/
def toArr {n : Nat} (v : Vec n) : Array ℚ := Array.ofFn v
def ofArr {n : Nat} (a : Array ℚ) : Vec n := fun i => a.getD i.1 0
instance : Sub (Array ℚ) := ⟨fun a b => Array.zipWith (· - ·) a b⟩
def maxNormArr (a : Array ℚ) : ℚ := (a.toList.map fun x => if x < 0 then -x else x).foldl max 0

def solveQ {n : Nat} (f : Vec n → Vec n) (x0 : Vec n) : Res (Vec n) :=
  (solveDirect maxNormArr ctolQ dtolQ 100 (fun a => toArr (f (ofArr a))) (toArr x0)).map ofArr

def glStepQ {n : Nat} (S : GLSystem (Vec n)) (t : ℚ) (x : Vec n × Vec n) : Res (Vec n × Vec n) :=
  (glStep S solveQ (farOf maxNorm rtolQ) t x).map force2

def imStepQ {n : Nat} (S : GLSystem (Vec n)) (t : ℚ) (x : Vec n × Vec n) : Res (Vec n × Vec n) :=
  let f : Vec n × Vec n → Vec n × Vec n := fun z =>
    force2 (S.dh2dp z.1 z.2, -(S.dh1 z.1 + S.dh2dq z.1 z.2))
  (imStep f (fun g x0 => solveDirect norm2 ctolQ dtolQ 100 (fun y => force2 (g y)) x0)
    (farOf norm2 rtolQ) t x).map force2

def parseImplicit (toks : List String) :
    Option ((n : Nat) × GLSystem (Vec n) × ℚ × ℚ × Nat × (Vec n × Vec n)) :=
  match toks with
  | [sqq, sqp, spp, a, b3, b2, d, eps, dir, k, q, p] => do
    let ql ← parseVec? q
    let n := ql.length
    let g ← parseTarget n a b3 b2 d
    let Sqq ← (parseMat? sqq) >>= toMat n
    let Sqp ← (parseMat? sqp) >>= toMat n
    let Spp ← (parseMat? spp) >>= toMat n
    let eps ← parseRat? eps
    let dir ← parseRat? dir
    let k ← k.toNat?
    let q ← toVec n ql
    let p ← (parseVec? p) >>= toVec n
    pure ⟨n, quadSystem g Sqq Sqp Spp, eps, dir, k, (q, p)⟩
  | _ => none

/-! constrained leapfrog, linear constraints -/

def toMatR (m n : Nat) (rows : List (List ℚ)) : Option (Matrix (Fin m) (Fin n) ℚ) :=
  if rows.length = m ∧ rows.all (fun r => r.length = n) then
    let a := (rows.map List.toArray).toArray
    some (Matrix.of fun i j => (a.getD i.1 #[]).getD j.1 0)
  else none

/-- `project_onto_cotangent_space` (systems.py): `mom - Cᵀ (Ginv (C (N mom)))`. -/
def projLin {m n : Nat} (C : Matrix (Fin m) (Fin n) ℚ) (N : Mat n) (Ginv : Matrix (Fin m) (Fin m) ℚ)
    (p : Vec n) : Vec n :=
  -- p - Cᵀ (Ginv (C (N p))), intermediates materialised (`force` is the identity)
  let a := force (N.mulVec p)
  let b := force (C.mulVec a)
  let c := force (Ginv.mulVec b)
  force (p - C.transpose.mulVec c)

/-- Exact solution of the projection equation for a linear constraint (cf. `retract` in
Model/IntegratorsTangent.lean): `ν = Cᵀ Ginv (C pos − d)`, `pos -= N ν`, `mom -= ν / t`. -/
def retrLin {m n : Nat} (C : Matrix (Fin m) (Fin n) ℚ) (d : Fin m → ℚ) (N : Mat n)
    (Ginv : Matrix (Fin m) (Fin m) ℚ) (t : ℚ) (xf _prev : Vec n × Vec n) : Res (Vec n × Vec n) :=
  let r := force (C.mulVec xf.1 - d)
  let gr := force (Ginv.mulVec r)
  let ν := force (C.transpose.mulVec gr)
  let nν := force (N.mulVec ν)
  .ok (force2 (xf.1 - nν, xf.2 - t⁻¹ • ν))

def handleCon (toks : List String) : Option String :=
  match toks with
  | [c, d, nm, gi, a, b3, b2, d0, ni, eps, dir, k, q, p] => do
    let ql ← parseVec? q
    let n := ql.length
    let dl ← parseVec? d
    let m := dl.length
    let C ← (parseMat? c) >>= toMatR m n
    let dv ← toVec m dl
    let N ← (parseMat? nm) >>= toMat n
    let Ginv ← (parseMat? gi) >>= toMat m
    let g ← parseTarget n a b3 b2 d0
    let ni ← ni.toNat?
    let eps ← parseRat? eps
    let dir ← parseRat? dir
    let k ← k.toNat?
    let q ← toVec n ql
    let p ← (parseVec? p) >>= toVec n
    let S : ConSystem ℚ (Vec n) := ⟨g, wrap (drift N.mulVec), fun _ p => projLin C N Ginv p⟩
    let stepT : ℚ → Vec n × Vec n → Res (Vec n × Vec n) := fun t x =>
      (conStep S (retrLin C dv N Ginv) (farOf maxNorm rtolQ) ni t x).map force2
    pure (fwdBackE stepT eps dir k (q, p))
  | _ => none

def handle (toks : List String) : Option String :=
  match toks with
  | ["coeffs", f] => do
    let f ← parseVec? f
    pure (showVec (deriveCoeffs f))
  | ["h1", a, b3, b2, d, t, q, p] => do
    let ql ← parseVec? q
    let n := ql.length
    let g ← parseTarget n a b3 b2 d
    let t ← parseRat? t
    let q ← toVec n ql
    let p ← (parseVec? p) >>= toVec n
    pure (showState (kick g t (q, p)))
  | ["drift", nm, t, q, p] => do
    let ql ← parseVec? q
    let n := ql.length
    let N ← (parseMat? nm) >>= toMat n
    let t ← parseRat? t
    let q ← toVec n ql
    let p ← (parseVec? p) >>= toVec n
    pure (showState (drift N.mulVec t (q, p)))
  | ["harm", qm, w, c, s, q, p] => do
    let ql ← parseVec? q
    let n := ql.length
    let Q ← (parseMat? qm) >>= toMat n
    let w ← (parseVec? w) >>= toVec n
    let c ← (parseVec? c) >>= toVec n
    let s ← (parseVec? s) >>= toVec n
    let q ← toVec n ql
    let p ← (parseVec? p) >>= toVec n
    pure (showState (harmonic Q w (fun _ => ⟨c, s⟩) 0 (q, p)))
  | ["driftdmom", nm, t, dl] => do
    let dl ← parseVec? dl
    let n := dl.length
    let N ← (parseMat? nm) >>= toMat n
    let t ← parseRat? t
    let δ ← toVec n dl
    pure (showState (driftDmom N.mulVec t δ))
  | ["harmdmom", qm, w, c, s, dl] => do
    let dl ← parseVec? dl
    let n := dl.length
    let Q ← (parseMat? qm) >>= toMat n
    let w ← (parseVec? w) >>= toVec n
    let c ← (parseVec? c) >>= toVec n
    let s ← (parseVec? s) >>= toVec n
    let δ ← toVec n dl
    pure (showState (harmonicDmom Q w (fun _ => ⟨c, s⟩) 0 δ))
  | ["euc", a, b3, b2, d, nm, f, init, eps, dir, k, q, p] => do
    let ql ← parseVec? q
    let n := ql.length
    let g ← parseTarget n a b3 b2 d
    let N ← (parseMat? nm) >>= toMat n
    let f ← parseVec? f
    let init ← parseBool? init
    let eps ← parseRat? eps
    let dir ← parseRat? dir
    let k ← k.toNat?
    let q ← toVec n ql
    let p ← (parseVec? p) >>= toVec n
    let I := mkSymComp (wrap (kick g)) (wrap (drift N.mulVec)) f init
    pure (fwdBack I.stepT eps dir k (q, p))
  | ["leap", a, b3, b2, d, nm, eps, dir, k, q, p] => do
    let ql ← parseVec? q
    let n := ql.length
    let g ← parseTarget n a b3 b2 d
    let N ← (parseMat? nm) >>= toMat n
    let eps ← parseRat? eps
    let dir ← parseRat? dir
    let k ← k.toNat?
    let q ← toVec n ql
    let p ← (parseVec? p) >>= toVec n
    pure (fwdBack (leapfrog (wrap (kick g)) (wrap (drift N.mulVec))) eps dir k (q, p))
  | ["gauss", a, b3, b2, d, qm, w, tab, f, init, eps, dir, k, q, p] => do
    let ql ← parseVec? q
    let n := ql.length
    let g ← parseTarget n a b3 b2 d
    let Q ← (parseMat? qm) >>= toMat n
    let w ← (parseVec? w) >>= toVec n
    let tab ← parseTable n tab
    let f ← parseVec? f
    let init ← parseBool? init
    let eps ← parseRat? eps
    let dir ← parseRat? dir
    let k ← k.toNat?
    let q ← toVec n ql
    let p ← (parseVec? p) >>= toVec n
    let I := mkSymComp (wrap (kick g)) (wrap (harmonic Q w (lookup tab ⟨1, 0⟩))) f init
    pure (fwdBack I.stepT eps dir k (q, p))
  | ["gleap", a, b3, b2, d, qm, w, tab, eps, dir, k, q, p] => do
    let ql ← parseVec? q
    let n := ql.length
    let g ← parseTarget n a b3 b2 d
    let Q ← (parseMat? qm) >>= toMat n
    let w ← (parseVec? w) >>= toVec n
    let tab ← parseTable n tab
    let eps ← parseRat? eps
    let dir ← parseRat? dir
    let k ← k.toNat?
    let q ← toVec n ql
    let p ← (parseVec? p) >>= toVec n
    pure (fwdBack (leapfrog (wrap (kick g)) (wrap (harmonic Q w (lookup tab ⟨1, 0⟩)))) eps dir k (q, p))
  | "gl" :: rest => do
    let ⟨_, S, eps, dir, k, x⟩ ← parseImplicit rest
    pure (fwdBackE (glStepQ S) eps dir k x)
  | "con" :: rest => handleCon rest
  | "im" :: rest => do
    let ⟨_, S, eps, dir, k, x⟩ ← parseImplicit rest
    pure (fwdBackE (imStepQ S) eps dir k x)
  | _ => none

def stepLine (line : String) : String :=
  (handle (line.splitOn " ")).getD "bad-op"

def main : IO Unit := run stepLine
