/-
C11 driver.  One request per line:

  grad <v> <spec>

  spec ::= sid <n> <c> <dc>
         | diag <d> <dd>
         | tri <lower 0|1> <s> <A> <dA>
         | dense <A> <dA>
         | prod <Rm> <P> <dRm>
         | lowrank <s> <P> <U> <K> <dU>
         | block <k> spec_1 … spec_k

(rationals `p/q`, vectors `[a,b]`, matrices `[[..],[..]]`, every parameter followed by its
perturbation direction).  Answer

  ok <gradLogDet> <gradQuad> <dlogdet> <dquad>

where the two gradients are the model's gradient arrays in the parameter's own structure
(scalar / vector / matrix / `(g1;g2;…)` tuple) and `dlogdet`, `dquad` are the exact
directional derivatives of `log|det M|` and `vᵀ M⁻¹ v` along the direction, obtained by
evaluating the model's defining formula `Mcls` at `θ + ε δ` in `DualNumber ℚ`:
`M̂ = M + ε D`, `X = M⁻¹` by Gauss–Jordan over ℚ with `M * X = 1` *decided*,
`dlogdet = trace (X D)` (L1), `dquad = -(Xᵀ v)·D (X v)` (L2, L3); in addition
`M̂ * (X - ε X D X) = 1` is decided in `DualNumber ℚ`, and for sizes ≤ 4 the literal statement
`det M̂ = det M * (1 + ε dlogdet)` is decided with `Matrix.det` over `DualNumber ℚ`.
Malformed requests → `bad-op`; violated hypotheses (singular, non-symmetric, s ∉ {±1}) →
`precond …`; a failed internal check → `fail-…` (never a default value).
-/
import MiciVerif.Model.MatricesGrad
import MiciVerif.Proto
import Mathlib.Algebra.DualNumber
import Mathlib.LinearAlgebra.Matrix.Determinant.Basic
import Mathlib.LinearAlgebra.Matrix.Trace
open MiciVerif MiciVerif.Proto MiciVerif.MatricesGrad Matrix

abbrev Dl := DualNumber ℚ
instance : DecidableEq Dl := inferInstanceAs (DecidableEq (ℚ × ℚ))
instance : Inhabited Dl := ⟨0⟩

abbrev QMat := Array (Array ℚ)

def lift (q : ℚ) : Dl := TrivSqZeroExt.inl q
def eps : Dl := DualNumber.eps

/-! array <-> Mathlib matrices -/

def toM {α} [Inhabited α] (r c : Nat) (a : Array (Array α)) : Matrix (Fin r) (Fin c) α :=
  Matrix.of fun i j => (a[i.val]!)[j.val]!

def ofM {α} {r c : Nat} (M : Matrix (Fin r) (Fin c) α) : Array (Array α) :=
  Array.ofFn fun i => Array.ofFn fun j => M i j

def toV {α} [Inhabited α] (n : Nat) (a : Array α) : Fin n → α := fun i => a[i.val]!
def ofV {α} {n : Nat} (v : Fin n → α) : Array α := Array.ofFn v

/- NB. `Matrix` values are functions and Lean eta-expands definitions that return functions, so
a stored `Matrix` is re-evaluated on every entry access.  Every intermediate value is therefore
materialised with `ofM` into an array and re-wrapped with `toM` where a model function needs it. -/

def isShape (r c : Nat) (a : QMat) : Bool := a.size == r && a.all (fun row => row.size == c)

/-- `θ + ε • δ` entrywise in dual numbers -/
def pertM {r c : Nat} (A dA : Matrix (Fin r) (Fin c) ℚ) : Matrix (Fin r) (Fin c) Dl :=
  A.map lift + eps • dA.map lift

def pertV {n : Nat} (d dd : Fin n → ℚ) : Fin n → Dl := (fun i => lift (d i)) + eps • fun i => lift (dd i)

/-! Gauss–Jordan over ℚ -/

def gaussJordan (n : Nat) (a : QMat) : Option QMat := Id.run do
  let mut m : QMat := Array.ofFn (n := n) fun i => Array.ofFn (n := 2 * n) fun j =>
    if j.val < n then (a[i.val]!)[j.val]! else if j.val - n = i.val then 1 else 0
  for col in [0:n] do
    let mut piv := n
    for r in [col:n] do
      if piv = n && (m[r]!)[col]! != 0 then piv := r
    if piv = n then return none
    let rowP := m[piv]!
    let rowC := m[col]!
    m := m.set! piv rowC
    let p := rowP[col]!
    let rowN := rowP.map (· / p)
    m := m.set! col rowN
    for r in [0:n] do
      if r != col then
        let rowR := m[r]!
        let f := rowR[col]!
        if f != 0 then
          m := m.set! r (Array.ofFn (n := 2 * n) fun j => rowR[j.val]! - f * rowN[j.val]!)
  return some (m.map fun row => row.extract n (2 * n))

/-! printing -/

def sV (v : Array ℚ) : String := showVec v.toList
def sM (m : QMat) : String := showMat (m.toList.map Array.toList)

/-! specs -/

inductive Spec where
  | sid (n : Nat) (c dc : ℚ)
  | diag (d dd : Array ℚ)
  | tri (lower : Bool) (s : ℚ) (A dA : QMat)
  | dense (A dA : QMat)
  | prod (Rm P dRm : QMat)
  | lowrank (s : ℚ) (P U K dU : QMat)
  | block (bs : List Spec)

partial def Spec.size : Spec → Nat
  | .sid n _ _ => n
  | .diag d _ => d.size
  | .tri _ _ A _ => A.size
  | .dense A _ => A.size
  | .prod Rm _ _ => Rm.size
  | .lowrank _ P _ _ _ => P.size
  | .block bs => (bs.map Spec.size).foldl (· + ·) 0

def pMat (s : String) : Option QMat := (parseMat? s).map fun l => (l.map List.toArray).toArray
def pVec (s : String) : Option (Array ℚ) := (parseVec? s).map List.toArray

partial def parseSpec : List String → Option (Spec × List String)
  | "sid" :: n :: c :: dc :: rest => do
      let n ← n.toNat?; let c ← parseRat? c; let dc ← parseRat? dc
      some (.sid n c dc, rest)
  | "diag" :: d :: dd :: rest => do
      let d ← pVec d; let dd ← pVec dd
      if d.size != dd.size then none else some (.diag d dd, rest)
  | "tri" :: l :: s :: A :: dA :: rest => do
      let l ← parseBool? l; let s ← parseRat? s; let A ← pMat A; let dA ← pMat dA
      if !(isShape A.size A.size A && isShape A.size A.size dA) then none
      else some (.tri l s A dA, rest)
  | "dense" :: A :: dA :: rest => do
      let A ← pMat A; let dA ← pMat dA
      if !(isShape A.size A.size A && isShape A.size A.size dA) then none
      else some (.dense A dA, rest)
  | "prod" :: Rm :: P :: dRm :: rest => do
      let Rm ← pMat Rm; let P ← pMat P; let dRm ← pMat dRm
      let n := Rm.size; let m := P.size
      if !(isShape n m Rm && isShape m m P && isShape n m dRm) then none
      else some (.prod Rm P dRm, rest)
  | "lowrank" :: s :: P :: U :: K :: dU :: rest => do
      let s ← parseRat? s; let P ← pMat P; let U ← pMat U; let K ← pMat K; let dU ← pMat dU
      let n := P.size; let m := K.size
      if !(isShape n n P && isShape n m U && isShape m m K && isShape n m dU) then none
      else some (.lowrank s P U K dU, rest)
  | "block" :: k :: rest => do
      let k ← k.toNat?
      let rec go (k : Nat) (toks : List String) (acc : List Spec) :
          Option (List Spec × List String) :=
        match k with
        | 0 => some (acc.reverse, toks)
        | k + 1 => do
            let (s, toks') ← parseSpec toks
            go k toks' (s :: acc)
      let (bs, rest') ← go k rest []
      some (.block bs, rest')
  | _ => none

/-- result of evaluating one spec at a vector -/
structure Res where
  n : Nat
  Mh : Array (Array Dl)   -- Mcls (θ + ε δ)
  gl : String             -- model grad_log_abs_det
  gq : String             -- model grad_quadratic_form_inv v

def invOrErr (n : Nat) (M : QMat) : Except String (Matrix (Fin n) (Fin n) ℚ) :=
  match gaussJordan n M with
  | none => .error "precond singular"
  | some X =>
    let Mm := toM n n M
    let Xm := toM n n X
    if decide (Mm * Xm = 1) then .ok Xm else .error "fail-inverse"

def isSymm {n : Nat} (A : Matrix (Fin n) (Fin n) ℚ) : Bool := decide (Aᵀ = A)

def fstM (a : Array (Array Dl)) : QMat := a.map fun r => r.map TrivSqZeroExt.fst
def sndM (a : Array (Array Dl)) : QMat := a.map fun r => r.map TrivSqZeroExt.snd

/-- `scipy.linalg.block_diag` of two blocks through the model's `blockDiag2`. -/
def blockDiag2Arr (a b : Nat) (A B : Array (Array Dl)) : Array (Array Dl) :=
  let M := blockDiag2 (toM a a A) (toM b b B)
  let idx : Fin (a + b) → Fin a ⊕ Fin b := fun i =>
    if h : i.val < a then Sum.inl ⟨i.val, h⟩ else Sum.inr ⟨i.val - a, by omega⟩
  Array.ofFn fun i => Array.ofFn fun j => M (idx i) (idx j)

partial def eval (sp : Spec) (v : Array ℚ) : Except String Res :=
  match sp with
  | .sid n c dc =>
    if c = 0 then .error "precond singular" else
    let ci : ℚ := 1 / c
    if c * ci != 1 then .error "fail-inverse" else
    let vv := toV n v
    .ok { n := n, Mh := ofM (scaledId (Fin n) (lift c + eps * lift dc)),
          gl := showRat (scaledIdGradLogDet (Fin n) ci),
          gq := showRat (scaledIdGradQuad ci vv) }
  | .diag d dd =>
    let n := d.size
    if d.any (· == 0) then .error "precond singular" else
    let di : Fin n → ℚ := toV n (d.map fun x => 1 / x)
    if !(decide (∀ i : Fin n, toV n d i * di i = 1)) then .error "fail-inverse" else
    .ok { n := n, Mh := ofM (diagMat (pertV (toV n d) (toV n dd))),
          gl := sV (ofV (diagGradLogDet di)),
          gq := sV (ofV (diagGradQuad di (toV n v))) }
  | .tri l s A dA =>
    let n := A.size
    if s * s != 1 then .error "precond sign" else
    let Am := toM n n A
    let Fa := ofM (tri l Am)
    match invOrErr n Fa with
    | .error e => .error e
    | .ok Y =>
      let fdi : Fin n → ℚ := fun i => 1 / Am i i
      if !(decide (∀ i : Fin n, Am i i * fdi i = 1)) then .error "fail-inverse" else
      .ok { n := n, Mh := ofM (triFactored l (lift s) (pertM Am (toM n n dA))),
            gl := sM (ofM (triFactoredGradLogDet fdi)),
            gq := sM (ofM (triFactoredGradQuad l s Y (toV n v))) }
  | .dense A dA =>
    let n := A.size
    let Am := toM n n A
    if !isSymm Am then .error "precond symmetric" else
    match invOrErr n A with
    | .error e => .error e
    | .ok X =>
      .ok { n := n, Mh := ofM (pertM Am (toM n n dA)),
            gl := sM (ofM (denseGradLogDet X)),
            gq := sM (ofM (denseGradQuad X (toV n v))) }
  | .prod Rm P dRm =>
    let n := Rm.size; let m := P.size
    let Rmm := toM n m Rm; let Pm := toM m m P
    if !isSymm Pm then .error "precond symmetric" else
    let M := ofM (prodMat Rmm Pm)
    match invOrErr n M with
    | .error e => .error e
    | .ok X =>
      .ok { n := n, Mh := ofM (prodMat (pertM Rmm (toM n m dRm)) (Pm.map lift)),
            gl := sM (ofM (prodGradLogDet X Rmm Pm)),
            gq := sM (ofM (prodGradQuad X Rmm Pm (toV n v))) }
  | .lowrank s P U K dU =>
    let n := P.size; let m := K.size
    let Pm := toM n n P; let Um := toM n m U; let Km := toM m m K
    if s * s != 1 then .error "precond sign" else
    if !(isSymm Pm && isSymm Km) then .error "precond symmetric" else
    let M := ofM (lowRank s Pm Um Km)
    match invOrErr n M with
    | .error e => .error e
    | .ok X =>
      .ok { n := n,
            Mh := ofM (lowRank (lift s) (Pm.map lift) (pertM Um (toM n m dU)) (Km.map lift)),
            gl := sM (ofM (lowRankGradLogDet s X Um Km)),
            gq := sM (ofM (lowRankGradQuad s X Um Km (toV n v))) }
  | .block bs => do
    let mut off := 0
    let mut rs : Array Res := #[]
    for b in bs do
      let k := b.size
      let r ← eval b (v.extract off (off + k))
      rs := rs.push r
      off := off + k
    -- fold right: blockDiag2 r₁ (blockDiag2 r₂ (… ))
    let init : Nat × Array (Array Dl) := (0, #[])
    let (n, Mh) := rs.foldr (fun r (acc : Nat × Array (Array Dl)) =>
      (r.n + acc.1, blockDiag2Arr r.n acc.1 r.Mh acc.2)) init
    .ok { n := n, Mh := Mh,
          gl := "(" ++ ";".intercalate (rs.toList.map (·.gl)) ++ ")",
          gq := "(" ++ ";".intercalate (rs.toList.map (·.gq)) ++ ")" }

/-- exact directional derivatives from `M̂` and `v` (L1, L2, L3) -/
def derivs (r : Res) (v : Array ℚ) : Except String (ℚ × ℚ) :=
  let n := r.n
  let M := fstM r.Mh
  let Dm := toM n n (sndM r.Mh)
  match invOrErr n M with
  | .error e => .error e
  | .ok X =>
    let vv := toV n v
    let Xva := ofV (X *ᵥ vv)
    let Xtva := ofV (Xᵀ *ᵥ vv)
    let XDa := ofM (X * Dm)
    let dl := trace (toM n n XDa)
    let dq := -(toV n Xtva ⬝ᵥ Dm *ᵥ toV n Xva)
    -- first-order inverse in dual numbers: M̂ * (X - ε X D X) = 1 decided
    let XDXa := ofM (toM n n XDa * X)
    let Xha : Array (Array Dl) := ofM (X.map lift - eps • (toM n n XDXa).map lift)
    let Xh : Matrix (Fin n) (Fin n) Dl := toM n n Xha
    let Mh := toM n n r.Mh
    if !(decide (Mh * Xh = 1)) then .error "fail-dual-inverse" else
    -- quadratic form of the dual inverse
    let vd : Fin n → Dl := fun i => lift (vv i)
    let qh : Dl := vd ⬝ᵥ Xh *ᵥ vd
    if qh != lift (vv ⬝ᵥ X *ᵥ vv) + eps * lift dq then .error "fail-dual-quad" else
    if n ≤ 4 && !(decide (det Mh = lift (det (toM n n M)) * (1 + eps * lift dl))) then
      .error "fail-det"
    else .ok (dl, dq)

def step (line : String) : String :=
  match (line.splitOn " ").filter (· ≠ "") with
  | "grad" :: v :: toks =>
    match pVec v, parseSpec toks with
    | some v, some (sp, []) =>
      if v.size != sp.size then "bad-op" else
      match eval sp v with
      | .error e => e
      | .ok r =>
        match derivs r v with
        | .error e => e
        | .ok (dl, dq) => s!"ok {r.gl} {r.gq} {showRat dl} {showRat dq}"
    | _, _ => "bad-op"
  | _ => "bad-op"

def main : IO Unit := run step
