/-
C10 driver.  One request per line:

    all <Bl> <Br> <expr>        every observable of the object denoted by <expr>
    den <expr>                  class, shape, flags and dense array only

`<expr>` is a prefix-notation token stream (whitespace separated):

    I n | SI n pos c | DG pos [d] | TR inverse lower [[A]] | TF pd sign inverse lower [[A]]
    DD pd sign [[A]] inverse lower [[F]] | LU inverse [[A]] | DS [[A]] [[Q]] [ev] | OR [[Q]]
    SO c [[Q]] | ES pd [[Q]] [ev] | RE [[A]] | BD kind e e | BR e e | BC e e | MM e e
    LR kind sign eU eV eS eK | TT e | IV e | SM sign r e

Checked inverses (`X` of triangular / LU leaves, and of the capacitance matrix which the
driver computes with the sign, `C = K⁻¹ + sign • V S⁻¹ U`) are produced by Gauss–Jordan over ℚ
and never trusted: the answer carries `wf=1` only if `WF e` was *decided* true.

Answer of `all`:  cls;m;n;wf;isinv;hasdet;denote;diagonal;sdet;leftMul;rightMul
(`-` where not applicable).  Malformed input → `bad-op`.
-/
import MiciVerif.Model.MatricesEval
import MiciVerif.Proto
open MiciVerif MiciVerif.Matrices MiciVerif.Matrices.MExpr MiciVerif.Proto

abbrev Q := Rat

structure Dyn where
  m : Nat
  n : Nat
  e : MExpr Q m n

/-- NB: everything that produces a matrix returns a `MatBox` *value*; a definition returning a
`Matrix` (a function) would be re-run at every entry access. -/
def matOfRows (m n : Nat) (rows : List (List Q)) : MatBox m n Q :=
  let arr : Array (Array Q) := (rows.map List.toArray).toArray
  boxForce (Matrix.of fun i j => (arr.getD i.val #[]).getD j.val 0)

def rowsOfMat {m n : Nat} (M : Mat m n Q) : List (List Q) :=
  List.ofFn fun i : Fin m => List.ofFn fun j : Fin n => M i j

def dims (rows : List (List Q)) : Option (Nat × Nat) :=
  match rows with
  | [] => none
  | r :: rs => if r.length = 0 then none else
      if rs.all (fun x => x.length = r.length) then some (rows.length, r.length) else none

/-- Gauss–Jordan inverse over ℚ on arrays; `none` if singular. -/
def gaussJordan (n : Nat) (a : Array (Array Q)) : Option (Array (Array Q)) := Id.run do
  let mut aug : Array (Array Q) := Array.ofFn fun i : Fin n =>
    (a.getD i.val #[]) ++ Array.ofFn fun j : Fin n => if i.val = j.val then (1 : Q) else 0
  for col in [0:n] do
    -- find pivot
    let mut piv : Option Nat := none
    for r in [col:n] do
      if piv.isNone && (aug.getD r #[]).getD col 0 != 0 then piv := some r
    match piv with
    | none => return none
    | some p =>
      let rowP := aug.getD p #[]
      let rowC := aug.getD col #[]
      aug := (aug.set! p rowC).set! col rowP
      let pv := rowP.getD col 0
      let rowN := rowP.map (· / pv)
      aug := aug.set! col rowN
      for r in [0:n] do
        if r != col then
          let row := aug.getD r #[]
          let f := row.getD col 0
          if f != 0 then
            aug := aug.set! r (Array.ofFn fun j : Fin (2 * n) => row.getD j.val 0 - f * rowN.getD j.val 0)
  return some (aug.map fun row => row.extract n (2 * n))

def invMat {n : Nat} (A : MatBox n n Q) : MatBox n n Q :=
  let arr : Array (Array Q) := Array.ofFn fun i : Fin n => Array.ofFn fun j : Fin n => A.M i j
  match gaussJordan n arr with
  | some x => boxForce (Matrix.of fun i j => (x.getD i.val #[]).getD j.val 0)
  | none => ⟨0⟩

def parseSgn? (s : String) : Option Sgn :=
  if s = "+" then some .pos else if s = "-" then some .neg else none

def parseBD? (s : String) : Option BDKind :=
  if s = "sq" then some .square else if s = "sym" then some .symmetric else
  if s = "pd" then some .posdef else none

def parseLR? (s : String) : Option LRKind :=
  if s = "sq" then some .square else if s = "sym" then some .symmetric else
  if s = "pd" then some .posdef else none

def mkTriF (inverse lower : Bool) (rows : List (List Q)) : Option (Σ n, TriF n Q) := do
  let (m, n) ← dims rows
  if m = n then
    let A := matOfRows n n rows
    let X := invMat A
    some ⟨n, ⟨inverse, lower, A.M, X.M⟩⟩
  else none

def sqMat (rows : List (List Q)) : Option (Σ n, MatBox n n Q) := do
  let (m, n) ← dims rows
  if m = n then some ⟨n, matOfRows n n rows⟩ else none

def vecOf (n : Nat) (v : List Q) : VecBox n Q :=
  let a := v.toArray
  vecForce fun i => a.getD i.val 0

def castTo (d : Dyn) (m n : Nat) : Option (MExpr Q m n) :=
  if h : d.m = m ∧ d.n = n then some (cast (by rw [h.1, h.2]) d.e) else none

def castSq (d : Dyn) : Option (Σ n, MExpr Q n n) := do
  let e ← castTo d d.m d.m
  some ⟨d.m, e⟩

partial def parse : List String → Option (Dyn × List String)
  | "I" :: n :: rest => do
      let n ← n.toNat?
      some (⟨n, n, identity n⟩, rest)
  | "SI" :: n :: p :: c :: rest => do
      let n ← n.toNat?; let p ← parseBool? p; let c ← parseRat? c
      some (⟨n, n, scaledId n p c⟩, rest)
  | "DG" :: p :: d :: rest => do
      let p ← parseBool? p; let d ← parseVec? d
      let dv := vecOf d.length d
      some (⟨d.length, d.length, diag p dv.v⟩, rest)
  | "TR" :: i :: l :: a :: rest => do
      let i ← parseBool? i; let l ← parseBool? l; let a ← parseMat? a
      let ⟨n, f⟩ ← mkTriF i l a
      some (⟨n, n, tri f⟩, rest)
  | "TF" :: pd :: s :: i :: l :: a :: rest => do
      let pd ← parseBool? pd; let s ← parseSgn? s
      let i ← parseBool? i; let l ← parseBool? l; let a ← parseMat? a
      let ⟨n, f⟩ ← mkTriF i l a
      some (⟨n, n, triFact pd s f⟩, rest)
  | "DD" :: pd :: s :: arr :: i :: l :: a :: rest => do
      let pd ← parseBool? pd; let s ← parseSgn? s; let arr ← parseMat? arr
      let i ← parseBool? i; let l ← parseBool? l; let a ← parseMat? a
      let ⟨n, f⟩ ← mkTriF i l a
      let (m1, n1) ← dims arr
      if m1 = n ∧ n1 = n then
        let Ab := matOfRows n n arr
        some (⟨n, n, denseDef pd s Ab.M f⟩, rest)
      else none
  | "LU" :: i :: a :: rest => do
      let i ← parseBool? i; let a ← parseMat? a
      let ⟨n, A⟩ ← sqMat a
      let X := invMat A
      some (⟨n, n, lu i A.M X.M⟩, rest)
  | "DS" :: a :: q :: ev :: rest => do
      let a ← parseMat? a; let q ← parseMat? q; let ev ← parseVec? ev
      let ⟨n, A⟩ ← sqMat a
      let (m1, n1) ← dims q
      if m1 = n ∧ n1 = n ∧ ev.length = n then
        let Qb := matOfRows n n q
        let evb := vecOf n ev
        some (⟨n, n, denseSym A.M Qb.M evb.v⟩, rest)
      else none
  | "OR" :: q :: rest => do
      let q ← parseMat? q
      let ⟨n, Qm⟩ ← sqMat q
      some (⟨n, n, orth Qm.M⟩, rest)
  | "SO" :: c :: q :: rest => do
      let c ← parseRat? c; let q ← parseMat? q
      let ⟨n, Qm⟩ ← sqMat q
      some (⟨n, n, scaledOrth c Qm.M⟩, rest)
  | "ES" :: pd :: q :: ev :: rest => do
      let pd ← parseBool? pd; let q ← parseMat? q; let ev ← parseVec? ev
      let ⟨n, Qm⟩ ← sqMat q
      if ev.length = n then
        let evb := vecOf n ev
        some (⟨n, n, eigSym pd Qm.M evb.v⟩, rest)
      else none
  | "RE" :: a :: rest => do
      let a ← parseMat? a
      let (m, n) ← dims a
      let Ab := matOfRows m n a
      some (⟨m, n, rect Ab.M⟩, rest)
  | "BD" :: k :: rest => do
      let k ← parseBD? k
      let (a, rest) ← parse rest
      let (b, rest) ← parse rest
      let ⟨m, ea⟩ ← castSq a
      let ⟨n, eb⟩ ← castSq b
      some (⟨m + n, m + n, blockDiag k ea eb⟩, rest)
  | "BR" :: rest => do
      let (a, rest) ← parse rest
      let (b, rest) ← parse rest
      let eb ← castTo b a.m b.n
      some (⟨a.m, a.n + b.n, blockRow a.e eb⟩, rest)
  | "BC" :: rest => do
      let (a, rest) ← parse rest
      let (b, rest) ← parse rest
      let eb ← castTo b b.m a.n
      some (⟨a.m + b.m, a.n, blockCol a.e eb⟩, rest)
  | "MM" :: rest => do
      let (a, rest) ← parse rest
      let (b, rest) ← parse rest
      let eb ← castTo b a.n b.n
      some (⟨a.m, b.n, matmul a.e eb⟩, rest)
  | "LR" :: k :: s :: rest => do
      let k ← parseLR? k; let s ← parseSgn? s
      let (u, rest) ← parse rest
      let (v, rest) ← parse rest
      let (sq, rest) ← parse rest
      let (kin, rest) ← parse rest
      -- shapes: u : n×k, v : k×n, sq : n×n, kin : k×k
      let U : MExpr Q u.m u.n := u.e
      let V ← castTo v u.n u.m
      let S ← castTo sq u.m u.m
      let Kin ← castTo kin u.n u.n
      -- capacitance matrix exactly as the (fixed) code computes it: K⁻¹ + sign • V S⁻¹ U
      let Cm := addB (denoteB (inv Kin)) (smulB (s.val : Q)
        (mulB (mulB (denoteB V) (denoteB (inv S))) (denoteB U)))
      let Cx := invMat Cm
      let C : MExpr Q u.n u.n := lu false Cm.M Cx.M
      some (⟨u.m, u.m, lowRank k s U V S Kin C⟩, rest)
  | "TT" :: rest => do
      let (a, rest) ← parse rest
      some (⟨a.n, a.m, T a.e⟩, rest)
  | "IV" :: rest => do
      let (a, rest) ← parse rest
      some (⟨a.n, a.m, inv a.e⟩, rest)
  | "SM" :: s :: r :: rest => do
      let s ← parseSgn? s; let r ← parseRat? r
      let (a, rest) ← parse rest
      some (⟨a.m, a.n, smul s r a.e⟩, rest)
  | _ => none

def b01 (b : Bool) : String := if b then "1" else "0"

def header (d : Dyn) : String :=
  s!"{cls d.e};{d.m};{d.n};{b01 (decide (WF d.e))};{b01 (decide (IsInv d.e))};{b01 (decide (HasDet d.e))}"

def answerAll (bl br : List (List Q)) (d : Dyn) : String :=
  let den := denoteB d.e
  let dg := diagonalB d.e
  let diagS := if d.m = d.n then showVec (List.ofFn dg.v) else "-"
  let detS := if decide (HasDet d.e) then showRat (sdet d.e) else "-"
  let lm := match dims bl with
    | some (r, c) => if r = d.n then showMat (rowsOfMat (leftMulB d.e (matOfRows d.n c bl)).M) else "-"
    | none => "-"
  let rm := match dims br with
    | some (r, c) => if c = d.m then showMat (rowsOfMat (rightMulB (matOfRows r d.m br) d.e).M) else "-"
    | none => "-"
  s!"{header d};{showMat (rowsOfMat den.M)};{diagS};{detS};{lm};{rm}"

def step (line : String) : String :=
  match (line.splitOn " ").filter (· ≠ "") with
  | "all" :: bl :: br :: rest =>
    match parseMat? bl, parseMat? br, parse rest with
    | some bl, some br, some (d, []) => answerAll bl br d
    | _, _, _ => "bad-op"
  | "den" :: rest =>
    match parse rest with
    | some (d, []) => s!"{header d};{showMat (rowsOfMat (denoteB d.e).M)}"
    | _ => "bad-op"
  | _ => "bad-op"

def main : IO Unit := run step
