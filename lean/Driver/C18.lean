import MiciVerif.Model.Cache
import MiciVerif.Generated.CacheDeps
open MiciVerif MiciVerif.Cache

/-- One request line = one whole history on the generated dependency table
(protocol: see `MiciVerif.Cache.Wire`). -/
def main : IO Unit := Proto.run (Wire.stepLine Generated.cacheTable)
