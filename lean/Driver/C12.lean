import MiciVerif.Model.Solvers
import MiciVerif.Proto
open MiciVerif MiciVerif.Solvers MiciVerif.Proto

/-! `fp <direct|steff> a b x0 ctol dtol maxit faultIdx faultKind`
    func(x) = a*x + b on scalars, with the fault at call index `faultIdx` (-1: none);
    faultKind ∈ nan pinf ninf value linalg foreign.
    → `ok p/q` | `ok nan|pinf|ninf` | `conv` | `foreign` -/

def showXR : XR → String
  | .fin q => showRat q | .pinf => "pinf" | .ninf => "ninf" | .nan => "nan"

def xrMul : XR → XR → XR
  | .nan, _ => .nan | _, .nan => .nan
  | .fin a, .fin b => .fin (a * b)
  | .fin a, y => XR.smul a y
  | x, .fin b => XR.smul b x
  | .pinf, .pinf => .pinf | .ninf, .ninf => .pinf | _, _ => .ninf

def xrDiv : XR → XR → XR
  | .nan, _ => .nan | _, .nan => .nan
  | .fin a, .fin b => if b = 0 then (if a = 0 then .nan else if a > 0 then .pinf else .ninf) else .fin (a / b)
  | .fin _, _ => .fin 0
  | x, .fin b => if b ≥ 0 then x else XR.neg x
  | _, _ => .nan

def eps : Rat := 1 / 4503599627370496  -- 2^-52

def mkFunc (a b : Rat) (k : Int) (kind : String) : Nat → XR → Except Fault XR := fun i x =>
  if (i : Int) = k then
    match kind with
    | "nan" => .ok .nan
    | "pinf" => .ok .pinf
    | "ninf" => .ok .ninf
    | "value" => .error .valueError
    | "linalg" => .error .linAlgError
    | _ => .error .foreign
  else .ok (XR.add (XR.smul a x) (.fin b))

def nd : XR → XR → Except Fault XNorm := fun x y => .ok (XR.absNorm (XR.sub x y))

def upd : XR → XR → XR → Except Fault XR := fun x0 x1 x2 =>
  let denom := XR.add (XR.sub x2 (XR.smul 2 x1)) x0
  let denom := if denom = .fin 0 then .fin eps else denom
  let d := XR.sub x1 x0
  .ok (XR.sub x0 (xrDiv (xrMul d d) denom))

def showOut : Out XR → String
  | .ok x => "ok " ++ showXR x
  | .convErr => "conv"
  | .foreignErr => "foreign"

def step (line : String) : String :=
  match line.splitOn " " with
  | ["fp", meth, a, b, x0, ctol, dtol, maxit, k, kind] =>
    match parseRat? a, parseRat? b, parseRat? x0, parseRat? ctol, parseRat? dtol, maxit.toNat?, parseInt? k with
    | some a, some b, some x0, some ctol, some dtol, some maxit, some k =>
      let f := mkFunc a b k kind
      if meth = "direct" then showOut (direct f nd ctol dtol maxit 0 (.fin x0))
      else if meth = "steff" then showOut (steffensen f upd nd ctol dtol maxit 0 (.fin x0))
      else "bad-op"
    | _, _, _, _, _, _, _ => "bad-op"
  | _ => "bad-op"

def main : IO Unit := run step
