import MiciVerif.Model.Systems
import MiciVerif.Model.Constrained
import MiciVerif.Proto
import Mathlib.Algebra.Order.Field.Rat
open MiciVerif MiciVerif.Systems MiciVerif.Constrained MiciVerif.Proto Matrix

/-! Line-protocol driver for C05: the eight methods of every system class, executed over ℚ.

The uninterpreted `logabs` is instantiated with the identity, so `h1`/`h` carry
`½·det` where the real code has `½·log|det|`; `ell` is printed separately so the harness can
recover the determinant exactly and take the logarithm itself.

    euclid  n M lB lg lk q p
    gauss   n M lB lg lk q p
    constr  haus n c A B d M lB lg lk q p
    gconstr n c A B d M lB lg lk q p
    riem scalar n s0 s1            lB lg lk q p
    riem diag   n a b e            lB lg lk q p
    riem chol   n L0 L1 a b        lB lg lk q p
    riem dense  n M0 U             lB lg lk q p

answer: `ell h1 h2 h | dh1_dpos | dh2_dpos | dh2_dmom | dh_dpos | dh_dmom`
-/

def toVector? {α : Type} (n : Nat) (l : List α) : Option (Vector α n) :=
  if h : l.length = n then some ⟨l.toArray, by simpa using h⟩ else none
def toVec? (n : Nat) (s : String) : Option (Vec ℚ n) := do toVector? n (← parseVec? s)
def toMat? (m n : Nat) (s : String) : Option (Mat ℚ m n) := do
  let rows ← parseMat? s
  toVector? m (← rows.mapM (toVector? n))
def toMats? (k m n : Nat) (s : String) : Option (Vector (Mat ℚ m n) k) := do
  if k = 0 then toVector? k [] else toVector? k (← (s.splitOn ";").mapM (toMat? m n))

def showF {n : Nat} (f : Fin n → ℚ) : String := showVec (vec f).toList

/-- ℓ(q) = ½ qᵀ B q + g·q + ¼ κ Σ qᵢ⁴ -/
def ellFn {n : Nat} (B : Mat ℚ n n) (g : Vec ℚ n) (κ : ℚ) (q : Fin n → ℚ) : ℚ :=
  (1 / 2) * (q ⬝ᵥ B.fn *ᵥ q) + g.fn ⬝ᵥ q + (1 / 4) * κ * ∑ i, (q i) ^ 4
def gradEllFn {n : Nat} (B : Mat ℚ n n) (g : Vec ℚ n) (κ : ℚ) (q : Fin n → ℚ) : Fin n → ℚ :=
  fun i => (B.fn *ᵥ q) i + g.fn i + κ * (q i) ^ 3

def showMethods {n : Nat} (ell : (Fin n → ℚ) → ℚ) (m : Methods ℚ (Fin n)) (q p : Fin n → ℚ) : String :=
  s!"{showRat (ell q)} {showRat (m.h1 q p)} {showRat (m.h2 q p)} {showRat (m.h q p)} | " ++
  " | ".intercalate [showF (m.dh1_dpos q p), showF (m.dh2_dpos q p), showF (m.dh2_dmom q p),
    showF (m.dh_dpos q p), showF (m.dh_dmom q p)]

def ellArgs? (n : Nat) (lB lg lk q p : String) :
    Option (Mat ℚ n n × Vec ℚ n × ℚ × Vec ℚ n × Vec ℚ n) := do
  some (← toMat? n n lB, ← toVec? n lg, ← parseRat? lk, ← toVec? n q, ← toVec? n p)

def doEuclid (gauss : Bool) (n : Nat) (M lB lg lk q p : String) : Option String := do
  let M ← toMat? n n M
  let (lB, lg, lk, q, p) ← ellArgs? n lB lg lk q p
  match checkedInv M with
  | .error _ => some "fault"
  | .ok N =>
    let ell := ellFn lB lg lk
    let m := if gauss then gaussianEuclidean (1 / 2) N.fn ell (gradEllFn lB lg lk)
             else euclidean (1 / 2) N.fn ell (gradEllFn lB lg lk)
    some (showMethods ell m q.fn p.fn)

def doConstr (gauss haus : Bool) (n c : Nat) (A B d M lB lg lk q p : String) : Option String := do
  let Q : Quadrics ℚ n c := ⟨← toMats? c n n A, ← toMat? c n B, ← toVec? c d⟩
  let M ← toMat? n n M
  let (lB, lg, lk, q, p) ← ellArgs? n lB lg lk q p
  match checkedInv M with
  | .error _ => some "fault"
  | .ok N =>
    match checkedInv (innerProduct (Q.jacob q) N (Q.jacob q)) with
    | .error _ => some "fault"
    | .ok Ginv =>
      let C : ConstraintFns ℚ (Fin n) (Fin c) :=
        { jacob := fun x => (Q.jacob (vec x)).fn
          mhp := fun _ m => (Q.mhp (mat m)).fn
          Ginv := fun _ => Ginv.fn }   -- only ever evaluated at `q`
      let ell := ellFn lB lg lk
      let m := if gauss then gaussianDenseConstrained (1 / 2) id N.fn ell (gradEllFn lB lg lk) C
               else denseConstrained haus (1 / 2) id N.fn ell (gradEllFn lB lg lk) C
      some (showMethods ell m q.fn p.fn)

def inv1 (x : ℚ) : ℚ := 1 / x

def doRiem (kind : String) (n : Nat) (a : List String) : Option String :=
  match kind, a with
  | "scalar", [s0, s1, lB, lg, lk, q, p] => do
    let s0 ← parseRat? s0
    let s1 ← parseRat? s1
    let (lB, lg, lk, q, p) ← ellArgs? n lB lg lk q p
    let F : MetricFns ℚ Unit (Fin n) :=
      { θ := fun x _ => s0 + s1 * (x ⬝ᵥ x), jac := fun x _ i => 2 * s1 * x i }
    let ell := ellFn lB lg lk
    some (showMethods ell (riemannian (1 / 2) id ell (gradEllFn lB lg lk) (scalarClass inv1) F) q.fn p.fn)
  | "diag", [av, bv, ev, lB, lg, lk, q, p] => do
    if hn : n = 0 then none else
    let av ← toVec? n av
    let bv ← toVec? n bv
    let ev ← toVec? n ev
    let (lB, lg, lk, q, p) ← ellArgs? n lB lg lk q p
    let nxt : Fin n → Fin n := fun i => ⟨(i.val + 1) % n, Nat.mod_lt _ (Nat.pos_of_ne_zero hn)⟩
    let F : MetricFns ℚ (Fin n) (Fin n) :=
      { θ := fun x i => av.fn i + bv.fn i * (x i) ^ 2 + ev.fn i * (x (nxt i)) ^ 2
        jac := fun x i j => (if j = i then 2 * bv.fn i * x i else 0) +
                            (if j = nxt i then 2 * ev.fn i * x (nxt i) else 0) }
    let ell := ellFn lB lg lk
    some (showMethods ell (riemannian (1 / 2) id ell (gradEllFn lB lg lk) (diagClass inv1) F) q.fn p.fn)
  | "chol", [L0, L1, av, bv, lB, lg, lk, q, p] => do
    let L0 ← toMat? n n L0
    let L1 ← toMat? n n L1
    let av ← toVec? n av
    let bv ← toVec? n bv
    let (lB, lg, lk, q, p) ← ellArgs? n lB lg lk q p
    let F : MetricFns ℚ (Fin n × Fin n) (Fin n) :=
      { θ := fun x ij =>
          if ij.2 < ij.1 then L0.fn ij.1 ij.2 + L1.fn ij.1 ij.2 * x ij.2
          else if ij.1 = ij.2 then av.fn ij.1 + bv.fn ij.1 * (x ij.1) ^ 2 else 0
        jac := fun x ij k =>
          if ij.2 < ij.1 then (if k = ij.2 then L1.fn ij.1 ij.2 else 0)
          else if ij.1 = ij.2 then (if k = ij.1 then 2 * bv.fn ij.1 * x ij.1 else 0) else 0 }
    let L : Mat ℚ n n := mat (Matrix.of fun i j => F.θ q.fn (i, j))
    match checkedInv L with
    | .error _ => some "fault"
    | .ok Linv =>
      let Mc := cholClass (fun i j => decide (j ≤ i)) inv1 (fun _ => Linv.fn)
      let ell := ellFn lB lg lk
      some (showMethods ell (riemannian (1 / 2) id ell (gradEllFn lB lg lk) Mc F) q.fn p.fn)
  | "dense", [M0, U, lB, lg, lk, q, p] => do
    let M0 ← toMat? n n M0
    let U ← toMat? n n U
    let (lB, lg, lk, q, p) ← ellArgs? n lB lg lk q p
    let F : MetricFns ℚ (Fin n × Fin n) (Fin n) :=
      { θ := fun x ij => M0.fn ij.1 ij.2 + ∑ k, (x k) ^ 2 * U.fn k ij.1 * U.fn k ij.2
        jac := fun x ij k => 2 * x k * U.fn k ij.1 * U.fn k ij.2 }
    let Mq : Mat ℚ n n := mat (Matrix.of fun i j => F.θ q.fn (i, j))
    match checkedInv Mq with
    | .error _ => some "fault"
    | .ok Ninv =>
      let Mc := denseClass (fun _ => Ninv.fn)
      let ell := ellFn lB lg lk
      some (showMethods ell (riemannian (1 / 2) id ell (gradEllFn lB lg lk) Mc F) q.fn p.fn)
  | _, _ => none

def stepLine (line : String) : String :=
  match line.splitOn " " with
  | ["euclid", n, M, lB, lg, lk, q, p] =>
    match n.toNat? with
    | some n => (doEuclid false n M lB lg lk q p).getD "bad-op"
    | none => "bad-op"
  | ["gauss", n, M, lB, lg, lk, q, p] =>
    match n.toNat? with
    | some n => (doEuclid true n M lB lg lk q p).getD "bad-op"
    | none => "bad-op"
  | ["constr", haus, n, c, A, B, d, M, lB, lg, lk, q, p] =>
    match parseBool? haus, n.toNat?, c.toNat? with
    | some h, some n, some c => (doConstr false h n c A B d M lB lg lk q p).getD "bad-op"
    | _, _, _ => "bad-op"
  | ["gconstr", n, c, A, B, d, M, lB, lg, lk, q, p] =>
    match n.toNat?, c.toNat? with
    | some n, some c => (doConstr true false n c A B d M lB lg lk q p).getD "bad-op"
    | _, _ => "bad-op"
  | "riem" :: kind :: n :: rest =>
    match n.toNat? with
    | some n => (doRiem kind n rest).getD "bad-op"
    | none => "bad-op"
  | _ => "bad-op"

def main : IO Unit := run stepLine
