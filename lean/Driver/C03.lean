/-
Line-protocol driver for C03: the tangent-lifted integrator step (propagated Jacobian) over ℚ.

  jeuc  A b3 b2 d N F init ε dir k q p           → q' p' D   (SymmetricComposition, Euclidean)
  jleap A b3 b2 d N ε dir k q p                  → q' p' D   (LeapfrogIntegrator)
  jgauss A b3 b2 d Q w TABLE F init ε dir k q p  → q' p' D   (Gaussian-split)
  jgleap A b3 b2 d Q w TABLE ε dir k q p

`D` is the 2n×2n matrix d(q',p')/d(q,p) in row-major `[[..],..]` form, coordinates ordered (q, p),
followed by ` sp=1|0`: whether `D J Dᵀ = J` holds EXACTLY over ℚ (decided).
-/
import MiciVerif.Lemmas.IntegratorsExec
import MiciVerif.Model.IntegratorsTangent

open MiciVerif MiciVerif.Integrators MiciVerif.Proto MiciVerif.IntegratorsExec

def idx {n : Nat} (k : Fin (n + n)) : Fin n ⊕ Fin n :=
  if h : k.1 < n then Sum.inl ⟨k.1, h⟩ else Sum.inr ⟨k.1 - n, by omega⟩

def matRows {n : Nat} (D : Mat2 n ℚ) : List (List ℚ) :=
  List.ofFn fun i : Fin (n + n) => List.ofFn fun j : Fin (n + n) => D (idx i) (idx j)

/-- `D J Dᵀ = J` decided exactly over ℚ (array arithmetic; a check on the model's output, not part
of the model).  With `D = [[a, b], [c, d]]`: `D J Dᵀ = [[b aᵀ − a bᵀ, b cᵀ − a dᵀ], [d aᵀ − c bᵀ, d cᵀ − c dᵀ]]`
— computed directly as a triple product on arrays. -/
def isSymplectic {n : Nat} (D : Mat2 n ℚ) : Bool :=
  let m := n + n
  let d : Array (Array ℚ) := Array.ofFn fun i : Fin m => Array.ofFn fun j : Fin m => D (idx i) (idx j)
  let get (a : Array (Array ℚ)) (i j : Nat) : ℚ := (a.getD i #[]).getD j 0
  -- J = [[0, -1], [1, 0]]:  (D J) i j = if j < n then D i (j + n) else - D i (j - n)
  let dj : Array (Array ℚ) := Array.ofFn fun i : Fin m => Array.ofFn fun j : Fin m =>
    if j.1 < n then get d i.1 (j.1 + n) else - get d i.1 (j.1 - n)
  let jEntry (i j : Nat) : ℚ := if i < n ∧ j = i + n then -1 else if n ≤ i ∧ j + n = i then 1 else 0
  (List.range m).all fun i => (List.range m).all fun j =>
    ((List.range m).foldl (fun acc k => acc + get dj i k * get d j k) 0) == jEntry i j

def wrapT {n : Nat} (f : ℚ → TState n ℚ → TState n ℚ) : ℚ → TState n ℚ → TState n ℚ :=
  fun t s => forceT (f t s)

def runT {n : Nat} (stepT : ℚ → TState n ℚ → TState n ℚ) (ε dir : ℚ) (k : Nat)
    (x : Vec n × Vec n) : String :=
  let s : State (TState n ℚ) ℚ := ⟨initT x, dir⟩
  let s1 := steps stepT ε k s
  showState s1.x.1 ++ " " ++ showMat (matRows s1.x.2) ++ " sp=" ++ (if isSymplectic s1.x.2 then "1" else "0")

def handle (toks : List String) : Option String :=
  match toks with
  | ["jeuc", a, b3, b2, d, nm, f, init, eps, dir, k, q, p] => do
    let ql ← parseVec? q
    let n := ql.length
    let g ← parseTarget n a b3 b2 d
    let H ← parseHess n a b3 b2
    let N ← (parseMat? nm) >>= toMat n
    let f ← parseVec? f
    let init ← parseBool? init
    let eps ← parseRat? eps
    let dir ← parseRat? dir
    let k ← k.toNat?
    let q ← toVec n ql
    let p ← (parseVec? p) >>= toVec n
    let I := mkSymComp (wrapT (kickT g H)) (wrapT (driftT N)) f init
    pure (runT I.stepT eps dir k (q, p))
  | ["jleap", a, b3, b2, d, nm, eps, dir, k, q, p] => do
    let ql ← parseVec? q
    let n := ql.length
    let g ← parseTarget n a b3 b2 d
    let H ← parseHess n a b3 b2
    let N ← (parseMat? nm) >>= toMat n
    let eps ← parseRat? eps
    let dir ← parseRat? dir
    let k ← k.toNat?
    let q ← toVec n ql
    let p ← (parseVec? p) >>= toVec n
    pure (runT (leapfrog (wrapT (kickT g H)) (wrapT (driftT N))) eps dir k (q, p))
  | ["jgauss", a, b3, b2, d, qm, w, tab, f, init, eps, dir, k, q, p] => do
    let ql ← parseVec? q
    let n := ql.length
    let g ← parseTarget n a b3 b2 d
    let H ← parseHess n a b3 b2
    let Q ← (parseMat? qm) >>= toMat n
    let w ← (parseVec? w) >>= toVec n
    let tab ← parseTable n tab
    let f ← parseVec? f
    let init ← parseBool? init
    let eps ← parseRat? eps
    let dir ← parseRat? dir
    let k ← k.toNat?
    let q ← toVec n ql
    let p ← (parseVec? p) >>= toVec n
    let I := mkSymComp (wrapT (kickT g H)) (wrapT (harmonicT Q w (lookup tab ⟨1, 0⟩))) f init
    pure (runT I.stepT eps dir k (q, p))
  | ["jgleap", a, b3, b2, d, qm, w, tab, eps, dir, k, q, p] => do
    let ql ← parseVec? q
    let n := ql.length
    let g ← parseTarget n a b3 b2 d
    let H ← parseHess n a b3 b2
    let Q ← (parseMat? qm) >>= toMat n
    let w ← (parseVec? w) >>= toVec n
    let tab ← parseTable n tab
    let eps ← parseRat? eps
    let dir ← parseRat? dir
    let k ← k.toNat?
    let q ← toVec n ql
    let p ← (parseVec? p) >>= toVec n
    pure (runT (leapfrog (wrapT (kickT g H)) (wrapT (harmonicT Q w (lookup tab ⟨1, 0⟩)))) eps dir k (q, p))
  | _ => none

def stepLine (line : String) : String :=
  (handle (line.splitOn " ")).getD "bad-op"

def main : IO Unit := run stepLine
