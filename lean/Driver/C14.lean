import MiciVerif.Model.SamplerDriver

def main : IO Unit := MiciVerif.SamplerDriver.main
