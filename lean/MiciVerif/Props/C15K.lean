/-
C15 — the fill value.  After an interrupt the rows never reached must read the fill value
(`Model/Sampler.lean`: cells `none`; `Props/C15.lean`: every other cell is untouched, still the fill
value it had).  That the fill value is recognisable — NaN for *every* dtype that can hold NaN — is a
fact about `_init_traces` / `_init_stats` / `_open_new_memmap`, re-derived here from the trees
regenerated from the tree under test (`Generated/SamplerStorageSkeleton.lean`, see
`Props/C13K.lean` for the mechanism).
-/
import MiciVerif.Lemmas.SamplerStorage
import MiciVerif.Generated.StatTypes

namespace MiciVerif.C15K
open MiciVerif.Skel
open MiciVerif.Skel.Storage
open MiciVerif.Generated
open MiciVerif.SamplerStorage
open MiciVerif.Generated.SamplerStorageSkeleton (initTraces initStats)

/-- The statement choosing the fill value of a trace array: NaN iff the dtype of the traced value
is a sub-dtype of `np.inexact`, else 0; it is the only assignment of `init`. -/
theorem skel_fill_statement :
    assignsTo (.v "init") initTraces.stmts =
      [.assign (.v "init")
        (.ite (.call "np.issubdtype" (E.l [.v "array_val.dtype", .v "np.inexact"])) (.v "np.nan") (.n 0))]
    ∧ assignsTo (.v "array_val") initTraces.stmts =
      [.assign (.v "array_val") (.ite (.call "np.isscalar" (E.l [.v "val"])) (.call "np.array" (E.l [.v "val"])) (.v "val"))] := by
  decide +kernel

/-- **Reading of the fill rule**: as a function of the dtype kind it is NaN on every inexact kind
(float16/32/64, longdouble, complex64/128, clongdouble) and 0 on every other kind.
(`seeded/C15-3` — `np.float64` instead of `np.inexact` — and any other narrowing breaks this.) -/
theorem skel_traces_filled_with_nan_for_every_inexact_dtype (k : Kind) :
    (traceRule.map fun f => f k) = some (if k.inexact then Fill.nan else Fill.zero) := by
  cases k <;> decide +kernel

/-- the inexact kinds are exactly the floating and complex ones (non-vacuity of the rule) -/
example : Kind.all.filter Kind.inexact =
    [.float16, .float32, .float64, .longdouble, .complex64, .complex128, .clongdouble] := by decide

private theorem traces_plan : findAlloc initTraces = some tracesPlan := by
  decide +kernel

/-- **The fill reaches every created array, with both storage kinds**: for every number of chains,
array length, value shape and dtype kind, every trace array — in memory or memory-mapped — is created
pre-filled with NaN when the kind is inexact and with 0 otherwise. -/
theorem skel_trace_fill_reaches_every_array (memmap : Bool) (env : Env) :
    ∃ arrs, traceArrays memmap env = some arrs
      ∧ ∀ a ∈ arrs, a.fill = (if env.kind.inexact then Fill.nan else Fill.zero) := by
  have hr : evalFill traceRule env (.v "init") = (if env.kind.inexact then Fill.nan else Fill.zero) := by
    have h := skel_traces_filled_with_nan_for_every_inexact_dtype env.kind
    unfold evalFill
    cases hrule : traceRule with
    | none => rw [hrule] at h; simp at h
    | some f => rw [hrule] at h; simpa using h
  unfold traceArrays
  rw [traces_plan]
  cases memmap
  · refine ⟨_, by simp [AllocPlan.memArrays, tracesPlan, evalDims]; rfl, ?_⟩
    intro a ha
    rw [List.mem_replicate] at ha
    rw [ha.2]; exact hr
  · refine ⟨_, by simp [AllocPlan.mapArrays, tracesPlan, evalDims, evalIndices, E.l]; rfl, ?_⟩
    intro a ha
    simp only [List.mem_map] at ha
    obtain ⟨i, _, rfl⟩ := ha
    exact hr

example : (traceArrays true ⟨2, 4, [3], .complex64⟩).map (fun arrs => arrs.map (·.fill)) =
    some [.nan, .nan] := by decide +kernel
example : (traceArrays false ⟨2, 4, [], .int64⟩).map (fun arrs => arrs.map (·.fill)) =
    some [.zero, .zero] := by decide +kernel

/-- A new memory-mapped array is filled completely (`memmap[:] = default_val`) between its creation
and its return, and `_init_traces` / `_init_stats` pass the fill value in the `default_val` position. -/
theorem skel_new_memmap_filled_everywhere :
    (do let c ← idx (fun s => s.callsDeep "np.lib.format.open_memmap") SamplerStorageSkeleton.openNewMemmap.stmts
        let f ← idx (fun s => s = .assign (.sub (.v "memmap") (.call "<slice>" (E.l [.none, .none, .none]))) (.v "default_val"))
                  SamplerStorageSkeleton.openNewMemmap.stmts
        let r ← idx (fun s => s = .ret (.v "memmap")) SamplerStorageSkeleton.openNewMemmap.stmts
        some (decide (c < f), decide (f < r))) = some (true, true)
    ∧ SamplerStorageSkeleton.openNewMemmapSig.items[2]? = some (.v "default_val")
    ∧ ((findAlloc initTraces).map fun p => (p.mapFill, p.memFill)) = some (.v "init", .v "init")
    ∧ ((findAlloc initStats).map fun p => (p.mapFill, p.memFill)) = some (.v "val", .v "val") := by
  decide +kernel

/-- Statistics arrays are pre-filled with the value declared next to the dtype (both storage
kinds, `C13K.skel_stats_use_declared_dtype_and_fill`), and in the table of declarations regenerated
from `transitions.py` every floating statistic declares NaN. -/
theorem skel_stats_fill_is_declared_and_float_stats_declare_nan :
    ((findAlloc initStats).map fun p => (evalFill Option.none ⟨0, 0, [], .float64⟩ p.mapFill,
        evalFill Option.none ⟨0, 0, [], .float64⟩ p.memFill)) = some (Fill.declared, Fill.declared)
    ∧ (StatTypes.table.all fun e => e.declared.all fun d => d.kind != "float" || d.fill == "nan") = true := by
  decide +kernel

/-- In the model every cell of the initial system is the fill value (`none`), for every chain and
array — the state of affairs the readings above establish for the arrays the code creates. -/
theorem model_initSys_cells_are_fill {St V A P : Type} (K : Sampler.Kernel St V A P) (p : P)
    (inits : List St) (nTrace : Nat) :
    ∀ ch ∈ (Sampler.initSys K p inits nTrace).chains, ∀ a ∈ ch.mem, ∀ c ∈ a, c = Option.none := by
  intro ch hch a ha c hc
  simp only [Sampler.initSys, List.mem_map] at hch
  obtain ⟨si, _, rfl⟩ := hch
  simp only [List.mem_replicate] at ha
  rw [ha.2] at hc
  exact (List.mem_replicate.mp hc).2

end MiciVerif.C15K
