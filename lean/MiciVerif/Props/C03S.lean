/-
C03 — symplecticity of the implicit / constrained integrators, stated about the step tables that
`tools/extractors/integ_steps.py` regenerates from `mici/integrators.py` on every run
(`Generated/IntegSteps.lean`).

`Props/C03.lean` proves that the hand-written Jacobian products `genLeapfrogJac`, `midpointJac`,
`conLeapfrogJac` (`Model/IntegratorsTangent.lean`) are symplectic / presymplectic.  Here every step
descriptor of a generated table is mapped to ITS Jacobian factor (for a quadratic `h2` / `h`, resp. a
linear constraint), the factors are multiplied in the generated order of `_step` (later calls act
last, i.e. stand on the left), with the generated time fractions, and

* `…_jac_eq_model`: this product IS the hand-written Jacobian of `Props/C03.lean`;
* `…_generated_symplectic` / `…_generated_presymp_linear`: it is in the symplectic group (resp.
  preserves tangency and the two-form on the tangent bundle of the constrained cotangent bundle);
* `…_run_linear`: the Jacobian semantics is not free-standing: RUNNING the generated tables
  (`glRun` / `imRun` of `Lemmas/IntegSteps.lean`, which `Props/C06S.lean` ties to `glStep` / `imStep`
  and the harness ties to the real code) on a quadratic Hamiltonian with any solver that returns
  exact fixed points is multiplication by that product.

A re-ordered / dropped / duplicated sub-step, a changed time fraction, a changed sign, variable or
derivative in a helper, or a dropped momentum projection in integrators.py changes the table and
breaks the theorems of this file (the explicit integrators are covered by
`C06S.symComp_generated_symplectic`).

Jacobian semantics (definitions below; anything not recognised is the ZERO matrix, which is not
symplectic — fail closed).  `S = [[Sqq, Sqp], [Sqpᵀ, Spp]]` is the Hessian of the quadratic, a
derivative name selects its block row (`dh*_dpos ↦ (S₁₁, S₁₂)`, `dh*_dmom ↦ (S₂₁, S₂₂)`):
* `.flow .h1 ta project`        ↦ `[cotProjJac (1 − R N) *] kickJac (ta·t) H`
* `.checked [u] _`              ↦ Jacobian of `u.var += c (D₁ q + D₂ p)`, `c = u.sign · u.t · t`
* `.fixedPoint [u] solver`      ↦ Jacobian of the solution of `v = v₀ + c (D₁ q + D₂ p)|_{u.var = v}`
* `.fixedPoint [up, uq]`, `.checked [up, uq]` (midpoint) ↦ `(1 − G)⁻¹`, `1 + G` with `G` the matrix of
  the increment `z ↦ (c_p D_p z, c_q D_q z)`
* `.retractLoop r`              ↦ `([cotProjJac (1 − R N) *] retrJac (r.tFwd · r.tInner · t) N R) ^ n_inner_step`
Matrix inverses are Mathlib's `⁻¹`; the solvability hypotheses are `IsUnit (det …)`.
The Hessian of `h1` is evaluated at a different point by every kick: `hess i` is the one used by the
`i`-th call of `_step`.
-/
import MiciVerif.Generated.IntegSteps
import MiciVerif.Lemmas.IntegSteps
import MiciVerif.Props.C03
import Mathlib.LinearAlgebra.Matrix.NonsingularInverse

namespace MiciVerif.C03S
open MiciVerif.Integrators MiciVerif.IntegSteps
open MiciVerif.Generated
open Matrix

variable {K : Type*} [Field K] {n : Nat}

/-! ## Jacobian semantics of the tables -/

/-- `self.system.<name>(state)` of `h2 = ½ zᵀ S z` as `D.1 q + D.2 p` (cf. `IntegSteps.glDeriv`). -/
def glBlocks (S : Mat2 n K) (name : String) : Mat n K × Mat n K :=
  if name = "dh2_dpos" then (S.toBlocks₁₁, S.toBlocks₁₂)
  else if name = "dh2_dmom" then (S.toBlocks₂₁, S.toBlocks₂₂)
  else (0, 0)

/-- Jacobian of `state.<var> += c * (D.1 q + D.2 p)` (cf. `IntegSteps.glExplicit`). -/
def explicitJac (D : Mat n K × Mat n K) (u : Update) (t : K) : Mat2 n K :=
  let c : K := (u.sign : K) * u.t.eval 1 t
  match u.var with
  | .mom => fromBlocks 1 0 (c • D.1) (1 + c • D.2)
  | .pos => fromBlocks (1 + c • D.1) (c • D.2) 0 1

/-- Jacobian of `state.<var> = fixed point of v ↦ init + c * (D.1 q + D.2 p)` with `<var> = v`
inside the derivative (cf. `IntegSteps.glFixed`). -/
noncomputable def fixedJac (D : Mat n K × Mat n K) (u : Update) (t : K) : Mat2 n K :=
  let c : K := (u.sign : K) * u.t.eval 1 t
  match u.var with
  | .mom => fromBlocks 1 0 (c • ((1 - c • D.2)⁻¹ * D.1)) (1 - c • D.2)⁻¹
  | .pos => fromBlocks (1 - c • D.1)⁻¹ (c • ((1 - c • D.1)⁻¹ * D.2)) 0 1

/-- Jacobian factor of one helper of `ImplicitLeapfrogIntegrator` (cf. `IntegSteps.glMethod`; the
reverse check does not change the state). -/
noncomputable def glMethodJac (S : Mat2 n K) (H : Mat n K) (m : Method) (t : K) : Mat2 n K :=
  match m with
  | .flow .h1 ta false => kickJac (ta.eval 1 t) H
  | .fixedPoint [u] "fixed_point_solver" =>
    if u.atState = "state" then fixedJac (glBlocks S u.deriv) u t else 0
  | .checked [u] _ => if u.atState = "state" then explicitJac (glBlocks S u.deriv) u t else 0
  | _ => 0

/-- Product of the factors of the calls of `_step`, in the order of the call list (the factor of a
later call stands further left); `i` = index of the current call. -/
noncomputable def glJacRun (S : Mat2 n K) (hess : Nat → Mat n K) (tbl : List (String × Method)) :
    Nat → List Call → K → Mat2 n K
  | _, [], _ => 1
  | i, c :: cs, t =>
    glJacRun S hess tbl (i + 1) cs t *
      (match tbl.lookup c.callee with
        | some m => glMethodJac S (hess i) m (c.t.eval 1 t)
        | none => 0)

/-- `dh_dpos` / `dh_dmom` of `h = ½ zᵀ S z` (cf. `IntegSteps.imDeriv`). -/
def imBlocks (S : Mat2 n K) (name : String) : Mat n K × Mat n K :=
  if name = "dh_dpos" then (S.toBlocks₁₁, S.toBlocks₁₂)
  else if name = "dh_dmom" then (S.toBlocks₂₁, S.toBlocks₂₂)
  else (0, 0)

/-- Matrix of the increment `z ↦ (c_p • deriv_p z, c_q • deriv_q z)` (cf. `IntegSteps.imIncr`). -/
def imIncrMat (S : Mat2 n K) (up uq : Update) (t : K) : Mat2 n K :=
  let cp : K := (up.sign : K) * up.t.eval 1 t
  let cq : K := (uq.sign : K) * uq.t.eval 1 t
  fromBlocks (cp • (imBlocks S up.deriv).1) (cp • (imBlocks S up.deriv).2)
    (cq • (imBlocks S uq.deriv).1) (cq • (imBlocks S uq.deriv).2)

/-- Jacobian factor of one helper of `ImplicitMidpointIntegrator` (cf. `IntegSteps.imMethod`). -/
noncomputable def imMethodJac (S : Mat2 n K) (m : Method) (t : K) : Mat2 n K :=
  match m with
  | .fixedPoint [up, uq] "fixed_point_solver" =>
    if up.var == .pos && uq.var == .mom && up.atState == "state" && uq.atState == "state" then
      (1 - imIncrMat S up uq t)⁻¹
    else 0
  | .checked [up, uq] _ =>
    if up.var == .pos && uq.var == .mom && up.atState == "state_prev" && uq.atState == "state_prev" then
      1 + imIncrMat S up uq t
    else 0
  | _ => 0

noncomputable def imJacRun (S : Mat2 n K) (tbl : List (String × Method)) : List Call → K → Mat2 n K
  | [], _ => 1
  | c :: cs, t =>
    imJacRun S tbl cs t *
      (match tbl.lookup c.callee with
        | some m => imMethodJac S m (c.t.eval 1 t)
        | none => 0)

/-- Jacobian factor of one helper of `ConstrainedLeapfrogIntegrator` for a linear constraint
(`N = metric.inv`, `R = Cᵀ (C N Cᵀ)⁻¹ C`; cf. `IntegSteps.conMethod`). -/
def conMethodJac (N R H : Mat n K) (nInner : Nat) (m : Method) (t : K) : Mat2 n K :=
  match m with
  | .flow .h1 ta project =>
    (if project then cotProjJac (1 - R * N) else 1) * kickJac (ta.eval nInner t) H
  | .retractLoop r =>
    if r.retractFlow == "h2_flow" && r.retractSolver == "projection_solver" && r.retractArgsOk
        && r.count == "n_inner_step" then
      ((if r.projectAfter then cotProjJac (1 - R * N) else 1)
        * retrJac (r.tFwd.eval nInner (r.tInner.eval nInner t)) N R) ^ nInner
    else 0
  | _ => 0

def conJacRun (N R : Mat n K) (hess : Nat → Mat n K) (nInner : Nat) (tbl : List (String × Method)) :
    Nat → List Call → K → Mat2 n K
  | _, [], _ => 1
  | i, c :: cs, t =>
    conJacRun N R hess nInner tbl (i + 1) cs t *
      (match tbl.lookup c.callee with
        | some m => conMethodJac N R (hess i) nInner m (c.t.eval nInner t)
        | none => 0)

/-! ## The expected tables give the hand-written Jacobians (independent of the generated file) -/

private theorem glJacRun_expected (t : K) (hess : Nat → Mat n K) (Sqq Sqp Spp : Mat n K) :
    glJacRun (fromBlocks Sqq Sqp Sqpᵀ Spp) hess Expected.implicitLeapfrogMethods 0
        Expected.implicitLeapfrogStep t
      = genLeapfrogJac (1 / 2 * t) (hess 0) (hess 5) Sqq Sqp Spp (1 + (1 / 2 * t) • Sqp)⁻¹
          (1 - (1 / 2 * t) • Sqpᵀ)⁻¹ := by
  simp only [glJacRun, Expected.implicitLeapfrogStep, Expected.implicitLeapfrogMethods, List.lookup,
    glMethodJac, Expected.stdCheck, fixedJac, explicitJac, glBlocks, TimeArg.eval_half]
  simp [genLeapfrogJac, glBFwdJac, glCFwdJac, glCAdjJac, glBAdjJac, Matrix.mul_assoc, sub_eq_add_neg]

private theorem jMat_mul (S : Mat2 n K) :
    jMat n K * S = fromBlocks (-S.toBlocks₂₁) (-S.toBlocks₂₂) S.toBlocks₁₁ S.toBlocks₁₂ := by
  conv_lhs => rw [← fromBlocks_toBlocks S]
  simp [jMat, fromBlocks_multiply]

private theorem imJacRun_expected (t : K) (S : Mat2 n K) :
    imJacRun S Expected.implicitMidpointMethods Expected.implicitMidpointStep t
      = midpointJac S (1 / 2 * t) (1 + (1 / 2 * t) • (jMat n K * S))⁻¹ := by
  have hG : ∀ τ : K, fromBlocks (τ • S.toBlocks₂₁) (τ • S.toBlocks₂₂) (-(τ • S.toBlocks₁₁))
      (-(τ • S.toBlocks₁₂)) = -(τ • (jMat n K * S)) := by
    intro τ
    rw [jMat_mul, fromBlocks_smul, fromBlocks_neg]
    simp
  simp only [imJacRun, Expected.implicitMidpointStep, Expected.implicitMidpointMethods, List.lookup,
    imMethodJac, Expected.stdCheck, imIncrMat, imBlocks, TimeArg.eval_half]
  simp [midpointJac, hG, sub_eq_add_neg]

private theorem conJacRun_expected (t : K) (N R : Mat n K) (hess : Nat → Mat n K) (k : Nat) :
    conJacRun N R hess k Expected.constrainedLeapfrogMethods 0 Expected.constrainedLeapfrogStep t
      = conLeapfrogJac (1 / 2 * t) (t / k) k (hess 0) (hess 2) N R := by
  simp only [conJacRun, Expected.constrainedLeapfrogStep, Expected.constrainedLeapfrogMethods,
    List.lookup, conMethodJac, TimeArg.eval_half, TimeArg.eval_one]
  simp [conLeapfrogJac, conStepAJac, conStepBJac, Matrix.mul_assoc]

/-! ## 1. ImplicitLeapfrogIntegrator -/

/-- The Jacobians of the six sub-steps of the GENERATED `ImplicitLeapfrogIntegrator._step` (with the
generated time fractions and the generated helper descriptors, for the quadratic
`h2 = ½ qᵀ Sqq q + qᵀ Sqp p + ½ pᵀ Spp p`), multiplied in the generated order, are the
`genLeapfrogJac` of `Props/C03.lean` with `τ = ½ t`, the `h1` Hessians of the first and the last
call, and `W = (1 + τ Sqp)⁻¹`, `V = (1 − τ Sqpᵀ)⁻¹`. -/
theorem implicitLeapfrog_jac_eq_model (t : K) (hess : Nat → Mat n K) (Sqq Sqp Spp : Mat n K) :
    glJacRun (fromBlocks Sqq Sqp Sqpᵀ Spp) hess IntegSteps.implicitLeapfrogMethods 0
        IntegSteps.implicitLeapfrogStep t
      = genLeapfrogJac (1 / 2 * t) (hess 0) (hess 5) Sqq Sqp Spp (1 + (1 / 2 * t) • Sqp)⁻¹
          (1 - (1 / 2 * t) • Sqpᵀ)⁻¹ := by
  have e : IntegSteps.implicitLeapfrogStep = Expected.implicitLeapfrogStep ∧
      IntegSteps.implicitLeapfrogMethods = Expected.implicitLeapfrogMethods := by decide +kernel
  rw [e.1, e.2, glJacRun_expected]

example : glJacRun (fromBlocks !![2] !![1] (!![1] : Mat 1 ℚ)ᵀ !![3]) (fun _ => !![5])
    IntegSteps.implicitLeapfrogMethods 0 IntegSteps.implicitLeapfrogStep 1
    = genLeapfrogJac (1 / 2 * 1) !![5] !![5] !![2] !![1] !![3] (1 + (1 / 2 * 1 : ℚ) • !![1])⁻¹
        (1 - (1 / 2 * 1 : ℚ) • (!![1] : Mat 1 ℚ)ᵀ)⁻¹ :=
  implicitLeapfrog_jac_eq_model 1 _ _ _ _

/-- C03 for the generated `ImplicitLeapfrogIntegrator._step`: the product, in the generated order, of
the Jacobians of its sub-steps is symplectic — for every dimension, field, time step, symmetric `h1`
Hessians at the kick points, symmetric `Sqq`, `Spp`, arbitrary `Sqp`, whenever the two implicit
equations are uniquely solvable. -/
theorem implicitLeapfrog_generated_symplectic (t : K) (hess : Nat → Mat n K) (Sqq Sqp Spp : Mat n K)
    (hH : ∀ i, (hess i)ᵀ = hess i) (hqq : Sqqᵀ = Sqq) (hpp : Sppᵀ = Spp)
    (hW : IsUnit (1 + (1 / 2 * t) • Sqp).det) (hV : IsUnit (1 - (1 / 2 * t) • Sqpᵀ).det) :
    glJacRun (fromBlocks Sqq Sqp Sqpᵀ Spp) hess IntegSteps.implicitLeapfrogMethods 0
      IntegSteps.implicitLeapfrogStep t ∈ symplecticGroup (Fin n) K := by
  have e : IntegSteps.implicitLeapfrogStep = Expected.implicitLeapfrogStep ∧
      IntegSteps.implicitLeapfrogMethods = Expected.implicitLeapfrogMethods := by decide +kernel
  rw [e.1, e.2, glJacRun_expected]
  exact C03.genLeapfrog_mem _ _ _ _ _ _ _ _ (hH 0) (hH 5) hqq hpp (nonsing_inv_mul _ hW)
    (nonsing_inv_mul _ hV)

/-- Non-vacuity (`n = 1`, `t = 1`, `Sqp = 1`: `1 + ½ Sqp = 3/2`, `1 − ½ Sqpᵀ = ½` are invertible). -/
example : glJacRun (fromBlocks !![2] !![1] (!![1] : Mat 1 ℚ)ᵀ !![3]) (fun _ => !![5])
    IntegSteps.implicitLeapfrogMethods 0 IntegSteps.implicitLeapfrogStep 1
    ∈ symplecticGroup (Fin 1) ℚ := by
  have hs : ∀ a : ℚ, (!![a] : Mat 1 ℚ)ᵀ = !![a] := by
    intro a; ext i j; fin_cases i; fin_cases j; rfl
  refine implicitLeapfrog_generated_symplectic 1 _ _ _ _ (fun _ => hs 5) (hs 2) (hs 3) ?_ ?_
  · refine isUnit_det_of_left_inverse (B := !![2 / 3]) ?_
    ext i j; fin_cases i; fin_cases j; norm_num [Matrix.mul_apply]
  · refine isUnit_det_of_left_inverse (B := !![2]) ?_
    ext i j; fin_cases i; fin_cases j; norm_num [Matrix.mul_apply]

/-! ## 2. ImplicitMidpointIntegrator -/

/-- The Jacobians of the two sub-steps of the GENERATED `ImplicitMidpointIntegrator._step` for
`h = ½ zᵀ S z`, multiplied in the generated order, are the `midpointJac` (Cayley transform) of
`Props/C03.lean` with `τ = ½ t` and `X = (1 + τ J S)⁻¹`. -/
theorem implicitMidpoint_jac_eq_model (t : K) (S : Mat2 n K) :
    imJacRun S IntegSteps.implicitMidpointMethods IntegSteps.implicitMidpointStep t
      = midpointJac S (1 / 2 * t) (1 + (1 / 2 * t) • (jMat n K * S))⁻¹ := by
  have e : IntegSteps.implicitMidpointStep = Expected.implicitMidpointStep ∧
      IntegSteps.implicitMidpointMethods = Expected.implicitMidpointMethods := by decide +kernel
  rw [e.1, e.2, imJacRun_expected]

example : imJacRun (1 : Mat2 1 ℚ) IntegSteps.implicitMidpointMethods IntegSteps.implicitMidpointStep 1
    = midpointJac 1 (1 / 2 * 1) (1 + (1 / 2 * 1 : ℚ) • (jMat 1 ℚ * 1))⁻¹ :=
  implicitMidpoint_jac_eq_model 1 1

/-- C03 for the generated `ImplicitMidpointIntegrator._step`: the product of the Jacobians of its
sub-steps in the generated order is symplectic for every symmetric `S`, whenever the implicit Euler
equation is uniquely solvable. -/
theorem implicitMidpoint_generated_symplectic (t : K) (S : Mat2 n K) (hS : Sᵀ = S)
    (hX : IsUnit (1 + (1 / 2 * t) • (jMat n K * S)).det) :
    imJacRun S IntegSteps.implicitMidpointMethods IntegSteps.implicitMidpointStep t
      ∈ symplecticGroup (Fin n) K := by
  have e : IntegSteps.implicitMidpointStep = Expected.implicitMidpointStep ∧
      IntegSteps.implicitMidpointMethods = Expected.implicitMidpointMethods := by decide +kernel
  rw [e.1, e.2, imJacRun_expected]
  exact C03.implicitMidpoint_mem S hS _ _ (nonsing_inv_mul _ hX)

/-- Non-vacuity: harmonic oscillator `S = 1`, `n = 1`, `t = 1`
(`1 + ½ J = [[1, −½], [½, 1]]` has inverse `(4/5) [[1, ½], [−½, 1]]`). -/
example : imJacRun (1 : Mat2 1 ℚ) IntegSteps.implicitMidpointMethods IntegSteps.implicitMidpointStep 1
    ∈ symplecticGroup (Fin 1) ℚ := by
  refine implicitMidpoint_generated_symplectic 1 1 transpose_one ?_
  refine isUnit_det_of_left_inverse
    (B := (fromBlocks !![4 / 5] !![2 / 5] !![-2 / 5] !![4 / 5] : Mat2 1 ℚ)) ?_
  rw [jMat, Matrix.mul_one, ← fromBlocks_one, fromBlocks_smul, fromBlocks_add, fromBlocks_multiply]
  congr 1 <;> ext i j <;> fin_cases i <;> fin_cases j <;> norm_num [Matrix.mul_apply]

/-! ## 3. ConstrainedLeapfrogIntegrator, linear constraint `C q = d` -/

/-- The Jacobians of the sub-steps of the GENERATED `ConstrainedLeapfrogIntegrator._step`
(`_step_a` = kick + cotangent projection, `_step_b` = `n_inner_step = k` iterations of exact
retraction + cotangent projection with the generated inner time), multiplied in the generated
order, are the `conLeapfrogJac` of `Props/C03.lean` with `τ = ½ t`, inner time `t / k`. -/
theorem constrainedLeapfrog_jac_eq_model (t : K) (N R : Mat n K) (hess : Nat → Mat n K) (k : Nat) :
    conJacRun N R hess k IntegSteps.constrainedLeapfrogMethods 0 IntegSteps.constrainedLeapfrogStep t
      = conLeapfrogJac (1 / 2 * t) (t / k) k (hess 0) (hess 2) N R := by
  have e : IntegSteps.constrainedLeapfrogStep = Expected.constrainedLeapfrogStep ∧
      IntegSteps.constrainedLeapfrogMethods = Expected.constrainedLeapfrogMethods := by decide +kernel
  rw [e.1, e.2, conJacRun_expected]

example : conJacRun (1 : Mat 2 ℚ) !![1 / 2, 1 / 2; 1 / 2, 1 / 2] (fun _ => !![2, 1; 1, 5]) 3
    IntegSteps.constrainedLeapfrogMethods 0 IntegSteps.constrainedLeapfrogStep (1 / 4)
    = conLeapfrogJac (1 / 2 * (1 / 4 : ℚ)) ((1 / 4 : ℚ) / ((3 : ℕ) : ℚ)) 3 !![2, 1; 1, 5] !![2, 1; 1, 5]
        1 !![1 / 2, 1 / 2; 1 / 2, 1 / 2] :=
  constrainedLeapfrog_jac_eq_model (1 / 4 : ℚ) _ _ _ 3

/-- C03 for the generated `ConstrainedLeapfrogIntegrator._step` with a linear constraint: the product
of the Jacobians of its sub-steps in the generated order maps tangent vectors of the constrained
cotangent bundle `{C q = d, C N p = 0}` to tangent vectors and preserves the canonical two-form on
them — any number of inner steps, any time step, symmetric metric and `h1` Hessians. -/
theorem constrainedLeapfrog_generated_presymp_linear {m : Nat} (C : Matrix (Fin m) (Fin n) K)
    (N : Mat n K) (hess : Nat → Mat n K) (Ginv : Matrix (Fin m) (Fin m) K) (t : K) (k : Nat)
    (hN : Nᵀ = N) (hH : ∀ i, (hess i)ᵀ = hess i) (hG : C * N * Cᵀ * Ginv = 1) {j : Nat}
    (T : Matrix (Fin n ⊕ Fin n) (Fin j) K) (hT : IsTan C N T) :
    IsTan C N (conJacRun N (gramR C Ginv) hess k IntegSteps.constrainedLeapfrogMethods 0
        IntegSteps.constrainedLeapfrogStep t * T) ∧
      (conJacRun N (gramR C Ginv) hess k IntegSteps.constrainedLeapfrogMethods 0
          IntegSteps.constrainedLeapfrogStep t * T)ᵀ * J (Fin n) K
        * (conJacRun N (gramR C Ginv) hess k IntegSteps.constrainedLeapfrogMethods 0
          IntegSteps.constrainedLeapfrogStep t * T) = Tᵀ * J (Fin n) K * T := by
  have e : IntegSteps.constrainedLeapfrogStep = Expected.constrainedLeapfrogStep ∧
      IntegSteps.constrainedLeapfrogMethods = Expected.constrainedLeapfrogMethods := by decide +kernel
  rw [e.1, e.2, conJacRun_expected]
  exact C03.conLeapfrog_presymp_linear C N _ _ Ginv _ _ k hN (hH 0) (hH 2) hG T hT

/-- Non-vacuity: `n = 2`, the constraint `q₀ + q₁ = d`, identity metric, `Ginv = 1/2`, a non-diagonal
`h1` Hessian, 3 inner steps and the non-zero tangent vector `(δq, δp) = ((1, −1), (2, −2))`. -/
example :
    IsTan (!![1, 1] : Matrix (Fin 1) (Fin 2) ℚ) (1 : Mat 2 ℚ)
      (conJacRun 1 (gramR (!![1, 1] : Matrix (Fin 1) (Fin 2) ℚ) !![1 / 2]) (fun _ => !![2, 1; 1, 5]) 3
        IntegSteps.constrainedLeapfrogMethods 0 IntegSteps.constrainedLeapfrogStep (1 / 4)
        * (fromRows !![1; -1] !![2; -2] : Matrix (Fin 2 ⊕ Fin 2) (Fin 1) ℚ)) := by
  refine (constrainedLeapfrog_generated_presymp_linear (!![1, 1] : Matrix (Fin 1) (Fin 2) ℚ) 1
    (fun _ => !![2, 1; 1, 5]) !![1 / 2] (1 / 4) 3 transpose_one ?_ ?_ _ ?_).1
  · intro _; ext i j; fin_cases i <;> fin_cases j <;> rfl
  · rw [Matrix.mul_one]
    ext i j; fin_cases i; fin_cases j
    simp [Matrix.mul_apply, Matrix.vecMul, dotProduct, Fin.sum_univ_two]
    norm_num
  · constructor
    · rw [toRows₁_fromRows]; ext i j; fin_cases i; fin_cases j
      norm_num [Matrix.mul_apply, Fin.sum_univ_two]
    · rw [toRows₂_fromRows]; ext i j; fin_cases i; fin_cases j
      norm_num [Matrix.mul_apply, Fin.sum_univ_two]

/-! ## 4. The Jacobian semantics is what RUNNING the generated tables does (quadratic Hamiltonians)

`glRun` / `imRun` (`Lemmas/IntegSteps.lean`) execute the generated tables with an abstract fixed-point
solver and reverse-check predicate; `Props/C06S.lean` proves they are `glStep` / `imStep`, the harness
compares those with the real code.  For a quadratic Hamiltonian and ANY solver that only returns exact
fixed points (`hsolve`), any reverse-check predicate: whenever the run succeeds, its result is the
product of the Jacobian factors (`glJacRun` / `imJacRun`) applied to the input.  So the step is
linear, the product is its Jacobian, and by sections 1-2 it is symplectic.
(Not proved here for the constrained integrator: the retraction is affine, `C03.retract_linear`.) -/

/-! ### ImplicitLeapfrogIntegrator -/

/-- The system functions of `h1 = ½ qᵀ A q`, `h2 = ½ qᵀ Sqq q + qᵀ Sqp p + ½ pᵀ Spp p`. -/
def quadGL (A Sqq Sqp Spp : Mat n K) : GLSystem (Fin n → K) :=
  ⟨A.mulVec, fun q p => Sqq.mulVec q + Sqp.mulVec p, fun q p => Sqpᵀ.mulVec q + Spp.mulVec p⟩

private theorem bind_ok {α β : Type u_1} {a : Res α} {f : α → Res β} {y : β} (h : a >>= f = .ok y) :
    ∃ v, a = .ok v ∧ f v = .ok y := by
  cases a with
  | error e => cases h
  | ok v => exact ⟨v, rfl, h⟩

omit [Field K] in
private theorem pack_of_unpack {x : Phase n K} {v : Fin n ⊕ Fin n → K} (h : x = unpack v) :
    pack x = v := by rw [h, pack_unpack]

section
variable (A Sqq Sqp Spp : Mat n K)
  (solve : ((Fin n → K) → (Fin n → K)) → (Fin n → K) → Res (Fin n → K)) (far : (Fin n → K) → Bool)

private theorem glA_lin (τ : K) (x : Phase n K) :
    pack (glStepA (quadGL A Sqq Sqp Spp) τ x) = (kickJac τ A).mulVec (pack x) := by
  apply pack_of_unpack
  rw [kickJac, unpack_mulVec]
  ext i <;> simp [glStepA, quadGL, neg_mulVec, smul_mulVec, sub_eq_add_neg, add_comm]

variable (hsolve : ∀ g x0 v, solve g x0 = .ok v → g v = v)
include hsolve

private theorem glBFwd_lin (τ : K) (hW : IsUnit (1 + τ • Sqp).det) (x y : Phase n K)
    (h : glStepBFwd (quadGL A Sqq Sqp Spp) solve τ x = .ok y) :
    pack y = (glBFwdJac τ Sqq (1 + τ • Sqp)⁻¹).mulVec (pack x) := by
  obtain ⟨p, hp, hy⟩ := bind_ok h
  cases hy
  exact pack_of_unpack (C03.glBFwd_linear τ Sqq Sqp _ (nonsing_inv_mul _ hW) x p (hsolve _ _ _ hp).symm)

private theorem glCAdj_lin (τ : K) (hV : IsUnit (1 - τ • Sqpᵀ).det) (x y : Phase n K)
    (h : glStepCAdj (quadGL A Sqq Sqp Spp) solve τ x = .ok y) :
    pack y = (glCAdjJac τ Spp (1 - τ • Sqpᵀ)⁻¹).mulVec (pack x) := by
  obtain ⟨q, hq, hy⟩ := bind_ok h
  cases hy
  exact pack_of_unpack (C03.glCAdj_linear τ Sqp Spp _ (nonsing_inv_mul _ hV) x q (hsolve _ _ _ hq).symm)

omit hsolve in
private theorem glCFwd_lin (τ : K) (x y : Phase n K)
    (h : glStepCFwd (quadGL A Sqq Sqp Spp) solve far τ x = .ok y) :
    pack y = (glCFwdJac τ Sqp Spp).mulVec (pack x) := by
  have hy : y = glCFwd τ Sqp Spp x := by
    obtain ⟨b, -, hb⟩ := bind_ok h
    split at hb
    · cases hb
    · exact (Except.ok.inj hb).symm
  rw [hy]
  exact pack_of_unpack (C03.glCFwd_linear τ Sqp Spp x)

omit hsolve in
private theorem glBAdj_lin (τ : K) (x y : Phase n K)
    (h : glStepBAdj (quadGL A Sqq Sqp Spp) solve far τ x = .ok y) :
    pack y = (glBAdjJac τ Sqq Sqp).mulVec (pack x) := by
  have hy : y = glBAdj τ Sqq Sqp x := by
    obtain ⟨b, -, hb⟩ := bind_ok h
    split at hb
    · cases hb
    · exact (Except.ok.inj hb).symm
  rw [hy]
  exact pack_of_unpack (C03.glBAdj_linear τ Sqq Sqp x)

theorem implicitLeapfrog_run_linear (t : K) (hW : IsUnit (1 + (1 / 2 * t) • Sqp).det)
    (hV : IsUnit (1 - (1 / 2 * t) • Sqpᵀ).det) (x x' : Phase n K)
    (h : glRun (quadGL A Sqq Sqp Spp) solve far IntegSteps.implicitLeapfrogMethods
      IntegSteps.implicitLeapfrogStep t x = .ok x') :
    pack x' = (glJacRun (fromBlocks Sqq Sqp Sqpᵀ Spp) (fun _ => A) IntegSteps.implicitLeapfrogMethods 0
      IntegSteps.implicitLeapfrogStep t).mulVec (pack x) := by
  have e : IntegSteps.implicitLeapfrogStep = Expected.implicitLeapfrogStep ∧
      IntegSteps.implicitLeapfrogMethods = Expected.implicitLeapfrogMethods := by decide +kernel
  rw [e.1, e.2] at h ⊢
  rw [glRun_expected] at h
  rw [glJacRun_expected]
  have ht : t / 2 = 1 / 2 * t := by ring
  rw [glStep, ht] at h
  generalize 1 / 2 * t = τ at *
  obtain ⟨x₂, h2, h⟩ := bind_ok h
  obtain ⟨x₃, h3, h⟩ := bind_ok h
  obtain ⟨x₄, h4, h⟩ := bind_ok h
  obtain ⟨x₅, h5, h⟩ := bind_ok h
  cases h
  rw [glA_lin, glBAdj_lin A Sqq Sqp Spp solve far τ _ _ h5, glCAdj_lin A Sqq Sqp Spp solve hsolve τ hV _ _ h4,
    glCFwd_lin A Sqq Sqp Spp solve far τ _ _ h3, glBFwd_lin A Sqq Sqp Spp solve hsolve τ hW _ _ h2, glA_lin]
  simp only [genLeapfrogJac, mulVec_mulVec]

/-- Non-vacuity of `hsolve`: a solver that checks its answer is exact by construction (and does not
always fail); a successful run of the generated tables on a concrete system over `ℚ` is exhibited in
`Props/C06S.lean` (example after `implicitLeapfrog_run_eq_model`). -/
example : ∃ solve : ((Fin 2 → ℚ) → (Fin 2 → ℚ)) → (Fin 2 → ℚ) → Res (Fin 2 → ℚ),
    (∀ g x0 v, solve g x0 = .ok v → g v = v) ∧ solve (fun v => ![v 1, v 1]) ![3, 3] = .ok ![3, 3] := by
  classical
  refine ⟨fun g x0 => if g x0 = x0 then .ok x0 else .error .convergence, ?_, ?_⟩
  · intro g x0 v h
    dsimp only at h
    split at h
    · cases h; assumption
    · cases h
  · dsimp only
    rw [if_pos]
    ext i; fin_cases i <;> rfl

end

/-! ### ImplicitMidpointIntegrator -/

/-- The system functions `dh_dpos`, `dh_dmom` of `h = ½ zᵀ S z`. -/
def quadH (S : Mat2 n K) : HSystem (Fin n → K) :=
  ⟨fun z => S.toBlocks₁₁.mulVec z.1 + S.toBlocks₁₂.mulVec z.2,
   fun z => S.toBlocks₂₁.mulVec z.1 + S.toBlocks₂₂.mulVec z.2⟩

private theorem pack_hamField (S : Mat2 n K) (y : Phase n K) :
    pack (IntegSteps.hamField (quadH S) y) = Integrators.hamField S (pack y) := by
  rw [Integrators.hamField, jMat_mul, fromBlocks_mulVec]
  ext (i | i) <;> simp [pack, IntegSteps.hamField, quadH, neg_mulVec, add_comm]

private theorem pack_add_smul (z w : Phase n K) (c : K) : pack (z + c • w) = pack z + c • pack w := by
  ext (i | i) <;> simp [pack]

theorem implicitMidpoint_run_linear (t : K) (S : Mat2 n K)
    (hX : IsUnit (1 + (1 / 2 * t) • (jMat n K * S)).det)
    (solve : (Phase n K → Phase n K) → Phase n K → Res (Phase n K)) (far : Phase n K → Bool)
    (hsolve : ∀ g x0 v, solve g x0 = .ok v → g v = v) (z z' : Phase n K)
    (h : imRun (quadH S) solve far IntegSteps.implicitMidpointMethods IntegSteps.implicitMidpointStep t z
      = .ok z') :
    pack z' = (imJacRun S IntegSteps.implicitMidpointMethods IntegSteps.implicitMidpointStep t).mulVec
      (pack z) := by
  have e : IntegSteps.implicitMidpointStep = Expected.implicitMidpointStep ∧
      IntegSteps.implicitMidpointMethods = Expected.implicitMidpointMethods := by decide +kernel
  rw [e.1, e.2] at h ⊢
  rw [imRun_expected] at h
  rw [imJacRun_expected]
  have ht : t / 2 = 1 / 2 * t := by ring
  simp only [imStep, imStepFwd, imStepAdj, ht] at h
  generalize 1 / 2 * t = τ at *
  cases h1 : solve (fun y => z + τ • IntegSteps.hamField (quadH S) y) z with
  | error err => rw [h1] at h; cases h
  | ok z₁ =>
    have hz1 := hsolve _ _ _ h1
    simp only [h1, bind, Except.bind] at h
    have hz' : z' = z₁ + τ • IntegSteps.hamField (quadH S) z₁ := by
      split at h
      · cases h
      · split at h
        · cases h
        · exact (Except.ok.inj h).symm
    rw [hz', pack_add_smul, pack_hamField]
    refine C03.implicitMidpoint_linear S _ _ (nonsing_inv_mul _ hX) (pack z) (pack z₁) ?_
    rw [midpointFwdEq, ← pack_hamField, ← pack_add_smul]
    exact congrArg pack hz1.symm

example : ∃ solve : (Phase 2 ℚ → Phase 2 ℚ) → Phase 2 ℚ → Res (Phase 2 ℚ),
    (∀ g x0 v, solve g x0 = .ok v → g v = v) ∧
      solve (fun z => (z.2, z.2)) (![1, 2], ![1, 2]) = .ok (![1, 2], ![1, 2]) := by
  classical
  refine ⟨fun g x0 => if g x0 = x0 then .ok x0 else .error .convergence, ?_, ?_⟩
  · intro g x0 v h
    dsimp only at h
    split at h
    · cases h; assumption
    · cases h
  · dsimp only
    rw [if_pos]
    rfl

end MiciVerif.C03S
