/-
C16 — tie of the stage loop (which stages run, with which adapters, when they are finalized) to
the source text of `MarkovChainMonteCarloMethod.sample_chains`.  See `Props/C13S.lean` for the
mechanism; the trees are regenerated from the tree under test on every run.  (`Props/C16S.lean`
ties the stagers themselves.)
-/
import MiciVerif.Generated.SamplerSkeleton

namespace MiciVerif.C16K
open MiciVerif.Skel
open MiciVerif.Generated

/-- body of `for stage, _ in sampling_stages_pb` -/
def stageBody : List S := (SamplerSkeleton.sampleChains.loopBody (.v "sampling_stages_pb")).getD []

/-- The stage-loop body and `_finalize_adapters` are the trees `Sampler.runStage` / `afterStage`
were written against. -/
theorem skel_stage_loop_eq_model :
    some stageBody = Expected.sampleChains.loopBody (.v "sampling_stages_pb")
    ∧ stageBody.all S.known = true
    ∧ SamplerSkeleton.finalizeAdapters = Expected.finalizeAdapters
    ∧ SamplerSkeleton.finalizeAdaptersSig = Expected.finalizeAdaptersSig
    ∧ SamplerSkeleton.finalizeAdapters.known = true := by
  decide +kernel

/-- A stage without iterations is skipped before anything else of the body runs: no adapter is
(re)initialised or finalized, no offset moves (model: `runStage`: `else if st.n = 0 then sys`;
C16 `empty_stage_noop`; revert `C16-zero-iter-stage`). -/
theorem skel_zero_iter_stage_skipped :
    stageBody.head? = some (.ifc (.op "==" (E.l [.v "stage.n_iter", .n 0])) (S.b [.cont]) (S.b [])) := by
  decide +kernel

/-- Every chain of a stage runs exactly `stage.n_iter` iterations (model: `runIters … st.n`). -/
theorem skel_chain_runs_stage_n_iter :
    (do let i ← idx (· = .loop (.v "chain_it") (.v "chain_iterators")
                      (S.b [.assign (.v "chain_it.sequence") (.call "range" (E.l [.v "stage.n_iter"]))])) stageBody
        let c ← idx (S.callsDeep "sample_chains_func") stageBody
        some (decide (i < c))) = some true
    ∧ (argsOfCall "sample_chains_func" stageBody).bind (E.kwArg "chain_iterators") = some (.v "chain_iterators") := by
  decide +kernel

/-- The adapters and trace functions a stage runs with are the stage's own
(model: `st.kind`, `st.traced`), and they are also the ones finalized. -/
theorem skel_adapters_from_stage :
    (argsOfCall "sample_chains_func" stageBody).bind (E.kwArg "adapters") = some (.v "stage.adapters")
    ∧ (argsOfCall "sample_chains_func" stageBody).bind (E.kwArg "trace_funcs") = some (.v "stage.trace_funcs")
    ∧ argsOfCall "_finalize_adapters" stageBody =
      some (E.l [.v "adapter_states", .v "chain_states", .v "stage.adapters", .v "self.transitions",
                 .v "per_chain_rngs"]) := by
  decide +kernel

/-- `_finalize_adapters` is called only when the stage produced adapter states, once per stage,
with the states collated from this stage's chains (model: `afterStage`:
`if st.kind ≠ .main ∧ acc.outs ≠ [] then K.fin …`). -/
theorem skel_finalize_only_with_states :
    stageBody.filter (S.callsDeep "_finalize_adapters") =
      [.ifc (.op ">" (E.l [.call "len" (E.l [.v "adapter_states"]), .n 0]))
        (S.b [.expr (.call "_finalize_adapters" (E.l [.v "adapter_states", .v "chain_states",
          .v "stage.adapters", .v "self.transitions", .v "per_chain_rngs"]))]) (S.b [])]
    ∧ (SamplerSkeleton.sampleChains.all.filter (S.callsHere "_finalize_adapters")).length = 1
    ∧ (stageBody.flatMap S.all).filterMap (fun
        | .assign (.tup t) (.call "sample_chains_func" _) => some t.items
        | _ => Option.none) = [[.v "chain_states", .v "adapter_states", .v "exception"]] := by
  decide +kernel

/-- `finalize` of every adapter gets all chains' adapter states, the chain states, the parent's
transition and the per-chain generators (model: `K.fin st.kind adapts states params rngs`). -/
theorem skel_finalize_arguments :
    argsOfCall "adapter.finalize" SamplerSkeleton.finalizeAdapters.stmts =
      some (E.l [.v "adapter_states", .v "chain_states", .sub (.v "transitions") (.v "trans_key"), .v "rngs"]) := by
  decide +kernel

/-- Default stager: single warm-up stage when there are no adapters or all are fast, windowed
otherwise; an explicit stager is used as given (model: `Stagers.warmUp` / `windowed`). -/
theorem skel_default_stager_choice :
    (SamplerSkeleton.sampleChains.all.filterMap fun
        | .ifc c t f => if c = .op "is" (E.l [.v "stager", .none]) then some (t.stmts, f.stmts) else Option.none
        | _ => Option.none) =
      [([.ifc (.op "or" (E.l [.op "is" (E.l [.v "adapters", .none]),
                              .call "all" (E.l [.src "(a.is_fast for a_list in adapters.values() for a in a_list)"])]))
            (S.b [.assign (.v "stager") (.call "WarmUpStager" (E.l []))])
            (S.b [.assign (.v "stager") (.call "WindowedWarmUpStager" (E.l []))])], [])]
    ∧ argsOfCall "stager.stages" SamplerSkeleton.sampleChains.stmts =
      some (E.l [.v "n_warm_up_iter", .v "n_main_iter", .v "adapters", .v "trace_funcs",
                 .kw "trace_warm_up" (.v "trace_warm_up")]) := by
  decide +kernel

/-- Adapters are initialised once per chain and stage, before the first iteration, and updated
after every transition they are attached to (model: `sampleChain`: `K.init`, `TOut.adapt`). -/
theorem skel_adapters_initialised_before_loop :
    idx (S.callsDeep "adapter.initialize") SamplerSkeleton.sampleChain.stmts = some 3
    ∧ idx (S.callsDeep "transition.sample") SamplerSkeleton.sampleChain.stmts = some 4
    ∧ (SamplerSkeleton.sampleChain.all.filter (S.callsHere "adapter.initialize")).length = 1
    ∧ (SamplerSkeleton.sampleChain.all.filter (S.callsHere "adapter.update")).length = 1 := by
  decide +kernel

/-! ### the generated stage-loop body, read as a function on the model's state, is `Sampler.runStage` -/

section Semantics
open MiciVerif.Sampler MiciVerif.Stagers

/-- The stage-loop body generated from the current source consists of exactly these actions, in this order. -/
theorem sem_stage_plan :
    Sem.stagePlan stageBody =
      some [.skipIfNoIterations, .setIterations, .runChains .traced .stats, .returnIfInterrupted,
            .finalizeIfStates, .advanceOffsetIf (.or .traced .stats)] := by
  decide +kernel

private theorem stage_eta (st : Stage) : (⟨st.n, st.kind, st.traced && st.traced, st.stats⟩ : Stage) = st := by
  cases st; simp

private theorem pass_core {St V A P : Type} (K : Kernel St V A P) (st : Stage) (mode : Mode)
    (ci : Option (Nat × Nat × Nat)) (sys : Sys St V P) (h0 : ¬ st.n = 0) :
    Sem.closePass sys (Sem.runStageActs K st mode ci
        [.skipIfNoIterations, .setIterations, .runChains .traced .stats, .returnIfInterrupted,
         .finalizeIfStates, .advanceOffsetIf (.or .traced .stats)]
        ⟨sys.params, sys.chains, sys.offset, sys.finalStates, [], [], false, 0, false⟩) =
    afterStage K st sys (Sem.runMode K st mode sys.offset ci sys.params sys.chains) := by
  simp only [Sem.runStageActs, h0, if_false, Sem.Cond.eval, stage_eta]
  generalize Sem.runMode K st mode sys.offset ci sys.params sys.chains = acc
  unfold afterStage
  by_cases hh : acc.halted = true
  · simp [hh, Sem.closePass]
  · by_cases hf : st.kind ≠ .main ∧ acc.outs ≠ []
    · by_cases ho : (st.traced || st.stats) = true <;> simp [hh, hf, ho, Sem.closePass]
    · by_cases ho : (st.traced || st.stats) = true <;> simp [hh, hf, ho, Sem.closePass]

/-- **Semantic tie of the stage loop.**  One pass of the stage-loop body generated from the current
source — each statement read as the model operation it stands for, executed in source order
(`Skel.Sem.stagePass`) — is `Sampler.runStage`, for every kernel, interrupt point, state, stage and
process mode: the zero-iteration skip, what is passed to the chains, the return on interrupt before
`_finalize_adapters`, the finalize condition and the offset rule are those of the model. -/
theorem sem_stage_body_is_runStage {St V A P : Type} (K : Kernel St V A P)
    (intr : Option (Nat × Nat × Nat × Nat)) (sys : Sys St V P) (ksm : Nat × Stage × Mode) :
    Sem.stagePass stageBody K intr sys ksm = some (Sampler.runStage K intr sys ksm) := by
  unfold Sem.stagePass
  rw [sem_stage_plan]
  simp only [Option.map_some, Option.some.injEq]
  unfold Sampler.runStage
  by_cases hs : sys.stopped = true
  · simp [hs]
  · simp only [hs]
    by_cases h0 : ksm.2.1.n = 0
    · simp [Sem.runStageActs, h0, Sem.closePass]
    · obtain ⟨k, st, mode⟩ := ksm
      rw [pass_core K st mode _ sys h0]
      have h0' : ¬ st.n = 0 := h0
      cases mode <;> simp only [Sem.runMode, Sem.stageIntr, h0', if_false] <;>
        rcases intr with _ | ⟨k0, c⟩ <;> rfl


/-- The hypotheses-free statement is not vacuous: the reading exists (`some …`) and, e.g., a traced
warm-up stage of 3 iterations moves the offset by 3 while an empty stage leaves the state alone. -/
example {St V A P : Type} (K : Kernel St V A P) (sys : Sys St V P) (h : sys.stopped = false) :
    (Sem.stagePass stageBody K none sys (0, ⟨0, .slow, true, true⟩, .seq)) = some sys := by
  rw [sem_stage_body_is_runStage]; simp [Sampler.runStage, h]

end Semantics

/-- the query of `skel_finalize_only_with_states` sees an unconditional finalize -/
example :
    ([S.expr (.call "_finalize_adapters" (E.l []))].filter (S.callsDeep "_finalize_adapters")) ≠
      [.ifc (.op ">" (E.l [.call "len" (E.l [.v "adapter_states"]), .n 0]))
        (S.b [.expr (.call "_finalize_adapters" (E.l [.v "adapter_states", .v "chain_states",
          .v "stage.adapters", .v "self.transitions", .v "per_chain_rngs"]))]) (S.b [])] := by
  decide +kernel

end MiciVerif.C16K
