/-
C08 (source level; also C04's closed-form projection) — `sample_momentum` and
`project_onto_cotangent_space` as they are in `src/mici/systems.py` NOW (translated into
`Generated/SystemMethods.lean`) are the maps of `Model/Momentum.lean` / `Constrained.project`,
for every environment (metric object with its `.sqrt` and `.inv`, user Jacobian, Gram inverse,
normal draw), every state.

* `src_<Class>_sample_momentum_eq_model`: `metric.sqrt @ z` for the Euclidean family,
  `metric(state).sqrt @ z` for the Riemannian family, and for the constrained classes the
  `super().sample_momentum(state, rng)` draw followed by `project_onto_cotangent_space` — both
  resolved through the generated MRO — i.e. `sampleMomentumConstrained J N G⁻¹ L z` with
  `J = jacob_constr(state)`, `G = gram(state)` as built by `jacob_constr_inner_product`.
* `src_<Class>_project_onto_cotangent_space_eq_model`: `Constrained.project J N G⁻¹`.
* corollaries: the sampled / projected momentum of the source satisfies `J M⁻¹ p = 0`
  (`sample_momentum_cotangent`, `C04.project_cotangent`), the projection of the source is
  idempotent, and the second moment of the source's `sample_momentum` over any weighted sample of
  draws with identity second moment is the (projected) metric (`momentum_cov`,
  `constrained_momentum_cov`).
-/
import MiciVerif.Lemmas.SysExprEnv
import MiciVerif.Generated.SystemMethods
import MiciVerif.Props.C08
import MiciVerif.Props.C04

set_option linter.unusedSimpArgs false
set_option linter.unusedSectionVars false
set_option linter.unnecessarySeqFocus false

namespace MiciVerif.C08
open Matrix MiciVerif.Systems MiciVerif.Momentum MiciVerif.Constrained MiciVerif.SysExpr
open MiciVerif.Generated.SystemMethods

variable {K : Type*} [CommRing K] {n c κ : Type*} [Fintype n] [Fintype c] [Fintype κ]
  [DecidableEq n] [DecidableEq c]

/-- the environment with normal draw `z` -/
def withDraw (E : Env K n c κ) (z : n → K) : Env K n c κ := { E with z := z }

/-- `gram(state).inv` as the source obtains it -/
def srcGinv (E : Env K n c κ) (q : n → K) : Matrix c c K :=
  E.invCC (gram (E.jacobConstr q) E.metric.inv)

/-! ### `sample_momentum` -/

theorem src_EuclideanMetricSystem_sample_momentum_eq_model (E : Env K n c κ) (rng : Val K n c κ)
    (q p : n → K) :
    table.value1 E .EuclideanMetricSystem .sample_momentum q p rng
      = .vn (sampleMomentum E.metric.sqrt E.z) := by
  src_eval; simp [sampleMomentum]

theorem src_GaussianEuclideanMetricSystem_sample_momentum_eq_model (E : Env K n c κ)
    (rng : Val K n c κ) (q p : n → K) :
    table.value1 E .GaussianEuclideanMetricSystem .sample_momentum q p rng
      = .vn (sampleMomentum E.metric.sqrt E.z) := by
  src_eval; simp [sampleMomentum]

/-- Riemannian family: `self.metric(state).sqrt @ rng.normal(size=state.pos.shape)` with the
position-dependent metric object. -/
theorem src_RiemannianMetricSystem_sample_momentum_eq_model (E : Env K n c κ)
    (Mc : MetricClass K κ n) (F : MetricFns K κ n) (L : (κ → K) → Matrix n n K)
    (rng : Val K n c κ) (q p : n → K) (D : Cls)
    (hD : D = .RiemannianMetricSystem ∨ D = .ScalarRiemannianMetricSystem ∨
      D = .DiagonalRiemannianMetricSystem ∨ D = .CholeskyFactoredRiemannianMetricSystem ∨
      D = .DenseRiemannianMetricSystem) :
    table.value1 (E.withRiemannian Mc F L) D .sample_momentum q p rng
      = .vn (sampleMomentum (L (F.θ q)) E.z) := by
  rcases hD with h | h | h | h | h <;> subst h <;> src_eval <;>
    simp [sampleMomentum, Env.withRiemannian, matObjOfClass]

theorem src_SoftAbsRiemannianMetricSystem_sample_momentum_eq_model (E : Env K n c κ)
    (Mc : MetricClass K κ n) (F : MetricFns K κ n) (L : (κ → K) → Matrix n n K)
    (rng : Val K n c κ) (q p : n → K) :
    table.value1 (E.withSoftAbs Mc F L) .SoftAbsRiemannianMetricSystem .sample_momentum q p rng
      = .vn (sampleMomentum (L (F.θ q)) E.z) := by
  src_eval; simp [sampleMomentum, Env.withSoftAbs, matObjOfClass]

/-- constrained classes: the draw of `EuclideanMetricSystem.sample_momentum` (reached through
`super()`), projected by `project_onto_cotangent_space`. -/
theorem src_DenseConstrainedEuclideanMetricSystem_sample_momentum_eq_model (E : Env K n c κ)
    (rng : Val K n c κ) (q p : n → K) :
    table.value1 E .DenseConstrainedEuclideanMetricSystem .sample_momentum q p rng
      = .vn (sampleMomentumConstrained (E.jacobConstr q) E.metric.inv (srcGinv E q) E.metric.sqrt E.z) := by
  src_eval; simp [sampleMomentumConstrained, sampleMomentum, project, srcGinv, gram]

theorem src_GaussianDenseConstrainedEuclideanMetricSystem_sample_momentum_eq_model
    (E : Env K n c κ) (rng : Val K n c κ) (q p : n → K) :
    table.value1 E .GaussianDenseConstrainedEuclideanMetricSystem .sample_momentum q p rng
      = .vn (sampleMomentumConstrained (E.jacobConstr q) E.metric.inv (srcGinv E q) E.metric.sqrt E.z) := by
  src_eval; simp [sampleMomentumConstrained, sampleMomentum, project, srcGinv, gram]

/-! ### `project_onto_cotangent_space` -/

theorem src_DenseConstrainedEuclideanMetricSystem_project_onto_cotangent_space_eq_model
    (E : Env K n c κ) (q p v : n → K) :
    table.value1 E .DenseConstrainedEuclideanMetricSystem .project_onto_cotangent_space q p (.vn v)
      = .vn (project (E.jacobConstr q) E.metric.inv (srcGinv E q) v) := by
  src_eval; simp [project, srcGinv, gram]

theorem src_GaussianDenseConstrainedEuclideanMetricSystem_project_onto_cotangent_space_eq_model
    (E : Env K n c κ) (q p v : n → K) :
    table.value1 E .GaussianDenseConstrainedEuclideanMetricSystem .project_onto_cotangent_space q p
        (.vn v)
      = .vn (project (E.jacobConstr q) E.metric.inv (srcGinv E q) v) := by
  src_eval; simp [project, srcGinv, gram]

/-- `gram(state)` of the source is `J M⁻¹ Jᵀ` (through `jacob_constr_inner_product` with its
`jacob_constr_2 is None` branch), `inv_gram(state)` its `.inv`. -/
theorem src_DenseConstrainedEuclideanMetricSystem_gram_eq_model (E : Env K n c κ) (q p : n → K) :
    table.value E .DenseConstrainedEuclideanMetricSystem .gram q p
        = .mcc (gram (E.jacobConstr q) E.metric.inv) ∧
    table.value E .DenseConstrainedEuclideanMetricSystem .inv_gram q p = .mcc (srcGinv E q) ∧
    table.value E .GaussianDenseConstrainedEuclideanMetricSystem .gram q p
        = .mcc (gram (E.jacobConstr q) E.metric.inv) ∧
    table.value E .GaussianDenseConstrainedEuclideanMetricSystem .inv_gram q p
        = .mcc (srcGinv E q) := by
  refine ⟨?_, ?_, ?_, ?_⟩ <;> src_eval <;> simp [gram, srcGinv]

/-! ### corollaries for the source text -/

/-- checked data: the Gram inverse the code uses is an inverse of the Gram matrix -/
def GramInvOk (E : Env K n c κ) (q : n → K) : Prop :=
  E.jacobConstr q * E.metric.inv * (E.jacobConstr q)ᵀ * srcGinv E q = 1

/-- Every momentum the source's constrained `sample_momentum` returns is in the cotangent space. -/
theorem src_DenseConstrainedEuclideanMetricSystem_sample_momentum_cotangent (E : Env K n c κ)
    (rng : Val K n c κ) (q p : n → K) (hG : GramInvOk E q) (D : Cls)
    (hD : D = .DenseConstrainedEuclideanMetricSystem ∨
      D = .GaussianDenseConstrainedEuclideanMetricSystem) :
    ∃ m : n → K, table.value1 E D .sample_momentum q p rng = .vn m ∧
      E.jacobConstr q *ᵥ (E.metric.inv *ᵥ m) = 0 := by
  rcases hD with h | h <;> subst h
  · exact ⟨_, src_DenseConstrainedEuclideanMetricSystem_sample_momentum_eq_model E rng q p,
      sample_momentum_cotangent _ _ _ hG _ _⟩
  · exact ⟨_, src_GaussianDenseConstrainedEuclideanMetricSystem_sample_momentum_eq_model E rng q p,
      sample_momentum_cotangent _ _ _ hG _ _⟩

/-- The source's projection lands in the cotangent space and is idempotent. -/
theorem src_DenseConstrainedEuclideanMetricSystem_project_cotangent (E : Env K n c κ)
    (q p v : n → K) (hG : GramInvOk E q) (D : Cls)
    (hD : D = .DenseConstrainedEuclideanMetricSystem ∨
      D = .GaussianDenseConstrainedEuclideanMetricSystem) :
    ∃ m : n → K, table.value1 E D .project_onto_cotangent_space q p (.vn v) = .vn m ∧
      E.jacobConstr q *ᵥ (E.metric.inv *ᵥ m) = 0 ∧
      table.value1 E D .project_onto_cotangent_space q p (.vn m) = .vn m := by
  have hc := C04.project_cotangent (E.jacobConstr q) E.metric.inv (srcGinv E q) hG v
  rcases hD with h | h <;> subst h
  · refine ⟨_, src_DenseConstrainedEuclideanMetricSystem_project_onto_cotangent_space_eq_model E q p v,
      hc, ?_⟩
    rw [src_DenseConstrainedEuclideanMetricSystem_project_onto_cotangent_space_eq_model,
      C04.project_of_cotangent _ _ _ _ hc]
  · refine ⟨_,
      src_GaussianDenseConstrainedEuclideanMetricSystem_project_onto_cotangent_space_eq_model E q p v,
      hc, ?_⟩
    rw [src_GaussianDenseConstrainedEuclideanMetricSystem_project_onto_cotangent_space_eq_model,
      C04.project_of_cotangent _ _ _ _ hc]

/-- **Law of the source's `sample_momentum`, unconstrained Euclidean family**: over any finite
weighted sample of draws with second moment `1`, the second moment of what the source returns is
`metric` (given `sqrt sqrtᵀ = metric`). -/
theorem src_EuclideanMetricSystem_momentum_cov {ι : Type*} [Fintype ι] (E : Env K n c κ)
    (M : Matrix n n K) (hL : E.metric.sqrt * E.metric.sqrtᵀ = M) (w : ι → K) (z : ι → n → K)
    (hz : secondMoment w z = 1) (rng : Val K n c κ) (q p : n → K) (D : Cls)
    (hD : D = .EuclideanMetricSystem ∨ D = .GaussianEuclideanMetricSystem) :
    ∃ mom : ι → n → K,
      (∀ i, table.value1 (withDraw E (z i)) D .sample_momentum q p rng = .vn (mom i)) ∧
      secondMoment w mom = M := by
  refine ⟨fun i => sampleMomentum E.metric.sqrt (z i), fun i => ?_, momentum_cov _ _ hL w z hz⟩
  rcases hD with h | h <;> subst h
  · exact src_EuclideanMetricSystem_sample_momentum_eq_model (withDraw E (z i)) rng q p
  · exact src_GaussianEuclideanMetricSystem_sample_momentum_eq_model (withDraw E (z i)) rng q p

/-- **Law of the source's `sample_momentum`, constrained classes**: second moment
`M − Jᵀ G⁻¹ J`, the metric projected onto the cotangent space. -/
theorem src_DenseConstrainedEuclideanMetricSystem_momentum_cov {ι : Type*} [Fintype ι]
    (E : Env K n c κ) (M : Matrix n n K) (hL : E.metric.sqrt * E.metric.sqrtᵀ = M)
    (hMN : M * E.metric.inv = 1) (hN : E.metric.invᵀ = E.metric.inv) (q p : n → K)
    (hG : GramInvOk E q) (w : ι → K) (z : ι → n → K) (hz : secondMoment w z = 1)
    (rng : Val K n c κ) (D : Cls)
    (hD : D = .DenseConstrainedEuclideanMetricSystem ∨
      D = .GaussianDenseConstrainedEuclideanMetricSystem) :
    ∃ mom : ι → n → K,
      (∀ i, table.value1 (withDraw E (z i)) D .sample_momentum q p rng = .vn (mom i)) ∧
      secondMoment w mom = M - (E.jacobConstr q)ᵀ * srcGinv E q * E.jacobConstr q := by
  refine ⟨fun i => sampleMomentumConstrained (E.jacobConstr q) E.metric.inv (srcGinv E q)
    E.metric.sqrt (z i), fun i => ?_,
    constrained_momentum_cov _ M _ _ _ hL hMN hN hG w z hz⟩
  rcases hD with h | h <;> subst h
  · exact src_DenseConstrainedEuclideanMetricSystem_sample_momentum_eq_model (withDraw E (z i)) rng q p
  · exact src_GaussianDenseConstrainedEuclideanMetricSystem_sample_momentum_eq_model
      (withDraw E (z i)) rng q p

/-! ### non-vacuity -/

section Examples

private def exObj : MatObj ℚ (Fin 2) Unit where
  inv := !![1, 0; 0, 1 / 4]
  sqrt := !![1, 0; 0, 2]
  eigvec := 1
  eigval := ![1, 4]
  logAbsDet := 0
  gradLogAbsDet := fun _ => 0
  gradQuadFormInv := fun _ _ => 0

/-- metric `diag(1, 4)`, constraint `q₀ + q₁ = const` (`J = [1 1]`, Gram `5/4`, inverse `4/5`) -/
private def exEnv : Env ℚ (Fin 2) (Fin 1) Unit where
  half := 1 / 2
  recip := fun x => x⁻¹
  sqrt := id
  sin := fun _ => 0
  cos := fun _ => 1
  logabs := fun _ => 0
  metric := exObj
  metricClass := fun _ => exObj
  invCC := fun _ => !![4 / 5]
  densWrtHausdorff := true
  negLogDens := fun _ => 0
  gradNegLogDens := fun _ => 0
  constr := fun q _ => q 0 + q 1
  jacobConstr := fun _ => !![1, 1]
  mhpConstr := fun _ _ => 0
  metricFunc := fun _ _ => 1
  vjpMetricFunc := fun _ _ => 0
  hessNegLogDens := fun _ _ => 1
  mtpNegLogDens := fun _ _ => 0
  z := ![1, 1]

/-- the Gram inverse of the example is an inverse (hypothesis `GramInvOk` is satisfiable) -/
example : GramInvOk exEnv ![0, 0] := by
  unfold GramInvOk srcGinv
  ext i j; fin_cases i; fin_cases j
  simp [exEnv, exObj, Matrix.mul_apply, Matrix.vecMul, dotProduct, Fin.sum_univ_two]
  norm_num

/-- the source's constrained `sample_momentum` on the example: draw `z = (1, 1)`, `L z = (1, 2)`,
projected to `(-1/5, 4/5)`, which satisfies `J M⁻¹ p = -1/5 + 1/5 = 0` -/
example :
    table.value1 exEnv .DenseConstrainedEuclideanMetricSystem .sample_momentum ![0, 0] ![0, 0] .absent
      = .vn ![-1 / 5, 4 / 5] := by
  rw [src_DenseConstrainedEuclideanMetricSystem_sample_momentum_eq_model]
  congr 1
  funext i
  fin_cases i <;>
    simp [sampleMomentumConstrained, sampleMomentum, project, srcGinv, exEnv, exObj, Matrix.mulVec,
      dotProduct, Fin.sum_univ_two] <;> norm_num

end Examples

end MiciVerif.C08
