/-
C06 — A step of size ε is second-order accurate; coefficient consistency.

Property theorems only.  Everything is an exact algebraic identity over an arbitrary field `K`
(characteristic hypotheses such as `(2 : K) ≠ 0` explicit — the code's `0.5` is `1/2`), every
dimension / vector space, every step size `ε`.

* A. coefficient consistency of `SymmetricCompositionIntegrator.__init__` for EVERY list of free
     coefficients, and the concrete coefficient lists of leapfrog / BCSS-2/3/4.
* B. one `LeapfrogIntegrator._step` for a NON-LINEAR potential gradient `g`: the step equals the
     2-jet of the exact flow plus an explicit `ε³` term plus `ε/2` times the second-order Taylor
     remainder of `g` at a displacement `δ = ε N p − ½ε² N g(q) = O(ε)`.  The only analytic fact
     left outside Lean is "`g(q+δ) − g(q) − Dg(q) δ = O(|δ|²)` for a C² potential"
     (trusted fact (iv) of DESIGN §4).
* C. ALL symmetric compositions, linear systems `h = ½qᵀHq + ½pᵀNp`: the step matrix is
     `1 + εF + ½ε²F² + ε³·rest(ε)` with `F` the matrix of the Hamiltonian vector field and
     `rest` an explicit polynomial in `ε`, i.e. agreement with `exp(εF)` through second order,
     for every free-coefficient list and both values of `initial_h1_flow_step`.
* D. negative control: "all sub-steps use the full time step" (leapfrog with `2ε`) has
     first-order jet `x + 2ε f(x)` — not consistent.
-/
import MiciVerif.Model.Integrators
import MiciVerif.Model.IntegratorsTangent
import MiciVerif.Lemmas.IntegratorsCoeffs
import MiciVerif.Lemmas.IntegratorsJets
import Mathlib.Algebra.Field.Rat
import Mathlib.LinearAlgebra.Matrix.Notation
import Mathlib.Tactic.NormNum
import Mathlib.Tactic.FinCases

namespace MiciVerif.C06
open MiciVerif.Integrators MiciVerif.Integrators.Jets

variable {K : Type*} [Field K]

/-! ## A. Coefficient consistency -/

/-- `len(self.coefficients) == 2 n + 3` for `n` free coefficients. -/
theorem coeffs_length (free : List K) : (deriveCoeffs free).length = 2 * free.length + 3 :=
  deriveCoeffs_length' free

/-- `zip(self.coefficients, self.flows, strict=True)` never raises: equal lengths. -/
theorem coeffs_length_flows {F : Type*} (free : List K) (a b : F) :
    (deriveCoeffs free).length = (flowsList a b free.length).length := by
  rw [deriveCoeffs_length', flowsList_length]

example : (deriveCoeffs ([1 / 5, 1 / 7, 1 / 9] : List ℚ)).length = 9 ∧
    (flowsList 'a' 'b' 3).length = 9 :=
  ⟨coeffs_length _, (coeffs_length_flows ([1 / 5, 1 / 7, 1 / 9] : List ℚ) 'a' 'b').symm.trans
    (coeffs_length _)⟩

/-- The coefficient list is palindromic for EVERY list of free coefficients. -/
theorem coeffs_palindrome (free : List K) : (deriveCoeffs free).reverse = deriveCoeffs free := by
  rw [deriveCoeffs_eq]; simp

example : (deriveCoeffs ([1 / 5, 1 / 7] : List ℚ)).reverse = deriveCoeffs [1 / 5, 1 / 7] ∧
    deriveCoeffs ([1 / 5, 1 / 7] : List ℚ) = [1 / 5, 1 / 7, 3 / 10, 5 / 7, 3 / 10, 1 / 7, 1 / 5] :=
  ⟨coeffs_palindrome _, by norm_num [deriveCoeffs, slice2, stride2]⟩

/-- The coefficients paired with flow A in `zip(coefficients, flows)` sum to one — for EVERY list of
free coefficients (first-order consistency of the A component). -/
theorem coeffs_sum_a (h2 : (2 : K) ≠ 0) (free : List K) :
    weight true (deriveCoeffs free) (flowsList true false free.length) = 1 := by
  rw [flowsList_tags, weight_alt _ _ _ _ (by rw [deriveCoeffs_length'])]
  exact sumAt_deriveCoeffs _ h2 free

/-- The coefficients paired with flow B sum to one — for EVERY list of free coefficients. -/
theorem coeffs_sum_b (h2 : (2 : K) ≠ 0) (free : List K) :
    weight false (deriveCoeffs free) (flowsList true false free.length) = 1 := by
  rw [flowsList_tags, weight_alt _ _ _ _ (by rw [deriveCoeffs_length'])]
  exact sumAt_deriveCoeffs _ h2 free

example : weight true (deriveCoeffs ([1 / 5, 1 / 7] : List ℚ)) (flowsList true false 2) = 1 ∧
    weight false (deriveCoeffs ([1 / 5, 1 / 7] : List ℚ)) (flowsList true false 2) = 1 :=
  ⟨coeffs_sum_a (by norm_num) _, coeffs_sum_b (by norm_num) _⟩

/-- Leapfrog is the composition with no free coefficients: `A(ε/2) B(ε) A(ε/2)`. -/
theorem leapfrog_coeffs : deriveCoeffs ([] : List K) = [1 / 2, 1, 1 / 2] := by
  simp [deriveCoeffs, slice2, stride2]

/-- `BCSSTwoStageIntegrator`: `free = (a₀,)`. -/
theorem bcss2_coeffs (a : K) : deriveCoeffs [a] = [a, 1 / 2, 1 - 2 * a, 1 / 2, a] := by
  simp [deriveCoeffs, slice2, stride2]

/-- `BCSSThreeStageIntegrator`: `free = (a₀, b₁)`. -/
theorem bcss3_coeffs (a b : K) :
    deriveCoeffs [a, b] = [a, b, 1 / 2 - a, 1 - 2 * b, 1 / 2 - a, b, a] := by
  simp [deriveCoeffs, slice2, stride2]

/-- `BCSSFourStageIntegrator`: `free = (a₀, b₁, a₁)`. -/
theorem bcss4_coeffs (a b c : K) :
    deriveCoeffs [a, b, c] =
      [a, b, c, 1 / 2 - b, 1 - 2 * (a + c), 1 / 2 - b, c, b, a] := by
  simp [deriveCoeffs, slice2, stride2]

example : deriveCoeffs ([1 / 4, 1 / 8, 1 / 16] : List ℚ) =
    [1 / 4, 1 / 8, 1 / 16, 3 / 8, 3 / 8, 3 / 8, 1 / 16, 1 / 8, 1 / 4] := by
  rw [bcss4_coeffs]; norm_num

/-- `LeapfrogIntegrator._step` is the symmetric composition with no free coefficients. -/
theorem leapfrog_eq_symComp {X : Type*} (h1Flow h2Flow : K → X → X) (t : K) (x : X) :
    leapfrog h1Flow h2Flow t x = (mkSymComp h1Flow h2Flow [] true).stepT t x := by
  simp [leapfrog, SymCompIntegrator.stepT, mkSymComp, symComp, deriveCoeffs, flowsList, slice2,
    stride2]

/-! ## B. Leapfrog, non-linear potential: exact local error -/

section Leapfrog
variable {V : Type*} [AddCommGroup V] [Module K V]

/-- Position after one leapfrog step = EXACTLY the 2-jet `q + ε q̇ + ½ε² q̈` of the exact flow
(`q̇ = N p`, `q̈ = −N g(q)`), for every gradient function `g`. -/
theorem leapfrog_jet_pos (N : V →ₗ[K] V) (g : V → V) (ε : K) (q p : V) :
    (leapfrog (kick g) (drift N) ε (q, p)).1 = q + ε • N p - (ε ^ 2 / 2) • N (g q) :=
  leapfrog_fst N g ε q p

/-- Momentum after one leapfrog step = the 2-jet `p + ε ṗ + ½ε² p̈` of the exact flow
(`ṗ = −g(q)`, `p̈ = −H N p` with `H = Dg(q)`) plus the explicit third-order term `¼ε³ H N g(q)`
minus `ε/2` times the Taylor remainder `r δ = g(q+δ) − g(q) − H δ` at the displacement
`δ = ε N p − ½ε² N g(q)`.  The identity holds for EVERY linear `H`; with `H = Dg(q)` and a C²
potential `r δ = O(|δ|²) = O(ε²)`, so the last term is `O(ε³)`. -/
theorem leapfrog_jet_mom (h2 : (2 : K) ≠ 0) (N H : V →ₗ[K] V) (g : V → V) (ε : K) (q p : V) :
    (leapfrog (kick g) (drift N) ε (q, p)).2 =
      p - ε • g q - (ε ^ 2 / 2) • H (N p) + (ε ^ 3 / 4) • H (N (g q))
        - (ε / 2) • taylorRem g H q (leapfrogDisp N g ε (q, p)) :=
  leapfrog_snd h2 N H g ε q p

/-- Local error of one leapfrog step against the 2-jet of the exact flow, for a non-linear
potential: EXACTLY `(0, ¼ε³ H N g(q) − (ε/2) r δ)`. -/
theorem leapfrog_local_error (h2 : (2 : K) ≠ 0) (N H : V →ₗ[K] V) (g : V → V) (ε : K) (q p : V) :
    leapfrog (kick g) (drift N) ε (q, p) - flowJet2 N H g ε (q, p) =
      (0, (ε ^ 3 / 4) • H (N (g q)) - (ε / 2) • taylorRem g H q (leapfrogDisp N g ε (q, p))) := by
  apply Prod.ext
  · rw [Prod.fst_sub, leapfrog_jet_pos]; simp [flowJet2]
  · rw [Prod.snd_sub, leapfrog_jet_mom h2 N H]; simp only [flowJet2]; abel

/-- Quadratic potential (`g = H` linear): the Taylor remainder vanishes and the local error is
EXACTLY `(0, ¼ε³ H N H q)`. -/
theorem leapfrog_local_error_quadratic (h2 : (2 : K) ≠ 0) (N H : V →ₗ[K] V) (ε : K) (q p : V) :
    leapfrog (kick H) (drift N) ε (q, p) - flowJet2 N H H ε (q, p) =
      (0, (ε ^ 3 / 4) • H (N (H q))) := by
  rw [leapfrog_local_error h2 N H]
  simp [taylorRem]

/-- Non-vacuity: `g q = q³` on `V = ℚ`, unit metric, `H = Dg(1) = 3`: the remainder is the genuinely
non-linear `r δ = 3δ² + δ³` and all terms of the identity are non-zero. -/
example :
    let N : ℚ →ₗ[ℚ] ℚ := LinearMap.id
    let H : ℚ →ₗ[ℚ] ℚ := (3 : ℚ) • LinearMap.id
    let g : ℚ → ℚ := fun q => q ^ 3
    (∀ δ, taylorRem g H 1 δ = 3 * δ ^ 2 + δ ^ 3) ∧
      leapfrog (kick g) (drift N) (1 / 2 : ℚ) (1, 1) = (11 / 8, 205 / 2048) ∧
      flowJet2 N H g (1 / 2 : ℚ) (1, 1) = (11 / 8, 1 / 8) ∧
      leapfrog (kick g) (drift N) (1 / 2 : ℚ) (1, 1) - flowJet2 N H g (1 / 2 : ℚ) (1, 1)
        = (0, -51 / 2048) := by
  refine ⟨fun δ => ?_, ?_, ?_, ?_⟩
  · simp [taylorRem]; ring
  all_goals norm_num [leapfrog, kick, drift, flowJet2]

end Leapfrog

/-- Energy error of one leapfrog step for the 1-D quadratic Hamiltonian `E = ½ h q² + ½ n p²`
(`g q = h q`, `N p = n p`): `ε³` times an explicit polynomial. -/
theorem leapfrog_energy_error_1d (h2 : (2 : K) ≠ 0) (h n ε q p : K) :
    let E : K × K → K := fun x => 1 / 2 * h * x.1 ^ 2 + 1 / 2 * n * x.2 ^ 2
    let x' := leapfrog (kick (fun q => h * q)) (drift (fun p => n * p)) ε (q, p)
    E x' - E (q, p) =
      ε ^ 3 * (h ^ 2 * n ^ 2 / 8 * (2 * q + ε * n * p - ε ^ 2 / 2 * n * h * q)
        * (p - ε / 2 * h * q)) := by
  have h8 : (8 : K) = 2 * 2 * 2 := by norm_num
  simp only [leapfrog, kick, drift, smul_eq_mul, h8]
  field_simp
  ring

example : let E : ℚ × ℚ → ℚ := fun x => 1 / 2 * 3 * x.1 ^ 2 + 1 / 2 * 2 * x.2 ^ 2
    E (leapfrog (kick (fun q => 3 * q)) (drift (fun p => 2 * p)) (1 / 10 : ℚ) (1, 1)) - E (1, 1)
      = (1 / 10) ^ 3 * (33201 / 4000) := by
  norm_num [leapfrog, kick, drift]

/-! ## C. All symmetric compositions, linear systems: second order -/

section Abstract
variable {R : Type*} [Ring R] [Algebra K R]

/-- `stepProd ε us` is the product `Π (1 + ε • uᵢ)` taken in application order (`foldl`, later
factors on the left). -/
theorem stepProd_eq_foldl (ε : K) (us : List R) :
    stepProd ε us = us.foldl (fun P u => (1 + ε • u) * P) 1 := by
  rw [stepProd_foldl, mul_one]

/-- (1) Ordered second elementary sums `e2 us = Σ_{i<j} uⱼ uᵢ` of a list and of its reverse add up to
`(Σ uᵢ)² − Σ uᵢ²` in any (non-commutative) ring. -/
theorem ordered_sums_reverse (us : List R) :
    e2 us + e2 us.reverse = e1 us ^ 2 - sumSq us :=
  e2_add_e2_reverse us

/-- (2) For a palindromic list of square-zero elements `2 e2 = e1²`. -/
theorem ordered_sums_palindrome (us : List R) (hp : us.reverse = us)
    (h0 : ∀ u ∈ us, u * u = 0) : 2 • e2 us = e1 us ^ 2 := by
  rw [two_nsmul]; exact e2_palindrome us hp h0

/-- Non-vacuity of (1)/(2): a palindrome of two NON-commuting square-zero matrices. -/
example :
    let A : Matrix (Fin 2) (Fin 2) ℚ := !![0, 0; 1, 0]
    let B : Matrix (Fin 2) (Fin 2) ℚ := !![0, 1; 0, 0]
    [A, B, A].reverse = [A, B, A] ∧ (∀ u ∈ [A, B, A], u * u = 0) ∧ A * B ≠ B * A ∧
      e1 [A, B, A] = !![0, 1; 2, 0] ∧ e2 [A, B, A] = !![1, 0; 0, 1] := by
  refine ⟨rfl, ?_, ?_, ?_, ?_⟩
  · intro u hu
    simp only [List.mem_cons, List.not_mem_nil, or_false] at hu
    rcases hu with rfl | rfl | rfl <;> ext i j <;> fin_cases i <;> fin_cases j <;>
      simp [Matrix.mul_apply, Fin.sum_univ_two]
  · intro h
    have := congrFun (congrFun h 0) 0
    simp at this
  · simp [e1]; norm_num
  · simp [e2, e1]

/-- (3) Expansion of the step product: `Π (1 + ε uᵢ) = 1 + ε e1 + ε² e2 + ε³ rest(ε)` where
`rest ε us = Σ_{k < len us} ε^k • ordSum (k+3) us` is an explicit polynomial in `ε`
(the coefficients `ordSum j us`, the ordered `j`-th elementary sums, do not depend on `ε`). -/
theorem stepProd_jet (ε : K) (us : List R) :
    stepProd ε us = 1 + ε • e1 us + ε ^ 2 • e2 us + ε ^ 3 • rest ε us ∧
      rest ε us = ∑ k ∈ Finset.range us.length, ε ^ k • ordSum (k + 3) us :=
  ⟨stepProd_expand ε us, rfl⟩

/-- `rest` is not a fudge term: for three factors it is the single triple product. -/
example (ε : K) (a b c : R) : rest ε [a, b, c] = c * b * a := by
  simp [rest, ordSum, Finset.sum_range_succ]

/-- Abstract second-order theorem: the coefficients of `SymmetricCompositionIntegrator.__init__`
(any free list) applied to two square-zero generators `GA`, `GB` alternating as in `self.flows`
give `1 + ε(GA+GB) + ½ε²(GA+GB)² + ε³ rest(ε)`. -/
theorem symComp_order2_ring (h2 : (2 : K) ≠ 0) (GA GB : R) (hA : GA * GA = 0) (hB : GB * GB = 0)
    (free : List K) (ε : K) :
    stepProd ε (genList GA GB free) =
      1 + ε • (GA + GB) + (ε ^ 2 / 2) • (GA + GB) ^ 2 + ε ^ 3 • rest ε (genList GA GB free) :=
  stepProd_genList h2 GA GB hA hB free ε

/-- Non-vacuity: two NON-commuting square-zero generators over `ℚ`, three free coefficients. -/
example (ε : ℚ) :
    let A : Matrix (Fin 2) (Fin 2) ℚ := !![0, 0; 1, 0]
    let B : Matrix (Fin 2) (Fin 2) ℚ := !![0, 1; 0, 0]
    stepProd ε (genList A B ([1 / 4, 1 / 8, 1 / 16] : List ℚ)) =
      1 + ε • (A + B) + (ε ^ 2 / 2) • (A + B) ^ 2
        + ε ^ 3 • rest ε (genList A B ([1 / 4, 1 / 8, 1 / 16] : List ℚ)) := by
  intro A B
  have hA : A * A = 0 := by
    ext i j; fin_cases i <;> fin_cases j <;> simp [A, Matrix.mul_apply, Fin.sum_univ_two]
  have hB : B * B = 0 := by
    ext i j; fin_cases i <;> fin_cases j <;> simp [B, Matrix.mul_apply, Fin.sum_univ_two]
  exact symComp_order2_ring (by norm_num) A B hA hB _ ε

end Abstract

section Linear
open Matrix
variable {n : ℕ}

/-- Link to the model: for the linear system `g = H·`, `metric.inv = N`, one step of ANY
`SymmetricCompositionIntegrator` (the model's `mkSymComp … .stepT` on `kick`/`drift`) is
multiplication of `(q, p)` by `stepMatrix`, the same composition run on the Jacobians
`kickJac (cε) H`, `driftJac (cε) N`. -/
theorem stepMatrix_spec (H N : Mat n K) (free : List K) (initialH1 : Bool) (ε : K) (x : Phase n K) :
    (mkSymComp (kick H.mulVec) (drift N.mulVec) free initialH1).stepT ε x =
      unpack ((stepMatrix H N free initialH1 ε).mulVec (pack x)) := by
  rw [stepMatrix_eq_stepProd, stepT_eq_stepProd_mulVec]

/-- … in particular for `LeapfrogIntegrator._step`. -/
theorem leapfrog_stepMatrix_spec (H N : Mat n K) (ε : K) (x : Phase n K) :
    leapfrog (kick H.mulVec) (drift N.mulVec) ε x =
      unpack ((stepMatrix H N [] true ε).mulVec (pack x)) := by
  rw [leapfrog_eq_symComp, stepMatrix_spec]

/-- `vfMat H N = [[0, N], [−H, 0]]` is the matrix of the Hamiltonian vector field
`f(q, p) = (N p, −H q)` of `h = ½qᵀHq + ½pᵀNp`. -/
theorem vfMat_spec (H N : Mat n K) (x : Phase n K) :
    (vfMat H N).mulVec (pack x) = pack (N.mulVec x.2, -(H.mulVec x.1)) :=
  vfMat_mulVec H N x

/-- Second-order accuracy of EVERY symmetric composition integrator on linear systems, matrix form:
for every free-coefficient list, both values of `initial_h1_flow_step`, all `H`, `N`, `ε`,
`stepMatrix(ε) = 1 + ε F + ½ε² F² + ε³ rest(ε)` — agreement with `exp(ε F)` through second order;
`rest` is the explicit polynomial of `stepProd_jet` in the scaled generators. -/
theorem symComp_order2_linear (h2 : (2 : K) ≠ 0) (H N : Mat n K) (free : List K)
    (initialH1 : Bool) (ε : K) :
    stepMatrix H N free initialH1 ε =
      1 + ε • vfMat H N + (ε ^ 2 / 2) • vfMat H N ^ 2
        + ε ^ 3 • rest ε (stepGens H N free initialH1) := by
  rw [stepMatrix_eq_stepProd, stepGens, symComp_order2_ring h2 _ _ ?_ ?_, ← kickGen_add_driftGen]
  · cases initialH1 <;> simp [pick, add_comm]
  · cases initialH1 <;> simp [pick, kickGen_sq, driftGen_sq]
  · cases initialH1 <;> simp [pick, kickGen_sq, driftGen_sq]

/-- The same on phase-space points: one model step = `x + ε f(x) + ½ε² F f(x) + ε³ rest(ε) x`. -/
theorem symComp_order2_linear_apply (h2 : (2 : K) ≠ 0) (H N : Mat n K) (free : List K)
    (initialH1 : Bool) (ε : K) (x : Phase n K) :
    pack ((mkSymComp (kick H.mulVec) (drift N.mulVec) free initialH1).stepT ε x) =
      pack x + ε • (vfMat H N).mulVec (pack x) + (ε ^ 2 / 2) • (vfMat H N ^ 2).mulVec (pack x)
        + ε ^ 3 • (rest ε (stepGens H N free initialH1)).mulVec (pack x) := by
  rw [stepMatrix_spec, pack_unpack_jets, symComp_order2_linear h2]
  simp only [add_mulVec, one_mulVec, smul_mulVec]

/-- Leapfrog, explicitly: the step matrix and its cubic remainder (constant in `ε`). -/
theorem leapfrog_order2_linear (h2 : (2 : K) ≠ 0) (H N : Mat n K) (ε : K) :
    stepMatrix H N [] true ε =
      1 + ε • vfMat H N + (ε ^ 2 / 2) • vfMat H N ^ 2
        + ε ^ 3 • ((1 / 4 : K) • (kickGen H * driftGen N * kickGen H)) := by
  rw [symComp_order2_linear h2]
  congr 2
  simp [rest, stepGens, genList, pick, leapfrog_coeffs, flowsList_zero, ordSum,
    Finset.sum_range_succ, smul_smul]
  congr 1
  have h4 : (4 : K) = 2 * 2 := by norm_num
  rw [h4, mul_inv]

/-- The two-stage scheme of `BCSSTwoStageIntegrator` with ARBITRARY free coefficient `a` (the code's
`a₀ = (3 − √3)/6` is one value), and the three- and four-stage schemes, are instances. -/
example (h2 : (2 : K) ≠ 0) (H N : Mat n K) (a b c ε : K) :
    (stepMatrix H N [a] true ε =
      1 + ε • vfMat H N + (ε ^ 2 / 2) • vfMat H N ^ 2 + ε ^ 3 • rest ε (stepGens H N [a] true)) ∧
    (stepMatrix H N [a, b] true ε =
      1 + ε • vfMat H N + (ε ^ 2 / 2) • vfMat H N ^ 2 + ε ^ 3 • rest ε (stepGens H N [a, b] true)) ∧
    (stepMatrix H N [a, b, c] true ε =
      1 + ε • vfMat H N + (ε ^ 2 / 2) • vfMat H N ^ 2
        + ε ^ 3 • rest ε (stepGens H N [a, b, c] true)) :=
  ⟨symComp_order2_linear h2 .., symComp_order2_linear h2 .., symComp_order2_linear h2 ..⟩

/-- Non-vacuity (2-D, non-diagonal, NON-commuting `H`, `N`, BCSS-type scheme with `a₀ = 1/5`): the
step theorem applies and the step really moves the point. -/
example :
    let H : Mat 2 ℚ := !![2, 1; 1, 3]
    let N : Mat 2 ℚ := !![1, 0; 0, 2]
    H * N ≠ N * H ∧
    (mkSymComp (kick H.mulVec) (drift N.mulVec) [(1 / 5 : ℚ)] true).stepT (1 / 2 : ℚ)
        (![1, 0], ![0, 1]) = (![579 / 800, 111 / 200], ![-4421 / 4000, -231 / 8000]) := by
  intro H N
  refine ⟨fun h => ?_, ?_⟩
  · have := congrFun (congrFun h 0) 1
    simp [H, N] at this
  · simp [SymCompIntegrator.stepT, mkSymComp, symComp, bcss2_coeffs, flowsList, kick, drift,
      List.replicate, H, N, Matrix.vecHead, Matrix.vecTail]
    norm_num

end Linear

/-! ## D. Negative control: every sub-step uses the full time step -/

section Negative
variable {V : Type*} [AddCommGroup V] [Module K V]

/-- If the sub-steps are given `ε, 2ε, ε` instead of `ε/2, ε, ε/2` (i.e. the map is leapfrog with
`2ε`) the first-order jet of the position is `q + 2ε N p`: NOT consistent with `q̇ = N p`. -/
theorem fullstep_jet_pos (h2 : (2 : K) ≠ 0) (N : V →ₗ[K] V) (g : V → V) (ε : K) (q p : V) :
    (leapfrog (kick g) (drift N) (2 * ε) (q, p)).1 = q + (2 * ε) • N p - (2 * ε ^ 2) • N (g q) := by
  rw [leapfrog_jet_pos]
  congr 2
  field_simp

/-- … and of the momentum `p − 2ε g(q)` (same shape as `leapfrog_jet_mom` with `2ε`). -/
theorem fullstep_jet_mom (h2 : (2 : K) ≠ 0) (N H : V →ₗ[K] V) (g : V → V) (ε : K) (q p : V) :
    (leapfrog (kick g) (drift N) (2 * ε) (q, p)).2 =
      p - (2 * ε) • g q - (2 * ε ^ 2) • H (N p) + (2 * ε ^ 3) • H (N (g q))
        - ε • taylorRem g H q (leapfrogDisp N g (2 * ε) (q, p)) := by
  rw [leapfrog_jet_mom h2 N H]
  have e1 : (2 * ε) ^ 2 / 2 = 2 * ε ^ 2 := by field_simp
  have e2 : (2 * ε) ^ 3 / 4 = 2 * ε ^ 3 := by
    have h4 : (4 : K) = 2 * 2 := by norm_num
    rw [h4]; field_simp
  have e3 : 2 * ε / 2 = ε := by field_simp
  rw [e1, e2, e3]

/-- What the C06 oracle catches: the full-time-step map differs from the consistent step at FIRST
order — the position difference is exactly `ε N p − (3/2) ε² N g(q)`. -/
theorem fullstep_first_order_defect (h2 : (2 : K) ≠ 0) (N : V →ₗ[K] V) (g : V → V) (ε : K) (q p : V) :
    (leapfrog (kick g) (drift N) (2 * ε) (q, p)).1 - (leapfrog (kick g) (drift N) ε (q, p)).1 =
      ε • N p - (3 * ε ^ 2 / 2) • N (g q) := by
  rw [fullstep_jet_pos h2, leapfrog_jet_pos]
  have hh := half_add_half h2
  linear_combination (norm := module) (2 * ε ^ 2) • hh • N (g q)

/-- Concrete instance (`g q = q³`, unit metric, `x = (1, 1)`, `ε = 1/1000`): the defect divided by `ε`
is `≈ N p = 1`, so it is not `O(ε²)`; the consistent step's own displacement is `≈ ε`, the
full-time-step one `≈ 2ε`. -/
example :
    let N : ℚ →ₗ[ℚ] ℚ := LinearMap.id
    let g : ℚ → ℚ := fun q => q ^ 3
    let ε : ℚ := 1 / 1000
    ((leapfrog (kick g) (drift N) (2 * ε) ((1, 1) : ℚ × ℚ)).1
        - (leapfrog (kick g) (drift N) ε ((1, 1) : ℚ × ℚ)).1) / ε
        = 1997 / 2000 ∧
      ((leapfrog (kick g) (drift N) ε (1, 1)).1 - 1) / ε = 1999 / 2000 ∧
      ((leapfrog (kick g) (drift N) (2 * ε) (1, 1)).1 - 1) / ε = 1998 / 1000 := by
  norm_num [leapfrog, kick, drift]

end Negative

end MiciVerif.C06
