/-
C01 — Integration transitions leave the canonical distribution exactly invariant.

Statements are about the orbit-level model `MiciVerif.Model.Transitions` (which mirrors
`transitions.py`), over ANY linearly ordered field `K` (so in particular ℝ), any orbit, any
number of steps, any tree depth, any termination criterion (including the extra sub-tree
checks: they are part of the `term` flags), any pattern of failing integrator steps and
divergent points, and ALL outcomes of the random draws with their exact probabilities.

* `metropolis_invariant`, `metropolisRandom_invariant` — static / random-length Metropolis.
* `final_invariant`   — dynamic transition on one trajectory tree (all starts, all draws).
* `dynamic_invariant` — dynamic multinomial transition on an orbit indexed by ℤ.
* `slice_mixture_invariant` — dynamic slice transition: mixture over slice levels.
* `dynamic_multinomial_divergence_counterexample` — with a *start-dependent* divergence test
  (multinomial variant, `h - h_init > max_delta_h`) invariance can fail; `PosOk` is needed.
-/
import MiciVerif.Lemmas.Support
import Mathlib.Algebra.BigOperators.Group.Finset.Basic
import Mathlib.Algebra.BigOperators.Ring.Finset
import Mathlib.Algebra.BigOperators.Intervals
import Mathlib.Algebra.Order.Interval.Finset.Basic
import Mathlib.Order.Interval.Finset.Nat
import Mathlib.Data.Int.Interval
import Mathlib.Tactic.NormNum
import Mathlib.Tactic.Push
import Mathlib.Tactic.SplitIfs

namespace MiciVerif.C01
open MiciVerif.Transitions MiciVerif.Transitions.Dist MiciVerif.Transitions.TTree
open Finset

variable {K : Type} [Field K] [LinearOrder K] [IsStrictOrderedRing K]

/-! ### Metropolis -/

private theorem metro_core (a b : K) (ha : 0 ≤ a) (hb : 0 ≤ b) :
    a * ratio b a + b * (1 - ratio a b) = b := by
  rcases ha.eq_or_lt with h | hapos
  · subst h; rw [ratio_zero_den, ratio_zero_num]; ring
  · rcases hb.eq_or_lt with h | hbpos
    · subst h; rw [ratio_zero_den, ratio_zero_num]; ring
    · rcases le_total a b with hle | hle
      · rw [ratio_of_le hapos hle, ratio_of_ge hbpos ha hle]; field_simp; ring
      · rw [ratio_of_le hbpos hle, ratio_of_ge hapos hb hle]; field_simp; ring

/-- the start from which `(j, e)` is reached by an accepted `n`-step proposal -/
def msrc (n : Nat) (j : Int) (e : Bool) : Int := if e then j - n else j + n

omit [IsStrictOrderedRing K] in
private theorem prob_metropolis (o : MOrbit K) (n : Nat) (i : Int) (f : Bool) (x : Int × Bool) :
    prob (metropolis o n (i, f)) x =
      if o.pathOk (if f then i else i - n) n then
        ratio (o.w (if f then i + n else i - n)) (o.w i) *
            (if ((if f then i + n else i - n), f) = x then 1 else 0) +
          (1 - ratio (o.w (if f then i + n else i - n)) (o.w i)) *
            (if (i, !f) = x then 1 else 0)
      else (if (i, !f) = x then 1 else 0) := by
  unfold prob metropolis
  cases f
  · simp only [Bool.false_eq_true, if_false]
    by_cases hp : o.pathOk (i - n) n = true
    · simp only [hp, if_true, expect_map, expect_bernoulli, Bool.false_eq_true, if_false]
    · simp only [hp, Bool.false_eq_true, if_false, expect_pure]
  · simp only [if_true]
    by_cases hp : o.pathOk i n = true
    · simp only [hp, if_true, expect_map, expect_bernoulli, Bool.false_eq_true, if_false]
    · simp only [hp, Bool.false_eq_true, if_false, expect_pure]

/-- Balance for a fixed number of steps `n ≥ 1`: the two possible sources of `(j, e)`. -/
theorem metropolis_two_sources (o : MOrbit K) (hw : ∀ i, 0 ≤ o.w i) (n : Nat) (hn : 0 < n)
    (j : Int) (e : Bool) :
    o.w (msrc n j e) * prob (metropolis o n (msrc n j e, e)) (j, e) +
      o.w j * prob (metropolis o n (j, !e)) (j, e) = o.w j := by
  rw [prob_metropolis, prob_metropolis]
  have hne : (n : Int) ≠ 0 := by exact_mod_cast hn.ne'
  cases e
  · -- e = false (backwards): src = j + n
    simp only [msrc, Bool.false_eq_true, if_false, Bool.not_false, if_true]
    have h1 : (j + (n : Int) - n) = j := by ring
    rw [h1]
    by_cases hp : o.pathOk j n = true
    · simp only [hp, if_true]
      have hne2 : ¬ (j + (n : Int) = j) := by omega
      simp [hne2]
      have := metro_core (o.w (j + n)) (o.w j) (hw _) (hw _)
      linarith
    · have hp' : o.pathOk j n = false := by simpa using hp
      simp [hp']
  · simp only [msrc, if_true, Bool.not_true, Bool.false_eq_true, if_false]
    have h1 : (j - (n : Int) + n) = j := by ring
    rw [h1]
    by_cases hp : o.pathOk (j - n) n = true
    · simp only [hp, if_true]
      have hne2 : ¬ (j - (n : Int) = j) := by omega
      simp [hne2]
      have := metro_core (o.w (j - n)) (o.w j) (hw _) (hw _)
      linarith
    · have hp' : o.pathOk (j - n) n = false := by simpa using hp
      simp [hp']

omit [IsStrictOrderedRing K] in
/-- No other start reaches `(j, e)`. -/
theorem metropolis_other_sources (o : MOrbit K) (n : Nat) (j : Int) (e : Bool) (s : Int × Bool)
    (h1 : s ≠ (msrc n j e, e)) (h2 : s ≠ (j, !e)) : prob (metropolis o n s) (j, e) = 0 := by
  obtain ⟨i, f⟩ := s
  rw [prob_metropolis]
  have hA : ¬ ((if f then i + (n : Int) else i - n, f) = (j, e)) := by
    intro h
    apply h1
    simp only [Prod.mk.injEq] at h ⊢
    obtain ⟨h3, h4⟩ := h
    subst h4
    refine ⟨?_, rfl⟩
    unfold msrc
    cases f <;> simp at h3 ⊢ <;> omega
  have hB : ¬ ((i, !f) = (j, e)) := by
    intro h
    apply h2
    simp only [Prod.mk.injEq] at h ⊢
    obtain ⟨h3, h4⟩ := h
    refine ⟨h3, ?_⟩
    cases f <;> cases e <;> simp_all
  simp [hA, hB]

/-- **Static Metropolis transition leaves `w` invariant**: summing over any finite set of
start states that contains the two possible sources. -/
theorem metropolis_invariant (o : MOrbit K) (hw : ∀ i, 0 ≤ o.w i) (n : Nat) (hn : 0 < n)
    (j : Int) (e : Bool) (S : Finset (Int × Bool))
    (h1 : (msrc n j e, e) ∈ S) (h2 : (j, !e) ∈ S) :
    ∑ s ∈ S, o.w s.1 * prob (metropolis o n s) (j, e) = o.w j := by
  have hne : (msrc n j e, e) ≠ (j, !e) := by
    intro h
    have := (Prod.mk.injEq _ _ _ _ ▸ h).2
    cases e <;> simp at this
  rw [Finset.sum_eq_add_of_mem _ _ h1 h2 hne]
  · exact metropolis_two_sources o hw n hn j e
  · intro c _ hc
    rw [metropolis_other_sources o n j e c hc.1 hc.2]; ring

private theorem list_range_sum (n : Nat) (h : Nat → K) :
    ((List.range n).map h).sum = ∑ k ∈ Finset.range n, h k := by
  induction n with
  | zero => simp
  | succ n ih => simp [List.range_succ, Finset.sum_range_succ, ih]

omit [LinearOrder K] [IsStrictOrderedRing K] in
theorem expect_uniformRange (lo hi : Nat) (f : Nat → K) :
    expect (uniformRange lo hi : Dist K Nat) f =
      ∑ k ∈ Finset.range (hi - lo), (1 / ((hi - lo : Nat) : K)) * f (lo + k) := by
  unfold uniformRange expect
  rw [List.map_map]
  have : ∀ n : Nat, ∀ h : Nat → K, ((List.range n).map h).sum = ∑ k ∈ Finset.range n, h k := by
    intro n h
    induction n with
    | zero => simp
    | succ n ih => simp [List.range_succ, Finset.sum_range_succ, ih]
  rw [this]
  rfl

/-- **Random-length Metropolis transition** (`n ~ U[lo, hi)`, `1 ≤ lo < hi`). -/
theorem metropolisRandom_invariant (o : MOrbit K) (hw : ∀ i, 0 ≤ o.w i) (lo hi : Nat)
    (hlo : 0 < lo) (hlt : lo < hi) (j : Int) (e : Bool) (S : Finset (Int × Bool))
    (h1 : ∀ n, lo ≤ n → n < hi → (msrc n j e, e) ∈ S) (h2 : (j, !e) ∈ S) :
    ∑ s ∈ S, o.w s.1 * prob (metropolisRandom o lo hi s) (j, e) = o.w j := by
  have hprob : ∀ s, prob (metropolisRandom o lo hi s) (j, e) =
      ∑ k ∈ Finset.range (hi - lo), (1 / ((hi - lo : Nat) : K)) *
        prob (metropolis o (lo + k) s) (j, e) := by
    intro s
    unfold prob metropolisRandom
    rw [expect_bind, expect_uniformRange]
  simp only [hprob, Finset.mul_sum]
  rw [Finset.sum_comm]
  have hk : ∀ k ∈ Finset.range (hi - lo),
      ∑ s ∈ S, o.w s.1 * ((1 / ((hi - lo : Nat) : K)) * prob (metropolis o (lo + k) s) (j, e)) =
        (1 / ((hi - lo : Nat) : K)) * o.w j := by
    intro k hk
    have hkr : k < hi - lo := Finset.mem_range.mp hk
    have := metropolis_invariant o hw (lo + k) (by omega) j e S (h1 _ (by omega) (by omega)) h2
    rw [← this, Finset.mul_sum]
    apply Finset.sum_congr rfl
    intro s _; ring
  rw [Finset.sum_congr rfl hk, Finset.sum_const, Finset.card_range]
  have hpos : ((hi - lo : Nat) : K) ≠ 0 := by
    have : 0 < hi - lo := by omega
    exact_mod_cast this.ne'
  rw [nsmul_eq_mul]
  field_simp

/-! ### Dynamic transition on one trajectory tree -/

/-- **Invariance on a trajectory tree**: for every test function `g` (take an indicator to
get "`Σ_i w_i · P(i → j) = w_j`"), whatever the shape of the tree, the failing steps,
divergent leaves and termination flags. -/
theorem final_invariant (t : TTree K) (hn : t.Nonneg) (hp : t.PosOk) (g : Nat → K) :
    t.wsum (fun i => expect (final t i) g) = t.wsum g := by
  have := climb_any t hn hp g
  simpa [final, expect_map] using this

/-! ### Dynamic multinomial transition on an orbit -/

omit [LinearOrder K] [IsStrictOrderedRing K] in
theorem size_treeOf (o : DOrbit K) (m : Nat) (a : Int) : (treeOf o m a).size = 2 ^ m := by
  induction m generalizing a with
  | zero => simp [treeOf, size]
  | succ m ih => simp [treeOf, size, ih, pow_succ]; ring

omit [LinearOrder K] [IsStrictOrderedRing K] in
theorem wsum_treeOf (o : DOrbit K) (m : Nat) (a : Int) (F : Nat → K) :
    (treeOf o m a).wsum F = ∑ k ∈ Finset.range (2 ^ m), o.w (a + k) * F k := by
  induction m generalizing a F with
  | zero => simp [treeOf, wsum]
  | succ m ih =>
    simp only [treeOf, wsum, size_treeOf]
    rw [ih, ih, pow_succ, mul_two, Finset.sum_range_add]
    congr 1
    apply Finset.sum_congr rfl
    intro k _
    have : a + (2 : Int) ^ m + (k : Int) = a + ((2 ^ m + k : Nat) : Int) := by push_cast; ring
    rw [this, Nat.add_comm k]

theorem nonneg_treeOf (o : DOrbit K) (hw : ∀ i, 0 ≤ o.w i) (m : Nat) (a : Int) :
    (treeOf o m a).Nonneg := by
  induction m generalizing a with
  | zero => exact hw a
  | succ m ih => exact ⟨ih a, ih _⟩

theorem posOk_treeOf (o : DOrbit K) (hok : ∀ i, 0 < o.w i → o.ok i = true) (m : Nat) (a : Int) :
    (treeOf o m a).PosOk := by
  induction m generalizing a with
  | zero => exact hok a
  | succ m ih => exact ⟨ih a, ih _⟩

/-- probability of ending at `j`, as a sum over the `2^D` direction sequences -/
private theorem prob_dynamic (o : DOrbit K) (D : Nat) (i j : Int) :
    prob (dynamic o D i) j = ∑ k ∈ Finset.range (2 ^ D), (1 / ((2 ^ D : Nat) : K)) *
      expect (final (treeOf o D (i - k)) k) (fun c => if i - (k : Int) + (c : Int) = j then 1 else 0) := by
  unfold prob dynamic
  rw [expect_bind, expect_uniformRange]
  simp only [Nat.sub_zero, Nat.zero_add, expect_map]

/-- mass that the tree starting at `a` sends to `j` from its leaf `k` -/
private def G (o : DOrbit K) (D : Nat) (j a : Int) (k : Nat) : K :=
  o.w (a + k) * expect (final (treeOf o D a) k) (fun c => if a + (c : Int) = j then 1 else 0)

private theorem G_zero (o : DOrbit K) (D : Nat) (j a : Int) (k : Nat) (hk : k < 2 ^ D)
    (ha : a + 2 ^ D ≤ j ∨ j < a) : G o D j a k = 0 := by
  unfold G
  have hz : expect (final (treeOf o D a) k) (fun c => if a + (c : Int) = j then (1 : K) else 0) =
      expect (final (treeOf o D a) k) (fun _ => (0 : K)) := by
    apply Dist.expect_congr_on (fun c => c < (treeOf o D a).size) _
      (final_lt _ _ (by rw [size_treeOf]; exact hk))
    intro c hc
    rw [size_treeOf] at hc
    have hc' : (c : Int) < 2 ^ D := by exact_mod_cast hc
    have : ¬ (a + (c : Int) = j) := by omega
    simp [this]
  rw [hz, expect_zero]; ring

/-- **The dynamic (multinomial) transition leaves `w` invariant on the orbit**: for every end
point `j`, summing weight × exact transition probability over all starts that can reach `j`
(and any larger finite window) gives back `w j`; for any depth limit `D`, any termination
criterion, any failing steps and any divergence flags compatible with the weights. -/
theorem dynamic_invariant (o : DOrbit K) (hw : ∀ i, 0 ≤ o.w i)
    (hok : ∀ i, 0 < o.w i → o.ok i = true) (D : Nat) (j : Int) :
    ∑ i ∈ Finset.Icc (j - 2 ^ D + 1) (j + 2 ^ D - 1), o.w i * prob (dynamic o D i) j = o.w j := by
  set N : Nat := 2 ^ D with hN
  have hNpos : 0 < N := by positivity
  have hNK : ((N : Nat) : K) ≠ 0 := by exact_mod_cast hNpos.ne'
  have hNint : ((2 : Int) ^ D) = (N : Int) := by rw [hN]; push_cast; rfl
  rw [hNint]
  -- 1. expand the mixture over direction sequences, in terms of `G`
  have step1 : ∀ i : Int, o.w i * prob (dynamic o D i) j =
      ∑ k ∈ Finset.range N, (1 / (N : K)) * G o D j (i - k) k := by
    intro i
    rw [prob_dynamic, Finset.mul_sum]
    apply Finset.sum_congr rfl
    intro k _
    unfold G
    have : i - (k : Int) + (k : Int) = i := by ring
    rw [this]; ring
  simp only [step1]
  rw [Finset.sum_comm]
  -- 2. for every k shift the start index and enlarge the range to a common one
  set A : Finset Int := Finset.Icc (j - 2 * N + 2) (j + N - 1) with hA
  have step2 : ∀ k ∈ Finset.range N,
      ∑ i ∈ Finset.Icc (j - N + 1) (j + N - 1), (1 / (N : K)) * G o D j (i - k) k =
        ∑ a ∈ A, (1 / (N : K)) * G o D j a k := by
    intro k hk
    have hkN : k < N := Finset.mem_range.mp hk
    have himg : Finset.Icc (j - N + 1) (j + N - 1) =
        (Finset.Icc (j - N + 1 - k) (j + N - 1 - k)).image (· + (k : Int)) := by
      rw [Finset.image_add_right_Icc]; congr 1 <;> ring
    rw [himg, Finset.sum_image (by intro x _ y _ h; simpa using h)]
    have hsub : Finset.Icc (j - (N : Int) + 1 - k) (j + N - 1 - k) ⊆ A := by
      intro x hx
      rw [Finset.mem_Icc] at hx
      rw [hA, Finset.mem_Icc]
      constructor <;> omega
    rw [← Finset.sum_subset hsub]
    · apply Finset.sum_congr rfl
      intro a _
      have : a + (k : Int) - k = a := by ring
      rw [this]
    · intro a haA hnot
      rw [hA, Finset.mem_Icc] at haA
      rw [Finset.mem_Icc] at hnot
      have : a + 2 ^ D ≤ j ∨ j < a := by
        rw [hNint]
        by_contra hcon
        push_neg at hcon
        apply hnot
        constructor <;> omega
      rw [G_zero o D j a k hkN this]; ring
  rw [Finset.sum_congr rfl step2, Finset.sum_comm]
  -- 3. per tree: invariance on the tree
  have step3 : ∀ a ∈ A, ∑ k ∈ Finset.range N, (1 / (N : K)) * G o D j a k =
      (1 / (N : K)) * (if j - N < a ∧ a ≤ j then o.w j else 0) := by
    intro a _
    rw [← Finset.mul_sum]
    congr 1
    have h1 : ∑ k ∈ Finset.range N, G o D j a k =
        (treeOf o D a).wsum (fun k => expect (final (treeOf o D a) k)
          (fun c => if a + (c : Int) = j then 1 else 0)) := by
      rw [wsum_treeOf]; rfl
    rw [h1, final_invariant _ (nonneg_treeOf o hw D a) (posOk_treeOf o hok D a), wsum_treeOf]
    by_cases hin : j - N < a ∧ a ≤ j
    · rw [if_pos hin]
      have hmem : (j - a).toNat ∈ Finset.range (2 ^ D) := by
        rw [Finset.mem_range, ← hN]; omega
      rw [Finset.sum_eq_single_of_mem _ hmem]
      · have : a + ((j - a).toNat : Int) = j := by omega
        rw [this]; simp
      · intro b _ hb
        have : ¬ (a + (b : Int) = j) := by omega
        simp [this]
    · rw [if_neg hin]
      apply Finset.sum_eq_zero
      intro b hb
      have hbN : (b : Int) < N := by
        have := Finset.mem_range.mp hb; rw [← hN] at this; exact_mod_cast this
      have : ¬ (a + (b : Int) = j) := by omega
      simp [this]
  rw [Finset.sum_congr rfl step3, ← Finset.mul_sum, Finset.sum_ite, Finset.sum_const_zero,
    add_zero, Finset.sum_const]
  have hcard : (Finset.filter (fun a => j - (N : Int) < a ∧ a ≤ j) A).card = N := by
    have : Finset.filter (fun a => j - (N : Int) < a ∧ a ≤ j) A = Finset.Icc (j - N + 1) j := by
      ext x
      simp only [hA, Finset.mem_filter, Finset.mem_Icc]
      constructor
      · rintro ⟨_, h1, h2⟩; constructor <;> omega
      · rintro ⟨h1, h2⟩; refine ⟨⟨?_, ?_⟩, ?_, ?_⟩ <;> omega
    rw [this, Int.card_Icc]
    omega
  rw [hcard, nsmul_eq_mul]
  field_simp

/-- Starts outside the window never reach `j` (so the finite sum above is the whole sum). -/
theorem dynamic_unreachable (o : DOrbit K) (D : Nat) (i j : Int)
    (h : i < j - 2 ^ D + 1 ∨ j + 2 ^ D - 1 < i) : prob (dynamic o D i) j = 0 := by
  rw [prob_dynamic]
  apply Finset.sum_eq_zero
  intro k hk
  have hk' : k < 2 ^ D := Finset.mem_range.mp hk
  have hkI : (k : Int) < 2 ^ D := by exact_mod_cast hk'
  have hz : expect (final (treeOf o D (i - k)) k)
      (fun c => if i - (k : Int) + (c : Int) = j then (1 : K) else 0) =
      expect (final (treeOf o D (i - k)) k) (fun _ => (0 : K)) := by
    apply Dist.expect_congr_on (fun c => c < (treeOf o D (i - k)).size) _
      (final_lt _ _ (by rw [size_treeOf]; exact hk'))
    intro c hc
    rw [size_treeOf] at hc
    have hc' : (c : Int) < 2 ^ D := by exact_mod_cast hc
    have : ¬ (i - (k : Int) + (c : Int) = j) := by omega
    simp [this]
  rw [hz, expect_zero]; ring

/-! ### Dynamic slice transition: mixture over slice levels

The slice variable `u` is uniform on `[0, exp(-h_init)]`.  Between two consecutive thresholds
(the values `exp(-h_c)` and `exp(Δ - h_c)` of the finitely many orbit points in reach) the
transition does not depend on `u`: level `l` has length `lam l`, indicator weights
`(o l).w c ∈ {0,1}` (`u ≤ exp(-h_c)`) and divergence flags `(o l).ok c` (`h_c + log u ≤ Δ`,
a function of `(c, u)` only).  `e c = Σ_l lam l * (o l).w c = exp(-h_c)`. -/

/-- the slice transition kernel: pick the level of `u`, then run the dynamic transition -/
def sliceProb {ι : Type} (L : Finset ι) (lam : ι → K) (o : ι → DOrbit K) (D : Nat) (i j : Int) : K :=
  ∑ l ∈ L, (lam l * (o l).w i / ∑ l' ∈ L, lam l' * (o l').w i) * prob (dynamic (o l) D i) j

/-- **The slice transition leaves `e = exp(-h)` invariant.** -/
theorem slice_mixture_invariant {ι : Type} (L : Finset ι) (lam : ι → K) (o : ι → DOrbit K)
    (hlam : ∀ l, 0 ≤ lam l) (hw : ∀ l i, 0 ≤ (o l).w i)
    (hok : ∀ l i, 0 < (o l).w i → (o l).ok i = true) (D : Nat) (j : Int) :
    ∑ i ∈ Finset.Icc (j - 2 ^ D + 1) (j + 2 ^ D - 1),
        (∑ l ∈ L, lam l * (o l).w i) * sliceProb L lam o D i j =
      ∑ l ∈ L, lam l * (o l).w j := by
  have key : ∀ i : Int, (∑ l ∈ L, lam l * (o l).w i) * sliceProb L lam o D i j =
      ∑ l ∈ L, lam l * ((o l).w i * prob (dynamic (o l) D i) j) := by
    intro i
    unfold sliceProb
    rw [Finset.mul_sum]
    apply Finset.sum_congr rfl
    intro l hl
    by_cases he : (∑ l' ∈ L, lam l' * (o l').w i) = 0
    · have hz : lam l * (o l).w i = 0 := by
        have hnn : ∀ l' ∈ L, 0 ≤ lam l' * (o l').w i := fun l' _ => mul_nonneg (hlam l') (hw l' i)
        exact (Finset.sum_eq_zero_iff_of_nonneg hnn).mp he l hl
      rw [he]
      have : lam l * ((o l).w i * prob (dynamic (o l) D i) j) =
          (lam l * (o l).w i) * prob (dynamic (o l) D i) j := by ring
      rw [this, hz]; ring
    · field_simp
  simp only [key]
  rw [Finset.sum_comm]
  apply Finset.sum_congr rfl
  intro l _
  rw [← Finset.mul_sum, dynamic_invariant (o l) (hw l) (hok l) D j]

/-! ### Necessity of `PosOk` (start-dependent divergence test of the multinomial variant)

Two orbit points, the right one is flagged divergent *although it has positive weight* (this is
what `h - h_init > Δ` does when seen from a start of much lower energy while the same point is
a legitimate start itself).  Then the mass arriving at the right point is too large. -/
theorem dynamic_multinomial_divergence_counterexample :
    let t : TTree ℚ := .node (.leaf 1 true) (.leaf 1 false) true false
    t.wsum (fun i => expect (final t i) (fun c => if c = 1 then 1 else 0)) ≠
      t.wsum (fun c => if c = 1 then 1 else 0) := by
  decide +kernel

/-! ### Non-vacuity -/

example : (TTree.node (.leaf (1 : ℚ) true) (.leaf 2 true) true false).Nonneg ∧
    (TTree.node (.leaf (1 : ℚ) true) (.leaf 2 true) true false).PosOk := by
  simp [TTree.Nonneg, TTree.PosOk]

/-- a tree on which the transition really moves mass: from the left leaf (weight 1) the
right leaf (weight 3) is reached with probability 1 -/
example :
    let t : TTree ℚ := .node (.leaf 1 true) (.leaf 3 true) true false
    prob (final t 0) 1 = 1 ∧ prob (final t 1) 0 = 1 / 3 := by
  decide +kernel

end MiciVerif.C01
