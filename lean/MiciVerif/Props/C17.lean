/-
C17 — Adapters compute the estimators they document, for any history.

Property theorems only.  `K` is any field of characteristic 0 (ordered where an order is
mentioned): the statements hold in ℝ and are executed at `K = ℚ` by the driver.

Model: `MiciVerif/Model/Adapters.lean` (line-by-line mirror of `mici/adapters.py`),
batch estimators `bmean`, `bM2`, `bCov` and helper algebra: `MiciVerif/Lemmas/Adapters.lean`.
A NumPy vector / matrix update is the scalar recursion applied to each component / each
ordered pair of components (validated entry by entry by the correspondence check).
-/
import MiciVerif.Lemmas.Adapters
import MiciVerif.Lemmas.AdaptersSearch
import Mathlib.Analysis.SpecialFunctions.Pow.Real

namespace MiciVerif.C17
open MiciVerif.Adapters

section Welford
variable {K : Type} [Field K] [CharZero K]

/-- Welford's recursion for one pair of components `(a,b)` of the position: after *any*
list of positions the state holds the count, both sample means and the centred sum of
products `Σ (x_a − x̄_a)(x_b − x̄_b)` of everything seen (also for the empty list: all 0). -/
theorem welfordCov_eq_batch (ps : List (K × K)) :
    (welfordCov ps).iter = ps.length ∧
    (welfordCov ps).meanA = bmean (ps.map Prod.fst) ∧
    (welfordCov ps).meanB = bmean (ps.map Prod.snd) ∧
    (welfordCov ps).c = bCov ps ∧ (welfordCov ps).nan = false := by
  rw [welfordCov_eq_statsOf, bCov_eq]
  simp [statsOf, bmean, S1, S2]

example : (welfordCov ([(1, 2), (2, 5), (4, 3), (7, 7)] : List (ℚ × ℚ))).c = 27 / 2 := by decide +kernel

/-- Diagonal adapter: after folding any list `xs`, `iter = n`, `mean = (Σx)/n`,
`sum_diff_sq = Σ (x − mean)²`. -/
theorem welford_eq_batch (xs : List K) :
    (welford xs).iter = xs.length ∧ (welford xs).mean = bmean xs ∧ (welford xs).m2 = bM2 xs := by
  have h := welford_toC xs
  obtain ⟨h0, h1, _, h3, _⟩ := welfordCov_eq_batch (xs.map (fun x => (x, x)))
  rw [← h] at h0 h1 h3
  refine ⟨by simpa [WState.toC] using h0, ?_, ?_⟩
  · simpa [WState.toC, List.map_map, Function.comp_def] using h1
  · rw [bM2_eq_bCov]; simpa [WState.toC] using h3

example : (welford ([1, 2, 4, 7] : List ℚ)).m2 = 21 ∧ bM2 ([1, 2, 4, 7] : List ℚ) = 21 := by
  decide +kernel

/-- The covariance recursion, although written asymmetrically
(`old deviation of b × new deviation of a`), produces a symmetric matrix. -/
theorem welfordCov_symm (ps : List (K × K)) :
    (welfordCov (ps.map Prod.swap)).c = (welfordCov ps).c := by
  rw [welfordCov_eq_statsOf, welfordCov_eq_statsOf]
  simp [statsOf, S1, S2, S12, List.map_map, Function.comp_def, mul_comm]

example : (welfordCov ([(1, 2), (2, 5), (4, 3)] : List (ℚ × ℚ))).c
    = (welfordCov ([(2, 1), (5, 2), (3, 4)] : List (ℚ × ℚ))).c := by decide +kernel

end Welford

section Merge
variable {K : Type} [Field K] [CharZero K]

/-- **Chan / Schubert–Gertz merge = statistics of the concatenation.**  For any split of the
data into chains `c0 :: rest` (any lengths, also empty chains, as long as the first two
chains are not both empty — see `merge_nan_iff`), the accumulators after the loop over
`adapt_states` equal the Welford state of a single chain that saw all positions in order. -/
theorem merge_eq_concat (c0 : List (K × K)) (rest : List (List (K × K)))
    (h : NoNaN (c0 :: rest)) :
    merge ((c0 :: rest).map welfordCov) = some (welfordCov (c0 :: rest).flatten) := by
  have hf := fold_mergeStep_statsOf rest c0 false
  have hn : nanRest c0 rest = false := by
    rw [Bool.eq_false_iff]; intro hh
    exact (noNaN_iff c0 rest).mp h ((nanRest_eq c0 rest).mp hh)
  simp only [List.map_cons, merge, List.flatten_cons, welfordCov_eq_statsOf c0]
  have e : ({ statsOf c0 with nan := false } : CState K) = statsOf c0 := rfl
  rw [e] at hf
  rw [hf, welfordCov_eq_statsOf, hn]; rfl

example : merge ([[(1, 1)], [], [(2, 2), (4, 4), (7, 7)]].map (welfordCov (K := ℚ)))
    = some (welfordCov [(1, 1), (2, 2), (4, 4), (7, 7)]) := by decide +kernel

/-- Diagonal adapter version of `merge_eq_concat`. -/
theorem merge_eq_concat_var (c0 : List K) (rest : List (List K)) (h : NoNaN (c0 :: rest)) :
    merge ((c0 :: rest).map (fun xs => (welford xs).toC))
      = some (welford (c0 :: rest).flatten).toC := by
  have hm : (c0 :: rest).map (fun xs => (welford xs).toC)
      = ((c0 :: rest).map (fun xs => xs.map (fun x => (x, x)))).map welfordCov := by
    simp only [List.map_map]; apply List.map_congr_left; intro xs _; exact welford_toC xs
  have h' : NoNaN ((c0 :: rest).map (fun xs => xs.map (fun x => (x, x)))) := by
    rcases rest with _ | ⟨c1, rest⟩
    · trivial
    · simpa [NoNaN] using h
  rw [hm, List.map_cons, merge_eq_concat _ _ (by simpa using h'), welford_toC]
  simp [List.map_flatten]

example : merge ([[1], [2, 4, 7]].map (fun xs => (welford (K := ℚ) xs).toC))
    = some (welford [1, 2, 4, 7]).toC := by decide +kernel

/-- The merged count is always the total number of positions, and NumPy's silent `0/0`
(NaN in every entry of the estimate) happens exactly when the first two chains are both
empty. -/
theorem merge_nan_iff (c0 : List (K × K)) (rest : List (List (K × K))) :
    ∃ acc, merge ((c0 :: rest).map welfordCov) = some acc ∧
      acc.iter = (c0 :: rest).flatten.length ∧
      (acc.nan = true ↔ c0 = [] ∧ rest.head? = some []) := by
  have hf := fold_mergeStep_statsOf rest c0 false
  have e : ({ statsOf c0 with nan := false } : CState K) = statsOf c0 := rfl
  rw [e] at hf
  refine ⟨_, by simp only [List.map_cons, merge, welfordCov_eq_statsOf c0]; rfl, ?_, ?_⟩
  · rw [hf]; simp [statsOf]
  · rw [hf]; simp [nanRest_eq]

example : ∃ acc, merge ([[], [], [(1, 1), (2, 2)]].map (welfordCov (K := ℚ))) = some acc ∧
    acc.nan = true := ⟨_, rfl, by decide +kernel⟩

/-- The merged statistics do not depend on how the positions are split into chains. -/
theorem partition_independent (cs cs' : List (List (K × K))) (hne : cs ≠ []) (hne' : cs' ≠ [])
    (h : cs.flatten = cs'.flatten) (hn : NoNaN cs) (hn' : NoNaN cs') :
    merge (cs.map welfordCov) = merge (cs'.map welfordCov) := by
  rcases cs with _ | ⟨c0, rest⟩
  · exact absurd rfl hne
  rcases cs' with _ | ⟨c0', rest'⟩
  · exact absurd rfl hne'
  rw [merge_eq_concat _ _ hn, merge_eq_concat _ _ hn', h]

example : merge ([[(1, 2)], [(2, 5), (4, 3), (7, 7)]].map (welfordCov (K := ℚ)))
    = merge ([[(1, 2), (2, 5), (4, 3)], [(7, 7)]].map welfordCov) := by decide +kernel

/-- The merged statistics do not depend on the order of the chains (nor on the order of the
positions inside the chains): any two chain lists holding the same multiset of positions
give the same count, means and centred sums. -/
theorem order_independent (cs cs' : List (List (K × K))) (hne : cs ≠ []) (hne' : cs' ≠ [])
    (h : cs.flatten.Perm cs'.flatten) (hn : NoNaN cs) (hn' : NoNaN cs') :
    merge (cs.map welfordCov) = merge (cs'.map welfordCov) := by
  rcases cs with _ | ⟨c0, rest⟩
  · exact absurd rfl hne
  rcases cs' with _ | ⟨c0', rest'⟩
  · exact absurd rfl hne'
  rw [merge_eq_concat _ _ hn, merge_eq_concat _ _ hn', welfordCov_eq_statsOf,
    welfordCov_eq_statsOf, statsOf_perm h]

/-- In particular for a permutation of the chains. -/
theorem chain_order_independent (cs cs' : List (List (K × K))) (hne : cs ≠ [])
    (h : cs.Perm cs') (hn : NoNaN cs) (hn' : NoNaN cs') :
    merge (cs.map welfordCov) = merge (cs'.map welfordCov) :=
  order_independent cs cs' hne (fun e => hne (by simpa [e] using h.length_eq)) h.flatten hn hn'

example : merge ([[(1, 2)], [(2, 5), (4, 3), (7, 7)]].map (welfordCov (K := ℚ)))
    = merge ([[(2, 5), (4, 3), (7, 7)], [(1, 2)]].map welfordCov) := by decide +kernel

end Merge

section Finalize
variable {K : Type} [Field K] [CharZero K]

omit [CharZero K] in
/-- `AdaptationError` is raised iff fewer than two positions were seen in total. -/
theorem finalize_error_iff (off : Nat) (scale : K) (diag : Bool) (acc : CState K) :
    ((∃ e, finalizeVar off scale acc = .error e) ↔ acc.iter < 2) ∧
    ((∃ e, finalizeCov off scale diag acc = .error e) ↔ acc.iter < 2) := by
  unfold finalizeVar finalizeCov
  by_cases h : acc.iter < 2 <;> simp [h]

example : finalizeVar 5 (1 : ℚ) (welford [3]).toC = .error .tooFewSamples := by decide +kernel

/-- The regularisation of the diagonal adapter is the documented convex combination
`var · n/(off+n) + scale · off/(off+n)` (and the identity for offset 0). -/
theorem regularizeVar_formula (off n : Nat) (scale v : K) (h : off + n ≠ 0) :
    regularizeVar off scale v n = (v * n + scale * off) / ((off : K) + n) ∧
    (n : K) / ((off : K) + n) + (off : K) / ((off : K) + n) = 1 := by
  have hK : ((off : K) + n) ≠ 0 := by exact_mod_cast (Nat.cast_ne_zero (R := K)).mpr h
  unfold regularizeVar
  constructor
  · by_cases h0 : off = 0
    · subst h0
      have hn : (n : K) ≠ 0 := by simpa using hK
      simp; field_simp
    · simp only [bne_iff_ne, ne_eq, h0, not_false_eq_true, if_true]
      push_cast; field_simp
  · field_simp; ring

example : regularizeVar 5 (1 / 1000 : ℚ) 7 4 = (7 * 4 + 1 / 1000 * 5) / 9 := by decide +kernel

/-- Covariance adapter: every entry is shrunk by `n/(off+n)`, only the diagonal gets the
`scale · off/(off+n)` term. -/
theorem regularizeCov_formula (off n : Nat) (scale v : K) (h : off + n ≠ 0) :
    regularizeCov off scale v n true = (v * n + scale * off) / ((off : K) + n) ∧
    regularizeCov off scale v n false = v * n / ((off : K) + n) := by
  have hK : ((off : K) + n) ≠ 0 := by exact_mod_cast (Nat.cast_ne_zero (R := K)).mpr h
  unfold regularizeCov
  constructor
  · simp only [if_true]; push_cast; field_simp
  · simp only [Bool.false_eq_true, if_false]; push_cast; field_simp

/-- **Diagonal adapter, end to end**: for every split of the positions into chains (no `0/0`,
at least 2 positions in total) the metric entry is the *inverse* of the regularised pooled
sample variance `Σ(x − x̄)²/(n − 1)` of all positions. -/
theorem varianceAdapter_eq (off : Nat) (scale : K) (c0 : List K) (rest : List (List K))
    (hn : NoNaN (c0 :: rest)) (h2 : 2 ≤ (c0 :: rest).flatten.length) :
    varianceAdapter off scale (c0 :: rest) =
      .ok (1 / regularizeVar off scale
            (bM2 (c0 :: rest).flatten / (((c0 :: rest).flatten.length - 1 : Nat) : K))
            (c0 :: rest).flatten.length) := by
  obtain ⟨h0, _, h3⟩ := welford_eq_batch (c0 :: rest).flatten
  unfold varianceAdapter
  rw [merge_eq_concat_var c0 rest hn]
  simp only [finalizeVar, WState.toC, h0, h3]
  rw [if_neg (by omega)]; rfl

example : varianceAdapter 5 (1 / 1000 : ℚ) [[1], [2, 4, 7]] = .ok (600 / 1867) := by decide +kernel

/-- Fewer than two positions in total: `AdaptationError`, whatever the split. -/
theorem varianceAdapter_error (off : Nat) (scale : K) (c0 : List K) (rest : List (List K))
    (h2 : (c0 :: rest).flatten.length < 2) :
    varianceAdapter off scale (c0 :: rest) = .error .tooFewSamples := by
  obtain ⟨acc, hm, hi, _⟩ := merge_nan_iff (c0.map (fun x => (x, x)))
    (rest.map (fun xs => xs.map (fun x => (x, x))))
  have hmap : (c0 :: rest).map (fun xs => (welford xs).toC)
      = ((c0.map (fun x => (x, x))) :: rest.map (fun xs => xs.map (fun x => (x, x)))).map
          welfordCov := by
    simp only [List.map_cons, List.map_map, welford_toC]
    congr 1
  unfold varianceAdapter
  rw [hmap, hm]
  have hlen : acc.iter < 2 := by
    rw [hi]
    have : ((c0.map (fun x => (x, x))) :: rest.map (fun xs => xs.map (fun x => (x, x)))).flatten
        = ((c0 :: rest).flatten).map (fun x => (x, x)) := by
      simp [List.map_flatten]
    rw [this, List.length_map]; exact h2
  simp [finalizeVar, hlen, Except.map]

example : varianceAdapter 5 (1 / 1000 : ℚ) [[], [3], []] = .error .tooFewSamples := by decide +kernel

/-- **Covariance adapter, end to end**, entry `(a,b)` (`diag = (a = b)`): the regularised
pooled sample covariance `Σ(x_a − x̄_a)(x_b − x̄_b)/(n − 1)`; the metric is its matrix
inverse (checked by the driver: `cov * X = 1` decided over ℚ for every case). -/
theorem covarianceEntry_eq (off : Nat) (scale : K) (diag : Bool) (c0 : List (K × K))
    (rest : List (List (K × K))) (hn : NoNaN (c0 :: rest))
    (h2 : 2 ≤ (c0 :: rest).flatten.length) :
    covarianceEntry off scale diag (c0 :: rest) =
      .ok (regularizeCov off scale
            (bCov (c0 :: rest).flatten / (((c0 :: rest).flatten.length - 1 : Nat) : K))
            (c0 :: rest).flatten.length diag) := by
  obtain ⟨h0, _, _, h3, _⟩ := welfordCov_eq_batch (c0 :: rest).flatten
  unfold covarianceEntry
  rw [merge_eq_concat c0 rest hn]
  simp only [finalizeCov, h0, h3]
  rw [if_neg (by omega)]

example : covarianceEntry 5 (1 / 1000 : ℚ) false [[(1, 2)], [(2, 5), (4, 3), (7, 7)]]
    = .ok 2 := by decide +kernel

omit [CharZero K] in
/-- The metric is the inverse of the variance estimate (`PositiveDiagonalMatrix(var).inv`). -/
theorem metric_is_inverse (v : K) (hv : v ≠ 0) : metricDiag v * v = 1 := by
  unfold metricDiag; field_simp

/-- Every chain gets a fresh momentum drawn with its own generator under the new metric. -/
theorem momenta_refreshed {Met St Rng Mom : Type} (sample : Met → St → Rng → Mom) (m : Met)
    (chains : List (St × Rng)) :
    (refreshMomenta sample m chains).length = chains.length ∧
    ∀ i (h : i < chains.length),
      (refreshMomenta sample m chains)[i]? = some (sample m chains[i].1 chains[i].2) := by
  refine ⟨by simp [refreshMomenta], ?_⟩
  intro i h
  simp [refreshMomenta, h]

end Finalize

section Positivity
variable {K : Type} [Field K] [LinearOrder K] [IsStrictOrderedRing K]

/-- The centred sum of squares is non-negative, so with a positive offset and scale the
regularised variance is strictly positive: the metric entry `1/var` is well defined and
positive for *every* history (even a constant one). -/
theorem regularized_var_pos (off n : Nat) (scale : K) (xs : List K) (hoff : 0 < off)
    (hscale : 0 < scale) (hn : 2 ≤ n) :
    0 ≤ bM2 xs ∧ 0 < regularizeVar off scale (bM2 xs / ((n - 1 : Nat) : K)) n ∧
    0 < metricDiag (regularizeVar off scale (bM2 xs / ((n - 1 : Nat) : K)) n) := by
  have h0 : 0 ≤ bM2 xs := by
    unfold bM2
    apply List.sum_nonneg
    intro x hx
    obtain ⟨y, _, rfl⟩ := List.mem_map.mp hx
    positivity
  have hn1 : (0 : K) < ((n - 1 : Nat) : K) := by exact_mod_cast (by omega : 0 < n - 1)
  have hv : 0 ≤ bM2 xs / ((n - 1 : Nat) : K) := div_nonneg h0 hn1.le
  have hoffK : (0 : K) < (off : K) := by exact_mod_cast hoff
  have hsum : (0 : K) < ((off + n : Nat) : K) := by exact_mod_cast (by omega : 0 < off + n)
  have hpos : 0 < regularizeVar off scale (bM2 xs / ((n - 1 : Nat) : K)) n := by
    unfold regularizeVar
    have : (off != 0) = true := by simp; omega
    simp only [this, if_true]
    have h1 : 0 ≤ bM2 xs / ((n - 1 : Nat) : K) * ((n : K) / ((off + n : Nat) : K)) :=
      mul_nonneg hv (div_nonneg (by exact_mod_cast Nat.zero_le n) hsum.le)
    have h2 : 0 < scale * ((off : K) / ((off + n : Nat) : K)) :=
      mul_pos hscale (div_pos hoffK hsum)
    linarith
  exact ⟨h0, hpos, by unfold metricDiag; positivity⟩

example : 0 < metricDiag (regularizeVar 5 (1 / 1000 : ℚ) (bM2 [3, 3, 3] / ((3 - 1 : Nat) : ℚ)) 3) :=
  (regularized_var_pos 5 3 (1 / 1000 : ℚ) [3, 3, 3] (by decide) (by norm_num) (by decide)).2.2

end Positivity

section DualAveraging
variable {K : Type} [Field K]

/-- The error recursion of `update`: `H_m (t₀+m) = H_{m−1} (t₀+m−1) + (δ − α_m)`. -/
theorem da_error_recursion (P : DAParams K) (s : DAState K) (a : K)
    (h : P.iterOffset + ((s.iter + 1 : Nat) : K) ≠ 0) :
    (s.update P a).1.iter = s.iter + 1 ∧
    (s.update P a).1.err * (P.iterOffset + ((s.iter + 1 : Nat) : K))
      = s.err * (P.iterOffset + (s.iter : K)) + (P.target - a) := by
  refine ⟨rfl, ?_⟩
  simp only [DAState.update]
  push_cast at h ⊢
  field_simp
  ring

example : ((⟨3, 0, 1 / 2, 0⟩ : DAState ℚ).update ⟨4 / 5, 1 / 20, 10, fun _ => 1, fun _ => 1, id⟩
    (1 / 4)).1.err * (10 + 4) = 1 / 2 * (10 + 3) + (4 / 5 - 1 / 4) := by decide +kernel

private theorem run_cons (P : DAParams K) (s : DAState K) (a : K) (as : List K) :
    s.run P (a :: as) = (s.update P a).1.run P as := rfl

/-- **Closed form of the adaptation-statistic error**: after the statistics `α₁ … α_m`
(from any state; `initialize` gives `iter = 0`, `err = 0`),
`adapt_stat_error · (t₀ + iter) = err₀ · (t₀ + iter₀) + Σ_k (δ − α_k)`. -/
theorem da_error_closed_form (P : DAParams K) (as : List K) : ∀ (s : DAState K),
    (∀ k, 1 ≤ k → k ≤ as.length → P.iterOffset + ((s.iter + k : Nat) : K) ≠ 0) →
    (s.run P as).iter = s.iter + as.length ∧ (s.run P as).regTarget = s.regTarget ∧
    (s.run P as).err * (P.iterOffset + ((s.iter + as.length : Nat) : K))
      = s.err * (P.iterOffset + (s.iter : K)) + (as.map (fun a => P.target - a)).sum := by
  induction as with
  | nil => intro s _; simp [DAState.run]
  | cons a as ih =>
    intro s h
    obtain ⟨r1, r2⟩ := da_error_recursion P s a (h 1 (le_refl _) (by simp))
    obtain ⟨i1, i2, i3⟩ := ih (s.update P a).1 (by
      intro k hk1 hk2
      rw [r1]
      have := h (k + 1) (by omega) (by simp; omega)
      rwa [show s.iter + (k + 1) = s.iter + 1 + k by omega] at this)
    rw [run_cons]
    refine ⟨by rw [i1, r1]; simp; omega, by rw [i2]; rfl, ?_⟩
    rw [r1] at i3
    rw [show s.iter + (a :: as).length = s.iter + 1 + as.length by simp; omega, i3, r2]
    simp only [List.map_cons, List.sum_cons]
    ring

/-- From the initial state: `adapt_stat_error_m = Σ_{k≤m} (δ − α_k) / (t₀ + m)`. -/
theorem da_error_from_init (P : DAParams K) (as : List K) (rt : Option K) (l : K)
    (h : ∀ k, 1 ≤ k → k ≤ as.length → P.iterOffset + (k : K) ≠ 0) (hm : as ≠ []) :
    ((DAState.init rt l).run P as).err
      = (as.map (fun a => P.target - a)).sum / (P.iterOffset + (as.length : K)) := by
  obtain ⟨_, _, h3⟩ := da_error_closed_form P as (DAState.init rt l)
    (by intro k h1 h2; simpa [DAState.init] using h k h1 h2)
  have hne : P.iterOffset + (as.length : K) ≠ 0 :=
    h as.length (by rcases as with _ | ⟨a, as⟩; exact absurd rfl hm; simp) (le_refl _)
  simp only [DAState.init, zero_mul, zero_add] at h3
  rw [eq_div_iff hne]; exact h3

example : ((DAState.init none (0 : ℚ)).run ⟨4 / 5, 1 / 20, 10, fun _ => 1, fun _ => 1, id⟩
    [1, 1 / 2, 0]).err = ((4 / 5 - 1) + (4 / 5 - 1 / 2) + (4 / 5 - 0)) / (10 + 3) := by
  decide +kernel

/-- Coefficients of the smoothed iterate: for smoothing weights `w₁ … w_m` the pair
(weight of the initial value `Π (1 − w_k)`, weights of `log_step_size₁ … _m`). -/
private def coef : List K → K × List K
  | [] => (1, [])
  | w :: ws => ((coef ws).1 * (1 - w), (coef ws).1 * w :: (coef ws).2)

private theorem logSteps_cons (P : DAParams K) (s : DAState K) (a : K) (as : List K) :
    DAState.logSteps P s (a :: as) =
      P.logStep (s.update P a).1.regTarget (s.update P a).1.err (s.update P a).1.iter ::
        DAState.logSteps P (s.update P a).1 as := rfl

/-- The weights used by the successive updates starting at iteration `i`. -/
private def wts (P : DAParams K) (i n : Nat) : List K :=
  (List.range n).map (fun k => P.smoothW (i + k + 1))

omit [Field K] in
private theorem wts_succ (P : DAParams K) (i n : Nat) :
    wts P i (n + 1) = P.smoothW (i + 1) :: wts P (i + 1) n := by
  simp only [wts, List.range_succ_eq_map, List.map_cons, List.map_map]
  congr 1
  apply List.map_congr_left
  intro k _
  simp only [Function.comp]
  congr 1; omega

/-- **`smoothed_log_step_size` is an affine combination of the initial value and the
`log_step_size`s**, with the explicit coefficients `c₀ = Π(1−w_k)`,
`c_k = w_k Π_{j>k}(1−w_j)` (`w_k = (1/k)^κ`); the coefficients sum to 1. -/
theorem da_smoothed_combination (P : DAParams K) (as : List K) : ∀ (s : DAState K),
    ∃ c0 : K, ∃ cs : List K, cs.length = as.length ∧ c0 + cs.sum = 1 ∧
      (P.smoothW (s.iter + 1) = 1 → as ≠ [] → c0 = 0) ∧
      (s.run P as).smoothed
        = c0 * s.smoothed + (List.zipWith (· * ·) cs (DAState.logSteps P s as)).sum := by
  suffices H : ∀ (s : DAState K),
      (coef (wts P s.iter as.length)).2.length = as.length ∧
      (coef (wts P s.iter as.length)).1 + (coef (wts P s.iter as.length)).2.sum = 1 ∧
      (P.smoothW (s.iter + 1) = 1 → as ≠ [] → (coef (wts P s.iter as.length)).1 = 0) ∧
      (s.run P as).smoothed = (coef (wts P s.iter as.length)).1 * s.smoothed +
        (List.zipWith (· * ·) (coef (wts P s.iter as.length)).2 (DAState.logSteps P s as)).sum
    from fun s => ⟨_, _, H s⟩
  induction as with
  | nil => intro s; simp [wts, coef, DAState.run, DAState.logSteps]
  | cons a as ih =>
    intro s
    obtain ⟨h1, h2, _, h4⟩ := ih (s.update P a).1
    have hi : (s.update P a).1.iter = s.iter + 1 := rfl
    rw [hi] at h1 h2 h4
    simp only [List.length_cons, wts_succ, coef, run_cons, logSteps_cons, List.zipWith_cons_cons,
      List.sum_cons]
    refine ⟨by simp [h1], ?_, fun hw _ => by rw [hw]; ring, ?_⟩
    · rw [show ∀ x w y : K, x * (1 - w) + (x * w + y) = x + y from fun _ _ _ => by ring]
      exact h2
    · rw [h4]
      simp only [DAState.update]
      ring

/-- With weights in `[0,1]` all coefficients are non-negative (a convex combination), and
since the first weight `(1/1)^κ` is 1, the arbitrary initial value `0.0` is forgotten after
the first update: `smoothed` lies between the smallest and largest `log_step_size` tried. -/
theorem da_smoothed_in_hull [LinearOrder K] [IsStrictOrderedRing K] (P : DAParams K)
    (hw : ∀ k, 0 ≤ P.smoothW k ∧ P.smoothW k ≤ 1) (as : List K) (lo hi : K) :
    ∀ (s : DAState K), (P.smoothW (s.iter + 1) = 1 ∨ (lo ≤ s.smoothed ∧ s.smoothed ≤ hi)) →
      as ≠ [] → (∀ l ∈ DAState.logSteps P s as, lo ≤ l ∧ l ≤ hi) →
      lo ≤ (s.run P as).smoothed ∧ (s.run P as).smoothed ≤ hi := by
  induction as with
  | nil => intro s _ h; exact absurd rfl h
  | cons a as ih =>
    intro s h0 _ hl
    rw [logSteps_cons] at hl
    obtain ⟨l1, l2⟩ := hl _ (List.mem_cons_self)
    obtain ⟨w0, w1⟩ := hw (s.iter + 1)
    have hs : lo ≤ (s.update P a).1.smoothed ∧ (s.update P a).1.smoothed ≤ hi := by
      simp only [DAState.update] at l1 l2 ⊢
      rcases h0 with h0 | ⟨a0, a1⟩
      · rw [h0]; constructor <;> nlinarith
      · constructor <;> nlinarith
    rw [run_cons]
    by_cases has : as = []
    · subst has; simpa [DAState.run] using hs
    · exact ih _ (Or.inr hs) has (fun l hl' => hl l (List.mem_cons_of_mem _ hl'))

example : ∀ k : Nat, (0 : ℚ) ≤ (fun k => 1 / (k : ℚ)) k ∧ (fun k => 1 / (k : ℚ)) k ≤ 1 := by
  intro k
  rcases k with _ | k
  · simp
  · have : (1 : ℚ) ≤ ((k + 1 : Nat) : ℚ) := by exact_mod_cast Nat.succ_le_succ (Nat.zero_le k)
    exact ⟨by positivity, by rw [div_le_one (by positivity)]; exact this⟩

/-- Every step size set by `update` is `exp(log_step_size)`, hence positive. -/
theorem da_step_sizes_pos [LinearOrder K] (P : DAParams K) (hexp : ∀ x, 0 < P.exp x)
    (as : List K) : ∀ (s : DAState K),
    DAState.stepSizes P s as = (DAState.logSteps P s as).map P.exp ∧
    ∀ x ∈ DAState.stepSizes P s as, 0 < x := by
  induction as with
  | nil => intro s; simp [DAState.stepSizes, DAState.logSteps]
  | cons a as ih =>
    intro s
    obtain ⟨i1, i2⟩ := ih (s.update P a).1
    refine ⟨?_, ?_⟩
    · simp only [DAState.stepSizes, logSteps_cons, List.map_cons, i1]; rfl
    · intro x hx
      simp only [DAState.stepSizes, List.mem_cons] at hx
      rcases hx with rfl | hx
      · exact hexp _
      · exact i2 x hx

/-- `finalize`: one chain (a dict) gives `exp(smoothed_log_step_size)`; a list of chains gives
the reducer applied to the per-chain smoothed values, and for a single-element list each
of the three reducers of the module agrees with the dict case. -/
theorem da_finalize (exp : K → K) (reducer : List K → K) (s : DAState K) (l : List (DAState K)) :
    daFinalize exp reducer (.inl s) = exp s.smoothed ∧
    daFinalize exp reducer (.inr l) = reducer (l.map (·.smoothed)) ∧
    daFinalize exp (arithMeanReducer exp) (.inr [s]) = exp s.smoothed ∧
    daFinalize exp (geomMeanReducer exp) (.inr [s]) = exp s.smoothed := by
  refine ⟨rfl, rfl, ?_, ?_⟩
  · simp [daFinalize, arithMeanReducer]
  · simp [daFinalize, geomMeanReducer]

/-- The arithmetic and geometric reducers are the documented means. -/
theorem da_reducers (exp : K → K) (ls : List K) :
    arithMeanReducer exp ls = (ls.map exp).sum / (ls.length : K) ∧
    geomMeanReducer exp ls = exp (ls.sum / (ls.length : K)) := by
  have h : ∀ (l : List K), l.foldl (· + ·) 0 = l.sum := by
    intro l
    rw [List.sum_eq_foldl]
  simp [arithMeanReducer, geomMeanReducer, h]

end DualAveraging

section Search
variable {K : Type} [LinearOrder K]

/-- **The initial search returns a crossing of the threshold `log 2`.**  If the search
returns step size `2^r`, then either `2^r` is not too big while `2^(r+1)` is (too big =
`|Δh| > thr`, NaN, or a failed integrator step), or the step at `2^r` succeeded with
`|Δh| > thr` while `2^(r−1)` is not too big. -/
theorem search_crossing (hInitNaN : Bool) (maxIters : Nat) (dH : Int → Outcome K) (thr : K)
    (r : Int) (h : findInitStepSize hInitNaN maxIters dH thr = .ok r) :
    (tb dH thr r = false ∧ tb dH thr (r + 1) = true) ∨
    (tb dH thr (r - 1) = false ∧ (dH r = .inf ∨ ∃ q, dH r = .val q ∧ thr < q)) := by
  unfold findInitStepSize at h
  cases hInitNaN with
  | true => simp at h
  | false =>
    simp only [Bool.false_eq_true, if_false] at h
    rcases maxIters with _ | fuel
    · simp [searchLoop] at h
    rw [search_first] at h
    by_cases h0 : tb dH thr 0 = true
    · rw [if_pos h0] at h
      obtain ⟨a, b, c⟩ := (search_down dH thr fuel (-1)).1 r h
      left
      refine ⟨b, ?_⟩
      by_cases hr : r = -1
      · subst hr; simpa using h0
      · exact c (r + 1) (by omega) (by omega)
    · rw [if_neg h0] at h
      have h0' : tb dH thr (1 - 1) = false := by simpa using h0
      rcases (search_up dH thr fuel 1 h0').1 r h with ⟨a, b, c⟩ | ⟨a, b, c⟩
      · right; exact ⟨c (r - 1) (by omega) (by omega), b⟩
      · left; exact ⟨c r (by omega) (Int.le_refl _), b⟩

example : findInitStepSize false 10
    (fun e => if e ≥ -2 then Outcome.val (3 : ℚ) else .val (1 / 2)) (7 / 10) = .ok (-3) := by
  decide +kernel

/-- It is the *first* crossing in the direction fixed by the first step: all exponents
strictly between 0 and the result are classified like exponent 0. -/
theorem search_first_crossing (hInitNaN : Bool) (maxIters : Nat) (dH : Int → Outcome K)
    (thr : K) (r : Int) (h : findInitStepSize hInitNaN maxIters dH thr = .ok r) :
    (tb dH thr 0 = true → r < 0 ∧ ∀ j, r < j → j ≤ 0 → tb dH thr j = true) ∧
    (tb dH thr 0 = false → 0 ≤ r ∧ ∀ j, 0 ≤ j → j < r → tb dH thr j = false) := by
  unfold findInitStepSize at h
  cases hInitNaN with
  | true => simp at h
  | false =>
    simp only [Bool.false_eq_true, if_false] at h
    rcases maxIters with _ | fuel
    · simp [searchLoop] at h
    rw [search_first] at h
    constructor
    · intro h0
      rw [if_pos h0] at h
      obtain ⟨a, b, c⟩ := (search_down dH thr fuel (-1)).1 r h
      refine ⟨by omega, fun j h1 h2 => ?_⟩
      by_cases hj : j = 0
      · subst hj; exact h0
      · exact c j h1 (by omega)
    · intro h0
      rw [if_neg (by simp [h0])] at h
      have h0' : tb dH thr (1 - 1) = false := by simpa using h0
      rcases (search_up dH thr fuel 1 h0').1 r h with ⟨a, b, c⟩ | ⟨a, b, c⟩
      · exact ⟨by omega, fun j h1 h2 => c j (by omega) h2⟩
      · exact ⟨by omega, fun j h1 h2 => c j (by omega) (by omega)⟩

/-- `AdaptationError`: either the initial Hamiltonian is NaN, or no crossing exists within
the exponents the `maxIters` iterations can reach. -/
theorem search_error (hInitNaN : Bool) (maxIters : Nat) (dH : Int → Outcome K) (thr : K)
    (er : AdaptErr) (h : findInitStepSize hInitNaN maxIters dH thr = .error er) :
    (er = .hInitNaN ∧ hInitNaN = true) ∨
    (er = .noInitStepSize ∧ hInitNaN = false ∧
      ((∀ j : Int, -(maxIters : Int) < j → j ≤ 0 → tb dH thr j = true) ∨
       (∀ j : Int, 0 ≤ j → j < (maxIters : Int) - 1 → tb dH thr j = false))) := by
  unfold findInitStepSize at h
  cases hInitNaN with
  | true => left; simp at h; exact ⟨h.symm, rfl⟩
  | false =>
    right
    simp only [Bool.false_eq_true, if_false] at h
    rcases maxIters with _ | fuel
    · simp only [searchLoop, Except.error.injEq] at h
      exact ⟨h.symm, rfl, Or.inl (fun j h1 h2 => by simp at h1; omega)⟩
    rw [search_first] at h
    by_cases h0 : tb dH thr 0 = true
    · rw [if_pos h0] at h
      obtain ⟨a, c⟩ := (search_down dH thr fuel (-1)).2 er h
      refine ⟨a, rfl, Or.inl (fun j h1 h2 => ?_)⟩
      by_cases hj : j = 0
      · subst hj; exact h0
      · exact c j (by push_cast at h1; omega) (by omega)
    · rw [if_neg h0] at h
      have h0' : tb dH thr (1 - 1) = false := by simpa using h0
      obtain ⟨a, c⟩ := (search_up dH thr fuel 1 h0').2 er h
      exact ⟨a, rfl, Or.inr (fun j h1 h2 => c j (by omega) (by push_cast at h2; omega))⟩

example : findInitStepSize false 5 (fun _ => Outcome.val (3 : ℚ)) (7 / 10)
    = .error .noInitStepSize := by decide +kernel

/-- Conversely the search succeeds whenever a crossing is within reach: exponent 0 too big
and some `2^(−k)`, `k < maxIters`, not too big; or exponent 0 not too big and some `2^k`,
`k + 1 < maxIters`, too big. -/
theorem search_succeeds (maxIters : Nat) (dH : Int → Outcome K) (thr : K) (k : Nat) (hk : 1 ≤ k)
    (h : (tb dH thr 0 = true ∧ k < maxIters ∧ tb dH thr (-(k : Int)) = false) ∨
         (tb dH thr 0 = false ∧ k + 1 < maxIters ∧ tb dH thr (k : Int) = true)) :
    ∃ r, findInitStepSize false maxIters dH thr = .ok r := by
  cases hres : findInitStepSize false maxIters dH thr with
  | ok r => exact ⟨r, rfl⟩
  | error er =>
    exfalso
    rcases search_error false maxIters dH thr er hres with ⟨_, hh⟩ | ⟨_, _, hd | hu⟩
    · exact Bool.false_ne_true hh
    · rcases h with ⟨h0, hk', hf⟩ | ⟨h0, hk', _⟩
      · have := hd (-(k : Int)) (by omega) (by omega)
        rw [hf] at this; exact Bool.false_ne_true this
      · have := hd 0 (by omega) (Int.le_refl _)
        rw [h0] at this; exact Bool.false_ne_true this
    · rcases h with ⟨h0, hk', _⟩ | ⟨h0, hk', hf⟩
      · have := hu 0 (Int.le_refl _) (by omega)
        rw [h0] at this; exact Bool.false_ne_true this.symm
      · have := hu (k : Int) (by omega) (by omega)
        rw [hf] at this; exact Bool.false_ne_true this.symm

example : ∃ r, findInitStepSize false 4
    (fun e => if e ≥ 2 then Outcome.err else .val (1 / 2 : ℚ)) (7 / 10) = .ok r :=
  search_succeeds 4 _ _ 2 (by decide) (Or.inr (by decide +kernel))

end Search

section RealInstance

/-- The functions the implementation really applies, `math.exp` and `(1/iter)**kappa` with
`kappa ≥ 0`, satisfy the hypotheses used above: weights in `[0,1]`, first weight 1, `exp > 0`. -/
theorem real_functions_ok (κ : ℝ) (hκ : 0 ≤ κ) :
    (∀ k : Nat, 0 ≤ (1 / (k : ℝ)) ^ κ ∧ (1 / (k : ℝ)) ^ κ ≤ 1) ∧
    (1 / ((0 + 1 : Nat) : ℝ)) ^ κ = 1 ∧ ∀ x : ℝ, 0 < Real.exp x := by
  refine ⟨fun k => ?_, by simp, Real.exp_pos⟩
  have h0 : (0 : ℝ) ≤ 1 / (k : ℝ) := by positivity
  have h1 : 1 / (k : ℝ) ≤ 1 := by
    rcases k with _ | k
    · simp
    · rw [div_le_one (by positivity)]
      exact_mod_cast Nat.succ_le_succ (Nat.zero_le k)
  exact ⟨Real.rpow_nonneg h0 κ, Real.rpow_le_one h0 h1 hκ⟩

/-- Dual averaging over ℝ with the real `exp`, `sqrt` and `(1/iter)^κ`: after any non-empty
sequence of statistics from the initial state, every step size tried is positive and the
smoothed iterate — whose exponential `finalize` installs — lies between the smallest and the
largest `log_step_size` tried. -/
theorem da_real (target regCoeff iterOffset κ : ℝ) (hκ : 0 ≤ κ) (rt : Option ℝ) (l : ℝ)
    (as : List ℝ) (has : as ≠ []) (lo hi : ℝ) :
    let P : DAParams ℝ := ⟨target, regCoeff, iterOffset, fun k => Real.sqrt k,
      fun k => (1 / (k : ℝ)) ^ κ, Real.exp⟩
    (∀ x ∈ DAState.stepSizes P (DAState.init rt l) as, 0 < x) ∧
    ((∀ x ∈ DAState.logSteps P (DAState.init rt l) as, lo ≤ x ∧ x ≤ hi) →
      lo ≤ ((DAState.init rt l).run P as).smoothed ∧
      ((DAState.init rt l).run P as).smoothed ≤ hi) := by
  intro P
  obtain ⟨hw, h1, hexp⟩ := real_functions_ok κ hκ
  refine ⟨(da_step_sizes_pos P hexp as _).2, fun hl => ?_⟩
  exact da_smoothed_in_hull P hw as lo hi (DAState.init rt l) (Or.inl h1) has hl

example : (0 : ℝ) < Real.exp (-3) := (real_functions_ok (3 / 4) (by norm_num)).2.2 _

end RealInstance

end MiciVerif.C17
