/-
C17 — Adapters compute the estimators they document, for any history.

Property theorems only.  `K` is any field of characteristic 0 (ordered where an order is
mentioned): the statements hold in ℝ and are executed at `K = ℚ` by the driver.

Model: `MiciVerif/Model/Adapters.lean` (line-by-line mirror of `mici/adapters.py`),
batch estimators `bmean`, `bM2`, `bCov` and helper algebra: `MiciVerif/Lemmas/Adapters.lean`.
A NumPy vector / matrix update is the scalar recursion applied to each component / each
ordered pair of components (validated entry by entry by the correspondence check).
-/
import MiciVerif.Lemmas.Adapters
import MiciVerif.Lemmas.AdaptersSearch

namespace MiciVerif.C17
open MiciVerif.Adapters

section Welford
variable {K : Type} [Field K] [CharZero K]

/-- Welford's recursion for one pair of components `(a,b)` of the position: after *any*
list of positions the state holds the count, both sample means and the centred sum of
products `Σ (x_a − x̄_a)(x_b − x̄_b)` of everything seen (also for the empty list: all 0). -/
theorem welfordCov_eq_batch (ps : List (K × K)) :
    (welfordCov ps).iter = ps.length ∧
    (welfordCov ps).meanA = bmean (ps.map Prod.fst) ∧
    (welfordCov ps).meanB = bmean (ps.map Prod.snd) ∧
    (welfordCov ps).c = bCov ps ∧ (welfordCov ps).nan = false := by
  rw [welfordCov_eq_statsOf, bCov_eq]
  simp [statsOf, bmean, S1, S2]

example : (welfordCov ([(1, 2), (2, 5), (4, 3), (7, 7)] : List (ℚ × ℚ))).c = 21 / 2 := by decide

/-- Diagonal adapter: after folding any list `xs`, `iter = n`, `mean = (Σx)/n`,
`sum_diff_sq = Σ (x − mean)²`. -/
theorem welford_eq_batch (xs : List K) :
    (welford xs).iter = xs.length ∧ (welford xs).mean = bmean xs ∧ (welford xs).m2 = bM2 xs := by
  have h := welford_toC xs
  obtain ⟨h0, h1, _, h3, _⟩ := welfordCov_eq_batch (xs.map (fun x => (x, x)))
  rw [← h] at h0 h1 h3
  refine ⟨by simpa [WState.toC] using h0, ?_, ?_⟩
  · simpa [WState.toC, List.map_map, Function.comp_def] using h1
  · rw [bM2_eq_bCov]; simpa [WState.toC] using h3

example : (welford ([1, 2, 4, 7] : List ℚ)).m2 = 21 ∧ bM2 ([1, 2, 4, 7] : List ℚ) = 21 := by
  decide

/-- The covariance recursion, although written asymmetrically
(`old deviation of b × new deviation of a`), produces a symmetric matrix. -/
theorem welfordCov_symm (ps : List (K × K)) :
    (welfordCov (ps.map Prod.swap)).c = (welfordCov ps).c := by
  rw [welfordCov_eq_statsOf, welfordCov_eq_statsOf]
  simp [statsOf, S1, S2, S12, List.map_map, Function.comp_def, mul_comm]

example : (welfordCov ([(1, 2), (2, 5), (4, 3)] : List (ℚ × ℚ))).c
    = (welfordCov ([(2, 1), (5, 2), (3, 4)] : List (ℚ × ℚ))).c := by decide

end Welford

section Merge
variable {K : Type} [Field K] [CharZero K]

/-- **Chan / Schubert–Gertz merge = statistics of the concatenation.**  For any split of the
data into chains `c0 :: rest` (any lengths, also empty chains, as long as the first two
chains are not both empty — see `merge_nan_iff`), the accumulators after the loop over
`adapt_states` equal the Welford state of a single chain that saw all positions in order. -/
theorem merge_eq_concat (c0 : List (K × K)) (rest : List (List (K × K)))
    (h : NoNaN (c0 :: rest)) :
    merge ((c0 :: rest).map welfordCov) = some (welfordCov (c0 :: rest).flatten) := by
  have hf := fold_mergeStep_statsOf rest c0 false
  have hn : nanRest c0 rest = false := by
    rw [Bool.eq_false_iff]; intro hh
    exact (noNaN_iff c0 rest).mp h ((nanRest_eq c0 rest).mp hh)
  simp only [List.map_cons, merge, List.flatten_cons, welfordCov_eq_statsOf c0]
  have e : ({ statsOf c0 with nan := false } : CState K) = statsOf c0 := rfl
  rw [e] at hf
  rw [hf, welfordCov_eq_statsOf, hn]; rfl

example : merge ([[(1, 1)], [], [(2, 2), (4, 4), (7, 7)]].map (welfordCov (K := ℚ)))
    = some (welfordCov [(1, 1), (2, 2), (4, 4), (7, 7)]) := by decide

/-- Diagonal adapter version of `merge_eq_concat`. -/
theorem merge_eq_concat_var (c0 : List K) (rest : List (List K)) (h : NoNaN (c0 :: rest)) :
    merge ((c0 :: rest).map (fun xs => (welford xs).toC))
      = some (welford (c0 :: rest).flatten).toC := by
  have hm : (c0 :: rest).map (fun xs => (welford xs).toC)
      = ((c0 :: rest).map (fun xs => xs.map (fun x => (x, x)))).map welfordCov := by
    simp only [List.map_map]; apply List.map_congr_left; intro xs _; exact welford_toC xs
  have h' : NoNaN ((c0 :: rest).map (fun xs => xs.map (fun x => (x, x)))) := by
    rcases rest with _ | ⟨c1, rest⟩
    · trivial
    · simpa [NoNaN] using h
  rw [hm, List.map_cons, merge_eq_concat _ _ (by simpa using h'), welford_toC]
  simp [List.map_flatten]

example : merge ([[1], [2, 4, 7]].map (fun xs => (welford (K := ℚ) xs).toC))
    = some (welford [1, 2, 4, 7]).toC := by decide

/-- The merged count is always the total number of positions, and NumPy's silent `0/0`
(NaN in every entry of the estimate) happens exactly when the first two chains are both
empty. -/
theorem merge_nan_iff (c0 : List (K × K)) (rest : List (List (K × K))) :
    ∃ acc, merge ((c0 :: rest).map welfordCov) = some acc ∧
      acc.iter = (c0 :: rest).flatten.length ∧
      (acc.nan = true ↔ c0 = [] ∧ rest.head? = some []) := by
  have hf := fold_mergeStep_statsOf rest c0 false
  have e : ({ statsOf c0 with nan := false } : CState K) = statsOf c0 := rfl
  rw [e] at hf
  refine ⟨_, by simp only [List.map_cons, merge, welfordCov_eq_statsOf c0]; rfl, ?_, ?_⟩
  · rw [hf]; simp [statsOf]
  · rw [hf]; simp [nanRest_eq]

example : ∃ acc, merge ([[], [], [(1, 1), (2, 2)]].map (welfordCov (K := ℚ))) = some acc ∧
    acc.nan = true := ⟨_, rfl, by decide⟩

/-- The merged statistics do not depend on how the positions are split into chains. -/
theorem partition_independent (cs cs' : List (List (K × K))) (hne : cs ≠ []) (hne' : cs' ≠ [])
    (h : cs.flatten = cs'.flatten) (hn : NoNaN cs) (hn' : NoNaN cs') :
    merge (cs.map welfordCov) = merge (cs'.map welfordCov) := by
  rcases cs with _ | ⟨c0, rest⟩
  · exact absurd rfl hne
  rcases cs' with _ | ⟨c0', rest'⟩
  · exact absurd rfl hne'
  rw [merge_eq_concat _ _ hn, merge_eq_concat _ _ hn', h]

example : merge ([[(1, 2)], [(2, 5), (4, 3), (7, 7)]].map (welfordCov (K := ℚ)))
    = merge ([[(1, 2), (2, 5), (4, 3)], [(7, 7)]].map welfordCov) := by decide

/-- The merged statistics do not depend on the order of the chains (nor on the order of the
positions inside the chains): any two chain lists holding the same multiset of positions
give the same count, means and centred sums. -/
theorem order_independent (cs cs' : List (List (K × K))) (hne : cs ≠ []) (hne' : cs' ≠ [])
    (h : cs.flatten.Perm cs'.flatten) (hn : NoNaN cs) (hn' : NoNaN cs') :
    merge (cs.map welfordCov) = merge (cs'.map welfordCov) := by
  rcases cs with _ | ⟨c0, rest⟩
  · exact absurd rfl hne
  rcases cs' with _ | ⟨c0', rest'⟩
  · exact absurd rfl hne'
  rw [merge_eq_concat _ _ hn, merge_eq_concat _ _ hn', welfordCov_eq_statsOf,
    welfordCov_eq_statsOf, statsOf_perm h]

/-- In particular for a permutation of the chains. -/
theorem chain_order_independent (cs cs' : List (List (K × K))) (hne : cs ≠ [])
    (h : cs.Perm cs') (hn : NoNaN cs) (hn' : NoNaN cs') :
    merge (cs.map welfordCov) = merge (cs'.map welfordCov) :=
  order_independent cs cs' hne (fun e => hne (by simpa [e] using h.length_eq)) h.flatten hn hn'

example : merge ([[(1, 2)], [(2, 5), (4, 3), (7, 7)]].map (welfordCov (K := ℚ)))
    = merge ([[(2, 5), (4, 3), (7, 7)], [(1, 2)]].map welfordCov) := by decide

end Merge

section Finalize
variable {K : Type} [Field K] [CharZero K]

/-- `AdaptationError` is raised iff fewer than two positions were seen in total. -/
theorem finalize_error_iff (off : Nat) (scale : K) (diag : Bool) (acc : CState K) :
    ((∃ e, finalizeVar off scale acc = .error e) ↔ acc.iter < 2) ∧
    ((∃ e, finalizeCov off scale diag acc = .error e) ↔ acc.iter < 2) := by
  unfold finalizeVar finalizeCov
  by_cases h : acc.iter < 2 <;> simp [h]

example : finalizeVar 5 (1 : ℚ) (welford [3]).toC = .error .tooFewSamples := by decide

/-- The regularisation of the diagonal adapter is the documented convex combination
`var · n/(off+n) + scale · off/(off+n)` (and the identity for offset 0). -/
theorem regularizeVar_formula (off n : Nat) (scale v : K) (h : off + n ≠ 0) :
    regularizeVar off scale v n = (v * n + scale * off) / ((off : K) + n) ∧
    (n : K) / ((off : K) + n) + (off : K) / ((off : K) + n) = 1 := by
  have hK : ((off : K) + n) ≠ 0 := by exact_mod_cast (Nat.cast_ne_zero (R := K)).mpr h
  unfold regularizeVar
  constructor
  · by_cases h0 : off = 0
    · subst h0
      have hn : (n : K) ≠ 0 := by simpa using hK
      simp; field_simp
    · simp only [bne_iff_ne, ne_eq, h0, not_false_eq_true, if_true]
      push_cast; field_simp
  · field_simp; ring

example : regularizeVar 5 (1 / 1000 : ℚ) 7 4 = (7 * 4 + 1 / 1000 * 5) / 9 := by decide

/-- Covariance adapter: every entry is shrunk by `n/(off+n)`, only the diagonal gets the
`scale · off/(off+n)` term. -/
theorem regularizeCov_formula (off n : Nat) (scale v : K) (h : off + n ≠ 0) :
    regularizeCov off scale v n true = (v * n + scale * off) / ((off : K) + n) ∧
    regularizeCov off scale v n false = v * n / ((off : K) + n) := by
  have hK : ((off : K) + n) ≠ 0 := by exact_mod_cast (Nat.cast_ne_zero (R := K)).mpr h
  unfold regularizeCov
  constructor
  · simp only [if_true]; push_cast; field_simp
  · simp only [Bool.false_eq_true, if_false]; push_cast; field_simp

/-- **Diagonal adapter, end to end**: for every split of the positions into chains (no `0/0`,
at least 2 positions in total) the metric entry is the *inverse* of the regularised pooled
sample variance `Σ(x − x̄)²/(n − 1)` of all positions. -/
theorem varianceAdapter_eq (off : Nat) (scale : K) (c0 : List K) (rest : List (List K))
    (hn : NoNaN (c0 :: rest)) (h2 : 2 ≤ (c0 :: rest).flatten.length) :
    varianceAdapter off scale (c0 :: rest) =
      .ok (1 / regularizeVar off scale
            (bM2 (c0 :: rest).flatten / (((c0 :: rest).flatten.length - 1 : Nat) : K))
            (c0 :: rest).flatten.length) := by
  obtain ⟨h0, _, h3⟩ := welford_eq_batch (c0 :: rest).flatten
  unfold varianceAdapter
  rw [merge_eq_concat_var c0 rest hn]
  simp only [finalizeVar, WState.toC, h0, h3, metricDiag]
  rw [if_neg (by omega)]; rfl

example : varianceAdapter 5 (1 / 1000 : ℚ) [[1], [2, 4, 7]] = .ok (600 / 1867) := by decide

/-- Fewer than two positions in total: `AdaptationError`, whatever the split. -/
theorem varianceAdapter_error (off : Nat) (scale : K) (c0 : List K) (rest : List (List K))
    (h2 : (c0 :: rest).flatten.length < 2) :
    varianceAdapter off scale (c0 :: rest) = .error .tooFewSamples := by
  obtain ⟨acc, hm, hi, _⟩ := merge_nan_iff (c0.map (fun x => (x, x)))
    (rest.map (fun xs => xs.map (fun x => (x, x))))
  have hmap : (c0 :: rest).map (fun xs => (welford xs).toC)
      = ((c0.map (fun x => (x, x))) :: rest.map (fun xs => xs.map (fun x => (x, x)))).map
          welfordCov := by
    simp only [List.map_cons, List.map_map, welford_toC]
    congr 1
  unfold varianceAdapter
  rw [hmap, hm]
  have hlen : acc.iter < 2 := by
    rw [hi]
    have : ((c0.map (fun x => (x, x))) :: rest.map (fun xs => xs.map (fun x => (x, x)))).flatten
        = ((c0 :: rest).flatten).map (fun x => (x, x)) := by
      simp [List.map_flatten]
    rw [this, List.length_map]; exact h2
  simp [finalizeVar, hlen]

example : varianceAdapter 5 (1 / 1000 : ℚ) [[], [3], []] = .error .tooFewSamples := by decide

/-- **Covariance adapter, end to end**, entry `(a,b)` (`diag = (a = b)`): the regularised
pooled sample covariance `Σ(x_a − x̄_a)(x_b − x̄_b)/(n − 1)`; the metric is its matrix
inverse (checked by the driver: `cov * X = 1` decided over ℚ for every case). -/
theorem covarianceEntry_eq (off : Nat) (scale : K) (diag : Bool) (c0 : List (K × K))
    (rest : List (List (K × K))) (hn : NoNaN (c0 :: rest))
    (h2 : 2 ≤ (c0 :: rest).flatten.length) :
    covarianceEntry off scale diag (c0 :: rest) =
      .ok (regularizeCov off scale
            (bCov (c0 :: rest).flatten / (((c0 :: rest).flatten.length - 1 : Nat) : K))
            (c0 :: rest).flatten.length diag) := by
  obtain ⟨h0, _, _, h3, _⟩ := welfordCov_eq_batch (c0 :: rest).flatten
  unfold covarianceEntry
  rw [merge_eq_concat c0 rest hn]
  simp only [finalizeCov, h0, h3]
  rw [if_neg (by omega)]

example : covarianceEntry 5 (1 / 1000 : ℚ) false [[(1, 2)], [(2, 5), (4, 3), (7, 7)]]
    = .ok (14 / 9) := by decide

/-- The metric is the inverse of the variance estimate (`PositiveDiagonalMatrix(var).inv`). -/
theorem metric_is_inverse (v : K) (hv : v ≠ 0) : metricDiag v * v = 1 := by
  unfold metricDiag; field_simp

/-- Every chain gets a fresh momentum drawn with its own generator under the new metric. -/
theorem momenta_refreshed {Met St Rng Mom : Type} (sample : Met → St → Rng → Mom) (m : Met)
    (chains : List (St × Rng)) :
    (refreshMomenta sample m chains).length = chains.length ∧
    ∀ i (h : i < chains.length),
      (refreshMomenta sample m chains)[i]? = some (sample m chains[i].1 chains[i].2) := by
  simp [refreshMomenta]

end Finalize

section Positivity
variable {K : Type} [Field K] [LinearOrder K] [IsStrictOrderedRing K]

/-- The centred sum of squares is non-negative, so with a positive offset and scale the
regularised variance is strictly positive: the metric entry `1/var` is well defined and
positive for *every* history (even a constant one). -/
theorem regularized_var_pos (off n : Nat) (scale : K) (xs : List K) (hoff : 0 < off)
    (hscale : 0 < scale) (hn : 2 ≤ n) :
    0 ≤ bM2 xs ∧ 0 < regularizeVar off scale (bM2 xs / ((n - 1 : Nat) : K)) n ∧
    0 < metricDiag (regularizeVar off scale (bM2 xs / ((n - 1 : Nat) : K)) n) := by
  have h0 : 0 ≤ bM2 xs := by
    unfold bM2
    apply List.sum_nonneg
    intro x hx
    obtain ⟨y, _, rfl⟩ := List.mem_map.mp hx
    positivity
  have hn1 : (0 : K) < ((n - 1 : Nat) : K) := by exact_mod_cast (by omega : 0 < n - 1)
  have hv : 0 ≤ bM2 xs / ((n - 1 : Nat) : K) := div_nonneg h0 hn1.le
  have hoffK : (0 : K) < (off : K) := by exact_mod_cast hoff
  have hsum : (0 : K) < ((off + n : Nat) : K) := by exact_mod_cast (by omega : 0 < off + n)
  have hpos : 0 < regularizeVar off scale (bM2 xs / ((n - 1 : Nat) : K)) n := by
    unfold regularizeVar
    have : (off != 0) = true := by simp; omega
    simp only [this, if_true]
    have h1 : 0 ≤ bM2 xs / ((n - 1 : Nat) : K) * ((n : K) / ((off + n : Nat) : K)) :=
      mul_nonneg hv (div_nonneg (by exact_mod_cast Nat.zero_le n) hsum.le)
    have h2 : 0 < scale * ((off : K) / ((off + n : Nat) : K)) :=
      mul_pos hscale (div_pos hoffK hsum)
    linarith
  exact ⟨h0, hpos, by unfold metricDiag; positivity⟩

example : 0 < metricDiag (regularizeVar 5 (1 / 1000 : ℚ) (bM2 [3, 3, 3] / ((3 - 1 : Nat) : ℚ)) 3) :=
  (regularized_var_pos 5 3 (1 / 1000 : ℚ) [3, 3, 3] (by decide) (by norm_num) (by decide)).2.2

end Positivity

end MiciVerif.C17
