/-
C02 bridge between the fixed-point solver loop generated from solvers.py (`Generated/SolverLoops.lean`,
see C12) and the solver mirror used by the implicit-integrator model.

`Model/IntegratorsImplicit.lean` contains a second hand-written mirror of
`solve_fixed_point_direct` (`solveDirect`: exact field, total user function, no faults), whose
post-condition `solveDirect_returns` is the approximate-fixed-point hypothesis of the C02
reversibility theorems.  The theorem below says that this mirror is the loop GENERATED from the
source on this run, instantiated at a user function that never raises and a finite norm — so the
C02 hypothesis is about the code under test, not about a transcription of it.
-/
import MiciVerif.Generated.SolverLoops
import MiciVerif.Model.IntegratorsImplicit

namespace MiciVerif.C02L
open MiciVerif.Solvers MiciVerif.Generated MiciVerif.Integrators

/-- `Out` of the fault model ↦ `Res` of the integrator model -/
def toRes {V : Type} : Out V → Res V
  | .ok x => .ok x
  | .convErr => .error .convergence
  | .foreignErr => .error .convergence

/-- The source's direct-iteration loop, run on a total function `f` with the finite norm `norm`,
is `solveDirect` (for every fuel, `max_iters ≥ 1`, start index and iterate). -/
theorem src_direct_eq_solveDirect {V : Type} [Sub V] (norm : V → ℚ) (ctol dtol : ℚ) (f : V → V)
    (maxIters : Nat) (hmax : 0 < maxIters) (fuel i : Nat) (x0 : V) :
    SolverLoops.solve_fixed_point_direct_translated = true ∧
    toRes (SolverLoops.solve_fixed_point_direct_loop_1 (fun _ x => .ok (f x))
        (fun a b => .ok (.fin (norm (a - b)))) ctol dtol maxIters fuel i x0) =
      solveDirect norm ctol dtol fuel f x0 := by
  refine ⟨rfl, ?_⟩
  have hne : maxIters ≠ 0 := Nat.ne_of_gt hmax
  induction fuel generalizing i x0 with
  | zero => simp [SolverLoops.solve_fixed_point_direct_loop_1, solveDirect, toRes, hne]
  | succ fuel ih =>
    simp only [SolverLoops.solve_fixed_point_direct_loop_1, solveDirect, XNorm.gt, XNorm.isnan,
      XNorm.lt, Bool.or_false, decide_eq_true_eq, gt_iff_lt]
    split_ifs
    · rfl
    · rfl
    · exact ih _ _

end MiciVerif.C02L
