/-
C05 — Hamiltonian values and derivative methods of every system class are consistent.

The system classes are modelled once, over an arbitrary commutative ring (Model/Systems.lean).
Evaluating the *same* definitions over the dual numbers `K[ε]` gives exact first-order
expansions; a derivative method is correct iff it is the `ε`-coefficient:

    ĥ(q + εv, p + εw) = h(q,p) + ε (⟨dh_dpos, v⟩ + ⟨dh_dmom, w⟩).

Hypotheses are what the documentation asks of the user: the derivative functions supplied are
the derivatives of the functions supplied (`HasGrad`), the metric is symmetric, `0.5` is a half.
-/
import MiciVerif.Model.Systems
import MiciVerif.Lemmas.SystemsDual
import Mathlib.Algebra.Order.Field.Rat
import Mathlib.Tactic.NormNum
import Mathlib.Tactic.FinCases
import Mathlib.Tactic.Ring
import Mathlib.Tactic.FieldSimp
import Mathlib.Tactic.Linarith
import Mathlib.Tactic.Positivity

set_option linter.unusedSectionVars false

namespace MiciVerif.C05
open Matrix TrivSqZeroExt DualNumber MiciVerif.Systems MiciVerif.Dual

variable {K : Type*} [CommRing K] {n c κ : Type*} [Fintype n] [Fintype c] [Fintype κ]

/-! ### `h = h1 + h2`, `dh_dpos = dh1_dpos + dh2_dpos`, `dh_dmom = dh2_dmom` for every class -/

theorem euclidean_consistent (half : K) (N : Matrix n n K) (ell : (n → K) → K)
    (gradEll : (n → K) → n → K) : (euclidean half N ell gradEll).Consistent :=
  ⟨fun _ _ => rfl, fun _ _ => by simp [euclidean], fun _ _ => rfl⟩

theorem gaussianEuclidean_consistent (half : K) (N : Matrix n n K) (ell : (n → K) → K)
    (gradEll : (n → K) → n → K) : (gaussianEuclidean half N ell gradEll).Consistent :=
  ⟨fun _ _ => rfl, fun _ _ => rfl, fun _ _ => rfl⟩

theorem denseConstrained_consistent [DecidableEq c] (hausdorff : Bool) (half : K) (logabs : K → K)
    (N : Matrix n n K) (ell : (n → K) → K) (gradEll : (n → K) → n → K) (C : ConstraintFns K n c) :
    (denseConstrained hausdorff half logabs N ell gradEll C).Consistent :=
  ⟨fun _ _ => rfl, fun _ _ => by simp [denseConstrained], fun _ _ => rfl⟩

theorem gaussianDenseConstrained_consistent [DecidableEq c] (half : K) (logabs : K → K)
    (N : Matrix n n K) (ell : (n → K) → K) (gradEll : (n → K) → n → K) (C : ConstraintFns K n c) :
    (gaussianDenseConstrained half logabs N ell gradEll C).Consistent :=
  ⟨fun _ _ => rfl, fun _ _ => rfl, fun _ _ => rfl⟩

theorem riemannian_consistent [DecidableEq n] (half : K) (logabs : K → K) (ell : (n → K) → K)
    (gradEll : (n → K) → n → K) (Mc : MetricClass K κ n) (F : MetricFns K κ n) :
    (riemannian half logabs ell gradEll Mc F).Consistent :=
  ⟨fun _ _ => rfl, fun _ _ => rfl, fun _ _ => rfl⟩

/-! ### derivatives -/

/-- `fD` is the evaluation over `K[ε]` of a function with value `f` and gradient `g`. -/
def HasGrad (fD : (n → K[ε]) → K[ε]) (f : (n → K) → K) (g : (n → K) → n → K) : Prop :=
  ∀ q v, fD (dvec q v) = dnum (f q) (g q ⬝ᵥ v)

/-- The three value methods of `mD` (a system evaluated over `K[ε]`) expand to first order with
the derivative methods of `m` as coefficients. -/
def IsDerivative (mD : Methods K[ε] n) (m : Methods K n) : Prop :=
  ∀ q v p w,
    mD.h1 (dvec q v) (dvec p w) = dnum (m.h1 q p) (m.dh1_dpos q p ⬝ᵥ v) ∧
    mD.h2 (dvec q v) (dvec p w) = dnum (m.h2 q p) (m.dh2_dpos q p ⬝ᵥ v + m.dh2_dmom q p ⬝ᵥ w) ∧
    mD.h (dvec q v) (dvec p w) = dnum (m.h q p) (m.dh_dpos q p ⬝ᵥ v + m.dh_dmom q p ⬝ᵥ w)

/-- **Kinetic energy.** `½ (p+εw)ᵀ N (p+εw) = ½ pᵀNp + ε wᵀ N p` for symmetric `N`:
the momentum derivative of `½ pᵀ M⁻¹ p` is `M⁻¹ p`. -/
theorem kinetic_dual (half : K) (hhalf : 2 * half = 1) (N : Matrix n n K) (hN : Nᵀ = N)
    (p w : n → K) :
    kinetic (inl half) (cmat N) (dvec p w) = dnum (kinetic half N p) ((N *ᵥ p) ⬝ᵥ w) := by
  unfold kinetic
  rw [cmat_mulVec_dvec, dot_dvec, inl_eq_dnum, dnum_mul]
  congr 1
  have h1 : p ⬝ᵥ N *ᵥ w = w ⬝ᵥ N *ᵥ p := by rw [dot_mulVec_comm, hN]
  rw [h1, dotProduct_comm (N *ᵥ p) w]
  have : half * (w ⬝ᵥ N *ᵥ p + w ⬝ᵥ N *ᵥ p) + 0 * (p ⬝ᵥ N *ᵥ p) = (2 * half) * (w ⬝ᵥ N *ᵥ p) := by ring
  rw [this, hhalf, one_mul]

/-- `½ (q+εv)·(q+εv) = ½ q·q + ε q·v` -/
theorem half_sq_dual (half : K) (hhalf : 2 * half = 1) (q v : n → K) :
    inl half * (dvec q v ⬝ᵥ dvec q v) = dnum (half * (q ⬝ᵥ q)) (q ⬝ᵥ v) := by
  rw [dot_dvec, inl_eq_dnum, dnum_mul]
  congr 1
  rw [dotProduct_comm v q]
  have : half * (q ⬝ᵥ v + q ⬝ᵥ v) + 0 * (q ⬝ᵥ q) = (2 * half) * (q ⬝ᵥ v) := by ring
  rw [this, hhalf, one_mul]

/-- **EuclideanMetricSystem**: all derivative methods are the true partial derivatives. -/
theorem euclidean_derivative (half : K) (hhalf : 2 * half = 1) (N : Matrix n n K) (hN : Nᵀ = N)
    (ell : (n → K) → K) (gradEll : (n → K) → n → K) (ellD : (n → K[ε]) → K[ε])
    (gD : (n → K[ε]) → n → K[ε]) (hEll : HasGrad ellD ell gradEll) :
    IsDerivative (euclidean (inl half) (cmat N) ellD gD) (euclidean half N ell gradEll) := by
  intro q v p w
  have hk := kinetic_dual half hhalf N hN p w
  unfold kinetic at hk
  refine ⟨hEll q v, ?_, ?_⟩
  · simp only [euclidean, hk, Pi.zero_apply, zero_dotProduct, zero_add]
  · simp only [euclidean, hk, hEll q v, dnum_add]

/-- **GaussianEuclideanMetricSystem**: `h2 = ½ q·q + ½ pᵀNp` has position derivative `q`, and
`dh_dpos` is the derivative of the *total* Hamiltonian (includes the `q` term). -/
theorem gaussianEuclidean_derivative (half : K) (hhalf : 2 * half = 1) (N : Matrix n n K)
    (hN : Nᵀ = N) (ell : (n → K) → K) (gradEll : (n → K) → n → K) (ellD : (n → K[ε]) → K[ε])
    (gD : (n → K[ε]) → n → K[ε]) (hEll : HasGrad ellD ell gradEll) :
    IsDerivative (gaussianEuclidean (inl half) (cmat N) ellD gD)
      (gaussianEuclidean half N ell gradEll) := by
  intro q v p w
  have hk := kinetic_dual half hhalf N hN p w
  unfold kinetic at hk
  have hq := half_sq_dual half hhalf q v
  refine ⟨hEll q v, ?_, ?_⟩
  · simp only [gaussianEuclidean, hk, hq, dnum_add]
  · simp only [gaussianEuclidean, hk, hq, hEll q v, dnum_add, add_dotProduct, add_assoc]


/-! ### log-determinant terms (Jacobi's formula) -/

/-- The one analytic fact used about `x ↦ log |x|`: its dual-number lift has
`ε`-coefficient `dx / x` (trusted: `d log|x| = dx/x`). -/
def LogDeriv (logabsD : K[ε] → K[ε]) (logabs : K → K) : Prop :=
  ∀ a b ainv : K, a * ainv = 1 → logabsD (dnum a b) = dnum (logabs a) (b * ainv)

private theorem half_logabs_det_dual [DecidableEq n] (half : K) (logabsD : K[ε] → K[ε]) (logabs : K → K)
    (hlog : LogDeriv logabsD logabs) (A B X : Matrix n n K) (hAX : A * X = 1) :
    inl half * logabsD (dmat A B).det = dnum (half * logabs A.det) (half * trace (X * B)) := by
  have hdet : A.det * X.det = 1 := by rw [← Matrix.det_mul, hAX, Matrix.det_one]
  rw [det_dmat A B X hAX, hlog _ _ _ hdet, inl_eq_dnum, dnum_mul]
  congr 1
  have : A.det * trace (X * B) * X.det = (A.det * X.det) * trace (X * B) := by ring
  rw [this, hdet]; ring

/-- **Gram-determinant term of constrained systems.** With `Ĵ(q+εv) = J(q) + ε dJ(q)[v]`
(`dJ` the directional derivative of the user Jacobian), a matrix-Hessian product that pairs as
`⟨mhp(m), v⟩ = Σᵢⱼ mᵢⱼ dJ[v]ᵢⱼ`, a symmetric metric inverse `N` and the checked Gram inverse:
`½ log|det(J N Jᵀ)|` has gradient `mhp(G⁻¹ J N)` — `grad_log_det_sqrt_gram`. -/
theorem gram_term_derivative [DecidableEq c] (half : K) (hhalf : 2 * half = 1) (logabsD : K[ε] → K[ε])
    (logabs : K → K) (hlog : LogDeriv logabsD logabs) (N : Matrix n n K) (hN : Nᵀ = N)
    (C : ConstraintFns K n c) (CD : ConstraintFns K[ε] n c) (dJ : (n → K) → (n → K) → Matrix c n K)
    (hJ : ∀ q v, CD.jacob (dvec q v) = dmat (C.jacob q) (dJ q v))
    (hmhp : ∀ q v m, C.mhp q m ⬝ᵥ v = trace (m * (dJ q v)ᵀ))
    (hG : ∀ q, gram (C.jacob q) N * C.Ginv q = 1) (q v : n → K) :
    logDetSqrtGram (inl half) logabsD CD (cmat N) (dvec q v) =
      dnum (logDetSqrtGram half logabs C N q) (gradLogDetSqrtGram C N q ⬝ᵥ v) := by
  set J := C.jacob q with hJdef
  set D := dJ q v with hDdef
  set X := C.Ginv q with hXdef
  have hGq : gram J N * X = 1 := hG q
  have hGs : (gram J N)ᵀ = gram J N := by
    unfold gram
    simp only [Matrix.transpose_mul, Matrix.transpose_transpose, hN, Matrix.mul_assoc]
  have hXs : Xᵀ = X := inv_symm_of_symm _ _ hGs hGq
  have hgram : gram (dmat J D) (cmat N) = dmat (gram J N) (J * (N * Dᵀ) + D * (N * Jᵀ)) := by
    unfold gram
    rw [dmat_transpose, cmat_eq_dmat, dmat_mul_dmat, dmat_mul_dmat]
    simp
  unfold logDetSqrtGram gradLogDetSqrtGram
  rw [hJ q v, hgram, half_logabs_det_dual half logabsD logabs hlog _ _ X hGq, hmhp]
  congr 1
  have t2 : trace (X * (D * (N * Jᵀ))) = trace (X * (J * (N * Dᵀ))) := by
    rw [← Matrix.trace_transpose (X * (D * (N * Jᵀ)))]
    simp only [Matrix.transpose_mul, Matrix.transpose_transpose, hN, hXs]
    rw [Matrix.trace_mul_comm]
    simp only [Matrix.mul_assoc]
  rw [Matrix.mul_add, Matrix.trace_add, t2]
  have t3 : X * (J * (N * Dᵀ)) = X * J * N * Dᵀ := by simp only [Matrix.mul_assoc]
  rw [t3]
  have : half * (trace (X * J * N * Dᵀ) + trace (X * J * N * Dᵀ)) = (2 * half) * trace (X * J * N * Dᵀ) := by ring
  rw [this, hhalf, one_mul]

/-- **DenseConstrainedEuclideanMetricSystem**, both density conventions. -/
theorem denseConstrained_derivative [DecidableEq c] (hausdorff : Bool) (half : K) (hhalf : 2 * half = 1)
    (logabsD : K[ε] → K[ε]) (logabs : K → K) (hlog : LogDeriv logabsD logabs)
    (N : Matrix n n K) (hN : Nᵀ = N)
    (ell : (n → K) → K) (gradEll : (n → K) → n → K) (ellD : (n → K[ε]) → K[ε])
    (gD : (n → K[ε]) → n → K[ε]) (hEll : HasGrad ellD ell gradEll)
    (C : ConstraintFns K n c) (CD : ConstraintFns K[ε] n c) (dJ : (n → K) → (n → K) → Matrix c n K)
    (hJ : ∀ q v, CD.jacob (dvec q v) = dmat (C.jacob q) (dJ q v))
    (hmhp : ∀ q v m, C.mhp q m ⬝ᵥ v = trace (m * (dJ q v)ᵀ))
    (hG : ∀ q, gram (C.jacob q) N * C.Ginv q = 1) :
    IsDerivative (denseConstrained hausdorff (inl half) logabsD (cmat N) ellD gD CD)
      (denseConstrained hausdorff half logabs N ell gradEll C) := by
  intro q v p w
  have hk := kinetic_dual half hhalf N hN p w
  unfold kinetic at hk
  have hg := gram_term_derivative half hhalf logabsD logabs hlog N hN C CD dJ hJ hmhp hG q v
  cases hausdorff
  · refine ⟨?_, ?_, ?_⟩
    · simp only [denseConstrained, Bool.false_eq_true, if_false, hEll q v, hg, dnum_add, add_dotProduct]
    · simp only [denseConstrained, hk, zero_dotProduct, zero_add]
    · simp only [denseConstrained, Bool.false_eq_true, if_false, hEll q v, hg, hk, dnum_add,
        add_dotProduct]
  · refine ⟨?_, ?_, ?_⟩
    · simp only [denseConstrained, if_true, hEll q v]
    · simp only [denseConstrained, hk, zero_dotProduct, zero_add]
    · simp only [denseConstrained, if_true, hEll q v, hk, dnum_add]

/-- **GaussianDenseConstrainedEuclideanMetricSystem.** -/
theorem gaussianDenseConstrained_derivative [DecidableEq c] (half : K) (hhalf : 2 * half = 1)
    (logabsD : K[ε] → K[ε]) (logabs : K → K) (hlog : LogDeriv logabsD logabs)
    (N : Matrix n n K) (hN : Nᵀ = N)
    (ell : (n → K) → K) (gradEll : (n → K) → n → K) (ellD : (n → K[ε]) → K[ε])
    (gD : (n → K[ε]) → n → K[ε]) (hEll : HasGrad ellD ell gradEll)
    (C : ConstraintFns K n c) (CD : ConstraintFns K[ε] n c) (dJ : (n → K) → (n → K) → Matrix c n K)
    (hJ : ∀ q v, CD.jacob (dvec q v) = dmat (C.jacob q) (dJ q v))
    (hmhp : ∀ q v m, C.mhp q m ⬝ᵥ v = trace (m * (dJ q v)ᵀ))
    (hG : ∀ q, gram (C.jacob q) N * C.Ginv q = 1) :
    IsDerivative (gaussianDenseConstrained (inl half) logabsD (cmat N) ellD gD CD)
      (gaussianDenseConstrained half logabs N ell gradEll C) := by
  intro q v p w
  have hk := kinetic_dual half hhalf N hN p w
  unfold kinetic at hk
  have hq := half_sq_dual half hhalf q v
  have hg := gram_term_derivative half hhalf logabsD logabs hlog N hN C CD dJ hJ hmhp hG q v
  refine ⟨?_, ?_, ?_⟩
  · simp only [gaussianDenseConstrained, hEll q v, hg, dnum_add, add_dotProduct]
  · simp only [gaussianDenseConstrained, hk, hq, dnum_add]
  · simp only [gaussianDenseConstrained, hEll q v, hg, hk, hq, dnum_add, add_dotProduct, add_assoc]

/-! ### Riemannian systems: the chain rule through the metric class -/

/-- What is needed of a metric-matrix class (C11's per-class facts), at an admissible parameter
value `θ` (`Pθ`, e.g. "lower triangular with the checked inverse") and admissible parameter
perturbation `δ` (`Pδ`): the differential `dM` of the represented matrix, and that the two
gradient methods pair with `δ` as `tr(M⁻¹ dM)` and `−(M⁻¹p)ᵀ dM (M⁻¹p)`. -/
structure ClassDifferential (Mc : MetricClass K κ n) (McD : MetricClass K[ε] κ n)
    (dM : (κ → K) → (κ → K) → Matrix n n K)
    (Pθ : (κ → K) → Prop := fun _ => True) (Pδ : (κ → K) → Prop := fun _ => True) : Prop where
  metric_dual : ∀ θ δ, McD.metric (fun k => dnum (θ k) (δ k)) = dmat (Mc.metric θ) (dM θ δ)
  logdet : ∀ θ δ, Pθ θ → Pδ δ → ∑ k, Mc.gradLogAbsDet θ k * δ k = trace (Mc.inv θ * dM θ δ)
  quadform : ∀ θ δ p, Pθ θ → Pδ δ → ∑ k, Mc.gradQuadFormInv θ p k * δ k =
    -((Mc.inv θ *ᵥ p) ⬝ᵥ (dM θ δ *ᵥ (Mc.inv θ *ᵥ p)))

private theorem vjp_dot (F : MetricFns K κ n) (q : n → K) (a : κ → K) (v : n → K) :
    F.vjp q a ⬝ᵥ v = ∑ k, a k * (F.jac q k ⬝ᵥ v) := by
  simp only [MetricFns.vjp, dotProduct, Finset.sum_mul, Finset.mul_sum]
  rw [Finset.sum_comm]
  refine Finset.sum_congr rfl fun k _ => Finset.sum_congr rfl fun i _ => by ring

/-- **RiemannianMetricSystem (generic chain rule).** If `jac` is the Jacobian of `metric_func`
(dual lift `θ̂(q+εv) = θ(q) + ε jac(q)·v`), the metric is symmetric with checked inverses at both
levels, and the metric class satisfies `ClassDifferential`, then all derivative methods of the
Riemannian system are the true partial derivatives:
`dh1_dpos = ∇ℓ + ½ vjp(grad_log_abs_det)`, `dh2_dpos = ½ vjp(grad_quadratic_form_inv(p))`,
`dh2_dmom = M⁻¹ p`. -/
theorem riemannian_derivative [DecidableEq n] (half : K) (hhalf : 2 * half = 1)
    (logabsD : K[ε] → K[ε]) (logabs : K → K) (hlog : LogDeriv logabsD logabs)
    (ell : (n → K) → K) (gradEll : (n → K) → n → K) (ellD : (n → K[ε]) → K[ε])
    (gD : (n → K[ε]) → n → K[ε]) (hEll : HasGrad ellD ell gradEll)
    (Mc : MetricClass K κ n) (McD : MetricClass K[ε] κ n) (dM : (κ → K) → (κ → K) → Matrix n n K)
    (Pθ Pδ : (κ → K) → Prop) (hcls : ClassDifferential Mc McD dM Pθ Pδ)
    (F : MetricFns K κ n) (FD : MetricFns K[ε] κ n)
    (hPθ : ∀ q, Pθ (F.θ q)) (hPδ : ∀ q v, Pδ (fun k => F.jac q k ⬝ᵥ v))
    (hθ : ∀ q v, FD.θ (dvec q v) = fun k => dnum (F.θ q k) (F.jac q k ⬝ᵥ v))
    (hsym : ∀ q, (Mc.metric (F.θ q))ᵀ = Mc.metric (F.θ q))
    (hinv : ∀ q, Mc.metric (F.θ q) * Mc.inv (F.θ q) = 1)
    (hinvD : ∀ q v, McD.metric (FD.θ (dvec q v)) * McD.inv (FD.θ (dvec q v)) = 1) :
    IsDerivative (riemannian (inl half) logabsD ellD gD McD FD)
      (riemannian half logabs ell gradEll Mc F) := by
  intro q v p w
  set θ := F.θ q with hθdef
  set δ : κ → K := fun k => F.jac q k ⬝ᵥ v with hδdef
  set M := Mc.metric θ
  set N := Mc.inv θ with hNdef
  set D := dM θ δ
  have hMN : M * N = 1 := hinv q
  have hNs : Nᵀ = N := inv_symm_of_symm _ _ (hsym q) hMN
  have hMd : McD.metric (FD.θ (dvec q v)) = dmat M D := by rw [hθ q v]; exact hcls.metric_dual θ δ
  have hNd : McD.inv (FD.θ (dvec q v)) = dmat N (-(N * D * N)) :=
    dmat_inv_unique M D N hMN _ (by rw [← hMd]; exact hinvD q v)
  -- h1
  have h1 : ellD (dvec q v) + inl half * logabsD (McD.metric (FD.θ (dvec q v))).det =
      dnum (ell q + half * logabs M.det)
        ((gradEll q + half • F.vjp q (Mc.gradLogAbsDet θ)) ⬝ᵥ v) := by
    rw [hMd, half_logabs_det_dual half logabsD logabs hlog M D N hMN, hEll q v, dnum_add]
    congr 1
    rw [add_dotProduct, smul_dotProduct, vjp_dot, hcls.logdet θ δ (hPθ q) (hPδ q v), smul_eq_mul]
  -- h2
  have h2 : inl half * (dvec p w ⬝ᵥ McD.inv (FD.θ (dvec q v)) *ᵥ dvec p w) =
      dnum (half * (p ⬝ᵥ N *ᵥ p))
        ((half • F.vjp q (Mc.gradQuadFormInv θ p)) ⬝ᵥ v + (N *ᵥ p) ⬝ᵥ w) := by
    rw [hNd, dmat_mulVec_dvec, dot_dvec, inl_eq_dnum, dnum_mul]
    congr 1
    rw [smul_dotProduct, vjp_dot, hcls.quadform θ δ p (hPθ q) (hPδ q v), smul_eq_mul]
    have e1 : p ⬝ᵥ N *ᵥ w = w ⬝ᵥ N *ᵥ p := dot_mulVec_symm N hNs p w
    have e2 : p ⬝ᵥ (-(N * D * N)) *ᵥ p = -((N *ᵥ p) ⬝ᵥ (D *ᵥ (N *ᵥ p))) := by
      rw [Matrix.neg_mulVec, dotProduct_neg, Matrix.mul_assoc, ← Matrix.mulVec_mulVec,
        ← Matrix.mulVec_mulVec, dot_mulVec_symm N hNs p, dotProduct_comm]
    rw [dotProduct_add, e1, e2, dotProduct_comm (N *ᵥ p) w]
    have : half * (w ⬝ᵥ N *ᵥ p + -((N *ᵥ p) ⬝ᵥ D *ᵥ (N *ᵥ p)) + w ⬝ᵥ N *ᵥ p) + 0 * (p ⬝ᵥ N *ᵥ p)
        = half * -((N *ᵥ p) ⬝ᵥ D *ᵥ (N *ᵥ p)) + (2 * half) * (w ⬝ᵥ N *ᵥ p) := by ring
    rw [this, hhalf, one_mul]
  refine ⟨?_, ?_, ?_⟩
  · simpa only [riemannian] using h1
  · simpa only [riemannian] using h2
  · simp only [riemannian]
    rw [h1, h2, dnum_add]
    congr 1
    simp only [add_dotProduct]
    ring

/-- The dense class (`DensePositiveDefiniteMatrix`: `grad_log_abs_det = M⁻¹`,
`grad_quadratic_form_inv(p) = −(M⁻¹p)(M⁻¹p)ᵀ`) satisfies `ClassDifferential` with `dM = δ`. -/
theorem denseClass_differential (Ninv : (n × n → K) → Matrix n n K) (NinvD : (n × n → K[ε]) → Matrix n n K[ε])
    (hNs : ∀ θ, (Ninv θ)ᵀ = Ninv θ) :
    ClassDifferential (denseClass Ninv) (denseClass NinvD) (fun _ δ => Matrix.of fun i j => δ (i, j)) where
  metric_dual := by
    intro θ δ; ext i j <;> simp [denseClass]
  logdet := by
    intro θ δ _ _
    simp only [denseClass, Fintype.sum_prod_type, Matrix.trace, Matrix.diag, Matrix.mul_apply,
      Matrix.of_apply]
    conv_rhs => rw [Finset.sum_comm]
    refine Finset.sum_congr rfl fun x _ => Finset.sum_congr rfl fun y _ => ?_
    have h := congrFun (congrFun (hNs θ) x) y
    simp only [Matrix.transpose_apply] at h
    rw [h]
  quadform := by
    intro θ δ p _ _
    simp only [denseClass, Fintype.sum_prod_type]
    set u := Ninv θ *ᵥ p
    simp only [dotProduct, Matrix.mulVec, Matrix.of_apply]
    rw [← Finset.sum_neg_distrib]
    refine Finset.sum_congr rfl fun i _ => ?_
    rw [Finset.mul_sum, ← Finset.sum_neg_distrib]
    refine Finset.sum_congr rfl fun j _ => by ring

/-- The diagonal class (`PositiveDiagonalMatrix`: `grad_log_abs_det = 1/d`,
`grad_quadratic_form_inv(p) = −(p/d)²`) with `dM = diag δ`. -/
theorem diagClass_differential [DecidableEq n] (dinv : K → K) (dinvD : K[ε] → K[ε]) :
    ClassDifferential (diagClass (n := n) dinv) (diagClass dinvD) (fun _ δ => Matrix.diagonal δ) where
  metric_dual := by
    intro θ δ; ext i j <;> by_cases h : i = j <;> simp [diagClass, h, Matrix.diagonal_apply]
  logdet := by
    intro θ δ _ _
    simp [diagClass, Matrix.trace, Matrix.diagonal_mul_diagonal]
  quadform := by
    intro θ δ p _ _
    simp only [diagClass, Matrix.mulVec_diagonal, dotProduct, ← Finset.sum_neg_distrib]
    refine Finset.sum_congr rfl fun i _ => by ring

/-- The scalar class (`PositiveScaledIdentityMatrix`: `grad_log_abs_det = n/s`,
`grad_quadratic_form_inv(p) = −|p|²/s²`) with `dM = δ·I`. -/
theorem scalarClass_differential [DecidableEq n] (sinv : K → K) (sinvD : K[ε] → K[ε]) :
    ClassDifferential (scalarClass (n := n) sinv) (scalarClass sinvD) (fun _ δ => δ () • (1 : Matrix n n K)) where
  metric_dual := by
    intro θ δ; ext i j <;> by_cases h : i = j <;> simp [scalarClass, h, Matrix.one_apply, DualNumber.snd_mul]
  logdet := by
    intro θ δ _ _
    simp [scalarClass, Matrix.trace_smul, Matrix.trace_one]
    ring
  quadform := by
    intro θ δ p _ _
    simp only [scalarClass, Finset.univ_unique, Finset.sum_singleton, Matrix.smul_mulVec,
      Matrix.one_mulVec, dotProduct_smul, smul_dotProduct, smul_eq_mul, dotProduct]
    simp only [Finset.mul_sum, Finset.sum_mul, ← Finset.sum_neg_distrib]
    refine Finset.sum_congr rfl fun i _ => ?_
    simp only [PUnit.default_eq_unit, Pi.smul_apply, smul_eq_mul]
    ring


/-- admissible Cholesky parameter: lower triangular (`θ (i,j) = 0` for `i < j`) -/
def LowerTri [LinearOrder n] (θ : n × n → K) : Prop := ∀ i j, i < j → θ (i, j) = 0

/-- admissible Cholesky parameter value with its checked data: lower triangular, `Linv θ` a
lower-triangular inverse of the factor, `dinv` inverts its diagonal entries -/
def CholData [LinearOrder n] [DecidableEq n] (dinv : K → K) (Linv : (n × n → K) → Matrix n n K)
    (θ : n × n → K) : Prop :=
  LowerTri θ ∧ (Matrix.of fun i j => θ (i, j)) * Linv θ = 1 ∧ (∀ i j, i < j → Linv θ i j = 0) ∧
    ∀ i, dinv (θ (i, i)) * θ (i, i) = 1

/-- The Cholesky-factored class (`TriangularFactoredPositiveDefiniteMatrix`, lower factor:
`grad_log_abs_det = diag(2 / diag L)`, `grad_quadratic_form_inv(p) = tril(−2 (M⁻¹p)(L⁻¹p)ᵀ)`)
with `M = L Lᵀ`, `dM = L dLᵀ + dL Lᵀ`, for lower-triangular `L`, `dL`. -/
theorem cholClass_differential [LinearOrder n] (dinv : K → K) (dinvD : K[ε] → K[ε])
    (Linv : (n × n → K) → Matrix n n K) (LinvD : (n × n → K[ε]) → Matrix n n K[ε]) :
    ClassDifferential (cholClass (fun i j => decide (j ≤ i)) dinv Linv)
      (cholClass (fun i j => decide (j ≤ i)) dinvD LinvD)
      (fun θ δ => (Matrix.of fun i j => θ (i, j)) * (Matrix.of fun i j => δ (i, j))ᵀ +
        (Matrix.of fun i j => δ (i, j)) * (Matrix.of fun i j => θ (i, j))ᵀ)
      (CholData dinv Linv) LowerTri where
  metric_dual := by
    intro θ δ
    have : (Matrix.of fun i j => dnum (θ (i, j)) (δ (i, j)) : Matrix n n K[ε]) =
        dmat (Matrix.of fun i j => θ (i, j)) (Matrix.of fun i j => δ (i, j)) := by
      ext i j <;> simp
    simp only [cholClass, this, dmat_transpose, dmat_mul_dmat]
  logdet := by
    intro θ δ hθ hδ
    obtain ⟨hL, hLi, hLit, hd⟩ := hθ
    set L : Matrix n n K := Matrix.of fun i j => θ (i, j) with hLdef
    set D : Matrix n n K := Matrix.of fun i j => δ (i, j) with hDdef
    set Li := Linv θ with hLidef
    have hLiL : Li * L = 1 := mul_eq_one_comm.mp hLi
    -- trace (N dM) = 2 tr(Li D)
    have t1 : trace (Liᵀ * Li * (L * Dᵀ)) = trace (Li * D) := by
      have : Liᵀ * Li * (L * Dᵀ) = Liᵀ * ((Li * L) * Dᵀ) := by simp only [Matrix.mul_assoc]
      rw [this, hLiL, Matrix.one_mul, ← Matrix.transpose_mul, Matrix.trace_transpose, Matrix.trace_mul_comm]
    have t2 : trace (Liᵀ * Li * (D * Lᵀ)) = trace (Li * D) := by
      have : Liᵀ * Li * (D * Lᵀ) = (Liᵀ * (Li * D)) * Lᵀ := by simp only [Matrix.mul_assoc]
      rw [this, Matrix.trace_mul_comm, ← Matrix.mul_assoc, ← Matrix.transpose_mul, hLiL,
        Matrix.transpose_one, Matrix.one_mul]
    -- diagonal of the inverse factor
    have hdiag : ∀ i, Li i i = dinv (θ (i, i)) := by
      intro i
      have h1 : (Li * L) i i = Li i i * θ (i, i) := by
        rw [Matrix.mul_apply]
        rw [Finset.sum_eq_single i]
        · simp [hLdef]
        · intro j _ hji
          rcases lt_or_gt_of_ne hji with h | h
          · simp [hLdef, hL j i h]
          · rw [hLit i j h, zero_mul]
        · intro h; exact absurd (Finset.mem_univ i) h
      have h2 : Li i i * θ (i, i) = 1 := by rw [← h1, hLiL, Matrix.one_apply_eq]
      calc Li i i = Li i i * (dinv (θ (i, i)) * θ (i, i)) := by rw [hd i, mul_one]
        _ = (Li i i * θ (i, i)) * dinv (θ (i, i)) := by ring
        _ = dinv (θ (i, i)) := by rw [h2, one_mul]
    have t3 : trace (Li * D) = ∑ i, Li i i * δ (i, i) := by
      simp only [Matrix.trace, Matrix.diag, Matrix.mul_apply]
      refine Finset.sum_congr rfl fun i _ => ?_
      rw [Finset.sum_eq_single i]
      · simp [hDdef]
      · intro j _ hji
        rcases lt_or_gt_of_ne hji with h | h
        · simp [hDdef, hδ j i h]
        · rw [hLit i j h, zero_mul]
      · intro h; exact absurd (Finset.mem_univ i) h
    simp only [cholClass]
    rw [Matrix.mul_add, Matrix.trace_add, t1, t2, t3, Fintype.sum_prod_type]
    rw [← Finset.sum_add_distrib]
    refine Finset.sum_congr rfl fun i _ => ?_
    rw [Finset.sum_eq_single i]
    · simp only [if_true, hdiag i]; ring
    · intro j _ hji
      simp [Ne.symm hji]
    · intro h; exact absurd (Finset.mem_univ i) h
  quadform := by
    intro θ δ p hθ hδ
    obtain ⟨hL, hLi, hLit, hd⟩ := hθ
    set L : Matrix n n K := Matrix.of fun i j => θ (i, j) with hLdef
    set D : Matrix n n K := Matrix.of fun i j => δ (i, j) with hDdef
    set Li := Linv θ with hLidef
    have hLiL : Li * L = 1 := mul_eq_one_comm.mp hLi
    simp only [cholClass]
    set u := (Liᵀ * Li) *ᵥ p with hu
    set w := Li *ᵥ p with hw
    have hLu : Lᵀ *ᵥ u = w := by
      rw [hu, hw, Matrix.mulVec_mulVec, ← Matrix.mul_assoc, ← Matrix.transpose_mul, hLiL,
        Matrix.transpose_one, Matrix.one_mul]
    have e1 : u ⬝ᵥ (L * Dᵀ) *ᵥ u = u ⬝ᵥ D *ᵥ w := by
      rw [← Matrix.mulVec_mulVec, dot_mulVec_comm L u (Dᵀ *ᵥ u), hLu, dotProduct_comm,
        dot_mulVec_comm Dᵀ w u, Matrix.transpose_transpose]
    have e2 : u ⬝ᵥ (D * Lᵀ) *ᵥ u = u ⬝ᵥ D *ᵥ w := by
      rw [← Matrix.mulVec_mulVec, hLu]
    rw [Matrix.add_mulVec, dotProduct_add, e1, e2, Fintype.sum_prod_type]
    simp only [dotProduct, Matrix.mulVec, hDdef, Matrix.of_apply, Finset.mul_sum]
    rw [← Finset.sum_add_distrib, ← Finset.sum_neg_distrib]
    refine Finset.sum_congr rfl fun i _ => ?_
    rw [← Finset.sum_add_distrib, ← Finset.sum_neg_distrib]
    refine Finset.sum_congr rfl fun j _ => ?_
    by_cases hji : j ≤ i
    · simp only [hji, decide_true, if_true]; ring
    · have : δ (i, j) = 0 := hδ i j (not_le.mp hji)
      simp [hji, this]

/-! ### non-vacuity -/

/-- `HasGrad` is satisfiable by a non-trivial function: `ℓ(q) = q₀² q₁` with gradient
`(2 q₀ q₁, q₀²)` (evaluated over `ℚ[ε]` by the same polynomial). -/
example : HasGrad (K := ℚ) (n := Fin 2) (fun q => q 0 * q 0 * q 1) (fun q => q 0 * q 0 * q 1)
    (fun q => ![2 * q 0 * q 1, q 0 * q 0]) := by
  intro q v
  apply dnum_ext
  · simp
  · simp only [DualNumber.snd_mul, TrivSqZeroExt.fst_mul, fst_dvec, snd_dvec, dotProduct,
      Fin.sum_univ_two, Matrix.cons_val_zero, Matrix.cons_val_one]
    ring

/-- hypotheses of `kinetic_dual`: `half = 1/2`, a symmetric non-diagonal `N`. -/
example : 2 * (1/2 : ℚ) = 1 ∧ (!![2, 1; 1, 3] : Matrix (Fin 2) (Fin 2) ℚ)ᵀ = !![2, 1; 1, 3] := by
  constructor
  · norm_num
  · ext i j; fin_cases i <;> fin_cases j <;> simp


/-- `LogDeriv` is satisfiable over `ℚ` (a function with logarithmic-derivative rule `dx/x`):
the `ε`-part `b/a` is forced, the value part is arbitrary. -/
example : LogDeriv (K := ℚ) (fun x => dnum 0 (x.snd * x.fst⁻¹)) (fun _ => 0) := by
  intro a b ainv h
  have ha : a ≠ 0 := by rintro rfl; simp at h
  have : ainv = a⁻¹ := by field_simp; linarith [h]
  simp [this]

/-- curved constraint `c(q) = q₀ + ½ q₁²` in ℚ² with identity metric: `J = (1, q₁)`,
`dJ[v] = (0, v₁)`, `mhp(m) = (0, m₀₁)`, `G = 1 + q₁²`. -/
private def exC : ConstraintFns ℚ (Fin 2) (Fin 1) where
  jacob := fun q => !![1, q 1]
  mhp := fun _ m => ![0, m 0 1]
  Ginv := fun q => !![(1 + q 1 * q 1)⁻¹]

private def exCD : ConstraintFns ℚ[ε] (Fin 2) (Fin 1) where
  jacob := fun q => !![1, q 1]
  mhp := fun _ m => ![0, m 0 1]
  Ginv := fun _ => 0

/-- the hypotheses `hJ`, `hmhp`, `hG` of `gram_term_derivative` / `denseConstrained_derivative`
hold for this instance -/
example :
    (∀ q v, exCD.jacob (dvec q v) = dmat (exC.jacob q) (!![0, v 1])) ∧
    (∀ (q v : Fin 2 → ℚ) (m : Matrix (Fin 1) (Fin 2) ℚ), exC.mhp q m ⬝ᵥ v = trace (m * (!![0, v 1] : Matrix (Fin 1) (Fin 2) ℚ)ᵀ)) ∧
    (∀ q, gram (exC.jacob q) (1 : Matrix (Fin 2) (Fin 2) ℚ) * exC.Ginv q = 1) := by
  refine ⟨?_, ?_, ?_⟩
  · intro q v
    ext i j <;> fin_cases i <;> fin_cases j <;> simp [exC, exCD]
  · intro q v m
    simp [exC, Matrix.trace, Matrix.mul_apply, dotProduct, Fin.sum_univ_two]
  · intro q
    have hpos : (1 + q 1 * q 1 : ℚ) ≠ 0 := by nlinarith [mul_self_nonneg (q 1)]
    ext i j; fin_cases i; fin_cases j
    simp [exC, gram, Matrix.mul_apply, Fin.sum_univ_two, Matrix.vecMul, dotProduct]
    field_simp


/-- position-dependent scalar metric `s(q) = 1 + q₀²` on ℚ¹ -/
private def exF : MetricFns ℚ Unit (Fin 1) where
  θ := fun q _ => 1 + q 0 * q 0
  jac := fun q _ _ => 2 * q 0
private def exFD : MetricFns ℚ[ε] Unit (Fin 1) where
  θ := fun q _ => 1 + q 0 * q 0
  jac := fun q _ _ => 2 * q 0
/-- `1/x` on dual numbers -/
private def sinvD (x : ℚ[ε]) : ℚ[ε] := dnum x.fst⁻¹ (-(x.snd * (x.fst⁻¹ * x.fst⁻¹)))

/-- the hypotheses `hθ`, `hsym`, `hinv`, `hinvD` of `riemannian_derivative` hold for the scalar
class with this metric function -/
example :
    (∀ q v, exFD.θ (dvec q v) = fun k => dnum (exF.θ q k) (exF.jac q k ⬝ᵥ v)) ∧
    (∀ q, ((scalarClass (n := Fin 1) (fun x : ℚ => x⁻¹)).metric (exF.θ q))ᵀ = (scalarClass (fun x : ℚ => x⁻¹)).metric (exF.θ q)) ∧
    (∀ q, (scalarClass (n := Fin 1) (fun x : ℚ => x⁻¹)).metric (exF.θ q) * (scalarClass (fun x : ℚ => x⁻¹)).inv (exF.θ q) = 1) ∧
    (∀ q v, (scalarClass (n := Fin 1) sinvD).metric (exFD.θ (dvec q v)) * (scalarClass sinvD).inv (exFD.θ (dvec q v)) = 1) := by
  have hpos : ∀ x : ℚ, (1 + x * x : ℚ) ≠ 0 := fun x => by nlinarith [mul_self_nonneg x]
  refine ⟨?_, ?_, ?_, ?_⟩
  · intro q v
    funext k
    apply dnum_ext
    · simp [exF, exFD]
    · simp [exF, exFD, dotProduct]; ring
  · intro q; simp [scalarClass]
  · intro q
    simp [scalarClass, exF, hpos]
  · intro q v
    have h : (1 + dvec q v 0 * dvec q v 0) * sinvD (1 + dvec q v 0 * dvec q v 0) = 1 := by
      apply TrivSqZeroExt.ext
      · simp [sinvD, hpos]
      · simp [sinvD]
        field_simp [hpos (q 0)]
        ring
    simp only [scalarClass, exFD, Matrix.smul_mul, Matrix.mul_smul, Matrix.one_mul, smul_smul]
    rw [mul_comm, h, one_smul]


end MiciVerif.C05
