/-
C02 (supplement) —

Reversibility of the step structure GENERATED from integrators.py on every run
(`Generated/IntegSteps.lean`): the C02 theorems composed with the `…_eq_model` theorems of
`Props/C06S.lean`.  (The chained reversal bound with non-zero tolerances is in
`Props/C02Implicit.lean`, section "Chained reversal bound": it does not depend on the generated tables.)
-/
import MiciVerif.Props.C02
import MiciVerif.Props.C02Implicit
import MiciVerif.Props.C06S

namespace MiciVerif.C02S
open MiciVerif.Integrators MiciVerif.IntegSteps
open MiciVerif.Generated

/-! ## Reversibility of the generated step structure -/

/-- `LeapfrogIntegrator._step` as extracted from the source is undone by its negative time step
(flows undone by their negative time). -/
theorem leapfrog_generated_reverse {K X : Type*} [Field K] (h1Flow h2Flow : K → X → X)
    (h1inv : ∀ t x, h1Flow (-t) (h1Flow t x) = x) (h2inv : ∀ t x, h2Flow (-t) (h2Flow t x) = x)
    (ε : K) (x : X) :
    runFlows h1Flow h2Flow IntegSteps.leapfrogStep (-ε)
      (runFlows h1Flow h2Flow IntegSteps.leapfrogStep ε x) = x := by
  rw [C06S.leapfrog_run_eq_model, C06S.leapfrog_run_eq_model]
  exact C02.leapfrog_reverse h1Flow h2Flow h1inv h2inv ε x

/-- `SymmetricCompositionIntegrator.__init__` + `._step` as translated from the source (hence BCSS
2–4): reversible for EVERY list of free coefficients and both values of `initial_h1_flow_step`. -/
theorem symComp_generated_reverse {K X : Type*} [Field K] (h1Flow h2Flow : K → X → X)
    (h1inv : ∀ t x, h1Flow (-t) (h1Flow t x) = x) (h2inv : ∀ t x, h2Flow (-t) (h2Flow t x) = x)
    (free : List K) (initialH1 : Bool) (ε : K) (x : X) :
    IntegSteps.symCompStep (IntegSteps.coefficients free)
        (IntegSteps.flows h1Flow h2Flow free.length initialH1) (-ε)
      (IntegSteps.symCompStep (IntegSteps.coefficients free)
        (IntegSteps.flows h1Flow h2Flow free.length initialH1) ε x) = x := by
  rw [C06S.symComp_generated_eq_model, C06S.symComp_generated_eq_model]
  exact C02.mkSymComp_reverse h1Flow h2Flow h1inv h2inv free initialH1 ε x

example : IntegSteps.symCompStep (K := ℚ) (IntegSteps.coefficients [1 / 5])
      (IntegSteps.flows (kick (K := ℚ) (fun q : ℚ => q ^ 3)) (drift (K := ℚ) (fun p : ℚ => p)) 1 true)
      (-(1 / 2))
      (IntegSteps.symCompStep (K := ℚ) (IntegSteps.coefficients [1 / 5])
        (IntegSteps.flows (kick (K := ℚ) (fun q : ℚ => q ^ 3)) (drift (K := ℚ) (fun p : ℚ => p)) 1 true)
        (1 / 2) ((1, 1) : ℚ × ℚ)) = (1, 1) :=
  symComp_generated_reverse (K := ℚ) _ _ (C02.kick_neg _) (C02.drift_neg _) [1 / 5] true _ _

/-- `ImplicitLeapfrogIntegrator` as extracted: exact solver + exact check ⇒ the `-ε` step from the
result returns (does not raise) exactly the start. -/
theorem implicitLeapfrog_generated_reverse_exact {K V : Type*} [Field K] [AddCommGroup V] [Module K V]
    (S : GLSystem V) (solve : (V → V) → V → Res V) (far : V → Bool)
    (hsolve : ∀ f x y, solve f x = .ok y → f y = y)
    (hfar0 : far 0 = false) (hfar : ∀ d, far d = false → d = 0) (ε : K) (x y : V × V)
    (h : glRun S solve far IntegSteps.implicitLeapfrogMethods IntegSteps.implicitLeapfrogStep ε x = .ok y) :
    glRun S solve far IntegSteps.implicitLeapfrogMethods IntegSteps.implicitLeapfrogStep (-ε) y = .ok x := by
  rw [C06S.implicitLeapfrog_run_eq_model] at h ⊢
  exact C02.glStep_reverse_exact S solve far hsolve hfar0 hfar ε x y h

/-- `ImplicitMidpointIntegrator` as extracted. -/
theorem implicitMidpoint_generated_reverse_exact {K V : Type*} [Field K] [AddCommGroup V] [Module K V]
    (S : HSystem V) (solve : (V × V → V × V) → V × V → Res (V × V)) (far : V × V → Bool)
    (hsolve : ∀ g x y, solve g x = .ok y → g y = y)
    (hfar0 : far 0 = false) (hfar : ∀ d, far d = false → d = 0) (ε : K) (z y : V × V)
    (h : imRun S solve far IntegSteps.implicitMidpointMethods IntegSteps.implicitMidpointStep ε z = .ok y) :
    imRun S solve far IntegSteps.implicitMidpointMethods IntegSteps.implicitMidpointStep (-ε) y = .ok z := by
  rw [C06S.implicitMidpoint_run_eq_model] at h ⊢
  exact C02.imStep_reverse_exact (hamField S) solve far hsolve hfar0 hfar ε z y h

/-- `ConstrainedLeapfrogIntegrator` as extracted (any number of inner steps). -/
theorem constrainedLeapfrog_generated_reverse_exact {K V : Type*} [Field K] [AddCommGroup V]
    [Module K V] (S : ConSystem K V) (retr : K → V × V → V × V → Res (V × V)) (far : V → Bool)
    (hE : C02.ConExact S retr far) (nInner : Nat) (ε : K) (x y : V × V)
    (hcot : S.proj x.1 x.2 = x.2)
    (h : conRun S retr far nInner IntegSteps.constrainedLeapfrogMethods
      IntegSteps.constrainedLeapfrogStep ε x = .ok y) :
    conRun S retr far nInner IntegSteps.constrainedLeapfrogMethods
      IntegSteps.constrainedLeapfrogStep (-ε) y = .ok x := by
  rw [C06S.constrainedLeapfrog_run_eq_model] at h ⊢
  exact C02.conStep_reverse_exact S retr far hE nInner ε x y hcot h

end MiciVerif.C02S
