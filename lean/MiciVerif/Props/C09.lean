/-
C09 — state-level caching is transparent.  (work in progress: stub with the table obligation)
-/
import MiciVerif.Model.Cache
import MiciVerif.Generated.CacheDeps

namespace MiciVerif.C09
open MiciVerif.Cache

theorem table_sound : DepsSound MiciVerif.Generated.cacheTable := by
  decide +kernel

end MiciVerif.C09
