/-
C09 — State-level caching is transparent: cached results equal from-scratch results.

Model: `MiciVerif/Model/Cache.lean` (heap of `ChainState`s, shared `_dependencies` dicts, both
decorators, copies, read-only copies, pickle round trips, fresh states, in-place updates of the
variable arrays, nested calls, auxiliary outputs, any number of system objects).
Values are uninterpreted: a value is the provenance (variable versions) of its computation and
the from-scratch value of method `m` on state `s` is `trueProv tbl cfg s sys m`.

* `table_sound`   : the table extracted from `src/mici/systems.py` ON THIS RUN satisfies `DepsSound`.
* `transparent`   : for every table with `DepsSound`, every configuration of system objects and
                    every history whose in-place updates are safe, every call returns the
                    from-scratch value on the current variables.
* `transparent_noalias` : if no system method returns a state variable's own array, every
                    history is safe (no side condition left).
* `cache_irrelevant` : a call gives the same value on a heap whose caches were all emptied.
* `unsound_table_is_stale`, `unsafe_inplace_is_stale` :
                    the hypotheses cannot be dropped (concrete histories, by kernel evaluation).
  (The clause "state writable" of `SafeIP` is vacuous on reachable heaps: read-only states are
  frozen — copies by `copy(read_only=True)`, pickles by `__setstate__` — see `NoAliasInv.frozen`.)
-/
import MiciVerif.Lemmas.CacheNoAlias
import MiciVerif.Generated.CacheDeps

namespace MiciVerif.C09
open MiciVerif.Cache

/-- The dependency table generated from the current source declares, for every cached method of
every concrete system class, all state variables its result depends on (transitively through
the system methods it calls), auxiliary outputs depend on the same variables as the method that
fills them, and nothing was un-analysable. -/
theorem table_sound : DepsSound MiciVerif.Generated.cacheTable := by
  decide +kernel

private theorem transparent_from (tbl : Table) (cfg : Cfg) (hs : DepsSound tbl) :
    ∀ (ops : List Op) (h0 : Heap), Inv tbl cfg h0 → SafeHist tbl cfg h0 ops →
      ∀ h op out, (h, op, out) ∈ run tbl cfg h0 ops →
        ∀ sid sys m, op = .call sid sys m → sid < h.nSt → (lookup tbl (cfg.clsOf sys) m).isSome →
          ∃ v tr, out = .val v tr ∧ v.prov = trueProv tbl cfg (h.st sid) sys m := by
  intro ops
  induction ops with
  | nil => intro h0 _ _ h op out hm; simp [run] at hm
  | cons o ops ih =>
    intro h0 hi hsafe h op out hm sid sys m hop hlt hl
    simp only [run, List.mem_cons] at hm
    rcases hm with hm | hm
    · simp only [Prod.mk.injEq] at hm
      obtain ⟨rfl, rfl, rfl⟩ := hm
      subst hop
      simp only [step, hlt, if_true]
      exact ⟨_, _, rfl, (callTop_spec hs h hi sid sys m).2.2 hl⟩
    · exact ih _ (inv_step hs h0 hi o hsafe.1) hsafe.2 h op out hm sid sys m hop hlt hl

/-- **Transparency.**  For every dependency table satisfying `DepsSound`, every assignment of
classes / return conventions / callable-ness / aliasing to any number of system objects, and
every history of assignments, in-place updates, copies (also read-only), pickle round trips,
fresh states and calls of cached or uncached methods on any of the states, in which every
in-place update is safe (`SafeIP`: the state is writable or frozen, and the only cached values
that are the updated array itself are entries of that state which the assignment invalidates):
every call returns the from-scratch value on the current variables of the state it is called on.
(`h` is the heap just before the call; a call does not change variables.) -/
theorem transparent (tbl : Table) (cfg : Cfg) (hs : DepsSound tbl) (ops : List Op)
    (hsafe : SafeHist tbl cfg Heap.init ops) :
    ∀ h op out, (h, op, out) ∈ run tbl cfg Heap.init ops →
      ∀ sid sys m, op = .call sid sys m → sid < h.nSt → (lookup tbl (cfg.clsOf sys) m).isSome →
        ∃ v tr, out = .val v tr ∧ v.prov = trueProv tbl cfg (h.st sid) sys m :=
  transparent_from tbl cfg hs ops Heap.init (inv_init tbl cfg) hsafe

open MiciVerif.Generated in
/-- non-vacuity: the generated table, a Euclidean and a Gaussian-Euclidean system object, a history with a copy, a
pickle round trip, a read-only copy and assignments is safe. -/
example : SafeHist cacheTable ⟨fun i => if i = 0 then cls_EuclideanMetricSystem else cls_GaussianEuclideanMetricSystem, fun _ _ => 1, fun _ _ => false, fun _ _ => none⟩
    Heap.init [.call 0 0 m_h, .copy 0 false, .assign 1 .pos, .call 1 1 m_h, .pickle 1, .copy 2 true, .assign 3 .mom, .call 2 0 m_grad_neg_log_dens] := by
  simp [SafeHist, SafeOp]

/-! ### no aliasing ⇒ every history is safe -/

/-- **Transparency without side condition.**  If no system method returns a state variable's
own array (`aliasRet = none`: checked on the real classes by the harness on every run) then
EVERY history — including arbitrary in-place updates, also attempted on read-only copies — is
transparent. -/
theorem transparent_noalias (tbl : Table) (cfg : Cfg) (hs : DepsSound tbl)
    (hna : ∀ s m, cfg.aliasRet s m = none) (ops : List Op) :
    ∀ h op out, (h, op, out) ∈ run tbl cfg Heap.init ops →
      ∀ sid sys m, op = .call sid sys m → sid < h.nSt → (lookup tbl (cfg.clsOf sys) m).isSome →
        ∃ v tr, out = .val v tr ∧ v.prov = trueProv tbl cfg (h.st sid) sys m := by
  apply transparent tbl cfg hs ops
  apply safe_of_noAlias tbl cfg hna
  refine ⟨?_, ?_⟩
  · intro i k v hc; simp only [Heap.init] at hc; split at hc <;> simp [St.empty] at hc
  · intro i; simp only [Heap.init]; split <;> simp [St.empty]

/-- non-vacuity of `transparent_noalias`: the generated table is sound and the configuration
used by the harness for non-aliasing systems has `aliasRet = none`. -/
example : DepsSound MiciVerif.Generated.cacheTable ∧
    ∀ s m, (⟨fun _ => MiciVerif.Generated.cls_EuclideanMetricSystem, fun _ _ => 1, fun _ _ => false, fun _ _ => none⟩ : Cfg).aliasRet s m = none :=
  ⟨table_sound, fun _ _ => rfl⟩

/-! ### the cache is irrelevant for results -/

/-- heap with every cache emptied (all `_dependencies` kept) -/
def clearCaches (h : Heap) : Heap :=
  { h with st := fun i => { h.st i with cache := fun _ => none } }

/-- **Caching defeated gives the same results.**  On any heap reachable by a safe history, a
call on state `sid` returns the same value as the same call after emptying every cache. -/
theorem cache_irrelevant (tbl : Table) (cfg : Cfg) (hs : DepsSound tbl) (ops : List Op)
    (hsafe : SafeHist tbl cfg Heap.init ops) (sid sys m : Nat)
    (hl : (lookup tbl (cfg.clsOf sys) m).isSome) :
    (callTop tbl cfg (finalHeap tbl cfg Heap.init ops) sid sys m).v.prov =
      (callTop tbl cfg (clearCaches (finalHeap tbl cfg Heap.init ops)) sid sys m).v.prov := by
  have hfin : ∀ (ops : List Op) (h0 : Heap), Inv tbl cfg h0 → SafeHist tbl cfg h0 ops →
      Inv tbl cfg (finalHeap tbl cfg h0 ops) := by
    intro ops
    induction ops with
    | nil => intro h0 hi _; exact hi
    | cons o ops ih => intro h0 hi hsf; exact ih _ (inv_step hs h0 hi o hsf.1) hsf.2
  have hi := hfin ops Heap.init (inv_init tbl cfg) hsafe
  generalize finalHeap tbl cfg Heap.init ops = h at hi
  have hc : Inv tbl cfg (clearCaches h) := by
    refine ⟨hi.cellBound, hi.cellClosed, ?_, ?_⟩
    · intro i k e hp; exact absurd rfl hp
    · intro i k v e hv; cases hv
  rw [(callTop_spec hs h hi sid sys m).2.2 hl, (callTop_spec hs _ hc sid sys m).2.2 hl]
  rfl

open MiciVerif.Generated in
example : SafeHist cacheTable ⟨fun _ => cls_EuclideanMetricSystem, fun _ _ => 0, fun _ _ => false, fun _ _ => none⟩
    Heap.init [.call 0 0 m_h, .assign 0 .mom, .copy 0 false, .call 1 0 m_h] := by
  simp [SafeHist, SafeOp]

/-! ### the hypotheses are necessary -/

/-- for each call of the history: does it return a value different from the from-scratch value? -/
def staleCalls (tbl : Table) (cfg : Cfg) (ops : List Op) : List Bool :=
  (run tbl cfg Heap.init ops).map (fun t => match t.2.1, t.2.2 with
    | .call sid sys m, .val v _ => decide (v.prov ≠ trueProv tbl cfg (t.1.st sid) sys m)
    | _, _ => false)

private def mkEntry (declared reads alias : VarSet) : Entry :=
  { cls := 0, meth := 0, cached := true, withAux := false, declared := declared, declUnknown := false,
    aux := [], reads := reads, writes := VarSet.empty, calls := [], condCalls := false, unknownReads := false,
    trueDeps := reads, writesT := VarSet.empty, rank := 0, mayAlias := alias, stateOnly := true,
    clsName := "C", methName := "m" }

/-- `@cache_in_state("mom") def m(self, state): return f(state.pos)` -/
def unsoundTable : Table := [mkEntry ⟨false, true, false⟩ ⟨true, false, false⟩ VarSet.empty]
/-- `@cache_in_state("pos") def m(self, state): return state.pos` -/
def aliasTable : Table := [mkEntry ⟨true, false, false⟩ ⟨true, false, false⟩ ⟨true, false, false⟩]

def plainCfg : Cfg := ⟨fun _ => 0, fun _ _ => 0, fun _ _ => false, fun _ _ => none⟩
def aliasCfg : Cfg := ⟨fun _ => 0, fun _ _ => 0, fun _ _ => false, fun _ _ => some .pos⟩

/-- `DepsSound` cannot be dropped: with a method that declares `mom` but reads `pos` (the shape of
the historical `GaussianEuclideanMetricSystem.dh2_dpos` defect) the history
`call; state.pos = …; call` returns a stale value — and `DepsSound` rejects that table. -/
theorem unsound_table_is_stale :
    ¬ DepsSound unsoundTable ∧
    staleCalls unsoundTable plainCfg [.call 0 0 0, .assign 0 .pos, .call 0 0 0] = [false, false, true] := by
  decide +kernel

/-- Safety of in-place updates cannot be dropped: with a (sound!) method that returns the position
array itself, `call; copy; original.pos += …; call on the copy` returns a stale value on the copy
(the copy shares the cached array object with the original).  By `transparent` this history is
therefore not `SafeHist`. -/
theorem unsafe_inplace_is_stale :
    DepsSound aliasTable ∧
    staleCalls aliasTable aliasCfg [.call 0 0 0, .copy 0 false, .assignIP 0 .pos, .call 1 0 0]
      = [false, false, false, true] ∧
    -- the same history is fine when the update rebinds the variable instead of mutating the array
    staleCalls aliasTable aliasCfg [.call 0 0 0, .copy 0 false, .assign 0 .pos, .call 1 0 0, .call 0 0 0]
      = [false, false, false, false, false] := by
  decide +kernel

end MiciVerif.C09
