/-
C01 (statistics clause), source tie of the DYNAMIC transitions (builder B12) — "The step count and acceptance
statistic a transition reports equal the number of integrator steps it actually took and the mean Metropolis
acceptance probability of the states it visited."

`Props/C01S.lean` (builder B8) reads the state part of `DynamicIntegrationTransition._build_tree` / `.sample`
from the statement trees regenerated from transitions.py on every run and proves it equal to `propose` /
`stepUp` / `final`; `Props/C01Stats.lean` proves the statistics theorems about the MODEL's own book-keeping
(`buildVisit`, `visited`, `nStep`, `acceptStat`).  This module closes the gap between the two: the statistics
that the GENERATED bodies accumulate in the shared dictionary `stats` are read statement by statement
(`Skel.SSem`, `Model/TransitionStatsSem.lean`: `stats["n_step"] += 1`, `stats["sum_metrop_accept_prob"] +=
metrop_accept_prob`, the flags set by `_process_integrator_error` in the `except IntegratorError` handler, the
final `sum / n_step` guarded by `n_step > 0`, `accept_stat = 0` when `any` flag is set, `tree_depth = depth`) and
proved equal to that book-keeping for every tree, start, failure pattern and dictionary state:

* `sem_stats_sample_plan`, `sem_stats_build_tree_plan`, `sem_stats_process_error_plan` (together:
  `sem_stats_plans`), `sem_stats_loop_plan`    — the generated bodies of `sample`, `_build_tree` and
                                                  `_process_integrator_error` have exactly the expected statement
                                                  plans (kernel evaluation on the regenerated trees);
* `skel_check_divergence_raises_divergence`     — both `_check_divergence` bodies raise exactly
                                                  `HamiltonianDivergenceError` (convention (2) of the reading);
* `sem_build_tree_stats_is_buildVisit`          — (a) a `_build_tree` call counts exactly the leaves of
                                                  `buildVisit fwd t entryOk`, in order, and ends as it says;
* `sem_dynamic_stats_any_error_class`,
  `sem_dynamic_stats_is_visited`                — (b) the whole `sample` reports `visited t start`: leaf list,
                                                  `n_step = nStep`, `tree_depth + 1` = passes, error flag,
                                                  `accept_stat = acceptStat`;
* `sem_final_in_visited`, `sem_nstep_counts_each_step_once`, `sem_accept_stat_is_mean_over_visited`,
  `sem_nstep_full`                              — (c) the theorems of `Props/C01Stats.lean` transported to what
                                                  the generated code reports.

Trusted conventions of the reading: see the header of `Model/TransitionStatsSem.lean` ((1) `0.0 if isnan(h_diff)
else exp(min(0, h_init − h))` of the leaf at offset `k` is `a k`, instantiated as `ratio (w k) (w start)`;
(2) which statements raise and with which class; (3) `isinstance` on the three unrelated error classes;
(4) the exact text of the `stats` dictionary display and of the `any(…)` generator; (5) the criterion as a flag).
-/
import MiciVerif.Generated.TransitionSkeleton
import MiciVerif.Lemmas.TransitionStatsDyn
import MiciVerif.Props.C01Stats

namespace MiciVerif.C01T
open MiciVerif.Skel MiciVerif.Generated MiciVerif.Transitions MiciVerif.Transitions.TTree

/-- body of `DynamicIntegrationTransition.sample`, regenerated from the source under test -/
abbrev sampleBody : List S := TransitionSkeleton.dynamicSample.stmts
/-- body of `DynamicIntegrationTransition._build_tree` -/
abbrev buildBody : List S := TransitionSkeleton.buildTree.stmts
/-- body of `_process_integrator_error` -/
abbrev procBody : S := TransitionSkeleton.processIntegratorError
/-- body of `for depth in range(self.max_tree_depth)` (as `C01S.depthBody`) -/
def loopBody : List S :=
  (TransitionSkeleton.dynamicSample.loopBody (.call "range" (E.l [.v "self.max_tree_depth"]))).getD []

/-- The bodies generated from the current source have exactly the expected statement plans: `sample` = the
`stats` display (counters 0, flags False), `_init_aux_vars`, the start leaf, `next_state = state`; the loop with
the twelve statements of `DSem.expectedPassPlan`; `stats.pop("sum_metrop_accept_prob")`, the mean guarded by
`stats["n_step"] > 0` (else `0.0`), `accept_stat = 0.0` if `any` of the three flags else the mean,
`stats["tree_depth"] = depth`, `return next_state, stats`.  `_build_tree` = `BSem.expectedPlan` (in the `try`:
step, energy, NaN ↦ inf, leaf, proposal, `h_diff`, acceptance probability, `sum_metrop_accept_prob +=`,
`n_step += 1`, `terminate = False`, `_check_divergence`; handler: `_process_integrator_error`, `(True, None,
None)`).  `_process_integrator_error` = the chain divergence ↦ `diverging`, non-reversible ↦
`non_reversible_step`, convergence ↦ `convergence_error`, nothing else. -/
theorem sem_stats_sample_plan : SSem.samplePlan sampleBody = some SSem.expectedSamplePlan := by
  decide +kernel

/-- … `_build_tree` (second part of the statement above) -/
theorem sem_stats_build_tree_plan : BSem.buildPlan buildBody = some BSem.expectedPlan := by
  decide +kernel

/-- … `_process_integrator_error` (third part of the statement above) -/
theorem sem_stats_process_error_plan : SSem.procChain procBody = some SSem.expectedChain := by
  decide +kernel

/-- the three plans together -/
theorem sem_stats_plans :
    SSem.samplePlan sampleBody = some SSem.expectedSamplePlan
    ∧ BSem.buildPlan buildBody = some BSem.expectedPlan
    ∧ SSem.procChain procBody = some SSem.expectedChain :=
  ⟨sem_stats_sample_plan, sem_stats_build_tree_plan, sem_stats_process_error_plan⟩

/-- the loop body addressed by the query of `C01S` is the one `SSem.samplePlan` reads -/
theorem sem_stats_loop_plan : DSem.passPlan loopBody = some DSem.expectedPassPlan := by
  decide +kernel

/-- Convention (2) of the reading: the only `raise` in either `_check_divergence` body is
`HamiltonianDivergenceError(msg)`, and `_process_integrator_error` raises nothing. -/
theorem skel_check_divergence_raises_divergence :
    TransitionSkeleton.multinomialCheckDivergence.raises = [.call "HamiltonianDivergenceError" (E.l [.v "msg"])]
    ∧ TransitionSkeleton.sliceCheckDivergence.raises = [.call "HamiltonianDivergenceError" (E.l [.v "msg"])]
    ∧ TransitionSkeleton.processIntegratorError.raises = [] := by
  decide +kernel

section Stats
variable {K : Type} [Field K] [LinearOrder K]

/-- **(a) Statistics of one `_build_tree` call.**  The body generated from the current source, read statement by
statement on the shared dictionary (`Skel.SSem`), called on the sub-tree `t` whose left end is at absolute offset
`off`, built forwards or backwards, entered by a step with success flag `entryOk`, with the dictionary in ANY
state `s`: executes `stats["n_step"] += 1` exactly at the leaves `(buildVisit fwd t entryOk).1`, in that order
(so a leaf whose entering step failed is not counted, a divergent leaf is, nothing after the first failure is),
adds exactly their acceptance probabilities to `sum_metrop_accept_prob`, returns `terminate` iff `buildVisit`
does not end `.ok`, leaves the flags alone unless it ends `.err`, and — when the failing step raises one of the
three flagged classes and no flag was set before — shows the end status `(buildVisit fwd t entryOk).2` to the
caller (`endOf`: not terminated / terminated without a new flag / terminated with a new flag). -/
theorem sem_build_tree_stats_is_buildVisit (stepErr : SSem.ErrKind) (a : Nat → K) (fwd : Bool) (t : TTree K)
    (off : Nat) (entryOk : Bool) (s : SSem.St K) :
    ∃ term s', SSem.buildPass buildBody procBody stepErr a fwd t off entryOk s = some (term, s') ∧
      s'.counted = s.counted ++ (buildVisit fwd t entryOk).1.map (· + off) ∧
      s'.nStep = s.nStep + (buildVisit fwd t entryOk).1.length ∧
      s'.sumAcc = s.sumAcc + ((buildVisit fwd t entryOk).1.map fun k => a (k + off)).sum ∧
      term = decide ((buildVisit fwd t entryOk).2 ≠ .ok) ∧
      ((buildVisit fwd t entryOk).2 ≠ .err → s'.flags = s.flags) ∧
      (stepErr.flagged = true → s.flags.any = false →
        SSem.endOf term s.flags s'.flags = (buildVisit fwd t entryOk).2) := by
  obtain ⟨r, hr, fl, rfl, hf0, hf1⟩ := SSem.buildRead_expected stepErr a fwd t off entryOk s
  refine ⟨_, s.visit a off (buildVisit fwd t entryOk).1 fl, ?_, rfl, rfl, rfl, rfl, hf0, ?_⟩
  · unfold SSem.buildPass
    rw [sem_stats_plans.2.1, sem_stats_plans.2.2]
    exact hr
  · intro hk hs
    simp only [SSem.St.visit_flags]
    cases hb : (buildVisit fwd t entryOk).2 with
    | ok => simp [SSem.endOf]
    | crit =>
      have := hf0 (by rw [hb]; decide)
      simp [SSem.endOf, this]
    | err =>
      obtain ⟨k, hk', rfl⟩ := hf1 hb
      have hkf : k.flagged = true := by
        rcases hk' with rfl | rfl
        · exact hk
        · rfl
      have hne : s.flags ≠ SSem.procFlags k s.flags := by
        intro h
        have h1 := SSem.procFlags_any k s.flags hkf
        rw [← h, hs] at h1
        exact Bool.false_ne_true h1
      simp [SSem.endOf, hne]

/-- The statistics reading and the state reading of builder B8 (`C01S.sem_build_tree_is_propose`) run in
lock-step: read from the same generated body, the call hands back nothing usable to its caller (`BSem.buildPass`
gives `none`) exactly when the statistics reading returns `terminate = True`, i.e. iff `!(entryOk && t.valid)`. -/
theorem sem_build_tree_stats_agrees_with_state_reading [IsStrictOrderedRing K] (stepErr : SSem.ErrKind) (a : Nat → K)
    (fwd : Bool) (t : TTree K) (off : Nat) (entryOk : Bool) (s : SSem.St K) :
    ∃ term s' obs, SSem.buildPass buildBody procBody stepErr a fwd t off entryOk s = some (term, s') ∧
      BSem.buildPass buildBody fwd t entryOk = some obs ∧
      term = !(entryOk && t.valid) ∧ (obs = Option.none ↔ term = true) := by
  obtain ⟨term, s', h, _, _, _, ht, _⟩ := sem_build_tree_stats_is_buildVisit stepErr a fwd t off entryOk s
  have hiff := C01Stats.build_ok_iff_valid fwd t entryOk
  have hterm : term = !(entryOk && t.valid) := by
    rw [ht]
    by_cases hb : (buildVisit fwd t entryOk).2 = .ok
    · obtain ⟨h1, h2⟩ := hiff.1 hb
      rw [hb, h1, h2]
      rfl
    · have : ¬ (entryOk = true ∧ t.valid = true) := fun hh => hb (hiff.2 hh)
      have h3 : (entryOk && t.valid) = false := by
        cases entryOk <;> cases hv : t.valid <;> simp_all
      simp [hb, h3]
  refine ⟨term, s', _, h, BSem.buildPass_of_plan _ sem_stats_build_tree_plan fwd t entryOk, hterm, ?_⟩
  rw [hterm]
  cases (entryOk && t.valid) <;> simp

variable (l r : TTree K) (e τ : Bool)
local notation "T" => TTree.node l r e τ

/-- **(b) Statistics of the whole transition, any error class.**  `sample` read from the current source (the
`_build_tree` calls and `_process_integrator_error` read from theirs), for the direction draws that make `T` the
maximal trajectory tree (`max_tree_depth ≥ 1`, enforced by the constructor: `T` is not a single leaf), from the
leaf at offset `start`, whatever class `stepErr` of `IntegratorError` a failing step raises: the leaves counted in
`n_step` are `(visited T start).1` in order; `n_step = nStep T start`; `tree_depth` is the index of the last pass
started (`tree_depth + 1 = (visited T start).2.2.1`); a flag is set only if the model's error flag
`(visited T start).2.2.2` is; `av_metrop_accept_prob` is the mean of the acceptance probabilities over the counted
leaves (0 if none); `accept_stat` is 0 if a flag is set and that mean otherwise. -/
theorem sem_dynamic_stats_any_error_class (stepErr : SSem.ErrKind) (a : Nat → K) (start : Nat) :
    ∃ out, SSem.samplePass sampleBody buildBody procBody stepErr a T start = some out ∧
      out.counted = (visited T start).1 ∧
      out.nStep = nStep T start ∧
      out.treeDepth + 1 = (visited T start).2.2.1 ∧
      (out.flags.any = true → (visited T start).2.2.2 = true) ∧
      out.avAccept = (if nStep T start = 0 then 0 else ((visited T start).1.map a).sum / (nStep T start : K)) ∧
      out.acceptStat = if out.flags.any then 0 else out.avAccept := by
  obtain ⟨out, h, hc, hn, hd, hf0, _, hav, hacc⟩ :=
    SSem.samplePass_expected sampleBody buildBody procBody sem_stats_plans.1 sem_stats_plans.2.1 sem_stats_plans.2.2
      stepErr a l r e τ start
  refine ⟨out, h, hc, hn, hd, ?_, hav, hacc⟩
  intro hany
  by_contra hne
  have := hf0 (by simpa using hne)
  rw [this] at hany
  exact Bool.false_ne_true hany

/-- **(b) Statistics of the whole transition.**  When a failing integrator step raises one of the classes
`_process_integrator_error` has a flag for (`NonReversibleStepError`, `ConvergenceError`; a divergence always
does), what `sample` read from the current source reports IS the model's book-keeping: counted leaves =
`(visited T start).1`, `n_step = nStep T start`, `tree_depth + 1` = number of passes `(visited T start).2.2.1`,
(any flag set) = `(visited T start).2.2.2`, and — with the acceptance probability of leaf `k` read as
`ratio (w k) (w start)` (convention (1)) — `accept_stat = acceptStat T start`. -/
theorem sem_dynamic_stats_is_visited (stepErr : SSem.ErrKind) (hk : stepErr.flagged = true) (start : Nat) :
    ∃ out, SSem.samplePass sampleBody buildBody procBody stepErr
        (fun k => ratio ((T).weightAt k) ((T).weightAt start)) T start = some out ∧
      out.counted = (visited T start).1 ∧
      out.nStep = nStep T start ∧
      out.treeDepth + 1 = (visited T start).2.2.1 ∧
      out.flags.any = (visited T start).2.2.2 ∧
      out.acceptStat = acceptStat T start := by
  obtain ⟨out, h, hc, hn, hd, hf0, hf1, hav, hacc⟩ :=
    SSem.samplePass_expected sampleBody buildBody procBody sem_stats_plans.1 sem_stats_plans.2.1 sem_stats_plans.2.2
      stepErr (fun k => ratio ((T).weightAt k) ((T).weightAt start)) l r e τ start
  have hany : out.flags.any = (visited T start).2.2.2 := by
    cases hv : (visited T start).2.2.2
    · rw [hf0 hv]; rfl
    · obtain ⟨k, hk', hfl⟩ := hf1 hv
      rw [hfl]
      apply SSem.procFlags_any
      rcases hk' with rfl | rfl
      · exact hk
      · rfl
  refine ⟨out, h, hc, hn, hd, hany, ?_⟩
  rw [hacc, hav, hany]
  simp only [acceptStat]

/-- **(c) The returned state was visited.**  Whatever the draws, the state the loop read from the current source
(`DSem.loopPass`, builder B8) returns is the start state or one of the leaves the statistics read from the current
source count in `n_step`. -/
theorem sem_final_in_visited [IsStrictOrderedRing K] (stepErr : SSem.ErrKind) (a : Nat → K) (start : Nat)
    (h : start < (T).size) :
    ∃ out d, SSem.samplePass sampleBody buildBody procBody stepErr a T start = some out ∧
      DSem.loopPass loopBody buildBody T start = some d ∧
      Dist.All (fun c => c = start ∨ c ∈ out.counted) d := by
  obtain ⟨out, ho, hc, _⟩ := sem_dynamic_stats_any_error_class l r e τ stepErr a start
  refine ⟨out, _, ho, DSem.loopPass_of_plan _ _ sem_stats_loop_plan sem_stats_plans.2.1 T start, ?_⟩
  rw [hc]
  exact C01Stats.final_in_visited T start h

/-- **(c) `n_step` counts each integrator step once.**  The leaves at which the current source executes
`stats["n_step"] += 1` are pairwise distinct, inside the trajectory tree and never the start state; the reported
`n_step` is their number and is at most `size − 1` (`2^depth − 1`). -/
theorem sem_nstep_counts_each_step_once [IsStrictOrderedRing K] (stepErr : SSem.ErrKind) (a : Nat → K) (start : Nat)
    (h : start < (T).size) :
    ∃ out, SSem.samplePass sampleBody buildBody procBody stepErr a T start = some out ∧
      out.counted.Nodup ∧ (∀ k ∈ out.counted, k < (T).size) ∧ start ∉ out.counted ∧
      out.nStep = out.counted.length ∧ out.nStep ≤ (T).size - 1 := by
  obtain ⟨out, ho, hc, hn, _⟩ := sem_dynamic_stats_any_error_class l r e τ stepErr a start
  obtain ⟨h1, h2, h3⟩ := C01Stats.visited_distinct T start h
  refine ⟨out, ho, ?_, ?_, ?_, ?_, ?_⟩
  · rw [hc]; exact h1
  · rw [hc]; exact h2
  · rw [hc]; exact h3
  · rw [hc, hn]; rfl
  · rw [hn]; exact C01Stats.nStep_le T start h

/-- **(c) `accept_stat` is the mean acceptance probability over the visited states.**  For what the current source
reports (flagged error classes, acceptance probability read as `ratio (w k) (w start)`): when no flag is set,
`accept_stat · n_step = Σ_{k counted} min(1, w_k / w_start)`; when a flag is set, `accept_stat = 0`; and for
non-negative weights `0 ≤ accept_stat ≤ 1`. -/
theorem sem_accept_stat_is_mean_over_visited [IsStrictOrderedRing K] (stepErr : SSem.ErrKind)
    (hk : stepErr.flagged = true) (start : Nat) :
    ∃ out, SSem.samplePass sampleBody buildBody procBody stepErr
        (fun k => ratio ((T).weightAt k) ((T).weightAt start)) T start = some out ∧
      (out.flags.any = false → 0 < out.nStep →
        out.acceptStat * (out.nStep : K) =
          (out.counted.map fun k => ratio ((T).weightAt k) ((T).weightAt start)).sum) ∧
      (out.flags.any = true → out.acceptStat = 0) ∧
      ((T).Nonneg → 0 ≤ out.acceptStat ∧ out.acceptStat ≤ 1) := by
  obtain ⟨out, ho, hc, hn, _, hany, hacc⟩ := sem_dynamic_stats_is_visited l r e τ stepErr hk start
  refine ⟨out, ho, ?_, ?_, ?_⟩
  · intro h0 hpos
    rw [hacc, hn, hc]
    exact C01Stats.acceptStat_mean T start (by rw [← hany]; exact h0) (by rw [← hn]; exact hpos)
  · intro h1
    rw [hacc]
    exact C01Stats.acceptStat_error T start (by rw [← hany]; exact h1)
  · intro hnn
    rw [hacc]
    exact C01Stats.acceptStat_unit T hnn start

/-- **(c) Full trees.**  Without a failing step, divergence or termination strictly inside the tree the current
source reports `n_step = size − 1` (`2^depth − 1`) and sets no flag. -/
theorem sem_nstep_full [IsStrictOrderedRing K] (stepErr : SSem.ErrKind) (a : Nat → K) (hg : (T).good = true)
    (start : Nat) (h : start < (T).size) :
    ∃ out, SSem.samplePass sampleBody buildBody procBody stepErr a T start = some out ∧
      out.nStep = (T).size - 1 ∧ out.flags.any = false := by
  obtain ⟨out, ho, _, hn, _, hf, _⟩ := sem_dynamic_stats_any_error_class l r e τ stepErr a start
  obtain ⟨h1, h2⟩ := C01Stats.nStep_full T hg start h
  refine ⟨out, ho, by rw [hn, h1], ?_⟩
  cases hany : out.flags.any
  · rfl
  · rw [hf hany] at h2
    exact absurd h2 (by decide)

end Stats

/-! ### non-vacuity, and the reading discriminates -/

section Examples

/-- what an `Out` shows: `(n_step, av_metrop_accept_prob, accept_stat, tree_depth, flags, counted leaves)` -/
def show' (o : SSem.Out ℚ) : Nat × ℚ × ℚ × Nat × SSem.Flags × List Nat :=
  (o.nStep, o.avAccept, o.acceptStat, o.treeDepth, o.flags, o.counted)

/-- weights 1, 1, 1/2, 1/4 at offsets 0..3, all steps fine, leaf 3 divergent, start at offset 1 -/
def exTree : TTree ℚ :=
  .node (.node (.leaf 1 true) (.leaf 1 true) true false) (.node (.leaf (1 / 2) true) (.leaf (1 / 4) false) true false)
    true false

set_option synthInstance.maxSize 512 in
/-- not vacuous: on `exTree` from leaf 1 the current source counts the leaves 0, 2, 3 (the divergent leaf 3
included), reports `n_step = 3`, mean acceptance `(1 + 1/2 + 1/4) / 3`, `tree_depth = 1`, sets `diverging` and
zeroes `accept_stat` — and that is `visited` / `nStep` / `acceptStat` of the model -/
example :
    (SSem.samplePass sampleBody buildBody procBody .convergence
        (fun k => ratio (exTree.weightAt k) (exTree.weightAt 1)) exTree 1).map show' =
      some (3, 7 / 12, 0, 1, ⟨true, false, false⟩, [0, 2, 3])
    ∧ visited exTree 1 = ([0, 2, 3], false, 2, true) ∧ acceptStat exTree 1 = 0 := by
  decide +kernel

/-- as `exTree` without the divergence, but the step joining the leaves 2 and 3 fails -/
def exTreeFail : TTree ℚ :=
  .node (.node (.leaf 1 true) (.leaf 1 true) true false) (.node (.leaf (1 / 2) true) (.leaf (1 / 4) true) false false)
    true false

set_option synthInstance.maxSize 512 in
/-- **The hypothesis `stepErr.flagged` of `sem_dynamic_stats_is_visited` is necessary (an observation about the
current source).**  On `exTreeFail` from leaf 0 the leaves 1 and 2 are counted and the step into leaf 3 fails.
If that step raises `ConvergenceError` / `NonReversibleStepError` the flag is set and `accept_stat = 0 =
acceptStat`; if it raises a plain `IntegratorError` (what `Integrator.step` turns a `ValueError` / `LinAlgError`
into) NO flag is set and the current source reports `accept_stat = 3/4`, the mean over the two counted leaves,
although the trajectory was cut short by an integrator error (the Metropolis transitions report 0 in that case). -/
example :
    (SSem.samplePass sampleBody buildBody procBody .convergence
        (fun k => ratio (exTreeFail.weightAt k) (exTreeFail.weightAt 0)) exTreeFail 0).map show' =
      some (2, 3 / 4, 0, 1, ⟨false, true, false⟩, [1, 2])
    ∧ (SSem.samplePass sampleBody buildBody procBody .plain
        (fun k => ratio (exTreeFail.weightAt k) (exTreeFail.weightAt 0)) exTreeFail 0).map show' =
      some (2, 3 / 4, 3 / 4, 1, ⟨false, false, false⟩, [1, 2])
    ∧ visited exTreeFail 0 = ([1, 2], false, 2, true) ∧ acceptStat exTreeFail 0 = 0 := by
  decide +kernel

/-- a single leaf (`max_tree_depth = 0`, excluded by the constructor): no pass is started, `depth` is unbound at
`stats["tree_depth"] = depth`, the reading rejects -/
example :
    (SSem.samplePass sampleBody buildBody procBody .convergence (fun _ => (1 : ℚ)) (.leaf 1 true) 0).map show' =
      Option.none := by
  decide +kernel

/-- what a `_build_tree` reading shows: `(terminate, n_step, counted)` -/
def showB (r : Option (Bool × SSem.St ℚ)) : Option (Bool × Nat × List Nat × SSem.Flags) :=
  r.map fun x => (x.1, x.2.nStep, x.2.counted, x.2.flags)

/-- The reading discriminates (1): with `stats["n_step"] += 1` moved BEFORE `integrator.step` the same reading
counts the leaf whose entering step fails — `buildVisit` does not. -/
example :
    showB (SSem.buildRead
        ⟨[.countStep, .step, .energy, .nanToInf, .newLeaf, .proposeSelf, .hDiff, .acceptProb, .sumAccept,
          .clearTerminate, .checkDivergence], BSem.expectedPlan.hand, BSem.expectedPlan.recp⟩
        (SSem.runProc SSem.expectedChain) .convergence (fun _ => (1 : ℚ)) true (.leaf 1 true) 0 false ⟨0, 0, {}, []⟩) =
      some (true, 1, [0], ⟨false, true, false⟩)
    ∧ buildVisit true (.leaf (1 : ℚ) true) false = ([], .err) := by
  decide +kernel

/-- The reading discriminates (2): with the accumulations moved AFTER `_check_divergence` a divergent leaf is no
longer counted — `buildVisit` counts it. -/
example :
    showB (SSem.buildRead
        ⟨[.step, .energy, .nanToInf, .newLeaf, .proposeSelf, .hDiff, .acceptProb, .clearTerminate,
          .checkDivergence, .sumAccept, .countStep], BSem.expectedPlan.hand, BSem.expectedPlan.recp⟩
        (SSem.runProc SSem.expectedChain) .convergence (fun _ => (1 : ℚ)) true (.leaf 1 false) 0 true ⟨0, 0, {}, []⟩) =
      some (true, 0, [], ⟨true, false, false⟩)
    ∧ buildVisit true (.leaf (1 : ℚ) false) true = ([0], .err) := by
  decide +kernel

/-- The reading discriminates (3): a handler that does not call `_process_integrator_error` leaves the flags
alone, so the caller cannot tell the error from a criterion stop and `accept_stat` would not be zeroed. -/
example :
    showB (SSem.buildRead ⟨BSem.expectedPlan.leaf, [.terminateNoTree], BSem.expectedPlan.recp⟩
        (SSem.runProc SSem.expectedChain) .convergence (fun _ => (1 : ℚ)) true (.leaf 1 true) 0 false ⟨0, 0, {}, []⟩) =
      some (true, 0, [], ⟨false, false, false⟩) := by
  decide +kernel

/-- The reading discriminates (4): an `isinstance` chain testing the base class first sets `diverging` for every
integrator error. -/
example :
    SSem.runProc [("IntegratorError", "diverging"), ("ConvergenceError", "convergence_error")] .convergence {} =
      some ⟨true, false, false⟩
    ∧ SSem.runProc SSem.expectedChain .convergence {} = some ⟨false, true, false⟩ := by
  decide +kernel

/-- statements of another shape are rejected by the recognisers (division by `n_step + 1`; `tree_depth = depth +
1`): the plan is `none` and `sem_stats_plans` fails -/
example :
    SSem.finAct? (.assign (SSem.statsKey "tree_depth") (.op "+" (E.l [.v "depth", .n 1]))) = Option.none
    ∧ SSem.finAct? (.ifc (.op ">" (E.l [SSem.statsKey "n_step", .n 0]))
        (S.b [.assign (SSem.statsKey "av_metrop_accept_prob")
          (.op "/" (E.l [.v "sum_accept_prob", .op "+" (E.l [SSem.statsKey "n_step", .n 1])]))])
        (S.b [.assign (SSem.statsKey "av_metrop_accept_prob") (.src "0.0")])) = Option.none := by
  decide +kernel

end Examples

end MiciVerif.C01T
