/-
C15 — Interrupting sampling returns a consistent prefix of the run.

A `KeyboardInterrupt` raised by a user function called from operation `j0` (transition or trace
function) of iteration `i0` of chain `c0` in the stage at position `k0` of the stage table.
All statements are for EVERY kernel, every stage table and initial state list.
-/
import MiciVerif.Lemmas.SamplerIntr
import MiciVerif.Lemmas.SamplerPar
import MiciVerif.Model.SamplerCount

namespace MiciVerif.C15
open MiciVerif.Stagers MiciVerif.Sampler

variable {S V A P : Type}

/-- **interrupt_prefix (one chain).**  For the interrupted chain:
* every cell whose operation completed before the interrupt (`Before i0 j0 i j`: an earlier
  iteration, or an earlier operation of the interrupted iteration) equals the uninterrupted run's;
* every other cell of every array is untouched (still the fill value it had);
* the chain-local variables returned (final state, adapter states) are exactly those reached by
  the completed operations, i.e. the state after the last completed *transition*;
* the loop reports the interrupt. -/
theorem interrupt_prefix_chain (K : Kernel S V A P) (st : Stage) (offset i0 j0 : Nat) (p : P)
    (ch : Chain S V) (hi : i0 < st.n) (hj : j0 < (opsOf K st).length) :
    (∀ i j, Before i0 j0 i j →
      cell (chainRes K st offset (some (i0, j0)) p ch).mem j (i + offset) =
        cell (chainRes K st offset none p ch).mem j (i + offset)) ∧
    (∀ j r, (¬ ∃ i, r = i + offset ∧ Before i0 j0 i j) →
      cell (chainRes K st offset (some (i0, j0)) p ch).mem j r = cell ch.mem j r) ∧
    (chainRes K st offset (some (i0, j0)) p ch).ctx =
      (foldOps st offset (prefixOps (opsOf K st) i0 j0) (startRun K st p ch)).ctx ∧
    (chainRes K st offset (some (i0, j0)) p ch).halted = true :=
  ⟨fun i j hb => chainRes_intr_done K st offset i0 j0 p ch hi hj i j hb,
   fun j r hb => chainRes_intr_rest K st offset i0 j0 p ch hi hj j r hb,
   (chainRes_intr_ctx K st offset i0 j0 p ch hi hj).1,
   (chainRes_intr_ctx K st offset i0 j0 p ch hi hj).2⟩

/-- **The half-written iteration, exactly.**  If the interrupt arrives in trace function number
`f` (operation `K.trans.length + f`) of iteration `i0`, the statistics of iteration `i0` of every
transition are present and equal to the uninterrupted run's, the rows of the trace functions before
`f` are present, and the trace row `i0` of function `f` (and of all later ones) is untouched. -/
theorem half_written_iteration_trace (K : Kernel S V A P) (st : Stage) (offset i0 f : Nat) (p : P)
    (ch : Chain S V) (hi : i0 < st.n) (hj : K.trans.length + f < (opsOf K st).length) :
    (∀ j, j < K.trans.length + f →
      cell (chainRes K st offset (some (i0, K.trans.length + f)) p ch).mem j (i0 + offset) =
        cell (chainRes K st offset none p ch).mem j (i0 + offset)) ∧
    (∀ j, K.trans.length + f ≤ j →
      cell (chainRes K st offset (some (i0, K.trans.length + f)) p ch).mem j (i0 + offset) =
        cell ch.mem j (i0 + offset)) := by
  constructor
  · intro j hjlt
    exact chainRes_intr_done K st offset i0 _ p ch hi hj i0 j (Or.inr ⟨rfl, hjlt⟩)
  · intro j hle
    apply chainRes_intr_rest K st offset i0 _ p ch hi hj
    rintro ⟨i, he, hb⟩
    unfold Before at hb
    omega

/-- If the interrupt arrives inside transition `j0`, neither its statistics nor any later
statistics / trace row of iteration `i0` is written; statistics of the transitions before it are. -/
theorem half_written_iteration_trans (K : Kernel S V A P) (st : Stage) (offset i0 j0 : Nat) (p : P)
    (ch : Chain S V) (hi : i0 < st.n) (hj : j0 < (opsOf K st).length) :
    (∀ j, j < j0 →
      cell (chainRes K st offset (some (i0, j0)) p ch).mem j (i0 + offset) =
        cell (chainRes K st offset none p ch).mem j (i0 + offset)) ∧
    (∀ j, j0 ≤ j →
      cell (chainRes K st offset (some (i0, j0)) p ch).mem j (i0 + offset) = cell ch.mem j (i0 + offset)) := by
  constructor
  · intro j hjlt
    exact chainRes_intr_done K st offset i0 _ p ch hi hj i0 j (Or.inr ⟨rfl, hjlt⟩)
  · intro j hle
    apply chainRes_intr_rest K st offset i0 _ p ch hi hj
    rintro ⟨i, he, hb⟩
    unfold Before at hb
    omega

/-- **interrupt_prefix (sequential stage).**  Chains before `c0` have finished exactly as in the
uninterrupted stage and are untouched; chain `c0` is the interrupted chain run (theorem above)
started from the transition parameters the earlier chains left; chains after `c0` are not
started; the outputs (hence the returned final states) are those of chains `0 … c0`. -/
theorem interrupt_prefix_stage_seq (K : Kernel S V A P) (st : Stage) (offset c0 i0 j0 : Nat) (p : P)
    (chs : List (Chain S V)) (ch : Chain S V) (hc : chs[c0]? = some ch)
    (hi : i0 < st.n) (hj : j0 < (opsOf K st).length) :
    let full := stageSeq K st offset none p chs
    let r := chainRes K st offset (some (i0, j0)) (stageSeq K st offset none p (chs.take c0)).params ch
    let acc := stageSeq K st offset (some (c0, i0, j0)) p chs
    acc.halted = true ∧
    acc.chains = full.chains.take c0 ++ [⟨ch.state, r.ctx.rng, r.mem, r.ctx.log⟩] ++ chs.drop (c0 + 1) ∧
    acc.outs = full.outs.take c0 ++ [⟨c0, r.ctx.state, r.ctx.adapt, r.ctx.rng⟩] := by
  intro full r acc
  have h := stageSeq_intr K st offset c0 i0 j0 p chs ch hc hi hj
  have ht := stageSeq_none_take K st offset p chs c0
  simp only at h
  refine ⟨?_, ?_, ?_⟩
  · show (stageSeq K st offset (some (c0, i0, j0)) p chs).halted = true
    rw [h]
  · show (stageSeq K st offset (some (c0, i0, j0)) p chs).chains = _
    rw [h, ht.1]
  · show (stageSeq K st offset (some (c0, i0, j0)) p chs).outs = _
    rw [h, ht.2]

/-- **interrupt_stops_run.**  Sequential run over `pre ++ st :: post` interrupted in stage `st`:
the stages before run exactly as without interrupt; the stage loop returns right after the
interrupted stage — adapters are not finalized, the offset is not advanced, no stage of `post`
is started (whatever its mode); the returned `final_states` are the outputs of the chains that
ran in the interrupted stage. -/
theorem interrupt_stops_run (K : Kernel S V A P) (pre post : List (Stage × Mode)) (st : Stage)
    (c0 i0 j0 : Nat) (sys0 : Sys S V P) (ch : Chain S V)
    (hs : (runStages K none pre sys0).stopped = false)
    (hc : (runStages K none pre sys0).chains[c0]? = some ch)
    (hi : i0 < st.n) (hj : j0 < (opsOf K st).length) :
    let sysK := runStages K none pre sys0
    let acc := stageSeq K st sysK.offset (some (c0, i0, j0)) sysK.params sysK.chains
    runStages K (some (pre.length, c0, i0, j0)) (pre ++ (st, Mode.seq) :: post) sys0 =
      { params := acc.params
        chains := setStates acc.chains (acc.outs.map (·.state))
        offset := sysK.offset
        finalStates := acc.outs.map (·.state)
        stopped := true } := by
  intro sysK acc
  rw [runStages_eq_from, runStagesFrom_append, runStagesFrom_cons]
  rw [runStagesFrom_no_intr K pre.length (c0, i0, j0) 0 pre sys0 (by omega), ← runStages_eq_from]
  have hn : st.n ≠ 0 := by omega
  have hacc : acc.halted = true := by
    have h := stageSeq_intr K st sysK.offset c0 i0 j0 sysK.params sysK.chains ch hc hi hj
    simp only at h
    show (stageSeq K st sysK.offset (some (c0, i0, j0)) sysK.params sysK.chains).halted = true
    rw [h]
  have hstage : Sampler.runStage K (some (pre.length, c0, i0, j0)) sysK (0 + pre.length, (st, Mode.seq)) =
      { params := acc.params
        chains := setStates acc.chains (acc.outs.map (·.state))
        offset := sysK.offset
        finalStates := acc.outs.map (·.state)
        stopped := true } := by
    have hs' : sysK.stopped = false := hs
    simp only [Sampler.runStage, hs', Bool.false_eq_true, if_false, hn, Nat.zero_add, if_true]
    show afterStage K st sysK acc = _
    unfold afterStage
    simp [hacc]
  rw [hstage, runStagesFrom_stopped _ _ _ _ _ rfl]

/-- **later_stages_not_started.**  Once interrupted, nothing else runs: in particular no
transition of a later stage is executed and no array is written any more. -/
theorem later_stages_not_started (K : Kernel S V A P) (intr : Option (Nat × Nat × Nat × Nat))
    (l : List (Stage × Mode)) (sys : Sys S V P) (h : sys.stopped = true) :
    runStages K intr l sys = sys :=
  runStages_stopped K intr l sys h

/-- **Rows of the uninterrupted run are final once written** (links "the uninterrupted run's
rows" at the time of the interrupt to the arrays the uninterrupted run finally returns). -/
theorem uninterrupted_rows_final (K : Kernel S V A P) (l : List (Stage × Mode)) (hl : AllSeq l)
    (sys : Sys S V P) (hs : sys.stopped = false) (c j r : Nat) (hr : r < sys.offset) :
    cell (memOf (runStages K none l sys).chains c) j r = cell (memOf sys.chains c) j r :=
  (runStages_seq_frame_below K l hl sys hs c j r hr).1

/-- **interrupt_prefix (parallel stage).**  In a parallel stage, under a schedule in which the
interrupted chain is the last chain its worker takes (the worker leaves its loop there), every
other chain completes exactly as in the uninterrupted stage, chain `c0` is the interrupted chain
run, and the parent sees the interrupt.  (Adapter hypothesis `AdaptLocal` as in C14.) -/
theorem interrupt_prefix_stage_par (K : Kernel S V A P) (E : Kind → P → P → Prop)
    (hE : AdaptLocal K E) (st : Stage) (offset c0 i0 j0 : Nat) (restore : Bool)
    (sched : List (List Nat)) (p : P) (chs : List (Chain S V))
    (hv : ValidSched sched chs.length) (hlast : LastOf sched c0) (hc0 : c0 < chs.length)
    (hi : i0 < st.n) (hj : j0 < (opsOf K st).length) :
    let acc := stagePar K st offset (some (c0, i0, j0)) restore sched p chs
    acc.halted = true ∧
    ∀ c ch, chs[c]? = some ch →
      memOf acc.chains c = (chainRes K st offset (chainIntr (some (c0, i0, j0)) c) p ch).mem ∧
      (acc.outs[c]?).map (·.state) =
        some (chainRes K st offset (chainIntr (some (c0, i0, j0)) c) p ch).ctx.state := by
  intro acc
  have hcan := stagePar_canon K E hE st offset (some (c0, i0, j0)) restore sched p chs hv
    (by intro c' i' j' he; injection he with he; injection he with h1 _; subst h1; exact hlast)
  refine ⟨?_, ?_⟩
  · show (stagePar K st offset (some (c0, i0, j0)) restore sched p chs).halted = true
    rw [hcan]
    simp only [canonPar]
    rw [List.any_eq_true]
    have hch : chs[c0]? = some chs[c0] := List.getElem?_eq_getElem hc0
    refine ⟨canonOut K st offset (some (c0, i0, j0)) p c0 chs[c0], ?_, ?_⟩
    · rw [List.mem_iff_getElem?]
      exact ⟨c0, by simp [canonOuts, List.getElem?_mapIdx, hch]⟩
    · simp only [canonOut, chainIntr, if_true]
      exact (chainRes_intr_ctx K st offset i0 j0 p chs[c0] hi hj).2
  · intro c ch hc
    show memOf (stagePar K st offset (some (c0, i0, j0)) restore sched p chs).chains c = _ ∧
      ((stagePar K st offset (some (c0, i0, j0)) restore sched p chs).outs[c]?).map (·.state) = _
    rw [hcan]
    constructor
    · simp only [canonPar, memOf]
      cases restore <;> simp [canonChains, List.getElem?_mapIdx, hc, canonOut]
    · simp [canonPar, canonOuts, List.getElem?_mapIdx, List.getElem?_map, hc, canonOut]

/-! ### non-vacuity -/

open MiciVerif.SamplerCount in
/-- counting kernel, two chains, interrupt in trace function 0 of iteration 1 of chain 0 of the
(traced) warm-up stage: iteration 1's statistics are present, its trace rows are not, chain 1 is
not started, one final state is returned and the run is stopped. -/
example :
    let K := kernel ⟨true, 1, 2, false, 1, true, true, 2⟩
    let sys := sampleChains K ⟨5, 9⟩ [⟨0, 0, 0, 0, 0, 0⟩, ⟨1, 3, 0, 0, 0, 0⟩] 3 2 true
      ((warmUpStages 3 2 true).map (fun s => (s, Mode.seq))) (some (0, 0, 1, 2))
    (sys.stopped, sys.finalStates.length, sys.offset,
      (memOf sys.chains 0).map (fun a => a.map Option.isSome),
      (memOf sys.chains 1).map (fun a => a.map Option.isSome)) =
    (true, 1, 0,
      [[true, true, false, false, false], [true, true, false, false, false],
       [true, false, false, false, false], [true, false, false, false, false]],
      [[false, false, false, false, false], [false, false, false, false, false],
       [false, false, false, false, false], [false, false, false, false, false]]) := by
  decide +kernel

end MiciVerif.C15
