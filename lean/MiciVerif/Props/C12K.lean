/-
C12 — containment of numerical failures: tie to the *source text* of the transitions.

`Generated/TransitionSkeleton.lean` is regenerated from `src/mici/transitions.py` (and `Integrator.step`
of `src/mici/integrators.py`) of the tree under test on every run
(`tools/extractors/transition_skeleton.py`).  The theorems below are re-checked by the kernel against the
regenerated trees (`Props/C01S.lean`, which this module does not import, has the invariance-related facts and the
whole-function equalities of the other functions):

* `skel_error_paths_eq_model`: `_process_integrator_error`, `_h_trial_state`, `Integrator.step`, and the two
  functions containing the `try` blocks, equal the trees the model was written against;
* the other `skel_…` theorems re-derive, from the generated trees only, the facts containment rests on: what
  is inside which `try`, what the handlers do, that a failed trajectory is never accepted, that the error
  flags are recorded and only declared statistics are written;
* `sem_metropolis_contained`: the reading `Skel.TSem` of the generated body of `_sample_n_step` returns,
  with positive probability, only the start point or a point of non-zero weight, and after a failing
  step the start point with certainty; `sem_dynamic_contained`: the reading `Skel.DSem` of the generated loop
  of `DynamicIntegrationTransition.sample` returns only the start or a point of positive weight.
-/
import MiciVerif.Generated.TransitionSkeleton
import MiciVerif.Lemmas.TransitionSkeletonSem
import MiciVerif.Lemmas.TransitionSkeletonDyn
import MiciVerif.Props.C12

namespace MiciVerif.C12K
open MiciVerif.Skel
open MiciVerif.Generated

/-! ### the generated trees are the expected ones -/

/-- `_process_integrator_error`, `IntegrationTransition._h_trial_state`, `Integrator.step`, and the two
functions that contain the transitions' `try` blocks; nothing in them is outside the translated subset, only the
listed logging / message statements were dropped, and `_h_trial_state` is defined once, in the common base class
of the Metropolis and dynamic transitions (no override). -/
theorem skel_error_paths_eq_model :
    TransitionSkeleton.processIntegratorErrorSig = TExpected.processIntegratorErrorSig
    ∧ TransitionSkeleton.processIntegratorError = TExpected.processIntegratorError
    ∧ TransitionSkeleton.hTrialStateSig = TExpected.hTrialStateSig
    ∧ TransitionSkeleton.hTrialState = TExpected.hTrialState
    ∧ TransitionSkeleton.integratorStepSig = TExpected.integratorStepSig
    ∧ TransitionSkeleton.integratorStep = TExpected.integratorStep
    ∧ TransitionSkeleton.sampleNStep = TExpected.sampleNStep
    ∧ TransitionSkeleton.buildTree = TExpected.buildTree
    ∧ [TransitionSkeleton.processIntegratorError, TransitionSkeleton.hTrialState, TransitionSkeleton.integratorStep,
       TransitionSkeleton.sampleNStep, TransitionSkeleton.buildTree, TransitionSkeleton.dynamicSample].all S.known = true
    ∧ (TransitionSkeleton.dropped.filter fun d => d.1 == "_process_integrator_error" || d.1 == "Integrator.step") =
      (TExpected.dropped.filter fun d => d.1 == "_process_integrator_error" || d.1 == "Integrator.step")
    ∧ methodsOf TransitionSkeleton.classes "IntegrationTransition" = methodsOf TExpected.classes "IntegrationTransition"
    ∧ basesOf TransitionSkeleton.classes "MetropolisIntegrationTransition" = ["IntegrationTransition"]
    ∧ basesOf TransitionSkeleton.classes "DynamicIntegrationTransition" = ["IntegrationTransition"] := by
  decide +kernel

/-! ### individual facts, from the generated trees -/

/-- the `depth == 0` block of `_build_tree` -/
def buildLeaf : List S :=
  match TransitionSkeleton.buildTree.stmts.head? with
  | some (.ifc _ t _) => t.stmts
  | _ => []

/-- body of `for depth in range(self.max_tree_depth)` -/
def depthBody : List S :=
  (TransitionSkeleton.dynamicSample.loopBody (.call "range" (E.l [.v "self.max_tree_depth"]))).getD []

/-- `_h_trial_state` returns `self.system.h(state)`, and `np.nan` when that raises ValueError or
LinAlgError (model: weight 0 at a point whose energy cannot be evaluated; revert
`C12-trial-energy-escape`). -/
theorem skel_h_trial_state_maps_errors_to_nan :
    TransitionSkeleton.hTrialState.tries.map (fun t => (t.1.stmts, handlerList t.2.1)) =
      [([.ret (.call "self.system.h" (E.l [.v "state"]))],
        [(.tup (E.l [.v "ValueError", .v "LinAlgError"]), "", [.ret (.v "np.nan")])])]
    ∧ TransitionSkeleton.hTrialState.stmts.length = 1
    ∧ TransitionSkeleton.hTrialState.callsProtected "self.system.h" "ValueError" = true
    ∧ TransitionSkeleton.hTrialState.callsProtected "self.system.h" "LinAlgError" = true := by
  decide +kernel

/-- The energy of every TRIAL state goes through `_h_trial_state`: `_sample_n_step` calls `self.system.h`
only on the current state (first statement) and `_h_trial_state` on `state_p`; `_build_tree` and `sample`
of the dynamic transitions never call `self.system.h` directly, `_build_tree` evaluates the new leaf with
`_h_trial_state(state)` (revert `C12-trial-energy-escape`). -/
theorem skel_trial_energies_use_h_trial_state :
    TransitionSkeleton.sampleNStep.callArgs "self.system.h" = [E.l [.v "state"]]
    ∧ idx (S.callsDeep "self.system.h") TransitionSkeleton.sampleNStep.stmts = some 0
    ∧ TransitionSkeleton.sampleNStep.callArgs "self._h_trial_state" = [E.l [.v "state_p"]]
    ∧ TransitionSkeleton.buildTree.callArgs "self.system.h" = []
    ∧ TransitionSkeleton.dynamicSample.callArgs "self.system.h" = []
    ∧ TransitionSkeleton.buildTree.callArgs "self._h_trial_state" = [E.l [.v "state"]] := by
  decide +kernel

/-- In `_sample_n_step` every integrator step is inside the body of a `try` with an
`except IntegratorError` handler, and that is the only handler (model: `stepOk = false` ↦ the `else Dist.pure
(i, !fwd)` branch of `metropolis`). -/
theorem skel_metropolis_steps_inside_try :
    TransitionSkeleton.sampleNStep.callsProtected "self.integrator.step" "IntegratorError" = true
    ∧ (TransitionSkeleton.sampleNStep.all.filter (S.callsHere "self.integrator.step")).length = 1
    ∧ (TransitionSkeleton.sampleNStep.tries.map fun t => (handlerList t.2.1).map fun h => (h.1, h.2.1)) =
      [[(.v "IntegratorError", "e")]] := by
  decide +kernel

/-- In `_build_tree` the integrator step, the energy of the new state, the creation of the leaf and the
divergence test are all inside the body of ONE `try` with an `except IntegratorError` handler; the handler
records the error and makes the call return `(True, None, None)` — no tree, no proposal (model:
`buildVisit`: `.err`; `TTree.valid = false`; C12 `final_contained`). -/
theorem skel_integrator_errors_caught_in_build_tree :
    TransitionSkeleton.buildTree.callsProtected "self.integrator.step" "IntegratorError" = true
    ∧ TransitionSkeleton.buildTree.callsProtected "self._h_trial_state" "IntegratorError" = true
    ∧ TransitionSkeleton.buildTree.callsProtected "self._check_divergence" "IntegratorError" = true
    ∧ TransitionSkeleton.buildTree.callsProtected "self._new_leave" "IntegratorError" = true
    ∧ (TransitionSkeleton.buildTree.tries.map fun t => handlerList t.2.1) =
      [[(.v "IntegratorError", "e",
          [.expr (.call "_process_integrator_error" (E.l [.v "e", .v "stats"])),
           .assign (.tup (E.l [.v "terminate", .v "tree", .v "proposal"])) (.tup (E.l [.v "True", .none, .none]))])]]
    ∧ (TransitionSkeleton.buildTree.tries.map fun t =>
        t.1.stmts.map fun s => (s.callsDeep "self.integrator.step", s.callsDeep "self._h_trial_state",
                                s.callsDeep "self._check_divergence")) =
      [[(true, false, false), (false, true, false), (false, false, false), (false, false, false), (false, false, false),
        (false, false, false), (false, false, false), (false, false, false), (false, false, false), (false, false, false),
        (false, false, true)]]
    ∧ buildLeaf.getLast? = some (.ret (.tup (E.l [.v "terminate", .v "tree", .v "proposal"])))
    ∧ buildLeaf.length = 2 := by
  decide +kernel

/-- A NaN energy of a new leaf is replaced by `+inf` right after `_h_trial_state` and before the leaf is
created, so its weight is 0 for both weight functions (model: `leaf 0 _`; `PosOk`). -/
theorem skel_nan_energy_gets_zero_weight :
    TransitionSkeleton.buildTree.valuesOf (.v "h") =
      [.call "self._h_trial_state" (E.l [.v "state"]),
       .ite (.call "np.isnan" (E.l [.v "h"])) (.v "np.inf") (.v "h")]
    ∧ (TransitionSkeleton.buildTree.tries.map fun t => (t.1.stmts.drop 1).take 3) =
      [[.assign (.v "h") (.call "self._h_trial_state" (E.l [.v "state"])),
        .assign (.v "h") (.ite (.call "np.isnan" (E.l [.v "h"])) (.v "np.inf") (.v "h")),
        .assign (.v "tree") (.call "self._new_leave" (E.l [.v "state", .v "h", .v "aux_vars"]))]] := by
  decide +kernel

/-- `_process_integrator_error` sets the flag matching the class of the error to `True` and writes nothing
else (in particular it never writes `diverging` for a Metropolis transition, which does not declare that
statistic: seeded C12-2); both handlers call it with the caught error and `stats`; the flags a transition
declares are initialised to `False` in its `stats` dictionary; only the dynamic transitions, whose
`_check_divergence` is the only raiser of `HamiltonianDivergenceError`, declare `diverging`. -/
theorem skel_error_flags_recorded :
    TransitionSkeleton.processIntegratorError.stmts =
      [.ifc (.call "isinstance" (E.l [.v "exception", .v "HamiltonianDivergenceError"]))
        (S.b [.assign (.sub (.v "stats") (.s "diverging")) (.v "True")])
        (S.b [.ifc (.call "isinstance" (E.l [.v "exception", .v "NonReversibleStepError"]))
          (S.b [.assign (.sub (.v "stats") (.s "non_reversible_step")) (.v "True")])
          (S.b [.ifc (.call "isinstance" (E.l [.v "exception", .v "ConvergenceError"]))
            (S.b [.assign (.sub (.v "stats") (.s "convergence_error")) (.v "True")])
            (S.b [])])])]
    ∧ TransitionSkeleton.processIntegratorErrorSig = E.l [.v "exception", .v "stats"]
    ∧ TransitionSkeleton.sampleNStep.callArgs "_process_integrator_error" = [E.l [.v "e", .v "stats"]]
    ∧ TransitionSkeleton.buildTree.callArgs "_process_integrator_error" = [E.l [.v "e", .v "stats"]]
    ∧ TransitionSkeleton.sampleNStep.valuesOf (.v "stats") =
      [.src "{'convergence_error': False, 'non_reversible_step': False, 'step_size': self.integrator.step_size}"]
    ∧ TransitionSkeleton.dynamicSample.valuesOf (.v "stats") =
      [.src "{'n_step': 0, 'sum_metrop_accept_prob': 0.0, 'reject_prob': 1.0, 'diverging': False, 'convergence_error': False, 'non_reversible_step': False, 'step_size': self.integrator.step_size}"]
    ∧ TransitionSkeleton.dynamicInit.valuesOf (.sub (.v "self._statistic_types") (.s "diverging")) =
      [.tup (E.l [.v "bool", .v "False"])]
    ∧ TransitionSkeleton.multinomialCheckDivergence.raises = [.call "HamiltonianDivergenceError" (E.l [.v "msg"])]
    ∧ TransitionSkeleton.sliceCheckDivergence.raises = [.call "HamiltonianDivergenceError" (E.l [.v "msg"])]
    ∧ TransitionSkeleton.sampleNStep.raises = [] ∧ TransitionSkeleton.buildTree.raises = []
    ∧ TransitionSkeleton.dynamicSample.raises = [] := by
  decide +kernel

/-- The statistics keys `_sample_n_step` writes are exactly `n_step`, `metrop_accept_prob`, `accept_stat`
(besides the keys of the initial dictionary), `_build_tree` only updates `sum_metrop_accept_prob` and
`n_step`, and `sample` of the dynamic transitions writes `reject_prob`, `av_metrop_accept_prob`,
`accept_stat`, `tree_depth`: all declared in `statistic_types` (seeded C12-2: an undeclared key makes the
sampler fail on the first contained error). -/
theorem skel_only_declared_statistics_written :
    ((TransitionSkeleton.sampleNStep.all.filterMap fun
        | .assign (.sub (.v "stats") k) _ => some k
        | .aug (.sub (.v "stats") k) _ _ => some k
        | _ => Option.none) = [.s "n_step", .s "n_step", .s "metrop_accept_prob", .s "accept_stat"])
    ∧ ((TransitionSkeleton.buildTree.all.filterMap fun
        | .assign (.sub (.v "stats") k) _ => some k
        | .aug (.sub (.v "stats") k) _ _ => some k
        | _ => Option.none) = [.s "sum_metrop_accept_prob", .s "n_step"])
    ∧ ((TransitionSkeleton.dynamicSample.all.filterMap fun
        | .assign (.sub (.v "stats") k) _ => some k
        | .aug (.sub (.v "stats") k) _ _ => some k
        | _ => Option.none) =
      [.s "reject_prob", .s "av_metrop_accept_prob", .s "av_metrop_accept_prob", .s "accept_stat", .s "accept_stat",
       .s "tree_depth"])
    ∧ ((TransitionSkeleton.dynamicInit.all.filterMap fun
        | .assign (.sub (.v "self._statistic_types") k) _ => some k
        | _ => Option.none) = [.s "av_metrop_accept_prob", .s "reject_prob", .s "tree_depth", .s "diverging"]) := by
  decide +kernel

/-- After an integrator error the Metropolis transitions never accept: the accept test is guarded by
`not integration_error` (evaluated first), `integration_error` is set by the handler, `accept_stat` is
`0.0` then, and the returned `state` can only be the start state or `state_p` through that guarded
assignment (model: `metropolis_contained`; seeded C01-3). -/
theorem skel_failed_trajectory_never_accepted :
    (TransitionSkeleton.sampleNStep.ifs.filter fun x => x.2.1.contains (.assign (.v "state") (.v "state_p"))) =
      [(.op "and" (E.l [TSem.notError, TSem.drawBelowAcceptProb]), [.assign (.v "state") (.v "state_p")], [])]
    ∧ assignsTo (.v "state") TransitionSkeleton.sampleNStep.stmts = [.assign (.v "state") (.v "state_p")]
    ∧ TransitionSkeleton.sampleNStep.valuesOf (.v "integration_error") = [.v "False", .v "True"]
    ∧ TransitionSkeleton.sampleNStep.valuesOf (.sub (.v "stats") (.s "accept_stat")) =
      [.ite TSem.notError (.v "accept_prob") (.src "0.0")]
    ∧ TransitionSkeleton.sampleNStep.returns = [.tup (E.l [.v "state", .v "stats"])] := by
  decide +kernel

/-- A `_build_tree` call that terminated (error, divergence or criterion below the top) hands back no
tree and no proposal, at every level, and `sample` leaves its loop at once, before the new sub-tree's
weight or proposal is used: the state returned is the start or a proposal of a sub-tree that was built
completely (model: `stepUp`: `.stopped here`; C12 `final_contained`). -/
theorem skel_build_tree_failure_discards_subtree :
    (TransitionSkeleton.buildTree.ifs.filter fun x => x.1 = .v "terminate") =
      [(.v "terminate", [.ret (.tup (E.l [.v "terminate", .none, .none]))], []),
       (.v "terminate", [.ret (.tup (E.l [.v "terminate", .none, .none]))], [])]
    ∧ depthBody[4]? = some (.ifc (.v "terminate") (S.b [.brk]) (S.b []))
    ∧ idx (S.callsDeep "self._build_tree") depthBody = some 3
    ∧ idx (fun s => s.usesDeep "new_tree.weight") depthBody = some 5
    ∧ TransitionSkeleton.dynamicSample.valuesOf (.v "next_state") = [.v "state", .v "new_proposal"] := by
  decide +kernel

/-- `Integrator.step` works on a copy of the state and turns a ValueError / LinAlgError raised anywhere
inside `_step` into an `IntegratorError` (which the transitions catch) (revert
`C12-step-linalg-escape`). -/
theorem skel_integrator_step_converts_errors :
    TransitionSkeleton.integratorStep.callsProtected "self._step" "ValueError" = true
    ∧ TransitionSkeleton.integratorStep.callsProtected "self._step" "LinAlgError" = true
    ∧ (TransitionSkeleton.integratorStep.tries.map fun t => handlerList t.2.1) =
      [[(.tup (E.l [.v "ValueError", .v "LinAlgError"]), "e",
          [.raise_ (.call "IntegratorError" (E.l [.v "msg"])) (.v "e")])]]
    ∧ TransitionSkeleton.integratorStep.valuesOf (.v "state") = [.call "state.copy" (E.l [])]
    ∧ TransitionSkeleton.integratorStep.callArgs "self._step" =
      [E.l [.v "state", .op "*" (E.l [.v "state.dir", .v "self.step_size"])]]
    ∧ TransitionSkeleton.integratorStep.returns = [.v "state"] := by
  decide +kernel

/-! ### containment for the reading of the generated `_sample_n_step` -/

section Semantics
open MiciVerif.Transitions

/-- The body of `_sample_n_step` generated from the current source has the expected plan (see
`C01S.sem_sample_n_step_plan`; re-decided here so that this module does not depend on `Props/C01S.lean`). -/
theorem sem_sample_n_step_plan :
    TSem.metroPlan TransitionSkeleton.sampleNStep.stmts = some TSem.expectedPlan := by
  decide +kernel

variable {K : Type} [Field K] [LinearOrder K] [IsStrictOrderedRing K]

/-- **Containment for the current source of `_sample_n_step`.**  Read on any integrator orbit
(`Skel.TSem.metroPass`; by `TSem.metroPass_of_plan` it is `Transitions.metropolis` with `metropolisStats`, cf. `C01S.sem_sample_n_step_is_metropolis`), the body generated from the current
source returns a distribution every outcome of which with non-zero probability is the start point or a
point of non-zero weight (a NaN / failing energy has weight 0); and if one of the `n` steps fails, the
outcome is the start point with the direction reversed, with certainty, the statistics reporting the
error and `accept_stat = 0`. -/
theorem sem_metropolis_contained (o : MOrbitS K) (n : Nat) (hn : 1 ≤ n) (i : Int) (fwd : Bool) :
    ∃ d, TSem.metroPass TransitionSkeleton.sampleNStep.stmts o n (i, fwd) = some d
      ∧ C12.AllPos (fun x => x.1.1 = i ∨ o.w x.1.1 ≠ 0) d
      ∧ (o.pathOk (if fwd then i else i - n) n = false →
          d = Dist.pure ((i, !fwd), (stepsTaken o fwd n i, 0, true))) := by
  refine ⟨_, TSem.metroPass_of_plan _ sem_sample_n_step_plan o n hn i fwd, ?_, ?_⟩
  · have h := (C12.metropolis_contained o.toOrbit n i fwd).2
    intro x hx hne
    simp only [Dist.map, List.mem_map] at hx
    obtain ⟨y, hy, rfl⟩ := hx
    exact h y hy hne
  · intro hp
    have h1 := (C12.metropolis_contained o.toOrbit n i fwd).1 hp
    have h2 := C01Stats.metropolisStats_spec o n i fwd
    have hle := C01Stats.stepsTaken_le o fwd n i
    have hiff := C01Stats.stepsTaken_eq_iff o fwd n i
    have hlt : stepsTaken o fwd n i < n := by
      rcases Nat.lt_or_ge (stepsTaken o fwd n i) n with h | h
      · exact h
      · have := hiff.1 (by omega)
        simp [hp] at this
    rw [h1]
    simp [Dist.map, Dist.pure, metropolisStats, hlt]

/-- not vacuous: on the orbit with weights 1, 1, 1/2 whose step joining 1 and 2 fails, two forward steps
from 0 satisfy the hypothesis of the second clause -/
example :
    let o' : MOrbitS ℚ := ⟨fun i => if i = 2 then 1 / 2 else 1, fun e => e != 1⟩
    o'.pathOk 0 2 = false ∧ stepsTaken o' true 2 0 = 1 := by
  decide +kernel

/-- The loop body of `DynamicIntegrationTransition.sample` generated from the current source has the expected
plan (see `C01S.sem_dynamic_pass_plan`; re-decided here so that this module does not depend on
`Props/C01S.lean`). -/
theorem sem_dynamic_pass_plan : DSem.passPlan depthBody = some DSem.expectedPassPlan := by
  decide +kernel

/-- The body of `_build_tree` generated from the current source has the expected plan (see
`C01S.sem_build_tree_plan`): in particular the step, the trial energy, the creation of the leaf and the
divergence test are statements of ONE `try` body whose `IntegratorError` handler is [record the error;
`terminate, tree, proposal = True, None, None`], and each recursive call is followed by
`if terminate: return terminate, None, None`. -/
theorem sem_build_tree_plan : BSem.buildPlan TransitionSkeleton.buildTree.stmts = some BSem.expectedPlan := by
  decide +kernel

/-- **Containment for the current source of the dynamic transitions' loop.**  Read on any trajectory tree
(`Skel.DSem.loopPass`, the `_build_tree` calls read by `Skel.BSem` from the current body of `_build_tree`), the loop of
`sample` generated from the current source returns, with non-zero probability, only the start state or a
point of strictly positive weight — whatever steps fail and whichever points are divergent or have
NaN / infinite energy (weight 0). -/
theorem sem_dynamic_contained (t : TTree K) (hn : t.Nonneg) (start : Nat) (hs : start < t.size) :
    ∃ d, DSem.loopPass depthBody TransitionSkeleton.buildTree.stmts t start = some d
      ∧ C12.AllPos (fun c => c < t.size ∧ (c = start ∨ 0 < t.weightAt c)) d :=
  ⟨_, DSem.loopPass_of_plan _ _ sem_dynamic_pass_plan sem_build_tree_plan t start, C12.final_contained t hn start hs⟩

/-- not vacuous: a two-leaf tree with non-negative weights -/
example : (TTree.node (.leaf (1 : ℚ) true) (.leaf 0 false) false false).Nonneg := by
  simp [TTree.Nonneg]

end Semantics

/-! ### the queries discriminate (non-vacuity) -/

/-- a call outside the `try` body is seen by `callsProtected` (revert `C12-trial-energy-escape` moves the
energy evaluation of the trial state out of `_h_trial_state`) -/
example :
    (S.b [.assign (.v "h_final") (.call "self.system.h" (E.l [.v "state_p"])),
          .try_ (S.b [.expr (.call "self.system.h" (E.l [.v "state"]))])
            (S.b [.handler (.v "ValueError") "" (S.b [])]) (S.b []) (S.b [])]).callsProtected "self.system.h" "ValueError"
      = false := by
  decide +kernel

/-- assigning all three flags unconditionally (seeded C12-2) is not the expected body -/
example :
    S.b [.assign (.sub (.v "stats") (.s "diverging")) (.call "isinstance" (E.l [.v "exception", .v "HamiltonianDivergenceError"]))]
      ≠ TExpected.processIntegratorError := by
  decide +kernel

end MiciVerif.C12K
