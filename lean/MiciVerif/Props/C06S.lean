/-
C06 / C02 / C03 — the step STRUCTURE of every integrator class of `mici/integrators.py`, regenerated
from the source on every run (`Generated/IntegSteps.lean`, written by
`tools/extractors/integ_steps.py`), is the structure of the hand-written models that all theorems of
`Props/C02*.lean`, `Props/C03.lean`, `Props/C06.lean` are about.

Property theorems only.  `G` = the generated tables, `Expected` = the structure of the hand models in
the vocabulary of the tables (`Lemmas/IntegSteps.lean`, which also proves `run Expected = model`).

* A. translator status, dispatch (`_step` / `step` effective for each class)
* B. explicit integrators: leapfrog call list; `SymmetricCompositionIntegrator.__init__` / `_step`
     translated to Lean functions equal `deriveCoeffs` / `flowsList` / `symComp` for EVERY free list;
     BCSS constructor calls and literals
* C. implicit leapfrog, implicit midpoint, constrained leapfrog: call lists and helper descriptors;
     running the generated tables IS `glStep` / `imStep` / `conStep`
* D. per class: time fractions per component sum to exactly 1, the arrangement is palindromic
     (with adjoint pairing), every implicit sub-step is reverse-checked with the negated time step
* E. `Integrator.step`
* F. consequences: the C03 (symplectic) and C06 (second order on linear systems) theorems stated for
     the constructor + `_step` as translated from the source
-/
import MiciVerif.Generated.IntegSteps
import MiciVerif.Lemmas.IntegSteps
import MiciVerif.Props.C06
import MiciVerif.Props.C03

namespace MiciVerif.C06S
open MiciVerif.Integrators MiciVerif.IntegSteps MiciVerif.Integrators.Jets
open MiciVerif.Generated
open Matrix

/-! ## A. Translator status and dispatch -/

/-- Every syntactic shape of integrators.py was understood by the translator. -/
theorem translator_complete : IntegSteps.unknown = [] := by decide +kernel

/-- Which `_step` and which `step` is effective for each class: the BCSS classes inherit
`SymmetricCompositionIntegrator._step`, nobody overrides `Integrator.step`. -/
theorem dispatch_eq_model : IntegSteps.dispatch =
    [("LeapfrogIntegrator", "LeapfrogIntegrator", "Integrator"),
     ("SymmetricCompositionIntegrator", "SymmetricCompositionIntegrator", "Integrator"),
     ("BCSSTwoStageIntegrator", "SymmetricCompositionIntegrator", "Integrator"),
     ("BCSSThreeStageIntegrator", "SymmetricCompositionIntegrator", "Integrator"),
     ("BCSSFourStageIntegrator", "SymmetricCompositionIntegrator", "Integrator"),
     ("ImplicitLeapfrogIntegrator", "ImplicitLeapfrogIntegrator", "Integrator"),
     ("ImplicitMidpointIntegrator", "ImplicitMidpointIntegrator", "Integrator"),
     ("ConstrainedLeapfrogIntegrator", "ConstrainedLeapfrogIntegrator", "Integrator")] := by
  decide +kernel

/-! ## B. Explicit integrators -/

/-- `LeapfrogIntegrator._step` makes exactly the calls `h1_flow(½t)`, `h2_flow(t)`, `h1_flow(½t)`. -/
theorem leapfrog_steps_eq_model :
    IntegSteps.leapfrogStep = Expected.leapfrogStep ∧ IntegSteps.leapfrogMethods = [] := by
  decide +kernel

/-- Running the generated call list is the model `Integrators.leapfrog` (any flows, any state type). -/
theorem leapfrog_run_eq_model {K X : Type*} [Field K] (h1Flow h2Flow : K → X → X) (t : K) (x : X) :
    runFlows h1Flow h2Flow IntegSteps.leapfrogStep t x = leapfrog h1Flow h2Flow t x := by
  rw [leapfrog_steps_eq_model.1, runFlows_leapfrog]

example : runFlows (K := ℚ) (kick (fun q : ℚ => q ^ 3)) (drift (fun p : ℚ => p)) IntegSteps.leapfrogStep
    (1 / 2) (1, 1) = (11 / 8, 205 / 2048) := by
  rw [leapfrog_run_eq_model]; norm_num [leapfrog, kick, drift]

/-- The `self.coefficients` computed by the translated `SymmetricCompositionIntegrator.__init__`
(Python slices `free[n % 2 :: 2]`, `free[(n + 1) % 2 :: 2]`, `coefficients[-2::-1]`, literals `0.5`,
`1`, `2`) is the model's `deriveCoeffs` — for EVERY list of free coefficients over every field. -/
theorem coefficients_eq_model {K : Type*} [Field K] (free : List K) :
    IntegSteps.coefficients free = deriveCoeffs free := by
  simp [IntegSteps.coefficients, deriveCoeffs, pySliceFrom_two, pySliceRevFromNeg_two]

example : IntegSteps.coefficients ([1 / 4, 1 / 8, 1 / 16] : List ℚ) =
    [1 / 4, 1 / 8, 1 / 16, 3 / 8, 3 / 8, 3 / 8, 1 / 16, 1 / 8, 1 / 4] := by
  rw [coefficients_eq_model]; norm_num [deriveCoeffs, slice2, stride2]

/-- The translated `self.flows` is the model's `flowsList` of `mkSymComp`. -/
theorem flows_eq_model {F : Type*} (h1Flow h2Flow : F) (n : Nat) (initialH1 : Bool) :
    IntegSteps.flows h1Flow h2Flow n initialH1 =
      flowsList (if initialH1 then h1Flow else h2Flow) (if initialH1 then h2Flow else h1Flow) n := by
  simp [IntegSteps.flows, flowsList]

/-- The translated `SymmetricCompositionIntegrator._step` (strict zip of coefficients and flows,
`flow(state, coefficient * time_step)`) is the model's `symComp`. -/
theorem symCompStep_eq_model {K X : Type*} [Field K] (coeffs : List K) (flows : List (K → X → X))
    (t : K) (x : X) :
    IntegSteps.symCompStep coeffs flows t x = symComp coeffs flows t x ∧
      IntegSteps.symCompZip = ⟨["coefficients", "flows"], true, "flow(state, coefficient * time_step)"⟩ :=
  ⟨rfl, by decide +kernel⟩

/-- Constructor followed by `_step`, as translated, is the model integrator `mkSymComp … .stepT` that
the reversibility (C02), symplecticity (C03) and order (C06) theorems are about. -/
theorem symComp_generated_eq_model {K X : Type*} [Field K] (h1Flow h2Flow : K → X → X) (free : List K)
    (initialH1 : Bool) (t : K) (x : X) :
    IntegSteps.symCompStep (IntegSteps.coefficients free)
        (IntegSteps.flows h1Flow h2Flow free.length initialH1) t x =
      (mkSymComp h1Flow h2Flow free initialH1).stepT t x := by
  rw [(symCompStep_eq_model _ _ _ _).1, coefficients_eq_model, flows_eq_model]
  rfl

example :
    IntegSteps.symCompStep (K := ℚ) (IntegSteps.coefficients [1 / 5])
      (IntegSteps.flows (kick (K := ℚ) (fun q : ℚ => q ^ 3)) (drift (K := ℚ) (fun p : ℚ => p)) 1 true)
      (1 / 2) ((1, 1) : ℚ × ℚ)
      = (mkSymComp (K := ℚ) (kick (fun q : ℚ => q ^ 3)) (drift (fun p : ℚ => p)) [1 / 5] true).stepT
          (1 / 2) (1, 1) :=
  symComp_generated_eq_model (K := ℚ) _ _ [1 / 5] true _ _

/-- The `super().__init__` calls of the BCSS classes: free coefficients in the order
`(a_0, b_1, a_1)`, `initial_h1_flow_step=True`, `step_size` passed on. -/
theorem bcss_init_eq_model :
    IntegSteps.bcss2 = ⟨["a_0"], true, true⟩ ∧ IntegSteps.bcss3 = ⟨["a_0", "b_1"], true, true⟩ ∧
      IntegSteps.bcss4 = ⟨["a_0", "b_1", "a_1"], true, true⟩ := by
  decide +kernel

/-- The decimal literals of `BCSSThreeStageIntegrator` / `BCSSFourStageIntegrator` are the published
values, digit for digit; `BCSSTwoStageIntegrator` computes `(3 - 3 ** 0.5) / 6`. -/
theorem bcss_literals_eq_published :
    freeDec IntegSteps.bcss3.free IntegSteps.bcss3Lits = Published.bcss3.map some ∧
      freeDec IntegSteps.bcss4.free IntegSteps.bcss4Lits = Published.bcss4.map some ∧
      IntegSteps.bcss2Sqrt = [("a_0", Published.bcss2)] ∧
      IntegSteps.bcss3Sqrt = [] ∧ IntegSteps.bcss4Sqrt = [] := by
  decide +kernel

/-- The floats Python computes from these literals are within relative `2⁻⁵²` of the published
values, and the two-stage float `a` satisfies `|(3 − 6a)² − 3| < 10⁻¹⁴` (i.e. `a ≈ (3 − √3)/6`). -/
theorem bcss_floats_close :
    (List.zip (freeFlt IntegSteps.bcss3.free IntegSteps.bcss3Lits) Published.bcss3).all
        (fun p => decide (|p.1 - p.2| ≤ p.2 / 2 ^ 52)) = true ∧
      (List.zip (freeFlt IntegSteps.bcss4.free IntegSteps.bcss4Lits) Published.bcss4).all
        (fun p => decide (|p.1 - p.2| ≤ p.2 / 2 ^ 52)) = true ∧
      (freeFlt IntegSteps.bcss2.free IntegSteps.bcss2Lits).all
        (fun a => decide (|(3 - 6 * a) ^ 2 - 3| < 1 / 10 ^ 14 ∧ 0 < a ∧ a < 1 / 2)) = true := by
  decide +kernel

/-- The BCSS schemes are `mkSymComp` with the published free coefficients: their coefficient lists
are palindromic and each component's fractions sum to exactly one (instances of the theorems for
every free list). -/
theorem bcss_coefficients_consistent :
    (∀ free ∈ [Published.bcss3, Published.bcss4],
      (IntegSteps.coefficients free).reverse = IntegSteps.coefficients free ∧
      weight true (IntegSteps.coefficients free) (IntegSteps.flows true false free.length true) = 1 ∧
      weight false (IntegSteps.coefficients free) (IntegSteps.flows true false free.length true) = 1) := by
  intro free _
  rw [coefficients_eq_model, flows_eq_model]
  exact ⟨C06.coeffs_palindrome free, C06.coeffs_sum_a (by norm_num) free, C06.coeffs_sum_b (by norm_num) free⟩

/-! ## C. Implicit and constrained integrators -/

/-- `ImplicitLeapfrogIntegrator`: `_step` calls `_step_a, _step_b_fwd, _step_c_fwd, _step_c_adj,
_step_b_adj, _step_a`, EACH with `time_step / 2`; the helpers are the `h1_flow` call, the two
fixed-point solves through `self.fixed_point_solver` and the two explicit updates followed by a
reverse check (adjoint helper run on a copy with `-time_step`, compared component, norm > tol →
`NonReversibleStepError`). -/
theorem implicitLeapfrog_steps_eq_model :
    IntegSteps.implicitLeapfrogStep = Expected.implicitLeapfrogStep ∧
      IntegSteps.implicitLeapfrogMethods = Expected.implicitLeapfrogMethods := by
  decide +kernel

/-- Running the generated tables IS the model `glStep` (any system functions, solver, tolerance
predicate, time step, state). -/
theorem implicitLeapfrog_run_eq_model {K V : Type*} [Field K] [AddCommGroup V] [Module K V]
    (S : GLSystem V) (solve : (V → V) → V → Res V) (far : V → Bool) (t : K) (x : V × V) :
    glRun S solve far IntegSteps.implicitLeapfrogMethods IntegSteps.implicitLeapfrogStep t x =
      glStep S solve far t x := by
  rw [implicitLeapfrog_steps_eq_model.1, implicitLeapfrog_steps_eq_model.2, glRun_expected]

/-- Non-vacuity: the generated tables executed on the non-separable system of
`Props/C02Implicit.lean` move the point as the model does. -/
example :
    let S : GLSystem ℚ := ⟨fun q => q, fun q p => q + p / 2, fun q p => q / 2 + p⟩
    let solve : (ℚ → ℚ) → ℚ → Res ℚ := fun g _ => .ok (g 0 / (1 - (g 1 - g 0)))
    let far : ℚ → Bool := fun d => d != 0
    glRun (K := ℚ) S solve far IntegSteps.implicitLeapfrogMethods IntegSteps.implicitLeapfrogStep (1 / 2) (1, 1)
      = .ok (97 / 63, -8 / 21) := by
  intro S solve far
  rw [implicitLeapfrog_run_eq_model]
  simp only [glStep, glStepA, glStepBFwd, glStepBAdj, glStepCFwd, glStepCAdj, bind, Except.bind,
    pure, Except.pure, S, solve, far]
  norm_num

/-- `ImplicitMidpointIntegrator`: implicit Euler half step through `self.fixed_point_solver`, explicit
Euler half step followed by the reverse check on `(pos, mom)`. -/
theorem implicitMidpoint_steps_eq_model :
    IntegSteps.implicitMidpointStep = Expected.implicitMidpointStep ∧
      IntegSteps.implicitMidpointMethods = Expected.implicitMidpointMethods := by
  decide +kernel

/-- Running the generated tables IS the model `imStep` for the Hamiltonian vector field
`(dh_dmom, −dh_dpos)`. -/
theorem implicitMidpoint_run_eq_model {K V : Type*} [Field K] [AddCommGroup V] [Module K V]
    (S : HSystem V) (solve : (V × V → V × V) → V × V → Res (V × V)) (far : V × V → Bool) (t : K)
    (z : V × V) :
    imRun S solve far IntegSteps.implicitMidpointMethods IntegSteps.implicitMidpointStep t z =
      imStep (hamField S) solve far t z := by
  rw [implicitMidpoint_steps_eq_model.1, implicitMidpoint_steps_eq_model.2, imRun_expected]

/-- `ConstrainedLeapfrogIntegrator`: `_step_a(½t)`, `_step_b(t)`, `_step_a(½t)`; `_step_a` = `h1_flow`
+ cotangent projection; `_step_b` = `n_inner_step` iterations with `time_step / n_inner_step`:
retraction (`h2_flow` then `self.projection_solver(state, state_prev, t, system)`), projection, reverse
check by the retraction of a copy with the negated inner time against `state_prev.pos`. -/
theorem constrainedLeapfrog_steps_eq_model :
    IntegSteps.constrainedLeapfrogStep = Expected.constrainedLeapfrogStep ∧
      IntegSteps.constrainedLeapfrogMethods = Expected.constrainedLeapfrogMethods := by
  decide +kernel

/-- Running the generated tables IS the model `conStep` (any number of inner steps). -/
theorem constrainedLeapfrog_run_eq_model {K V : Type*} [Field K] [AddCommGroup V] [Module K V]
    (S : ConSystem K V) (retr : K → V × V → V × V → Res (V × V)) (far : V → Bool) (nInner : Nat)
    (t : K) (x : V × V) :
    conRun S retr far nInner IntegSteps.constrainedLeapfrogMethods IntegSteps.constrainedLeapfrogStep t x =
      conStep S retr far nInner t x := by
  rw [constrainedLeapfrog_steps_eq_model.1, constrainedLeapfrog_steps_eq_model.2, conRun_expected]

/-! ## D. Fractions sum to one, palindromes, reverse checks -/

/-- Leapfrog: each component's fractions sum to exactly 1 and the call list is a palindrome. -/
theorem leapfrog_consistent :
    fractionSum "system.h1_flow" IntegSteps.leapfrogStep = 1 ∧
      fractionSum "system.h2_flow" IntegSteps.leapfrogStep = 1 ∧
      IntegSteps.leapfrogStep.reverse = IntegSteps.leapfrogStep := by
  decide +kernel

/-- Every `SymmetricCompositionIntegrator` (hence BCSS 2–4), as translated: palindromic coefficients
and flows, equal lengths (the strict zip never raises), each component's fractions sum to one — for
EVERY free list and both values of `initial_h1_flow_step`. -/
theorem symComp_consistent {K : Type*} [Field K] (h2 : (2 : K) ≠ 0) (free : List K) :
    (IntegSteps.coefficients free).reverse = IntegSteps.coefficients free ∧
      (∀ {F : Type} (a b : F) (i : Bool), (IntegSteps.flows a b free.length i).reverse
        = IntegSteps.flows a b free.length i ∧
        (IntegSteps.coefficients free).length = (IntegSteps.flows a b free.length i).length) ∧
      weight true (IntegSteps.coefficients free) (IntegSteps.flows true false free.length true) = 1 ∧
      weight false (IntegSteps.coefficients free) (IntegSteps.flows true false free.length true) = 1 := by
  refine ⟨?_, ?_, ?_, ?_⟩
  · rw [coefficients_eq_model]; exact C06.coeffs_palindrome free
  · intro F a b i
    rw [coefficients_eq_model, flows_eq_model]
    exact ⟨flowsList_reverse _ _ _, C06.coeffs_length_flows free _ _⟩
  · rw [coefficients_eq_model, flows_eq_model]; exact C06.coeffs_sum_a h2 free
  · rw [coefficients_eq_model, flows_eq_model]; exact C06.coeffs_sum_b h2 free

example : weight true (IntegSteps.coefficients ([1 / 5, 1 / 7] : List ℚ))
    (IntegSteps.flows true false 2 true) = 1 := (symComp_consistent (by norm_num) [1 / 5, 1 / 7]).2.2.1

/-- Total fraction of a component = its helper plus the helper's adjoint partner. -/
def componentSum (tbl : List (String × Method)) (cs : List Call) (name : String) : ℚ :=
  fractionSum name cs + (if partner tbl name = name then 0 else fractionSum (partner tbl name) cs)

/-- Implicit leapfrog: the A, B and C components each advance by exactly one time step (two halves),
the composition is symmetric under the adjoint pairing `b_fwd ↔ b_adj`, `c_fwd ↔ c_adj`, and every
implicit solve is reverse-checked (adjoint on a copy, NEGATED time step, norm > tol → error). -/
theorem implicitLeapfrog_consistent :
    (IntegSteps.implicitLeapfrogStep.all fun c =>
        componentSum IntegSteps.implicitLeapfrogMethods IntegSteps.implicitLeapfrogStep c.callee == 1) = true ∧
      adjointPalindrome IntegSteps.implicitLeapfrogMethods IntegSteps.implicitLeapfrogStep = true ∧
      allChecked IntegSteps.implicitLeapfrogMethods IntegSteps.implicitLeapfrogStep = true := by
  decide +kernel

/-- Implicit midpoint: two halves, symmetric, checked. -/
theorem implicitMidpoint_consistent :
    (IntegSteps.implicitMidpointStep.all fun c =>
        componentSum IntegSteps.implicitMidpointMethods IntegSteps.implicitMidpointStep c.callee == 1) = true ∧
      adjointPalindrome IntegSteps.implicitMidpointMethods IntegSteps.implicitMidpointStep = true ∧
      allChecked IntegSteps.implicitMidpointMethods IntegSteps.implicitMidpointStep = true := by
  decide +kernel

/-- Constrained leapfrog: `_step_a` twice a half, `_step_b` once the whole step, symmetric, the
retraction loop checked with the negated inner time. -/
theorem constrainedLeapfrog_consistent :
    (IntegSteps.constrainedLeapfrogStep.all fun c =>
        componentSum IntegSteps.constrainedLeapfrogMethods IntegSteps.constrainedLeapfrogStep c.callee == 1) = true ∧
      adjointPalindrome IntegSteps.constrainedLeapfrogMethods IntegSteps.constrainedLeapfrogStep = true ∧
      allChecked IntegSteps.constrainedLeapfrogMethods IntegSteps.constrainedLeapfrogStep = true := by
  decide +kernel

/-- … and the `n_inner_step` inner iterations of `_step_b` together advance by exactly `time_step`:
`n · (time_step / n) = time_step` (needs `n ≠ 0` in the field). -/
theorem constrainedLeapfrog_inner_sum {K : Type*} [Field K] (n : Nat) (hn : (n : K) ≠ 0) (t : K) :
    ∀ r, IntegSteps.constrainedLeapfrogMethods.lookup "self._step_b" = some (.retractLoop r) →
      (n : K) * r.tFwd.eval n (r.tInner.eval n t) = t ∧
        r.tBack.eval n (r.tInner.eval n t) = -(r.tFwd.eval n (r.tInner.eval n t)) := by
  intro r hr
  rw [constrainedLeapfrog_steps_eq_model.2] at hr
  simp only [Expected.constrainedLeapfrogMethods, List.lookup] at hr
  have hr' := (Method.retractLoop.injEq _ _).mp (Option.some.inj hr)
  subst hr'
  simp only [TimeArg.eval_one, TimeArg.eval_neg_one, TimeArg.eval_inner]
  exact ⟨by field_simp, trivial⟩

example : ((3 : ℕ) : ℚ) * (1 / 2 / 3) = 1 / 2 := by norm_num

/-- Sensitivity of the tie (negative control): the table of the fixed defect "every sub-step uses the
full time step" is NOT the expected one, and its A component would advance by 2. -/
example :
    let bad := Expected.implicitLeapfrogStep.map fun c => (⟨c.callee, ⟨1, 1, false⟩⟩ : Call)
    bad ≠ Expected.implicitLeapfrogStep ∧
      componentSum Expected.implicitLeapfrogMethods bad "self._step_a" = 2 := by
  decide +kernel

/-! ## E. `Integrator.step` -/

/-- `Integrator.step` raises `AdaptationError` for `step_size is None`, otherwise works on
`state.copy()`, calls `_step(copy, state.dir * self.step_size)`, converts exactly `ValueError` and
`LinAlgError` into `IntegratorError` (chained), and returns the copy — the shape modelled by
`Integrators.step` (`⟨stepT (s.dir * ε) s.x, s.dir⟩`, input untouched). -/
theorem stepWrapper_eq_model :
    IntegSteps.stepWrapper =
      { noneRaises := "AdaptationError", copiesState := true, callOnCopyDirTimesStepSize := true,
        converts := ["ValueError", "LinAlgError"], convertsTo := "IntegratorError", returnsCopy := true } := by
  decide +kernel

/-! ## F. C03 and C06 for the translated `SymmetricCompositionIntegrator` -/

/-- C03: the translated constructor + `_step` run on tangent-lifted flows propagates a symplectic
matrix to a symplectic matrix and its base point follows the translated step on the base flows — for
every free list, both initial flows (hence BCSS 2–4 and leapfrog). -/
theorem symComp_generated_symplectic {K : Type*} [Field K] {n : Nat}
    {h1T h2T : K → TState n K → TState n K}
    {h1 h2 : K → Phase n K → Phase n K} (e1 : ElemLift h1T h1) (e2 : ElemLift h2T h2)
    (free : List K) (initialH1 : Bool) (t : K) (x : Phase n K) (D : Mat2 n K)
    (hD : D ∈ symplecticGroup (Fin n) K) :
    (IntegSteps.symCompStep (IntegSteps.coefficients free)
        (IntegSteps.flows h1T h2T free.length initialH1) t (x, D)).2 ∈ symplecticGroup (Fin n) K ∧
      (IntegSteps.symCompStep (IntegSteps.coefficients free)
        (IntegSteps.flows h1T h2T free.length initialH1) t (x, D)).1 =
      IntegSteps.symCompStep (IntegSteps.coefficients free)
        (IntegSteps.flows h1 h2 free.length initialH1) t x := by
  rw [symComp_generated_eq_model, symComp_generated_eq_model]
  exact C03.mkSymComp_jac_mem e1 e2 free initialH1 t x D hD

/-- C06: the translated constructor + `_step` on a linear system agrees with the exact flow through
second order: `x + ε F x + ½ε² F² x + ε³ rest(ε) x` — for every free list and both initial flows. -/
theorem symComp_generated_order2_linear {K : Type*} [Field K] {n : Nat} (h2 : (2 : K) ≠ 0)
    (H N : Mat n K) (free : List K) (initialH1 : Bool) (ε : K) (x : Phase n K) :
    pack (IntegSteps.symCompStep (IntegSteps.coefficients free)
        (IntegSteps.flows (kick H.mulVec) (drift N.mulVec) free.length initialH1) ε x) =
      pack x + ε • (vfMat H N).mulVec (pack x) + (ε ^ 2 / 2) • (vfMat H N ^ 2).mulVec (pack x)
        + ε ^ 3 • (rest ε (stepGens H N free initialH1)).mulVec (pack x) := by
  rw [symComp_generated_eq_model]
  exact C06.symComp_order2_linear_apply h2 H N free initialH1 ε x

example : pack (IntegSteps.symCompStep (K := ℚ) (IntegSteps.coefficients [1 / 5])
      (IntegSteps.flows (kick (!![2, 1; 1, 3] : Mat 2 ℚ).mulVec) (drift (!![1, 0; 0, 2] : Mat 2 ℚ).mulVec) 1 true)
      (1 / 2) (![1, 0], ![0, 1])) =
    pack ((mkSymComp (kick (!![2, 1; 1, 3] : Mat 2 ℚ).mulVec) (drift (!![1, 0; 0, 2] : Mat 2 ℚ).mulVec)
      [(1 / 5 : ℚ)] true).stepT (1 / 2 : ℚ) (![1, 0], ![0, 1])) :=
  congrArg pack (symComp_generated_eq_model (K := ℚ) _ _ [1 / 5] true _ _)

end MiciVerif.C06S
