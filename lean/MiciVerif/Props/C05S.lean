/-
C05 (source level) — the method bodies that are in `src/mici/systems.py` NOW, as translated by
`tools/extractors/system_methods.py` into `Generated/SystemMethods.lean`, evaluate to the
hand-written models of `Model/Systems.lean`, for every environment (user functions, metric
object, literal `0.5`, `log|·|`, Gram inverse — all arbitrary), every state `(q, p)` and every
commutative ring (hence also over the dual numbers).

* `src_<Class>_<method>_eq_model` (8 methods × 10 classes): evaluating the generated body of
  `<Class>().<method>(state)` — with every `self.m(state)` call resolved through the generated
  MRO — gives the corresponding field of the hand model.
* `src_<Class>_methods`, `src_<Class>_consistent`, `src_<Class>_derivative`: the theorems of
  `Props/C05.lean` (`h = h1 + h2`, `dh_dpos = dh1_dpos + dh2_dpos`, `dh_dmom = dh2_dmom`; the
  derivative methods are the ε-coefficients of the value methods) restated for the source text.
* `src_init_constants`: the constants the subclasses pass to their base `__init__`
  (`dens_wrt_hausdorff=False`, the metric matrix classes).

A change of a translated method that changes its value breaks the `…_eq_model` theorem of that
method and of every method that calls it; an untranslatable shape evaluates to `Val.err`.
-/
import MiciVerif.Lemmas.SysExprEnv
import MiciVerif.Generated.SystemMethods
import MiciVerif.Props.C05

set_option linter.unusedSimpArgs false
set_option linter.unusedSectionVars false

namespace MiciVerif.C05
open Matrix TrivSqZeroExt DualNumber MiciVerif.Systems MiciVerif.Dual MiciVerif.SysExpr
open MiciVerif.Generated.SystemMethods

section EqModel
variable {R : Type*} [CommRing R] {n c κ : Type*} [Fintype n] [Fintype c] [Fintype κ]
  [DecidableEq n] [DecidableEq c]

/-! #### EuclideanMetricSystem -/

theorem src_EuclideanMetricSystem_h1_eq_model (E : Env R n c κ) (q p : n → R) :
    table.value E .EuclideanMetricSystem .h1 q p = .sc ((euclidean E.half E.metric.inv E.negLogDens E.gradNegLogDens).h1 q p) := by
  src_eval; simp [euclidean, Matrix.dotProduct_mulVec, Matrix.smul_vecMul]

theorem src_EuclideanMetricSystem_h2_eq_model (E : Env R n c κ) (q p : n → R) :
    table.value E .EuclideanMetricSystem .h2 q p = .sc ((euclidean E.half E.metric.inv E.negLogDens E.gradNegLogDens).h2 q p) := by
  src_eval; simp [euclidean, Matrix.dotProduct_mulVec, Matrix.smul_vecMul]

theorem src_EuclideanMetricSystem_h_eq_model (E : Env R n c κ) (q p : n → R) :
    table.value E .EuclideanMetricSystem .h q p = .sc ((euclidean E.half E.metric.inv E.negLogDens E.gradNegLogDens).h q p) := by
  src_eval; simp [euclidean, Matrix.dotProduct_mulVec, Matrix.smul_vecMul]

theorem src_EuclideanMetricSystem_dh1_dpos_eq_model (E : Env R n c κ) (q p : n → R) :
    table.value E .EuclideanMetricSystem .dh1_dpos q p = .vn ((euclidean E.half E.metric.inv E.negLogDens E.gradNegLogDens).dh1_dpos q p) := by
  src_eval; simp [euclidean, Matrix.dotProduct_mulVec, Matrix.smul_vecMul]

theorem src_EuclideanMetricSystem_dh2_dpos_eq_model (E : Env R n c κ) (q p : n → R) :
    table.value E .EuclideanMetricSystem .dh2_dpos q p = .vn ((euclidean E.half E.metric.inv E.negLogDens E.gradNegLogDens).dh2_dpos q p) := by
  src_eval; simp [euclidean, Matrix.dotProduct_mulVec, Matrix.smul_vecMul]

theorem src_EuclideanMetricSystem_dh2_dmom_eq_model (E : Env R n c κ) (q p : n → R) :
    table.value E .EuclideanMetricSystem .dh2_dmom q p = .vn ((euclidean E.half E.metric.inv E.negLogDens E.gradNegLogDens).dh2_dmom q p) := by
  src_eval; simp [euclidean, Matrix.dotProduct_mulVec, Matrix.smul_vecMul]

theorem src_EuclideanMetricSystem_dh_dpos_eq_model (E : Env R n c κ) (q p : n → R) :
    table.value E .EuclideanMetricSystem .dh_dpos q p = .vn ((euclidean E.half E.metric.inv E.negLogDens E.gradNegLogDens).dh_dpos q p) := by
  src_eval; simp [euclidean, Matrix.dotProduct_mulVec, Matrix.smul_vecMul]

theorem src_EuclideanMetricSystem_dh_dmom_eq_model (E : Env R n c κ) (q p : n → R) :
    table.value E .EuclideanMetricSystem .dh_dmom q p = .vn ((euclidean E.half E.metric.inv E.negLogDens E.gradNegLogDens).dh_dmom q p) := by
  src_eval; simp [euclidean, Matrix.dotProduct_mulVec, Matrix.smul_vecMul]

/-! #### GaussianEuclideanMetricSystem -/

theorem src_GaussianEuclideanMetricSystem_h1_eq_model (E : Env R n c κ) (q p : n → R) :
    table.value E .GaussianEuclideanMetricSystem .h1 q p = .sc ((gaussianEuclidean E.half E.metric.inv E.negLogDens E.gradNegLogDens).h1 q p) := by
  src_eval; simp [gaussianEuclidean, Matrix.dotProduct_mulVec, Matrix.smul_vecMul]

theorem src_GaussianEuclideanMetricSystem_h2_eq_model (E : Env R n c κ) (q p : n → R) :
    table.value E .GaussianEuclideanMetricSystem .h2 q p = .sc ((gaussianEuclidean E.half E.metric.inv E.negLogDens E.gradNegLogDens).h2 q p) := by
  src_eval; simp [gaussianEuclidean, Matrix.dotProduct_mulVec, Matrix.smul_vecMul]

theorem src_GaussianEuclideanMetricSystem_h_eq_model (E : Env R n c κ) (q p : n → R) :
    table.value E .GaussianEuclideanMetricSystem .h q p = .sc ((gaussianEuclidean E.half E.metric.inv E.negLogDens E.gradNegLogDens).h q p) := by
  src_eval; simp [gaussianEuclidean, Matrix.dotProduct_mulVec, Matrix.smul_vecMul]

theorem src_GaussianEuclideanMetricSystem_dh1_dpos_eq_model (E : Env R n c κ) (q p : n → R) :
    table.value E .GaussianEuclideanMetricSystem .dh1_dpos q p = .vn ((gaussianEuclidean E.half E.metric.inv E.negLogDens E.gradNegLogDens).dh1_dpos q p) := by
  src_eval; simp [gaussianEuclidean, Matrix.dotProduct_mulVec, Matrix.smul_vecMul]

theorem src_GaussianEuclideanMetricSystem_dh2_dpos_eq_model (E : Env R n c κ) (q p : n → R) :
    table.value E .GaussianEuclideanMetricSystem .dh2_dpos q p = .vn ((gaussianEuclidean E.half E.metric.inv E.negLogDens E.gradNegLogDens).dh2_dpos q p) := by
  src_eval; simp [gaussianEuclidean, Matrix.dotProduct_mulVec, Matrix.smul_vecMul]

theorem src_GaussianEuclideanMetricSystem_dh2_dmom_eq_model (E : Env R n c κ) (q p : n → R) :
    table.value E .GaussianEuclideanMetricSystem .dh2_dmom q p = .vn ((gaussianEuclidean E.half E.metric.inv E.negLogDens E.gradNegLogDens).dh2_dmom q p) := by
  src_eval; simp [gaussianEuclidean, Matrix.dotProduct_mulVec, Matrix.smul_vecMul]

theorem src_GaussianEuclideanMetricSystem_dh_dpos_eq_model (E : Env R n c κ) (q p : n → R) :
    table.value E .GaussianEuclideanMetricSystem .dh_dpos q p = .vn ((gaussianEuclidean E.half E.metric.inv E.negLogDens E.gradNegLogDens).dh_dpos q p) := by
  src_eval; simp [gaussianEuclidean, Matrix.dotProduct_mulVec, Matrix.smul_vecMul]

theorem src_GaussianEuclideanMetricSystem_dh_dmom_eq_model (E : Env R n c κ) (q p : n → R) :
    table.value E .GaussianEuclideanMetricSystem .dh_dmom q p = .vn ((gaussianEuclidean E.half E.metric.inv E.negLogDens E.gradNegLogDens).dh_dmom q p) := by
  src_eval; simp [gaussianEuclidean, Matrix.dotProduct_mulVec, Matrix.smul_vecMul]

/-! #### DenseConstrainedEuclideanMetricSystem -/

theorem src_DenseConstrainedEuclideanMetricSystem_h1_eq_model (E : Env R n c κ) (b : Bool) (q p : n → R) :
    table.value (E.withFlag b) .DenseConstrainedEuclideanMetricSystem .h1 q p = .sc ((denseConstrained b E.half E.logabs E.metric.inv E.negLogDens E.gradNegLogDens E.consFns).h1 q p) := by
  cases b <;> src_eval <;> simp [denseConstrained, logDetSqrtGram, gradLogDetSqrtGram, gram, Env.consFns, Env.withFlag, Matrix.dotProduct_mulVec, Matrix.smul_vecMul]

theorem src_DenseConstrainedEuclideanMetricSystem_h2_eq_model (E : Env R n c κ) (b : Bool) (q p : n → R) :
    table.value (E.withFlag b) .DenseConstrainedEuclideanMetricSystem .h2 q p = .sc ((denseConstrained b E.half E.logabs E.metric.inv E.negLogDens E.gradNegLogDens E.consFns).h2 q p) := by
  cases b <;> src_eval <;> simp [denseConstrained, logDetSqrtGram, gradLogDetSqrtGram, gram, Env.consFns, Env.withFlag, Matrix.dotProduct_mulVec, Matrix.smul_vecMul]

theorem src_DenseConstrainedEuclideanMetricSystem_h_eq_model (E : Env R n c κ) (b : Bool) (q p : n → R) :
    table.value (E.withFlag b) .DenseConstrainedEuclideanMetricSystem .h q p = .sc ((denseConstrained b E.half E.logabs E.metric.inv E.negLogDens E.gradNegLogDens E.consFns).h q p) := by
  cases b <;> src_eval <;> simp [denseConstrained, logDetSqrtGram, gradLogDetSqrtGram, gram, Env.consFns, Env.withFlag, Matrix.dotProduct_mulVec, Matrix.smul_vecMul]

theorem src_DenseConstrainedEuclideanMetricSystem_dh1_dpos_eq_model (E : Env R n c κ) (b : Bool) (q p : n → R) :
    table.value (E.withFlag b) .DenseConstrainedEuclideanMetricSystem .dh1_dpos q p = .vn ((denseConstrained b E.half E.logabs E.metric.inv E.negLogDens E.gradNegLogDens E.consFns).dh1_dpos q p) := by
  cases b <;> src_eval <;> simp [denseConstrained, logDetSqrtGram, gradLogDetSqrtGram, gram, Env.consFns, Env.withFlag, Matrix.dotProduct_mulVec, Matrix.smul_vecMul]

theorem src_DenseConstrainedEuclideanMetricSystem_dh2_dpos_eq_model (E : Env R n c κ) (b : Bool) (q p : n → R) :
    table.value (E.withFlag b) .DenseConstrainedEuclideanMetricSystem .dh2_dpos q p = .vn ((denseConstrained b E.half E.logabs E.metric.inv E.negLogDens E.gradNegLogDens E.consFns).dh2_dpos q p) := by
  cases b <;> src_eval <;> simp [denseConstrained, logDetSqrtGram, gradLogDetSqrtGram, gram, Env.consFns, Env.withFlag, Matrix.dotProduct_mulVec, Matrix.smul_vecMul]

theorem src_DenseConstrainedEuclideanMetricSystem_dh2_dmom_eq_model (E : Env R n c κ) (b : Bool) (q p : n → R) :
    table.value (E.withFlag b) .DenseConstrainedEuclideanMetricSystem .dh2_dmom q p = .vn ((denseConstrained b E.half E.logabs E.metric.inv E.negLogDens E.gradNegLogDens E.consFns).dh2_dmom q p) := by
  cases b <;> src_eval <;> simp [denseConstrained, logDetSqrtGram, gradLogDetSqrtGram, gram, Env.consFns, Env.withFlag, Matrix.dotProduct_mulVec, Matrix.smul_vecMul]

theorem src_DenseConstrainedEuclideanMetricSystem_dh_dpos_eq_model (E : Env R n c κ) (b : Bool) (q p : n → R) :
    table.value (E.withFlag b) .DenseConstrainedEuclideanMetricSystem .dh_dpos q p = .vn ((denseConstrained b E.half E.logabs E.metric.inv E.negLogDens E.gradNegLogDens E.consFns).dh_dpos q p) := by
  cases b <;> src_eval <;> simp [denseConstrained, logDetSqrtGram, gradLogDetSqrtGram, gram, Env.consFns, Env.withFlag, Matrix.dotProduct_mulVec, Matrix.smul_vecMul]

theorem src_DenseConstrainedEuclideanMetricSystem_dh_dmom_eq_model (E : Env R n c κ) (b : Bool) (q p : n → R) :
    table.value (E.withFlag b) .DenseConstrainedEuclideanMetricSystem .dh_dmom q p = .vn ((denseConstrained b E.half E.logabs E.metric.inv E.negLogDens E.gradNegLogDens E.consFns).dh_dmom q p) := by
  cases b <;> src_eval <;> simp [denseConstrained, logDetSqrtGram, gradLogDetSqrtGram, gram, Env.consFns, Env.withFlag, Matrix.dotProduct_mulVec, Matrix.smul_vecMul]

/-! #### GaussianDenseConstrainedEuclideanMetricSystem -/

theorem src_GaussianDenseConstrainedEuclideanMetricSystem_h1_eq_model (E : Env R n c κ) (q p : n → R) :
    table.value (E.withFlag false) .GaussianDenseConstrainedEuclideanMetricSystem .h1 q p = .sc ((gaussianDenseConstrained E.half E.logabs E.metric.inv E.negLogDens E.gradNegLogDens E.consFns).h1 q p) := by
  src_eval; simp [gaussianDenseConstrained, logDetSqrtGram, gradLogDetSqrtGram, gram, Env.consFns, Env.withFlag, Matrix.dotProduct_mulVec, Matrix.smul_vecMul]

theorem src_GaussianDenseConstrainedEuclideanMetricSystem_h2_eq_model (E : Env R n c κ) (q p : n → R) :
    table.value (E.withFlag false) .GaussianDenseConstrainedEuclideanMetricSystem .h2 q p = .sc ((gaussianDenseConstrained E.half E.logabs E.metric.inv E.negLogDens E.gradNegLogDens E.consFns).h2 q p) := by
  src_eval; simp [gaussianDenseConstrained, logDetSqrtGram, gradLogDetSqrtGram, gram, Env.consFns, Env.withFlag, Matrix.dotProduct_mulVec, Matrix.smul_vecMul]

theorem src_GaussianDenseConstrainedEuclideanMetricSystem_h_eq_model (E : Env R n c κ) (q p : n → R) :
    table.value (E.withFlag false) .GaussianDenseConstrainedEuclideanMetricSystem .h q p = .sc ((gaussianDenseConstrained E.half E.logabs E.metric.inv E.negLogDens E.gradNegLogDens E.consFns).h q p) := by
  src_eval; simp [gaussianDenseConstrained, logDetSqrtGram, gradLogDetSqrtGram, gram, Env.consFns, Env.withFlag, Matrix.dotProduct_mulVec, Matrix.smul_vecMul]

theorem src_GaussianDenseConstrainedEuclideanMetricSystem_dh1_dpos_eq_model (E : Env R n c κ) (q p : n → R) :
    table.value (E.withFlag false) .GaussianDenseConstrainedEuclideanMetricSystem .dh1_dpos q p = .vn ((gaussianDenseConstrained E.half E.logabs E.metric.inv E.negLogDens E.gradNegLogDens E.consFns).dh1_dpos q p) := by
  src_eval; simp [gaussianDenseConstrained, logDetSqrtGram, gradLogDetSqrtGram, gram, Env.consFns, Env.withFlag, Matrix.dotProduct_mulVec, Matrix.smul_vecMul]

theorem src_GaussianDenseConstrainedEuclideanMetricSystem_dh2_dpos_eq_model (E : Env R n c κ) (q p : n → R) :
    table.value (E.withFlag false) .GaussianDenseConstrainedEuclideanMetricSystem .dh2_dpos q p = .vn ((gaussianDenseConstrained E.half E.logabs E.metric.inv E.negLogDens E.gradNegLogDens E.consFns).dh2_dpos q p) := by
  src_eval; simp [gaussianDenseConstrained, logDetSqrtGram, gradLogDetSqrtGram, gram, Env.consFns, Env.withFlag, Matrix.dotProduct_mulVec, Matrix.smul_vecMul]

theorem src_GaussianDenseConstrainedEuclideanMetricSystem_dh2_dmom_eq_model (E : Env R n c κ) (q p : n → R) :
    table.value (E.withFlag false) .GaussianDenseConstrainedEuclideanMetricSystem .dh2_dmom q p = .vn ((gaussianDenseConstrained E.half E.logabs E.metric.inv E.negLogDens E.gradNegLogDens E.consFns).dh2_dmom q p) := by
  src_eval; simp [gaussianDenseConstrained, logDetSqrtGram, gradLogDetSqrtGram, gram, Env.consFns, Env.withFlag, Matrix.dotProduct_mulVec, Matrix.smul_vecMul]

theorem src_GaussianDenseConstrainedEuclideanMetricSystem_dh_dpos_eq_model (E : Env R n c κ) (q p : n → R) :
    table.value (E.withFlag false) .GaussianDenseConstrainedEuclideanMetricSystem .dh_dpos q p = .vn ((gaussianDenseConstrained E.half E.logabs E.metric.inv E.negLogDens E.gradNegLogDens E.consFns).dh_dpos q p) := by
  src_eval; simp [gaussianDenseConstrained, logDetSqrtGram, gradLogDetSqrtGram, gram, Env.consFns, Env.withFlag, Matrix.dotProduct_mulVec, Matrix.smul_vecMul]

theorem src_GaussianDenseConstrainedEuclideanMetricSystem_dh_dmom_eq_model (E : Env R n c κ) (q p : n → R) :
    table.value (E.withFlag false) .GaussianDenseConstrainedEuclideanMetricSystem .dh_dmom q p = .vn ((gaussianDenseConstrained E.half E.logabs E.metric.inv E.negLogDens E.gradNegLogDens E.consFns).dh_dmom q p) := by
  src_eval; simp [gaussianDenseConstrained, logDetSqrtGram, gradLogDetSqrtGram, gram, Env.consFns, Env.withFlag, Matrix.dotProduct_mulVec, Matrix.smul_vecMul]

/-! #### RiemannianMetricSystem -/

theorem src_RiemannianMetricSystem_h1_eq_model (E : Env R n c κ) (Mc : MetricClass R κ n) (F : MetricFns R κ n) (L : (κ → R) → Matrix n n R) (q p : n → R) :
    table.value (E.withRiemannian Mc F L) .RiemannianMetricSystem .h1 q p = .sc ((riemannian E.half E.logabs E.negLogDens E.gradNegLogDens Mc F).h1 q p) := by
  src_eval; simp [riemannian, Env.withRiemannian, matObjOfClass, Matrix.dotProduct_mulVec, Matrix.smul_vecMul]

theorem src_RiemannianMetricSystem_h2_eq_model (E : Env R n c κ) (Mc : MetricClass R κ n) (F : MetricFns R κ n) (L : (κ → R) → Matrix n n R) (q p : n → R) :
    table.value (E.withRiemannian Mc F L) .RiemannianMetricSystem .h2 q p = .sc ((riemannian E.half E.logabs E.negLogDens E.gradNegLogDens Mc F).h2 q p) := by
  src_eval; simp [riemannian, Env.withRiemannian, matObjOfClass, Matrix.dotProduct_mulVec, Matrix.smul_vecMul]

theorem src_RiemannianMetricSystem_h_eq_model (E : Env R n c κ) (Mc : MetricClass R κ n) (F : MetricFns R κ n) (L : (κ → R) → Matrix n n R) (q p : n → R) :
    table.value (E.withRiemannian Mc F L) .RiemannianMetricSystem .h q p = .sc ((riemannian E.half E.logabs E.negLogDens E.gradNegLogDens Mc F).h q p) := by
  src_eval; simp [riemannian, Env.withRiemannian, matObjOfClass, Matrix.dotProduct_mulVec, Matrix.smul_vecMul]

theorem src_RiemannianMetricSystem_dh1_dpos_eq_model (E : Env R n c κ) (Mc : MetricClass R κ n) (F : MetricFns R κ n) (L : (κ → R) → Matrix n n R) (q p : n → R) :
    table.value (E.withRiemannian Mc F L) .RiemannianMetricSystem .dh1_dpos q p = .vn ((riemannian E.half E.logabs E.negLogDens E.gradNegLogDens Mc F).dh1_dpos q p) := by
  src_eval; simp [riemannian, Env.withRiemannian, matObjOfClass, Matrix.dotProduct_mulVec, Matrix.smul_vecMul]

theorem src_RiemannianMetricSystem_dh2_dpos_eq_model (E : Env R n c κ) (Mc : MetricClass R κ n) (F : MetricFns R κ n) (L : (κ → R) → Matrix n n R) (q p : n → R) :
    table.value (E.withRiemannian Mc F L) .RiemannianMetricSystem .dh2_dpos q p = .vn ((riemannian E.half E.logabs E.negLogDens E.gradNegLogDens Mc F).dh2_dpos q p) := by
  src_eval; simp [riemannian, Env.withRiemannian, matObjOfClass, Matrix.dotProduct_mulVec, Matrix.smul_vecMul]

theorem src_RiemannianMetricSystem_dh2_dmom_eq_model (E : Env R n c κ) (Mc : MetricClass R κ n) (F : MetricFns R κ n) (L : (κ → R) → Matrix n n R) (q p : n → R) :
    table.value (E.withRiemannian Mc F L) .RiemannianMetricSystem .dh2_dmom q p = .vn ((riemannian E.half E.logabs E.negLogDens E.gradNegLogDens Mc F).dh2_dmom q p) := by
  src_eval; simp [riemannian, Env.withRiemannian, matObjOfClass, Matrix.dotProduct_mulVec, Matrix.smul_vecMul]

theorem src_RiemannianMetricSystem_dh_dpos_eq_model (E : Env R n c κ) (Mc : MetricClass R κ n) (F : MetricFns R κ n) (L : (κ → R) → Matrix n n R) (q p : n → R) :
    table.value (E.withRiemannian Mc F L) .RiemannianMetricSystem .dh_dpos q p = .vn ((riemannian E.half E.logabs E.negLogDens E.gradNegLogDens Mc F).dh_dpos q p) := by
  src_eval; simp [riemannian, Env.withRiemannian, matObjOfClass, Matrix.dotProduct_mulVec, Matrix.smul_vecMul]

theorem src_RiemannianMetricSystem_dh_dmom_eq_model (E : Env R n c κ) (Mc : MetricClass R κ n) (F : MetricFns R κ n) (L : (κ → R) → Matrix n n R) (q p : n → R) :
    table.value (E.withRiemannian Mc F L) .RiemannianMetricSystem .dh_dmom q p = .vn ((riemannian E.half E.logabs E.negLogDens E.gradNegLogDens Mc F).dh_dmom q p) := by
  src_eval; simp [riemannian, Env.withRiemannian, matObjOfClass, Matrix.dotProduct_mulVec, Matrix.smul_vecMul]

/-! #### ScalarRiemannianMetricSystem -/

theorem src_ScalarRiemannianMetricSystem_h1_eq_model (E : Env R n c κ) (Mc : MetricClass R κ n) (F : MetricFns R κ n) (L : (κ → R) → Matrix n n R) (q p : n → R) :
    table.value (E.withRiemannian Mc F L) .ScalarRiemannianMetricSystem .h1 q p = .sc ((riemannian E.half E.logabs E.negLogDens E.gradNegLogDens Mc F).h1 q p) := by
  src_eval; simp [riemannian, Env.withRiemannian, matObjOfClass, Matrix.dotProduct_mulVec, Matrix.smul_vecMul]

theorem src_ScalarRiemannianMetricSystem_h2_eq_model (E : Env R n c κ) (Mc : MetricClass R κ n) (F : MetricFns R κ n) (L : (κ → R) → Matrix n n R) (q p : n → R) :
    table.value (E.withRiemannian Mc F L) .ScalarRiemannianMetricSystem .h2 q p = .sc ((riemannian E.half E.logabs E.negLogDens E.gradNegLogDens Mc F).h2 q p) := by
  src_eval; simp [riemannian, Env.withRiemannian, matObjOfClass, Matrix.dotProduct_mulVec, Matrix.smul_vecMul]

theorem src_ScalarRiemannianMetricSystem_h_eq_model (E : Env R n c κ) (Mc : MetricClass R κ n) (F : MetricFns R κ n) (L : (κ → R) → Matrix n n R) (q p : n → R) :
    table.value (E.withRiemannian Mc F L) .ScalarRiemannianMetricSystem .h q p = .sc ((riemannian E.half E.logabs E.negLogDens E.gradNegLogDens Mc F).h q p) := by
  src_eval; simp [riemannian, Env.withRiemannian, matObjOfClass, Matrix.dotProduct_mulVec, Matrix.smul_vecMul]

theorem src_ScalarRiemannianMetricSystem_dh1_dpos_eq_model (E : Env R n c κ) (Mc : MetricClass R κ n) (F : MetricFns R κ n) (L : (κ → R) → Matrix n n R) (q p : n → R) :
    table.value (E.withRiemannian Mc F L) .ScalarRiemannianMetricSystem .dh1_dpos q p = .vn ((riemannian E.half E.logabs E.negLogDens E.gradNegLogDens Mc F).dh1_dpos q p) := by
  src_eval; simp [riemannian, Env.withRiemannian, matObjOfClass, Matrix.dotProduct_mulVec, Matrix.smul_vecMul]

theorem src_ScalarRiemannianMetricSystem_dh2_dpos_eq_model (E : Env R n c κ) (Mc : MetricClass R κ n) (F : MetricFns R κ n) (L : (κ → R) → Matrix n n R) (q p : n → R) :
    table.value (E.withRiemannian Mc F L) .ScalarRiemannianMetricSystem .dh2_dpos q p = .vn ((riemannian E.half E.logabs E.negLogDens E.gradNegLogDens Mc F).dh2_dpos q p) := by
  src_eval; simp [riemannian, Env.withRiemannian, matObjOfClass, Matrix.dotProduct_mulVec, Matrix.smul_vecMul]

theorem src_ScalarRiemannianMetricSystem_dh2_dmom_eq_model (E : Env R n c κ) (Mc : MetricClass R κ n) (F : MetricFns R κ n) (L : (κ → R) → Matrix n n R) (q p : n → R) :
    table.value (E.withRiemannian Mc F L) .ScalarRiemannianMetricSystem .dh2_dmom q p = .vn ((riemannian E.half E.logabs E.negLogDens E.gradNegLogDens Mc F).dh2_dmom q p) := by
  src_eval; simp [riemannian, Env.withRiemannian, matObjOfClass, Matrix.dotProduct_mulVec, Matrix.smul_vecMul]

theorem src_ScalarRiemannianMetricSystem_dh_dpos_eq_model (E : Env R n c κ) (Mc : MetricClass R κ n) (F : MetricFns R κ n) (L : (κ → R) → Matrix n n R) (q p : n → R) :
    table.value (E.withRiemannian Mc F L) .ScalarRiemannianMetricSystem .dh_dpos q p = .vn ((riemannian E.half E.logabs E.negLogDens E.gradNegLogDens Mc F).dh_dpos q p) := by
  src_eval; simp [riemannian, Env.withRiemannian, matObjOfClass, Matrix.dotProduct_mulVec, Matrix.smul_vecMul]

theorem src_ScalarRiemannianMetricSystem_dh_dmom_eq_model (E : Env R n c κ) (Mc : MetricClass R κ n) (F : MetricFns R κ n) (L : (κ → R) → Matrix n n R) (q p : n → R) :
    table.value (E.withRiemannian Mc F L) .ScalarRiemannianMetricSystem .dh_dmom q p = .vn ((riemannian E.half E.logabs E.negLogDens E.gradNegLogDens Mc F).dh_dmom q p) := by
  src_eval; simp [riemannian, Env.withRiemannian, matObjOfClass, Matrix.dotProduct_mulVec, Matrix.smul_vecMul]

/-! #### DiagonalRiemannianMetricSystem -/

theorem src_DiagonalRiemannianMetricSystem_h1_eq_model (E : Env R n c κ) (Mc : MetricClass R κ n) (F : MetricFns R κ n) (L : (κ → R) → Matrix n n R) (q p : n → R) :
    table.value (E.withRiemannian Mc F L) .DiagonalRiemannianMetricSystem .h1 q p = .sc ((riemannian E.half E.logabs E.negLogDens E.gradNegLogDens Mc F).h1 q p) := by
  src_eval; simp [riemannian, Env.withRiemannian, matObjOfClass, Matrix.dotProduct_mulVec, Matrix.smul_vecMul]

theorem src_DiagonalRiemannianMetricSystem_h2_eq_model (E : Env R n c κ) (Mc : MetricClass R κ n) (F : MetricFns R κ n) (L : (κ → R) → Matrix n n R) (q p : n → R) :
    table.value (E.withRiemannian Mc F L) .DiagonalRiemannianMetricSystem .h2 q p = .sc ((riemannian E.half E.logabs E.negLogDens E.gradNegLogDens Mc F).h2 q p) := by
  src_eval; simp [riemannian, Env.withRiemannian, matObjOfClass, Matrix.dotProduct_mulVec, Matrix.smul_vecMul]

theorem src_DiagonalRiemannianMetricSystem_h_eq_model (E : Env R n c κ) (Mc : MetricClass R κ n) (F : MetricFns R κ n) (L : (κ → R) → Matrix n n R) (q p : n → R) :
    table.value (E.withRiemannian Mc F L) .DiagonalRiemannianMetricSystem .h q p = .sc ((riemannian E.half E.logabs E.negLogDens E.gradNegLogDens Mc F).h q p) := by
  src_eval; simp [riemannian, Env.withRiemannian, matObjOfClass, Matrix.dotProduct_mulVec, Matrix.smul_vecMul]

theorem src_DiagonalRiemannianMetricSystem_dh1_dpos_eq_model (E : Env R n c κ) (Mc : MetricClass R κ n) (F : MetricFns R κ n) (L : (κ → R) → Matrix n n R) (q p : n → R) :
    table.value (E.withRiemannian Mc F L) .DiagonalRiemannianMetricSystem .dh1_dpos q p = .vn ((riemannian E.half E.logabs E.negLogDens E.gradNegLogDens Mc F).dh1_dpos q p) := by
  src_eval; simp [riemannian, Env.withRiemannian, matObjOfClass, Matrix.dotProduct_mulVec, Matrix.smul_vecMul]

theorem src_DiagonalRiemannianMetricSystem_dh2_dpos_eq_model (E : Env R n c κ) (Mc : MetricClass R κ n) (F : MetricFns R κ n) (L : (κ → R) → Matrix n n R) (q p : n → R) :
    table.value (E.withRiemannian Mc F L) .DiagonalRiemannianMetricSystem .dh2_dpos q p = .vn ((riemannian E.half E.logabs E.negLogDens E.gradNegLogDens Mc F).dh2_dpos q p) := by
  src_eval; simp [riemannian, Env.withRiemannian, matObjOfClass, Matrix.dotProduct_mulVec, Matrix.smul_vecMul]

theorem src_DiagonalRiemannianMetricSystem_dh2_dmom_eq_model (E : Env R n c κ) (Mc : MetricClass R κ n) (F : MetricFns R κ n) (L : (κ → R) → Matrix n n R) (q p : n → R) :
    table.value (E.withRiemannian Mc F L) .DiagonalRiemannianMetricSystem .dh2_dmom q p = .vn ((riemannian E.half E.logabs E.negLogDens E.gradNegLogDens Mc F).dh2_dmom q p) := by
  src_eval; simp [riemannian, Env.withRiemannian, matObjOfClass, Matrix.dotProduct_mulVec, Matrix.smul_vecMul]

theorem src_DiagonalRiemannianMetricSystem_dh_dpos_eq_model (E : Env R n c κ) (Mc : MetricClass R κ n) (F : MetricFns R κ n) (L : (κ → R) → Matrix n n R) (q p : n → R) :
    table.value (E.withRiemannian Mc F L) .DiagonalRiemannianMetricSystem .dh_dpos q p = .vn ((riemannian E.half E.logabs E.negLogDens E.gradNegLogDens Mc F).dh_dpos q p) := by
  src_eval; simp [riemannian, Env.withRiemannian, matObjOfClass, Matrix.dotProduct_mulVec, Matrix.smul_vecMul]

theorem src_DiagonalRiemannianMetricSystem_dh_dmom_eq_model (E : Env R n c κ) (Mc : MetricClass R κ n) (F : MetricFns R κ n) (L : (κ → R) → Matrix n n R) (q p : n → R) :
    table.value (E.withRiemannian Mc F L) .DiagonalRiemannianMetricSystem .dh_dmom q p = .vn ((riemannian E.half E.logabs E.negLogDens E.gradNegLogDens Mc F).dh_dmom q p) := by
  src_eval; simp [riemannian, Env.withRiemannian, matObjOfClass, Matrix.dotProduct_mulVec, Matrix.smul_vecMul]

/-! #### CholeskyFactoredRiemannianMetricSystem -/

theorem src_CholeskyFactoredRiemannianMetricSystem_h1_eq_model (E : Env R n c κ) (Mc : MetricClass R κ n) (F : MetricFns R κ n) (L : (κ → R) → Matrix n n R) (q p : n → R) :
    table.value (E.withRiemannian Mc F L) .CholeskyFactoredRiemannianMetricSystem .h1 q p = .sc ((riemannian E.half E.logabs E.negLogDens E.gradNegLogDens Mc F).h1 q p) := by
  src_eval; simp [riemannian, Env.withRiemannian, matObjOfClass, Matrix.dotProduct_mulVec, Matrix.smul_vecMul]

theorem src_CholeskyFactoredRiemannianMetricSystem_h2_eq_model (E : Env R n c κ) (Mc : MetricClass R κ n) (F : MetricFns R κ n) (L : (κ → R) → Matrix n n R) (q p : n → R) :
    table.value (E.withRiemannian Mc F L) .CholeskyFactoredRiemannianMetricSystem .h2 q p = .sc ((riemannian E.half E.logabs E.negLogDens E.gradNegLogDens Mc F).h2 q p) := by
  src_eval; simp [riemannian, Env.withRiemannian, matObjOfClass, Matrix.dotProduct_mulVec, Matrix.smul_vecMul]

theorem src_CholeskyFactoredRiemannianMetricSystem_h_eq_model (E : Env R n c κ) (Mc : MetricClass R κ n) (F : MetricFns R κ n) (L : (κ → R) → Matrix n n R) (q p : n → R) :
    table.value (E.withRiemannian Mc F L) .CholeskyFactoredRiemannianMetricSystem .h q p = .sc ((riemannian E.half E.logabs E.negLogDens E.gradNegLogDens Mc F).h q p) := by
  src_eval; simp [riemannian, Env.withRiemannian, matObjOfClass, Matrix.dotProduct_mulVec, Matrix.smul_vecMul]

theorem src_CholeskyFactoredRiemannianMetricSystem_dh1_dpos_eq_model (E : Env R n c κ) (Mc : MetricClass R κ n) (F : MetricFns R κ n) (L : (κ → R) → Matrix n n R) (q p : n → R) :
    table.value (E.withRiemannian Mc F L) .CholeskyFactoredRiemannianMetricSystem .dh1_dpos q p = .vn ((riemannian E.half E.logabs E.negLogDens E.gradNegLogDens Mc F).dh1_dpos q p) := by
  src_eval; simp [riemannian, Env.withRiemannian, matObjOfClass, Matrix.dotProduct_mulVec, Matrix.smul_vecMul]

theorem src_CholeskyFactoredRiemannianMetricSystem_dh2_dpos_eq_model (E : Env R n c κ) (Mc : MetricClass R κ n) (F : MetricFns R κ n) (L : (κ → R) → Matrix n n R) (q p : n → R) :
    table.value (E.withRiemannian Mc F L) .CholeskyFactoredRiemannianMetricSystem .dh2_dpos q p = .vn ((riemannian E.half E.logabs E.negLogDens E.gradNegLogDens Mc F).dh2_dpos q p) := by
  src_eval; simp [riemannian, Env.withRiemannian, matObjOfClass, Matrix.dotProduct_mulVec, Matrix.smul_vecMul]

theorem src_CholeskyFactoredRiemannianMetricSystem_dh2_dmom_eq_model (E : Env R n c κ) (Mc : MetricClass R κ n) (F : MetricFns R κ n) (L : (κ → R) → Matrix n n R) (q p : n → R) :
    table.value (E.withRiemannian Mc F L) .CholeskyFactoredRiemannianMetricSystem .dh2_dmom q p = .vn ((riemannian E.half E.logabs E.negLogDens E.gradNegLogDens Mc F).dh2_dmom q p) := by
  src_eval; simp [riemannian, Env.withRiemannian, matObjOfClass, Matrix.dotProduct_mulVec, Matrix.smul_vecMul]

theorem src_CholeskyFactoredRiemannianMetricSystem_dh_dpos_eq_model (E : Env R n c κ) (Mc : MetricClass R κ n) (F : MetricFns R κ n) (L : (κ → R) → Matrix n n R) (q p : n → R) :
    table.value (E.withRiemannian Mc F L) .CholeskyFactoredRiemannianMetricSystem .dh_dpos q p = .vn ((riemannian E.half E.logabs E.negLogDens E.gradNegLogDens Mc F).dh_dpos q p) := by
  src_eval; simp [riemannian, Env.withRiemannian, matObjOfClass, Matrix.dotProduct_mulVec, Matrix.smul_vecMul]

theorem src_CholeskyFactoredRiemannianMetricSystem_dh_dmom_eq_model (E : Env R n c κ) (Mc : MetricClass R κ n) (F : MetricFns R κ n) (L : (κ → R) → Matrix n n R) (q p : n → R) :
    table.value (E.withRiemannian Mc F L) .CholeskyFactoredRiemannianMetricSystem .dh_dmom q p = .vn ((riemannian E.half E.logabs E.negLogDens E.gradNegLogDens Mc F).dh_dmom q p) := by
  src_eval; simp [riemannian, Env.withRiemannian, matObjOfClass, Matrix.dotProduct_mulVec, Matrix.smul_vecMul]

/-! #### DenseRiemannianMetricSystem -/

theorem src_DenseRiemannianMetricSystem_h1_eq_model (E : Env R n c κ) (Mc : MetricClass R κ n) (F : MetricFns R κ n) (L : (κ → R) → Matrix n n R) (q p : n → R) :
    table.value (E.withRiemannian Mc F L) .DenseRiemannianMetricSystem .h1 q p = .sc ((riemannian E.half E.logabs E.negLogDens E.gradNegLogDens Mc F).h1 q p) := by
  src_eval; simp [riemannian, Env.withRiemannian, matObjOfClass, Matrix.dotProduct_mulVec, Matrix.smul_vecMul]

theorem src_DenseRiemannianMetricSystem_h2_eq_model (E : Env R n c κ) (Mc : MetricClass R κ n) (F : MetricFns R κ n) (L : (κ → R) → Matrix n n R) (q p : n → R) :
    table.value (E.withRiemannian Mc F L) .DenseRiemannianMetricSystem .h2 q p = .sc ((riemannian E.half E.logabs E.negLogDens E.gradNegLogDens Mc F).h2 q p) := by
  src_eval; simp [riemannian, Env.withRiemannian, matObjOfClass, Matrix.dotProduct_mulVec, Matrix.smul_vecMul]

theorem src_DenseRiemannianMetricSystem_h_eq_model (E : Env R n c κ) (Mc : MetricClass R κ n) (F : MetricFns R κ n) (L : (κ → R) → Matrix n n R) (q p : n → R) :
    table.value (E.withRiemannian Mc F L) .DenseRiemannianMetricSystem .h q p = .sc ((riemannian E.half E.logabs E.negLogDens E.gradNegLogDens Mc F).h q p) := by
  src_eval; simp [riemannian, Env.withRiemannian, matObjOfClass, Matrix.dotProduct_mulVec, Matrix.smul_vecMul]

theorem src_DenseRiemannianMetricSystem_dh1_dpos_eq_model (E : Env R n c κ) (Mc : MetricClass R κ n) (F : MetricFns R κ n) (L : (κ → R) → Matrix n n R) (q p : n → R) :
    table.value (E.withRiemannian Mc F L) .DenseRiemannianMetricSystem .dh1_dpos q p = .vn ((riemannian E.half E.logabs E.negLogDens E.gradNegLogDens Mc F).dh1_dpos q p) := by
  src_eval; simp [riemannian, Env.withRiemannian, matObjOfClass, Matrix.dotProduct_mulVec, Matrix.smul_vecMul]

theorem src_DenseRiemannianMetricSystem_dh2_dpos_eq_model (E : Env R n c κ) (Mc : MetricClass R κ n) (F : MetricFns R κ n) (L : (κ → R) → Matrix n n R) (q p : n → R) :
    table.value (E.withRiemannian Mc F L) .DenseRiemannianMetricSystem .dh2_dpos q p = .vn ((riemannian E.half E.logabs E.negLogDens E.gradNegLogDens Mc F).dh2_dpos q p) := by
  src_eval; simp [riemannian, Env.withRiemannian, matObjOfClass, Matrix.dotProduct_mulVec, Matrix.smul_vecMul]

theorem src_DenseRiemannianMetricSystem_dh2_dmom_eq_model (E : Env R n c κ) (Mc : MetricClass R κ n) (F : MetricFns R κ n) (L : (κ → R) → Matrix n n R) (q p : n → R) :
    table.value (E.withRiemannian Mc F L) .DenseRiemannianMetricSystem .dh2_dmom q p = .vn ((riemannian E.half E.logabs E.negLogDens E.gradNegLogDens Mc F).dh2_dmom q p) := by
  src_eval; simp [riemannian, Env.withRiemannian, matObjOfClass, Matrix.dotProduct_mulVec, Matrix.smul_vecMul]

theorem src_DenseRiemannianMetricSystem_dh_dpos_eq_model (E : Env R n c κ) (Mc : MetricClass R κ n) (F : MetricFns R κ n) (L : (κ → R) → Matrix n n R) (q p : n → R) :
    table.value (E.withRiemannian Mc F L) .DenseRiemannianMetricSystem .dh_dpos q p = .vn ((riemannian E.half E.logabs E.negLogDens E.gradNegLogDens Mc F).dh_dpos q p) := by
  src_eval; simp [riemannian, Env.withRiemannian, matObjOfClass, Matrix.dotProduct_mulVec, Matrix.smul_vecMul]

theorem src_DenseRiemannianMetricSystem_dh_dmom_eq_model (E : Env R n c κ) (Mc : MetricClass R κ n) (F : MetricFns R κ n) (L : (κ → R) → Matrix n n R) (q p : n → R) :
    table.value (E.withRiemannian Mc F L) .DenseRiemannianMetricSystem .dh_dmom q p = .vn ((riemannian E.half E.logabs E.negLogDens E.gradNegLogDens Mc F).dh_dmom q p) := by
  src_eval; simp [riemannian, Env.withRiemannian, matObjOfClass, Matrix.dotProduct_mulVec, Matrix.smul_vecMul]

/-! #### SoftAbsRiemannianMetricSystem -/

theorem src_SoftAbsRiemannianMetricSystem_h1_eq_model (E : Env R n c κ) (Mc : MetricClass R κ n) (F : MetricFns R κ n) (L : (κ → R) → Matrix n n R) (q p : n → R) :
    table.value (E.withSoftAbs Mc F L) .SoftAbsRiemannianMetricSystem .h1 q p = .sc ((riemannian E.half E.logabs E.negLogDens E.gradNegLogDens Mc F).h1 q p) := by
  src_eval; simp [riemannian, Env.withSoftAbs, matObjOfClass, Matrix.dotProduct_mulVec, Matrix.smul_vecMul]

theorem src_SoftAbsRiemannianMetricSystem_h2_eq_model (E : Env R n c κ) (Mc : MetricClass R κ n) (F : MetricFns R κ n) (L : (κ → R) → Matrix n n R) (q p : n → R) :
    table.value (E.withSoftAbs Mc F L) .SoftAbsRiemannianMetricSystem .h2 q p = .sc ((riemannian E.half E.logabs E.negLogDens E.gradNegLogDens Mc F).h2 q p) := by
  src_eval; simp [riemannian, Env.withSoftAbs, matObjOfClass, Matrix.dotProduct_mulVec, Matrix.smul_vecMul]

theorem src_SoftAbsRiemannianMetricSystem_h_eq_model (E : Env R n c κ) (Mc : MetricClass R κ n) (F : MetricFns R κ n) (L : (κ → R) → Matrix n n R) (q p : n → R) :
    table.value (E.withSoftAbs Mc F L) .SoftAbsRiemannianMetricSystem .h q p = .sc ((riemannian E.half E.logabs E.negLogDens E.gradNegLogDens Mc F).h q p) := by
  src_eval; simp [riemannian, Env.withSoftAbs, matObjOfClass, Matrix.dotProduct_mulVec, Matrix.smul_vecMul]

theorem src_SoftAbsRiemannianMetricSystem_dh1_dpos_eq_model (E : Env R n c κ) (Mc : MetricClass R κ n) (F : MetricFns R κ n) (L : (κ → R) → Matrix n n R) (q p : n → R) :
    table.value (E.withSoftAbs Mc F L) .SoftAbsRiemannianMetricSystem .dh1_dpos q p = .vn ((riemannian E.half E.logabs E.negLogDens E.gradNegLogDens Mc F).dh1_dpos q p) := by
  src_eval; simp [riemannian, Env.withSoftAbs, matObjOfClass, Matrix.dotProduct_mulVec, Matrix.smul_vecMul]

theorem src_SoftAbsRiemannianMetricSystem_dh2_dpos_eq_model (E : Env R n c κ) (Mc : MetricClass R κ n) (F : MetricFns R κ n) (L : (κ → R) → Matrix n n R) (q p : n → R) :
    table.value (E.withSoftAbs Mc F L) .SoftAbsRiemannianMetricSystem .dh2_dpos q p = .vn ((riemannian E.half E.logabs E.negLogDens E.gradNegLogDens Mc F).dh2_dpos q p) := by
  src_eval; simp [riemannian, Env.withSoftAbs, matObjOfClass, Matrix.dotProduct_mulVec, Matrix.smul_vecMul]

theorem src_SoftAbsRiemannianMetricSystem_dh2_dmom_eq_model (E : Env R n c κ) (Mc : MetricClass R κ n) (F : MetricFns R κ n) (L : (κ → R) → Matrix n n R) (q p : n → R) :
    table.value (E.withSoftAbs Mc F L) .SoftAbsRiemannianMetricSystem .dh2_dmom q p = .vn ((riemannian E.half E.logabs E.negLogDens E.gradNegLogDens Mc F).dh2_dmom q p) := by
  src_eval; simp [riemannian, Env.withSoftAbs, matObjOfClass, Matrix.dotProduct_mulVec, Matrix.smul_vecMul]

theorem src_SoftAbsRiemannianMetricSystem_dh_dpos_eq_model (E : Env R n c κ) (Mc : MetricClass R κ n) (F : MetricFns R κ n) (L : (κ → R) → Matrix n n R) (q p : n → R) :
    table.value (E.withSoftAbs Mc F L) .SoftAbsRiemannianMetricSystem .dh_dpos q p = .vn ((riemannian E.half E.logabs E.negLogDens E.gradNegLogDens Mc F).dh_dpos q p) := by
  src_eval; simp [riemannian, Env.withSoftAbs, matObjOfClass, Matrix.dotProduct_mulVec, Matrix.smul_vecMul]

theorem src_SoftAbsRiemannianMetricSystem_dh_dmom_eq_model (E : Env R n c κ) (Mc : MetricClass R κ n) (F : MetricFns R κ n) (L : (κ → R) → Matrix n n R) (q p : n → R) :
    table.value (E.withSoftAbs Mc F L) .SoftAbsRiemannianMetricSystem .dh_dmom q p = .vn ((riemannian E.half E.logabs E.negLogDens E.gradNegLogDens Mc F).dh_dmom q p) := by
  src_eval; simp [riemannian, Env.withSoftAbs, matObjOfClass, Matrix.dotProduct_mulVec, Matrix.smul_vecMul]
/-! ### packaging -/

/-- the eight value / derivative methods of class `D` in environment `E` evaluate to the hand
model `m` -/
def SrcIs (E : Env R n c κ) (D : Cls) (m : Methods R n) : Prop :=
  ∀ q p,
    table.value E D .h1 q p = .sc (m.h1 q p) ∧
    table.value E D .h2 q p = .sc (m.h2 q p) ∧
    table.value E D .h q p = .sc (m.h q p) ∧
    table.value E D .dh1_dpos q p = .vn (m.dh1_dpos q p) ∧
    table.value E D .dh2_dpos q p = .vn (m.dh2_dpos q p) ∧
    table.value E D .dh2_dmom q p = .vn (m.dh2_dmom q p) ∧
    table.value E D .dh_dpos q p = .vn (m.dh_dpos q p) ∧
    table.value E D .dh_dmom q p = .vn (m.dh_dmom q p)

/-- the documented sum relations, stated for the values the source text computes -/
def SrcConsistent (E : Env R n c κ) (D : Cls) : Prop :=
  ∀ q p, ∃ (a b : R) (u v w : n → R),
    table.value E D .h1 q p = .sc a ∧ table.value E D .h2 q p = .sc b ∧
    table.value E D .h q p = .sc (a + b) ∧
    table.value E D .dh1_dpos q p = .vn u ∧ table.value E D .dh2_dpos q p = .vn v ∧
    table.value E D .dh_dpos q p = .vn (u + v) ∧
    table.value E D .dh2_dmom q p = .vn w ∧ table.value E D .dh_dmom q p = .vn w

theorem srcConsistent_of {E : Env R n c κ} {D : Cls} {m : Methods R n} (hs : SrcIs E D m)
    (hc : m.Consistent) : SrcConsistent E D := by
  intro q p
  obtain ⟨e1, e2, e3, e4, e5, e6, e7, e8⟩ := hs q p
  refine ⟨_, _, _, _, _, e1, e2, ?_, e4, e5, ?_, e6, ?_⟩
  · rw [e3, hc.1 q p]
  · rw [e7, hc.2.1 q p]
  · rw [e8, hc.2.2 q p]

theorem src_EuclideanMetricSystem_methods (E : Env R n c κ) :
    SrcIs E .EuclideanMetricSystem (euclidean E.half E.metric.inv E.negLogDens E.gradNegLogDens) :=
  fun q p => ⟨src_EuclideanMetricSystem_h1_eq_model E q p, src_EuclideanMetricSystem_h2_eq_model E q p, src_EuclideanMetricSystem_h_eq_model E q p, src_EuclideanMetricSystem_dh1_dpos_eq_model E q p, src_EuclideanMetricSystem_dh2_dpos_eq_model E q p, src_EuclideanMetricSystem_dh2_dmom_eq_model E q p, src_EuclideanMetricSystem_dh_dpos_eq_model E q p, src_EuclideanMetricSystem_dh_dmom_eq_model E q p⟩

theorem src_EuclideanMetricSystem_consistent (E : Env R n c κ) :
    SrcConsistent E .EuclideanMetricSystem :=
  srcConsistent_of (src_EuclideanMetricSystem_methods E ) (euclidean_consistent ..)

theorem src_GaussianEuclideanMetricSystem_methods (E : Env R n c κ) :
    SrcIs E .GaussianEuclideanMetricSystem (gaussianEuclidean E.half E.metric.inv E.negLogDens E.gradNegLogDens) :=
  fun q p => ⟨src_GaussianEuclideanMetricSystem_h1_eq_model E q p, src_GaussianEuclideanMetricSystem_h2_eq_model E q p, src_GaussianEuclideanMetricSystem_h_eq_model E q p, src_GaussianEuclideanMetricSystem_dh1_dpos_eq_model E q p, src_GaussianEuclideanMetricSystem_dh2_dpos_eq_model E q p, src_GaussianEuclideanMetricSystem_dh2_dmom_eq_model E q p, src_GaussianEuclideanMetricSystem_dh_dpos_eq_model E q p, src_GaussianEuclideanMetricSystem_dh_dmom_eq_model E q p⟩

theorem src_GaussianEuclideanMetricSystem_consistent (E : Env R n c κ) :
    SrcConsistent E .GaussianEuclideanMetricSystem :=
  srcConsistent_of (src_GaussianEuclideanMetricSystem_methods E ) (gaussianEuclidean_consistent ..)

theorem src_DenseConstrainedEuclideanMetricSystem_methods (E : Env R n c κ) (b : Bool) :
    SrcIs (E.withFlag b) .DenseConstrainedEuclideanMetricSystem (denseConstrained b E.half E.logabs E.metric.inv E.negLogDens E.gradNegLogDens E.consFns) :=
  fun q p => ⟨src_DenseConstrainedEuclideanMetricSystem_h1_eq_model E b q p, src_DenseConstrainedEuclideanMetricSystem_h2_eq_model E b q p, src_DenseConstrainedEuclideanMetricSystem_h_eq_model E b q p, src_DenseConstrainedEuclideanMetricSystem_dh1_dpos_eq_model E b q p, src_DenseConstrainedEuclideanMetricSystem_dh2_dpos_eq_model E b q p, src_DenseConstrainedEuclideanMetricSystem_dh2_dmom_eq_model E b q p, src_DenseConstrainedEuclideanMetricSystem_dh_dpos_eq_model E b q p, src_DenseConstrainedEuclideanMetricSystem_dh_dmom_eq_model E b q p⟩

theorem src_DenseConstrainedEuclideanMetricSystem_consistent (E : Env R n c κ) (b : Bool) :
    SrcConsistent (E.withFlag b) .DenseConstrainedEuclideanMetricSystem :=
  srcConsistent_of (src_DenseConstrainedEuclideanMetricSystem_methods E b ) (denseConstrained_consistent ..)

theorem src_GaussianDenseConstrainedEuclideanMetricSystem_methods (E : Env R n c κ) :
    SrcIs (E.withFlag false) .GaussianDenseConstrainedEuclideanMetricSystem (gaussianDenseConstrained E.half E.logabs E.metric.inv E.negLogDens E.gradNegLogDens E.consFns) :=
  fun q p => ⟨src_GaussianDenseConstrainedEuclideanMetricSystem_h1_eq_model E q p, src_GaussianDenseConstrainedEuclideanMetricSystem_h2_eq_model E q p, src_GaussianDenseConstrainedEuclideanMetricSystem_h_eq_model E q p, src_GaussianDenseConstrainedEuclideanMetricSystem_dh1_dpos_eq_model E q p, src_GaussianDenseConstrainedEuclideanMetricSystem_dh2_dpos_eq_model E q p, src_GaussianDenseConstrainedEuclideanMetricSystem_dh2_dmom_eq_model E q p, src_GaussianDenseConstrainedEuclideanMetricSystem_dh_dpos_eq_model E q p, src_GaussianDenseConstrainedEuclideanMetricSystem_dh_dmom_eq_model E q p⟩

theorem src_GaussianDenseConstrainedEuclideanMetricSystem_consistent (E : Env R n c κ) :
    SrcConsistent (E.withFlag false) .GaussianDenseConstrainedEuclideanMetricSystem :=
  srcConsistent_of (src_GaussianDenseConstrainedEuclideanMetricSystem_methods E ) (gaussianDenseConstrained_consistent ..)

theorem src_RiemannianMetricSystem_methods (E : Env R n c κ) (Mc : MetricClass R κ n) (F : MetricFns R κ n) (L : (κ → R) → Matrix n n R) :
    SrcIs (E.withRiemannian Mc F L) .RiemannianMetricSystem (riemannian E.half E.logabs E.negLogDens E.gradNegLogDens Mc F) :=
  fun q p => ⟨src_RiemannianMetricSystem_h1_eq_model E Mc F L q p, src_RiemannianMetricSystem_h2_eq_model E Mc F L q p, src_RiemannianMetricSystem_h_eq_model E Mc F L q p, src_RiemannianMetricSystem_dh1_dpos_eq_model E Mc F L q p, src_RiemannianMetricSystem_dh2_dpos_eq_model E Mc F L q p, src_RiemannianMetricSystem_dh2_dmom_eq_model E Mc F L q p, src_RiemannianMetricSystem_dh_dpos_eq_model E Mc F L q p, src_RiemannianMetricSystem_dh_dmom_eq_model E Mc F L q p⟩

theorem src_RiemannianMetricSystem_consistent (E : Env R n c κ) (Mc : MetricClass R κ n) (F : MetricFns R κ n) (L : (κ → R) → Matrix n n R) :
    SrcConsistent (E.withRiemannian Mc F L) .RiemannianMetricSystem :=
  srcConsistent_of (src_RiemannianMetricSystem_methods E Mc F L ) (riemannian_consistent ..)

theorem src_ScalarRiemannianMetricSystem_methods (E : Env R n c κ) (Mc : MetricClass R κ n) (F : MetricFns R κ n) (L : (κ → R) → Matrix n n R) :
    SrcIs (E.withRiemannian Mc F L) .ScalarRiemannianMetricSystem (riemannian E.half E.logabs E.negLogDens E.gradNegLogDens Mc F) :=
  fun q p => ⟨src_ScalarRiemannianMetricSystem_h1_eq_model E Mc F L q p, src_ScalarRiemannianMetricSystem_h2_eq_model E Mc F L q p, src_ScalarRiemannianMetricSystem_h_eq_model E Mc F L q p, src_ScalarRiemannianMetricSystem_dh1_dpos_eq_model E Mc F L q p, src_ScalarRiemannianMetricSystem_dh2_dpos_eq_model E Mc F L q p, src_ScalarRiemannianMetricSystem_dh2_dmom_eq_model E Mc F L q p, src_ScalarRiemannianMetricSystem_dh_dpos_eq_model E Mc F L q p, src_ScalarRiemannianMetricSystem_dh_dmom_eq_model E Mc F L q p⟩

theorem src_ScalarRiemannianMetricSystem_consistent (E : Env R n c κ) (Mc : MetricClass R κ n) (F : MetricFns R κ n) (L : (κ → R) → Matrix n n R) :
    SrcConsistent (E.withRiemannian Mc F L) .ScalarRiemannianMetricSystem :=
  srcConsistent_of (src_ScalarRiemannianMetricSystem_methods E Mc F L ) (riemannian_consistent ..)

theorem src_DiagonalRiemannianMetricSystem_methods (E : Env R n c κ) (Mc : MetricClass R κ n) (F : MetricFns R κ n) (L : (κ → R) → Matrix n n R) :
    SrcIs (E.withRiemannian Mc F L) .DiagonalRiemannianMetricSystem (riemannian E.half E.logabs E.negLogDens E.gradNegLogDens Mc F) :=
  fun q p => ⟨src_DiagonalRiemannianMetricSystem_h1_eq_model E Mc F L q p, src_DiagonalRiemannianMetricSystem_h2_eq_model E Mc F L q p, src_DiagonalRiemannianMetricSystem_h_eq_model E Mc F L q p, src_DiagonalRiemannianMetricSystem_dh1_dpos_eq_model E Mc F L q p, src_DiagonalRiemannianMetricSystem_dh2_dpos_eq_model E Mc F L q p, src_DiagonalRiemannianMetricSystem_dh2_dmom_eq_model E Mc F L q p, src_DiagonalRiemannianMetricSystem_dh_dpos_eq_model E Mc F L q p, src_DiagonalRiemannianMetricSystem_dh_dmom_eq_model E Mc F L q p⟩

theorem src_DiagonalRiemannianMetricSystem_consistent (E : Env R n c κ) (Mc : MetricClass R κ n) (F : MetricFns R κ n) (L : (κ → R) → Matrix n n R) :
    SrcConsistent (E.withRiemannian Mc F L) .DiagonalRiemannianMetricSystem :=
  srcConsistent_of (src_DiagonalRiemannianMetricSystem_methods E Mc F L ) (riemannian_consistent ..)

theorem src_CholeskyFactoredRiemannianMetricSystem_methods (E : Env R n c κ) (Mc : MetricClass R κ n) (F : MetricFns R κ n) (L : (κ → R) → Matrix n n R) :
    SrcIs (E.withRiemannian Mc F L) .CholeskyFactoredRiemannianMetricSystem (riemannian E.half E.logabs E.negLogDens E.gradNegLogDens Mc F) :=
  fun q p => ⟨src_CholeskyFactoredRiemannianMetricSystem_h1_eq_model E Mc F L q p, src_CholeskyFactoredRiemannianMetricSystem_h2_eq_model E Mc F L q p, src_CholeskyFactoredRiemannianMetricSystem_h_eq_model E Mc F L q p, src_CholeskyFactoredRiemannianMetricSystem_dh1_dpos_eq_model E Mc F L q p, src_CholeskyFactoredRiemannianMetricSystem_dh2_dpos_eq_model E Mc F L q p, src_CholeskyFactoredRiemannianMetricSystem_dh2_dmom_eq_model E Mc F L q p, src_CholeskyFactoredRiemannianMetricSystem_dh_dpos_eq_model E Mc F L q p, src_CholeskyFactoredRiemannianMetricSystem_dh_dmom_eq_model E Mc F L q p⟩

theorem src_CholeskyFactoredRiemannianMetricSystem_consistent (E : Env R n c κ) (Mc : MetricClass R κ n) (F : MetricFns R κ n) (L : (κ → R) → Matrix n n R) :
    SrcConsistent (E.withRiemannian Mc F L) .CholeskyFactoredRiemannianMetricSystem :=
  srcConsistent_of (src_CholeskyFactoredRiemannianMetricSystem_methods E Mc F L ) (riemannian_consistent ..)

theorem src_DenseRiemannianMetricSystem_methods (E : Env R n c κ) (Mc : MetricClass R κ n) (F : MetricFns R κ n) (L : (κ → R) → Matrix n n R) :
    SrcIs (E.withRiemannian Mc F L) .DenseRiemannianMetricSystem (riemannian E.half E.logabs E.negLogDens E.gradNegLogDens Mc F) :=
  fun q p => ⟨src_DenseRiemannianMetricSystem_h1_eq_model E Mc F L q p, src_DenseRiemannianMetricSystem_h2_eq_model E Mc F L q p, src_DenseRiemannianMetricSystem_h_eq_model E Mc F L q p, src_DenseRiemannianMetricSystem_dh1_dpos_eq_model E Mc F L q p, src_DenseRiemannianMetricSystem_dh2_dpos_eq_model E Mc F L q p, src_DenseRiemannianMetricSystem_dh2_dmom_eq_model E Mc F L q p, src_DenseRiemannianMetricSystem_dh_dpos_eq_model E Mc F L q p, src_DenseRiemannianMetricSystem_dh_dmom_eq_model E Mc F L q p⟩

theorem src_DenseRiemannianMetricSystem_consistent (E : Env R n c κ) (Mc : MetricClass R κ n) (F : MetricFns R κ n) (L : (κ → R) → Matrix n n R) :
    SrcConsistent (E.withRiemannian Mc F L) .DenseRiemannianMetricSystem :=
  srcConsistent_of (src_DenseRiemannianMetricSystem_methods E Mc F L ) (riemannian_consistent ..)

theorem src_SoftAbsRiemannianMetricSystem_methods (E : Env R n c κ) (Mc : MetricClass R κ n) (F : MetricFns R κ n) (L : (κ → R) → Matrix n n R) :
    SrcIs (E.withSoftAbs Mc F L) .SoftAbsRiemannianMetricSystem (riemannian E.half E.logabs E.negLogDens E.gradNegLogDens Mc F) :=
  fun q p => ⟨src_SoftAbsRiemannianMetricSystem_h1_eq_model E Mc F L q p, src_SoftAbsRiemannianMetricSystem_h2_eq_model E Mc F L q p, src_SoftAbsRiemannianMetricSystem_h_eq_model E Mc F L q p, src_SoftAbsRiemannianMetricSystem_dh1_dpos_eq_model E Mc F L q p, src_SoftAbsRiemannianMetricSystem_dh2_dpos_eq_model E Mc F L q p, src_SoftAbsRiemannianMetricSystem_dh2_dmom_eq_model E Mc F L q p, src_SoftAbsRiemannianMetricSystem_dh_dpos_eq_model E Mc F L q p, src_SoftAbsRiemannianMetricSystem_dh_dmom_eq_model E Mc F L q p⟩

theorem src_SoftAbsRiemannianMetricSystem_consistent (E : Env R n c κ) (Mc : MetricClass R κ n) (F : MetricFns R κ n) (L : (κ → R) → Matrix n n R) :
    SrcConsistent (E.withSoftAbs Mc F L) .SoftAbsRiemannianMetricSystem :=
  srcConsistent_of (src_SoftAbsRiemannianMetricSystem_methods E Mc F L ) (riemannian_consistent ..)

end EqModel

/-! ### the derivative methods of the source are the derivatives of its value methods -/

section Derivative
variable {K : Type*} [CommRing K] {n c κ : Type*} [Fintype n] [Fintype c] [Fintype κ]
  [DecidableEq n] [DecidableEq c]

/-- Evaluating the value methods of the source over the dual numbers at `(q + εv, p + εw)` gives
the values the source computes over `K`, with ε-coefficients given by the values of the source's
derivative methods. -/
def SrcDerivative (ED : Env K[ε] n c κ) (E : Env K n c κ) (D : Cls) : Prop :=
  ∀ q v p w, ∃ (a₁ a₂ a : K) (g₁ g₂ gm gq gp : n → K),
    table.value E D .h1 q p = .sc a₁ ∧ table.value E D .dh1_dpos q p = .vn g₁ ∧
    table.value E D .h2 q p = .sc a₂ ∧ table.value E D .dh2_dpos q p = .vn g₂ ∧
    table.value E D .dh2_dmom q p = .vn gm ∧
    table.value E D .h q p = .sc a ∧ table.value E D .dh_dpos q p = .vn gq ∧
    table.value E D .dh_dmom q p = .vn gp ∧
    table.value ED D .h1 (dvec q v) (dvec p w) = .sc (dnum a₁ (g₁ ⬝ᵥ v)) ∧
    table.value ED D .h2 (dvec q v) (dvec p w) = .sc (dnum a₂ (g₂ ⬝ᵥ v + gm ⬝ᵥ w)) ∧
    table.value ED D .h (dvec q v) (dvec p w) = .sc (dnum a (gq ⬝ᵥ v + gp ⬝ᵥ w))

theorem srcDerivative_of {ED : Env K[ε] n c κ} {E : Env K n c κ} {D : Cls} {mD : Methods K[ε] n}
    {m : Methods K n} (hD : SrcIs ED D mD) (hs : SrcIs E D m) (hd : IsDerivative mD m) :
    SrcDerivative ED E D := by
  intro q v p w
  obtain ⟨e1, e2, e3, e4, e5, e6, e7, e8⟩ := hs q p
  obtain ⟨d1, d2, d3, -⟩ := hD (dvec q v) (dvec p w)
  obtain ⟨k1, k2, k3⟩ := hd q v p w
  exact ⟨_, _, _, _, _, _, _, _, e1, e4, e2, e5, e6, e3, e7, e8, by rw [d1, k1], by rw [d2, k2],
    by rw [d3, k3]⟩

/-- **EuclideanMetricSystem, as written in the source.** -/
theorem src_EuclideanMetricSystem_derivative (E : Env K n c κ) (ED : Env K[ε] n c κ)
    (hhalf : 2 * E.half = 1) (hN : E.metric.invᵀ = E.metric.inv)
    (hh : ED.half = inl E.half) (hm : ED.metric.inv = cmat E.metric.inv)
    (hEll : HasGrad ED.negLogDens E.negLogDens E.gradNegLogDens) :
    SrcDerivative ED E .EuclideanMetricSystem :=
  srcDerivative_of (src_EuclideanMetricSystem_methods ED) (src_EuclideanMetricSystem_methods E)
    (by rw [hh, hm]; exact euclidean_derivative _ hhalf _ hN _ _ _ _ hEll)

/-- **GaussianEuclideanMetricSystem, as written in the source** (`dh_dpos` includes the `q` term). -/
theorem src_GaussianEuclideanMetricSystem_derivative (E : Env K n c κ) (ED : Env K[ε] n c κ)
    (hhalf : 2 * E.half = 1) (hN : E.metric.invᵀ = E.metric.inv)
    (hh : ED.half = inl E.half) (hm : ED.metric.inv = cmat E.metric.inv)
    (hEll : HasGrad ED.negLogDens E.negLogDens E.gradNegLogDens) :
    SrcDerivative ED E .GaussianEuclideanMetricSystem :=
  srcDerivative_of (src_GaussianEuclideanMetricSystem_methods ED)
    (src_GaussianEuclideanMetricSystem_methods E)
    (by rw [hh, hm]; exact gaussianEuclidean_derivative _ hhalf _ hN _ _ _ _ hEll)

/-- **DenseConstrainedEuclideanMetricSystem, as written in the source**, both density conventions
(`gram`, `inv_gram`, `log_det_sqrt_gram`, `grad_log_det_sqrt_gram`, `jacob_constr_inner_product`
are all inside the evaluated text). -/
theorem src_DenseConstrainedEuclideanMetricSystem_derivative (E : Env K n c κ)
    (ED : Env K[ε] n c κ) (b : Bool)
    (hhalf : 2 * E.half = 1) (hN : E.metric.invᵀ = E.metric.inv)
    (hh : ED.half = inl E.half) (hm : ED.metric.inv = cmat E.metric.inv)
    (hlog : LogDeriv ED.logabs E.logabs)
    (hEll : HasGrad ED.negLogDens E.negLogDens E.gradNegLogDens)
    (dJ : (n → K) → (n → K) → Matrix c n K)
    (hJ : ∀ q v, ED.jacobConstr (dvec q v) = dmat (E.jacobConstr q) (dJ q v))
    (hmhp : ∀ q v m, E.mhpConstr q m ⬝ᵥ v = trace (m * (dJ q v)ᵀ))
    (hG : ∀ q, gram (E.jacobConstr q) E.metric.inv *
      E.invCC (gram (E.jacobConstr q) E.metric.inv) = 1) :
    SrcDerivative (ED.withFlag b) (E.withFlag b) .DenseConstrainedEuclideanMetricSystem :=
  srcDerivative_of (src_DenseConstrainedEuclideanMetricSystem_methods ED b)
    (src_DenseConstrainedEuclideanMetricSystem_methods E b)
    (by
      rw [hh, hm]
      exact denseConstrained_derivative b _ hhalf _ _ hlog _ hN _ _ _ _ hEll E.consFns ED.consFns dJ
        hJ hmhp hG)

/-- **GaussianDenseConstrainedEuclideanMetricSystem, as written in the source.** -/
theorem src_GaussianDenseConstrainedEuclideanMetricSystem_derivative (E : Env K n c κ)
    (ED : Env K[ε] n c κ)
    (hhalf : 2 * E.half = 1) (hN : E.metric.invᵀ = E.metric.inv)
    (hh : ED.half = inl E.half) (hm : ED.metric.inv = cmat E.metric.inv)
    (hlog : LogDeriv ED.logabs E.logabs)
    (hEll : HasGrad ED.negLogDens E.negLogDens E.gradNegLogDens)
    (dJ : (n → K) → (n → K) → Matrix c n K)
    (hJ : ∀ q v, ED.jacobConstr (dvec q v) = dmat (E.jacobConstr q) (dJ q v))
    (hmhp : ∀ q v m, E.mhpConstr q m ⬝ᵥ v = trace (m * (dJ q v)ᵀ))
    (hG : ∀ q, gram (E.jacobConstr q) E.metric.inv *
      E.invCC (gram (E.jacobConstr q) E.metric.inv) = 1) :
    SrcDerivative (ED.withFlag false) (E.withFlag false)
      .GaussianDenseConstrainedEuclideanMetricSystem :=
  srcDerivative_of (src_GaussianDenseConstrainedEuclideanMetricSystem_methods ED)
    (src_GaussianDenseConstrainedEuclideanMetricSystem_methods E)
    (by
      rw [hh, hm]
      exact gaussianDenseConstrained_derivative _ hhalf _ _ hlog _ hN _ _ _ _ hEll E.consFns
        ED.consFns dJ hJ hmhp hG)

/-- **RiemannianMetricSystem, as written in the source** (generic chain rule through the metric
class; with `denseClass_/diagClass_/scalarClass_/cholClass_differential` of `Props/C05.lean` this
covers the Dense/Diagonal/Scalar/CholeskyFactored subclasses, which inherit every method —
`src_<Subclass>_methods` — and only fix the metric matrix class, `src_init_constants`). -/
theorem src_RiemannianMetricSystem_derivative (E : Env K n c κ) (ED : Env K[ε] n c κ)
    (hhalf : 2 * E.half = 1) (hh : ED.half = inl E.half) (hlog : LogDeriv ED.logabs E.logabs)
    (hEll : HasGrad ED.negLogDens E.negLogDens E.gradNegLogDens)
    (Mc : MetricClass K κ n) (McD : MetricClass K[ε] κ n) (dM : (κ → K) → (κ → K) → Matrix n n K)
    (Pθ Pδ : (κ → K) → Prop) (hcls : ClassDifferential Mc McD dM Pθ Pδ)
    (F : MetricFns K κ n) (FD : MetricFns K[ε] κ n)
    (L : (κ → K) → Matrix n n K) (LD : (κ → K[ε]) → Matrix n n K[ε])
    (hPθ : ∀ q, Pθ (F.θ q)) (hPδ : ∀ q v, Pδ (fun k => F.jac q k ⬝ᵥ v))
    (hθ : ∀ q v, FD.θ (dvec q v) = fun k => dnum (F.θ q k) (F.jac q k ⬝ᵥ v))
    (hsym : ∀ q, (Mc.metric (F.θ q))ᵀ = Mc.metric (F.θ q))
    (hinv : ∀ q, Mc.metric (F.θ q) * Mc.inv (F.θ q) = 1)
    (hinvD : ∀ q v, McD.metric (FD.θ (dvec q v)) * McD.inv (FD.θ (dvec q v)) = 1)
    (D : Cls) (hD : D = .RiemannianMetricSystem ∨ D = .ScalarRiemannianMetricSystem ∨
      D = .DiagonalRiemannianMetricSystem ∨ D = .CholeskyFactoredRiemannianMetricSystem ∨
      D = .DenseRiemannianMetricSystem) :
    SrcDerivative (ED.withRiemannian McD FD LD) (E.withRiemannian Mc F L) D := by
  have hd := riemannian_derivative E.half hhalf ED.logabs E.logabs hlog E.negLogDens
    E.gradNegLogDens ED.negLogDens ED.gradNegLogDens hEll Mc McD dM Pθ Pδ hcls F FD hPθ hPδ hθ hsym
    hinv hinvD
  rw [← hh] at hd
  rcases hD with h | h | h | h | h <;> subst h
  · exact srcDerivative_of (src_RiemannianMetricSystem_methods ED McD FD LD)
      (src_RiemannianMetricSystem_methods E Mc F L) hd
  · exact srcDerivative_of (src_ScalarRiemannianMetricSystem_methods ED McD FD LD)
      (src_ScalarRiemannianMetricSystem_methods E Mc F L) hd
  · exact srcDerivative_of (src_DiagonalRiemannianMetricSystem_methods ED McD FD LD)
      (src_DiagonalRiemannianMetricSystem_methods E Mc F L) hd
  · exact srcDerivative_of (src_CholeskyFactoredRiemannianMetricSystem_methods ED McD FD LD)
      (src_CholeskyFactoredRiemannianMetricSystem_methods E Mc F L) hd
  · exact srcDerivative_of (src_DenseRiemannianMetricSystem_methods ED McD FD LD)
      (src_DenseRiemannianMetricSystem_methods E Mc F L) hd

end Derivative

/-! ### constants fixed by the subclasses' `__init__` -/

/-- `GaussianDenseConstrainedEuclideanMetricSystem.__init__` passes `dens_wrt_hausdorff=False`
(the hand model and `src_GaussianDense…` use `withFlag false`), the constrained base class leaves
the flag to the caller, and the Riemannian subclasses pass the metric matrix classes that
`scalarClass`, `diagClass`, `cholClass`, `denseClass` of `Model/Systems.lean` describe. -/
theorem src_init_constants :
    fixedDensWrtHausdorff .GaussianDenseConstrainedEuclideanMetricSystem = some false ∧
    fixedDensWrtHausdorff .DenseConstrainedEuclideanMetricSystem = none ∧
    metricMatrixClass .ScalarRiemannianMetricSystem = some "PositiveScaledIdentityMatrix" ∧
    metricMatrixClass .DiagonalRiemannianMetricSystem = some "PositiveDiagonalMatrix" ∧
    metricMatrixClass .CholeskyFactoredRiemannianMetricSystem
      = some "TriangularFactoredPositiveDefiniteMatrix" ∧
    metricMatrixClass .DenseRiemannianMetricSystem = some "DensePositiveDefiniteMatrix" ∧
    metricMatrixClass .SoftAbsRiemannianMetricSystem
      = some "SoftAbsRegularizedPositiveDefiniteMatrix" := by
  decide

/-- every class the theorems of this file speak about is present in the source (shapes the
translator cannot represent are not listed here: they evaluate to `err` and break the
`…_eq_model` theorem of exactly the methods that contain or call them) -/
theorem src_classes_present : missingClasses = [] := by
  decide

/-! ### non-vacuity: a concrete environment over ℚ, evaluated -/

section Examples

private def exObj : MatObj ℚ (Fin 2) Unit where
  inv := !![2, 1; 1, 3]
  sqrt := 1
  eigvec := 1
  eigval := fun _ => 1
  logAbsDet := 0
  gradLogAbsDet := fun _ => 0
  gradQuadFormInv := fun _ _ => 0

private def exEnv : Env ℚ (Fin 2) (Fin 1) Unit where
  half := 1 / 2
  recip := fun x => x⁻¹
  sqrt := id
  sin := fun _ => 0
  cos := fun _ => 1
  logabs := fun _ => 0
  metric := exObj
  metricClass := fun _ => exObj
  invCC := fun _ => !![1 / 7]
  densWrtHausdorff := true
  negLogDens := fun q => q 0 * q 0 * q 1
  gradNegLogDens := fun q => ![2 * q 0 * q 1, q 0 * q 0]
  constr := fun q _ => q 0 + q 1
  jacobConstr := fun _ => !![1, 1]
  mhpConstr := fun _ _ => 0
  metricFunc := fun _ _ => 1
  vjpMetricFunc := fun _ _ => 0
  hessNegLogDens := fun _ _ => 1
  mtpNegLogDens := fun _ _ => 0
  z := ![1, 0]

/-- the source's Gaussian-split Hamiltonian on a concrete state: `q₀²q₁ + ½|q|² + ½ pᵀNp` -/
example :
    table.value exEnv .GaussianEuclideanMetricSystem .h ![1, 2] ![1, 1]
      = .sc (2 + 5 / 2 + 7 / 2) := by
  rw [src_GaussianEuclideanMetricSystem_h_eq_model]
  simp [gaussianEuclidean, exEnv, exObj, Matrix.mulVec, dotProduct, Fin.sum_univ_two]
  norm_num

/-- hypotheses of the derivative corollaries are satisfiable (symmetric `N`, `0.5`) -/
example : 2 * exEnv.half = 1 ∧ exEnv.metric.invᵀ = exEnv.metric.inv := by
  refine ⟨by norm_num [exEnv], ?_⟩
  ext i j; fin_cases i <;> fin_cases j <;> rfl

end Examples

end MiciVerif.C05
