/-
C07 — Component flow maps are the exact flows of their Hamiltonian components.

Property theorems only.  For every field `K`, every dimension, every time (positive, negative,
longer than a period — times are arbitrary elements of `K`), every gradient function `g`, every
metric-inverse `N`, every orthogonal eigenvector matrix `Q` and non-zero frequencies `ω`.
`cos`/`sin` enter as data `trig : K → Trig n K` with the algebraic facts about them as hypotheses
(`cos² + sin² = 1`, angle addition, parity) — they hold for the real functions.
-/
import MiciVerif.Model.Integrators
import MiciVerif.Lemmas.IntegratorsFlows
import Mathlib.Algebra.Field.Rat
import Mathlib.Tactic.NormNum
import Mathlib.Tactic.Positivity
import Mathlib.Algebra.Module.Prod

namespace MiciVerif.C07
open MiciVerif.Integrators Matrix

variable {K : Type*} [Field K]

section Abstract
variable {V : Type*} [AddCommGroup V] [Module K V]

/-! ### `h1_flow` -/

/-- `h1_flow` leaves the position unchanged … -/
theorem kick_pos (g : V → V) (t : K) (x : V × V) : (kick g t x).1 = x.1 := rfl

/-- … and shifts the momentum by `-t · ∇h₁(q)`. -/
theorem kick_mom (g : V → V) (t : K) (x : V × V) : (kick g t x).2 = x.2 - t • g x.1 := rfl

/-- Any function of the position only (in particular `h₁`) is conserved. -/
theorem kick_h1_conserved {α : Type*} (h1 : V → α) (g : V → V) (t : K) (x : V × V) :
    h1 (kick g t x).1 = h1 x.1 := rfl

theorem kick_add (g : V → V) (s t : K) (x : V × V) : kick g (s + t) x = kick g s (kick g t x) := by
  simp only [kick, add_smul]; congr 1; abel

theorem kick_zero (g : V → V) (x : V × V) : kick g (0 : K) x = x := by simp [kick]

theorem kick_neg (g : V → V) (t : K) (x : V × V) : kick g (-t) (kick g t x) = x := by simp [kick]

/-- The momentum moves with constant velocity `-∇h₁(q)`, the position with velocity `0 = ∂h₁/∂p`:
from any point of the orbit the flow is affine in time with exactly the Hamiltonian vector field
of `h₁` as slope. -/
theorem kick_hamilton (g : V → V) (s t : K) (x : V × V) :
    (kick g (s + t) x).1 = (kick g s x).1 ∧
      (kick g (s + t) x).2 = (kick g s x).2 - t • g (kick g s x).1 := by
  simp only [kick, add_smul, true_and]; abel

/-! ### Euclidean `h2_flow` -/

theorem drift_add (N : V → V) (s t : K) (x : V × V) : drift N (s + t) x = drift N s (drift N t x) := by
  simp only [drift, add_smul]; congr 1; abel

theorem drift_zero (N : V → V) (x : V × V) : drift N (0 : K) x = x := by simp [drift]

theorem drift_neg (N : V → V) (t : K) (x : V × V) : drift N (-t) (drift N t x) = x := by simp [drift]

/-- Any function of the momentum only (in particular `h₂ = p·M⁻¹p/2`) is conserved. -/
theorem drift_h2_conserved {α : Type*} (h2 : V → α) (N : V → V) (t : K) (x : V × V) :
    h2 (drift N t x).2 = h2 x.2 := rfl

/-- Hamilton's equations of `h₂(p) = p·M⁻¹p/2`: `q̇ = M⁻¹p`, `ṗ = 0`. From any point of the orbit
the flow is affine in time with slope `(N p, 0)` evaluated at that point. -/
theorem drift_hamilton (N : V → V) (s t : K) (x : V × V) :
    (drift N (s + t) x).1 = (drift N s x).1 + t • N (drift N s x).2 ∧
      (drift N (s + t) x).2 = (drift N s x).2 := by
  simp only [drift, add_smul, and_true]; abel

/-- `dh2_flow_dmom(dt) = (dt · M⁻¹, I)` are the true Jacobian blocks: the flow is affine in the
momentum, the increment for a momentum perturbation `δ` is exactly `(dt M⁻¹ δ, δ)`. -/
theorem drift_dmom (N : V → V) (hN : ∀ a b, N (a + b) = N a + N b) (t : K) (q p δ : V) :
    drift N t (q, p + δ) = drift N t (q, p) + driftDmom N t δ := by
  simp only [drift, driftDmom, hN, smul_add, Prod.mk_add_mk, add_assoc]

end Abstract

/-! ### Gaussian-split `h2_flow` -/

section Gaussian
variable {n : Nat} (Q : Matrix (Fin n) (Fin n) K) (ω : Fin n → K) (trig : K → Trig n K)

/-- Group law `flow(s + t) = flow(s) ∘ flow(t)` — given the angle-addition formulas. -/
theorem harmonic_add (hQ : Qᵀ * Q = 1) (hω : ∀ i, ω i ≠ 0)
    (hadd : ∀ s t, trig (s + t) = (trig s).comp (trig t)) (s t : K)
    (x : (Fin n → K) × (Fin n → K)) :
    harmonic Q ω trig (s + t) x = harmonic Q ω trig s (harmonic Q ω trig t x) := by
  rw [harmonic_eq_with, harmonic_eq_with, harmonic_eq_with, harmonicWith_comp Q ω hQ hω,
    add_comm s t, hadd]

theorem harmonic_zero (hQ : Qᵀ * Q = 1) (h0 : trig 0 = Trig.one) (x : (Fin n → K) × (Fin n → K)) :
    harmonic Q ω trig 0 x = x := by
  rw [harmonic_eq_with, h0, harmonicWith_one Q ω hQ]

/-- The negative time undoes the flow — given `cos² + sin² = 1` and the parities of `cos`, `sin`. -/
theorem harmonic_neg (hQ : Qᵀ * Q = 1) (hω : ∀ i, ω i ≠ 0) (hunit : ∀ t, (trig t).IsUnit)
    (hneg : ∀ t, trig (-t) = (trig t).inv) (t : K) (x : (Fin n → K) × (Fin n → K)) :
    harmonic Q ω trig (-t) (harmonic Q ω trig t x) = x := by
  rw [harmonic_eq_with, harmonic_eq_with, harmonicWith_comp Q ω hQ hω, hneg,
    Trig.comp_inv _ (hunit t), harmonicWith_one Q ω hQ]

/-- `h₂(q, p) = q·q/2 + p·M⁻¹p/2` (with `M⁻¹ = Q diag(ω²) Qᵀ`) is conserved for every time. -/
theorem harmonic_h2_conserved (hQ : Qᵀ * Q = 1) (hω : ∀ i, ω i ≠ 0) (hunit : ∀ t, (trig t).IsUnit)
    (t : K) (x : (Fin n → K) × (Fin n → K)) :
    gaussH2 Q ω (harmonic Q ω trig t x) = gaussH2 Q ω x := by
  rw [harmonic_eq_with]
  exact harmonicWith_gaussH2 Q ω hQ hω _ (hunit t) x

/-- Hamilton's equations `q̇ = M⁻¹ p`, `ṗ = -q`.  The flow is linear in the data `(cos, sin)`;
substituting their time derivatives `(-ω sin, ω cos)` gives exactly the Hamiltonian vector field of
`h₂` evaluated at the flowed point. -/
theorem harmonic_hamilton (hQ : Qᵀ * Q = 1) (hω : ∀ i, ω i ≠ 0) (T : Trig n K)
    (x : (Fin n → K) × (Fin n → K)) :
    harmonicWith Q ω ⟨-(ω * T.s), ω * T.c⟩ x =
      (eigMulVec Q (ω * ω) (harmonicWith Q ω T x).2, -(harmonicWith Q ω T x).1) := by
  unfold harmonicWith eigMulVec
  simp only [transpose_mulVec_mulVec Q hQ, Prod.mk.injEq]
  constructor
  · congr 1
    funext i
    have := hω i
    simp only [Pi.add_apply, Pi.sub_apply, Pi.mul_apply, Pi.div_apply, Pi.neg_apply]
    field_simp
    ring
  · rw [← Matrix.mulVec_neg]
    congr 1
    funext i
    have := hω i
    simp only [Pi.add_apply, Pi.sub_apply, Pi.mul_apply, Pi.div_apply, Pi.neg_apply]
    field_simp
    ring

/-- Gaussian `dh2_flow_dmom(dt) = (Q diag(sin(ω dt) ω) Qᵀ, Q diag(cos(ω dt)) Qᵀ)` are the true
Jacobian blocks of `h2_flow` with respect to the initial momentum. -/
theorem harmonic_dmom (t : K) (q p δ : Fin n → K) :
    harmonic Q ω trig t (q, p + δ) = harmonic Q ω trig t (q, p) + harmonicDmom Q ω trig t δ := by
  unfold harmonic harmonicDmom eigMulVec
  simp only [Prod.mk_add_mk, Prod.mk.injEq, ← Matrix.mulVec_add]
  constructor
  · congr 1
    rw [Matrix.mulVec_add]
    ring
  · congr 1
    rw [Matrix.mulVec_add]
    ring

end Gaussian

/-! ### Non-vacuity -/

/-- Rational rotation data satisfying every hypothesis used above (unit, parity, angle addition is
exercised through `Trig.comp`): the tangent half-angle table. -/
example : ∃ trig : ℚ → Trig 1 ℚ, (∀ t, (trig t).IsUnit) ∧ (∀ t, trig (-t) = (trig t).inv) ∧
    trig 0 = Trig.one ∧ (trig 1).s 0 ≠ 0 := by
  refine ⟨fun t => ⟨fun _ => (1 - t ^ 2) / (1 + t ^ 2), fun _ => 2 * t / (1 + t ^ 2)⟩, ?_, ?_, ?_, ?_⟩
  · intro t i
    have : (1 + t ^ 2) ≠ 0 := by positivity
    simp only
    field_simp
    ring
  · intro t
    apply Trig.ext' <;> funext i
    · simp [Trig.inv]
    · simp [Trig.inv]; ring
  · apply Trig.ext' <;> funext i <;> simp [Trig.one]
  · norm_num

/-- A table with exact angle addition: `trig k = (cos, sin)(k·θ)` for `cos θ = 3/5`, restricted to
what the group law needs — composing the data of two angles is again unit data. -/
example : (Trig.comp (⟨fun _ => 3 / 5, fun _ => 4 / 5⟩ : Trig 1 ℚ) ⟨fun _ => 5 / 13, fun _ => 12 / 13⟩).IsUnit := by
  apply Trig.comp_isUnit <;> intro i <;> norm_num

/-- The harmonic flow really rotates: one mode, `ω = 2`, data `(3/5, 4/5)`. -/
example :
    let y := harmonicWith (1 : Matrix (Fin 1) (Fin 1) ℚ) (fun _ => 2) ⟨fun _ => 3 / 5, fun _ => 4 / 5⟩
      (fun _ => 1, fun _ => 1)
    y.1 0 = 11 / 5 ∧ y.2 0 = 1 / 5 := by
  simp [harmonicWith]
  norm_num

end MiciVerif.C07
