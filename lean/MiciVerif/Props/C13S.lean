/-
C13 — tie of `Model/Sampler.lean` to the *source text* of the orchestration code.

`Generated/SamplerSkeleton.lean` is regenerated from `src/mici/samplers.py` of the tree under test
on every run (`tools/extractors/sampler_skeleton.py`).  The theorems below are re-checked by the
kernel against the regenerated trees:

* `skel_…_eq_model`: the generated tree of a function is exactly the tree `Model/Sampler.lean`
  was written against (`Skel.Expected.*`, annotated node by node in `Model/SamplerSkeleton.lean`);
* the other `skel_…` theorems re-derive, by queries on the generated trees only, the individual
  facts the model's definitions use (they localise a change: see the name of the broken one);
* `sem_…`: the reading `Skel.Sem` of the generated stage-loop body / iteration body as functions on
  the model's state is `Sampler.runStage` / `Sampler.iterOps`, for every kernel and input.
-/
import MiciVerif.Generated.SamplerSkeleton
import MiciVerif.Lemmas.SamplerChain

namespace MiciVerif.C13S
open MiciVerif.Skel
open MiciVerif.Generated

/-! ### the generated trees are the expected ones -/

/-- Nothing in the nine translated functions is outside the translated subset, and the statements
the extractor dropped are exactly the listed logging / message / progress-display ones. -/
theorem skel_understood :
    ([SamplerSkeleton.sampleChain, SamplerSkeleton.sampleChainsSequential,
      SamplerSkeleton.sampleChainsWorker, SamplerSkeleton.sampleChainsParallel,
      SamplerSkeleton.finalizeAdapters, SamplerSkeleton.collateChainOutputs,
      SamplerSkeleton.updateChainStats, SamplerSkeleton.flushMemmapChainData,
      SamplerSkeleton.sampleChains].all S.known = true)
    ∧ SamplerSkeleton.dropped = Expected.dropped := by
  decide +kernel

/-- `MarkovChainMonteCarloMethod.sample_chains` (parameters with defaults, body). -/
theorem skel_sample_chains_eq_model :
    SamplerSkeleton.sampleChainsSig = Expected.sampleChainsSig
    ∧ SamplerSkeleton.sampleChains = Expected.sampleChains := by
  decide +kernel

/-- `_sample_chain` and the helper that performs its statistics write. -/
theorem skel_sample_chain_eq_model :
    SamplerSkeleton.sampleChainSig = Expected.sampleChainSig
    ∧ SamplerSkeleton.sampleChain = Expected.sampleChain
    ∧ SamplerSkeleton.updateChainStatsSig = Expected.updateChainStatsSig
    ∧ SamplerSkeleton.updateChainStats = Expected.updateChainStats := by
  decide +kernel

/-- The collation helpers used by both process modes. -/
theorem skel_collate_eq_model :
    SamplerSkeleton.collateChainOutputs = Expected.collateChainOutputs
    ∧ SamplerSkeleton.collateChainOutputsSig = Expected.collateChainOutputsSig := by
  decide +kernel

/-- The two process modes (C13 quantifies over process counts): `_sample_chains_sequential`,
`_sample_chains_worker`, `_sample_chains_parallel` (`Props/C14S.lean` has the individual facts). -/
theorem skel_process_modes_eq_model :
    SamplerSkeleton.sampleChainsSequential = Expected.sampleChainsSequential
    ∧ SamplerSkeleton.sampleChainsSequentialSig = Expected.sampleChainsSequentialSig
    ∧ SamplerSkeleton.sampleChainsWorker = Expected.sampleChainsWorker
    ∧ SamplerSkeleton.sampleChainsWorkerSig = Expected.sampleChainsWorkerSig
    ∧ SamplerSkeleton.sampleChainsParallel = Expected.sampleChainsParallel
    ∧ SamplerSkeleton.sampleChainsParallelSig = Expected.sampleChainsParallelSig := by
  decide +kernel

/-! ### individual facts, from the generated trees -/

/-- body of `for stage, _ in sampling_stages_pb` -/
def stageBody : List S := (SamplerSkeleton.sampleChains.loopBody (.v "sampling_stages_pb")).getD []

/-- body of `for sample_index, monitor_dict in chain_iterator` -/
def iterBody : List S := (SamplerSkeleton.sampleChain.loopBody (.v "chain_iterator")).getD []

/-- body of `for trans_key, transition in transitions.items()` -/
def transBody : List S :=
  (SamplerSkeleton.sampleChain.loopBody (.call "transitions.items" (E.l []))).getD []

/-- `n_process=None` is replaced by `os.cpu_count()` by the first statement of the function, i.e.
before `n_process` is compared, passed on or used to decide about memory-mapping
(model: `Mode`; revert `C13-n_process-none`). -/
theorem skel_nprocess_none_uses_cpu_count :
    SamplerSkeleton.sampleChains.stmts.head? =
      some (.ifc (.op "is" (E.l [.v "n_process", .none]))
        (S.b [.assign (.v "n_process") (.call "os.cpu_count" (E.l []))]) (S.b []))
    ∧ idx (S.usesDeep "n_process") SamplerSkeleton.sampleChains.stmts = some 0
    ∧ SamplerSkeleton.sampleChainsSig.items.contains (.kw "n_process" (.n 1)) = true := by
  decide +kernel

/-- One process runs the chains sequentially, anything else through the pool
(model: `Mode.seq` / `Mode.par`). -/
theorem skel_mode_choice :
    assignsTo (.v "sample_chains_func") SamplerSkeleton.sampleChains.stmts =
      [.assign (.v "sample_chains_func") (.v "_sample_chains_sequential"),
       .assign (.v "sample_chains_func") (.v "_sample_chains_parallel")]
    ∧ (SamplerSkeleton.sampleChains.all.any fun
        | .ifc c t f => c = .op "==" (E.l [.v "n_process", .n 1])
            && t = S.b [.assign (.v "sample_chains_func") (.v "_sample_chains_sequential")]
            && f.stmts.getLast? = some (.assign (.v "sample_chains_func") (.v "_sample_chains_parallel"))
        | _ => false) = true := by
  decide +kernel

/-- Array lengths: `n_trace_iter` is `n_warm_up_iter + n_main_iter` with `trace_warm_up`, else
`n_main_iter`, and it is the length given to both `_init_traces` and `_init_stats`
(model: `nTraceIter`, `initSys`). -/
theorem skel_array_length :
    assignsTo (.v "n_trace_iter") SamplerSkeleton.sampleChains.stmts =
      [.assign (.v "n_trace_iter")
        (.ite (.v "trace_warm_up") (.op "+" (E.l [.v "n_warm_up_iter", .v "n_main_iter"])) (.v "n_main_iter"))]
    ∧ ((argsOfCall "_init_traces" SamplerSkeleton.sampleChains.stmts).map fun a => a.items[2]?) =
        some (some (.v "n_trace_iter"))
    ∧ ((argsOfCall "_init_stats" SamplerSkeleton.sampleChains.stmts).map fun a => a.items[2]?) =
        some (some (.v "n_trace_iter")) := by
  decide +kernel

/-- A stage without iterations is skipped by the first statement of the stage-loop body
(model: `runStage`: `else if st.n = 0 then sys`; revert `C16-zero-iter-stage`). -/
theorem skel_zero_iter_stage_skipped :
    stageBody.head? = some (.ifc (.op "==" (E.l [.v "stage.n_iter", .n 0])) (S.b [.cont]) (S.b [])) := by
  decide +kernel

/-- The offset rule (model: `initSys.offset := 0`, `afterStage.offset`): `sampling_index_offset` is
set to 0 before the stage loop, its only other assignment is `+= stage.n_iter` as the LAST statement
of the stage-loop body under `stage.trace_funcs is not None or stage.record_stats`, and every stage
passes the current value on to the chains. -/
theorem skel_offset_rule :
    assignsTo (.v "sampling_index_offset") SamplerSkeleton.sampleChains.stmts =
      [.assign (.v "sampling_index_offset") (.n 0),
       .aug (.v "sampling_index_offset") "+" (.v "stage.n_iter")]
    ∧ stageBody.getLast? =
      some (.ifc (.op "or" (E.l [.op "is not" (E.l [.v "stage.trace_funcs", .none]), .v "stage.record_stats"]))
        (S.b [.aug (.v "sampling_index_offset") "+" (.v "stage.n_iter")]) (S.b []))
    ∧ (argsOfCall "sample_chains_func" stageBody).bind (E.kwArg "sampling_index_offset") =
      some (.v "sampling_index_offset")
    ∧ assignsTo (.v "sampling_index_offset") SamplerSkeleton.sampleChain.stmts = [] := by
  decide +kernel

/-- The per-chain trace arrays are handed to a stage iff the stage has trace functions, the
statistics arrays iff it records statistics (model: `st.traced`, `st.stats` in `opsOf` / `execOp`);
the initial states of a stage are the final states of the previous one and the generators are the
per-call ones. -/
theorem skel_arrays_passed_iff_stage_records :
    let kw := (argsOfCall "sample_chains_func" stageBody).bind (E.kwArg "per_chain_kwargs")
    kw.bind (E.argsOf "_zip_dict") = some (E.l [
      .kw "init_state" (.v "chain_states"),
      .kw "rng" (.v "per_chain_rngs"),
      .kw "chain_traces" (.ite (.op "is not" (E.l [.v "stage.trace_funcs", .none])) (.v "per_chain_traces")
        (.op "*" (E.l [.lst (E.l [.none]), .v "n_chain"]))),
      .kw "chain_stats" (.ite (.v "stage.record_stats") (.v "per_chain_stats")
        (.op "*" (E.l [.lst (E.l [.none]), .v "n_chain"])))]) := by
  decide +kernel

/-- Both writes of an iteration go to row `sample_index + sampling_index_offset`, and the
statistics helper writes at exactly the row it is given (model: `writeCell x.mem j (i + offset)`). -/
theorem skel_rows_at_index_plus_offset :
    ((argsOfCall "_update_chain_stats" iterBody).map fun a => a.items.head?) =
      some (some (.op "+" (E.l [.v "sample_index", .v "sampling_index_offset"])))
    ∧ (iterBody.flatMap S.all).filterMap (fun
        | .assign (.sub (.sub (.v "chain_traces") k) r) e => some (k, r, e)
        | _ => Option.none) =
      [(.v "key", .op "+" (E.l [.v "sample_index", .v "sampling_index_offset"]), .v "val")]
    ∧ SamplerSkeleton.updateChainStatsSig.items.head? = some (.v "sample_index")
    ∧ (SamplerSkeleton.updateChainStats.all.filterMap fun
        | .assign (.sub _ r) e => some (r, e)
        | _ => Option.none) = [(.v "sample_index", .v "val")] := by
  decide +kernel

/-- Order of one iteration (model: `opsOf`, `execOp`): the iteration body is exactly
[loop over the transitions; `if` with the trace writes]; inside the transition loop the order is
`transition.sample`, adapter updates, statistics write. -/
theorem skel_stats_before_traces :
    iterBody.map (fun s => (s.callsDeep "transition.sample", s.callsDeep "_update_chain_stats",
                            s.callsDeep "trace_func")) = [(true, true, false), (false, false, true)]
    ∧ idx (S.callsDeep "transition.sample") transBody = some 0
    ∧ idx (S.callsDeep "adapter.update") transBody = some 1
    ∧ idx (S.callsDeep "_update_chain_stats") transBody = some 2
    ∧ transBody.length = 3 := by
  decide +kernel

/-- What is returned (model: `Sys.finalStates`, the arrays): the collated chain states of the last
stage that ran, and the arrays created at the start of the call. -/
theorem skel_returns_states_traces_stats :
    SamplerSkeleton.sampleChains.stmts.getLast? =
      some (.ret (.call "MCMCSampleChainsOutputs" (E.l [.v "chain_states", .v "traces", .v "stats"])))
    ∧ (assignsTo (.v "traces") SamplerSkeleton.sampleChains.stmts).length = 1
    ∧ (assignsTo (.v "stats") SamplerSkeleton.sampleChains.stmts).length = 1 := by
  decide +kernel

/-! ### the generated stage-loop body, read as a function on the model's state, is `Sampler.runStage` -/

section Semantics
open MiciVerif.Sampler MiciVerif.Stagers

/-- The stage-loop body generated from the current source consists of exactly these actions, in this order. -/
theorem sem_stage_plan :
    Sem.stagePlan stageBody =
      some [.skipIfNoIterations, .setIterations, .runChains .traced .stats, .returnIfInterrupted,
            .finalizeIfStates, .advanceOffsetIf (.or .traced .stats)] := by
  decide +kernel

private theorem stage_eta (st : Stage) : (⟨st.n, st.kind, st.traced && st.traced, st.stats⟩ : Stage) = st := by
  cases st; simp

private theorem pass_core {St V A P : Type} (K : Kernel St V A P) (st : Stage) (mode : Mode)
    (ci : Option (Nat × Nat × Nat)) (sys : Sys St V P) (h0 : ¬ st.n = 0) :
    Sem.closePass sys (Sem.runStageActs K st mode ci
        [.skipIfNoIterations, .setIterations, .runChains .traced .stats, .returnIfInterrupted,
         .finalizeIfStates, .advanceOffsetIf (.or .traced .stats)]
        ⟨sys.params, sys.chains, sys.offset, sys.finalStates, [], [], false, 0, false⟩) =
    afterStage K st sys (Sem.runMode K st mode sys.offset ci sys.params sys.chains) := by
  simp only [Sem.runStageActs, h0, if_false, Sem.Cond.eval, stage_eta]
  generalize Sem.runMode K st mode sys.offset ci sys.params sys.chains = acc
  unfold afterStage
  by_cases hh : acc.halted = true
  · simp [hh, Sem.closePass]
  · by_cases hf : st.kind ≠ .main ∧ acc.outs ≠ []
    · by_cases ho : (st.traced || st.stats) = true <;> simp [hh, hf, ho, Sem.closePass]
    · by_cases ho : (st.traced || st.stats) = true <;> simp [hh, hf, ho, Sem.closePass]

/-- **Semantic tie of the stage loop.**  One pass of the stage-loop body generated from the current
source — each statement read as the model operation it stands for, executed in source order
(`Skel.Sem.stagePass`) — is `Sampler.runStage`, for every kernel, interrupt point, state, stage and
process mode: the zero-iteration skip, what is passed to the chains, the return on interrupt before
`_finalize_adapters`, the finalize condition and the offset rule are those of the model. -/
theorem sem_stage_body_is_runStage {St V A P : Type} (K : Kernel St V A P)
    (intr : Option (Nat × Nat × Nat × Nat)) (sys : Sys St V P) (ksm : Nat × Stage × Mode) :
    Sem.stagePass stageBody K intr sys ksm = some (Sampler.runStage K intr sys ksm) := by
  unfold Sem.stagePass
  rw [sem_stage_plan]
  simp only [Option.map_some, Option.some.injEq]
  unfold Sampler.runStage
  by_cases hs : sys.stopped = true
  · simp [hs]
  · simp only [hs]
    by_cases h0 : ksm.2.1.n = 0
    · simp [Sem.runStageActs, h0, Sem.closePass]
    · obtain ⟨k, st, mode⟩ := ksm
      rw [pass_core K st mode _ sys h0]
      have h0' : ¬ st.n = 0 := h0
      cases mode <;> simp only [Sem.runMode, Sem.stageIntr, h0', if_false] <;>
        rcases intr with _ | ⟨k0, c⟩ <;> rfl


/-- The hypotheses-free statement is not vacuous: the reading exists (`some …`) and, e.g., a traced
warm-up stage of 3 iterations moves the offset by 3 while an empty stage leaves the state alone. -/
example {St V A P : Type} (K : Kernel St V A P) (sys : Sys St V P) (h : sys.stopped = false) :
    (Sem.stagePass stageBody K none sys (0, ⟨0, .slow, true, true⟩, .seq)) = some sys := by
  rw [sem_stage_body_is_runStage]; simp [Sampler.runStage, h]

end Semantics

/-! ### the generated iteration body, read as a function on the model's state, is `Sampler.iterOps` -/

section IterSemantics
open MiciVerif.Sampler MiciVerif.Stagers

/-- The iteration body generated from the current source consists of exactly these actions, in this order. -/
theorem sem_iteration_plan :
    Sem.iterPlan iterBody =
      some [.forTransitions [.sample, .adapt, .writeStats .indexPlusOffset], .forTraces .indexPlusOffset] := by
  decide +kernel

private theorem iterOps_append {St V A P : Type} (st : Stage) (offset : Nat) (intr : Option (Nat × Nat)) (i : Nat)
    (a b : List (Op St V A P)) (j : Nat) (x : Run St V A P) :
    iterOps st offset intr i j (a ++ b) x = iterOps st offset intr i (j + a.length) b (iterOps st offset intr i j a x) := by
  induction a generalizing j x with
  | nil => simp [iterOps]
  | cons op a ih => simp only [List.cons_append, iterOps, ih, List.length_cons]; congr 1; omega

private theorem trans_op {St V A P : Type} (st : Stage) (offset : Nat) (intr : Option (Nat × Nat)) (i j : Nat)
    (t : Kind → P → A → St → Rng → TOut St V A P) (x : Run St V A P) :
    Sem.runTransActs st offset intr i j t [.sample, .adapt, .writeStats .indexPlusOffset] none x =
      some (stepOp st offset intr i j (.trans t) x) := by
  unfold stepOp
  by_cases hh : x.halted = true
  · simp [Sem.runTransActs, hh]
  · by_cases hi : intr = some (i, j)
    · simp [Sem.runTransActs, hh, hi]
    · simp [Sem.runTransActs, hh, hi, execOp, Sem.Row.eval]

private theorem trans_loop {St V A P : Type} (st : Stage) (offset : Nat) (intr : Option (Nat × Nat)) (i : Nat)
    (ts : List (Kind → P → A → St → Rng → TOut St V A P)) (j : Nat) (x : Run St V A P) :
    Sem.runTransLoop st offset intr i [.sample, .adapt, .writeStats .indexPlusOffset] ts j x =
      some (iterOps st offset intr i j (ts.map .trans) x, j + ts.length) := by
  induction ts generalizing j x with
  | nil => simp [Sem.runTransLoop, iterOps]
  | cons t ts ih =>
    simp only [Sem.runTransLoop, trans_op, Option.bind_some, ih, List.map_cons, iterOps, List.length_cons]
    congr 2; omega

private theorem trace_loop {St V A P : Type} (st : Stage) (offset : Nat) (intr : Option (Nat × Nat)) (i : Nat)
    (fs : List (St → V)) (j : Nat) (x : Run St V A P) :
    Sem.runTraceLoop offset intr i .indexPlusOffset fs j x =
      (iterOps st offset intr i j (fs.map (Op.trace (A := A) (P := P))) x, j + fs.length) := by
  induction fs generalizing j x with
  | nil => simp [Sem.runTraceLoop, iterOps]
  | cons f fs ih =>
    simp only [Sem.runTraceLoop, ih, List.map_cons, iterOps, List.length_cons, stepOp, execOp, Sem.Row.eval]
    rw [Nat.add_assoc, Nat.add_comm 1]

/-- **Semantic tie of the chain loop.**  One iteration of the loop body of `_sample_chain` generated
from the current source — transitions first (sample, adapter updates, statistics write at
`sample_index + sampling_index_offset` iff statistics are recorded), then the trace functions iff the
stage traces, each write at the same row, an interrupt raised inside operation `j` leaving that
operation and everything after it undone — is `Sampler.iterOps` on `Sampler.opsOf`, for every kernel,
stage, offset, interrupt point, iteration and state. -/
theorem sem_iteration_body_is_iterOps {St V A P : Type} (K : Kernel St V A P) (st : Stage) (offset : Nat)
    (intr : Option (Nat × Nat)) (i : Nat) (x : Run St V A P) :
    Sem.iterPass iterBody K st offset intr i x = some (iterOps st offset intr i 0 (opsOf K st) x) := by
  unfold Sem.iterPass opsOf
  rw [sem_iteration_plan]
  simp only [Option.bind_some, Sem.runIterActs, trans_loop, iterOps_append, List.length_map, Nat.zero_add]
  by_cases ht : st.traced = true
  · simp [ht, trace_loop st]
  · simp [ht, iterOps]


/-- not vacuous: with an interrupt at operation 0 of iteration 2 the reading halts without writing -/
example {St V A P : Type} (K : Kernel St V A P) (st : Stage) (t : Kind → P → A → St → Rng → TOut St V A P)
    (ts : List (Kind → P → A → St → Rng → TOut St V A P)) (hK : K.trans = t :: ts) (x : Run St V A P)
    (hx : x.halted = false) :
    Sem.iterPass iterBody K st 5 (some (2, 0)) 2 x = some { x with halted := true } := by
  rw [sem_iteration_body_is_iterOps]
  simp only [opsOf, hK, List.map_cons, List.cons_append, iterOps, stepOp, hx]
  simp [iterOps_of_halted]

end IterSemantics

/-! ### the generated body of `_sample_chain`, read as a function on the model's state, is `Sampler.sampleChain` -/

section ChainSemantics
open MiciVerif.Sampler MiciVerif.Stagers

/-- The body of `_sample_chain` generated from the current source consists of exactly these actions. -/
theorem sem_chain_plan :
    Sem.chainPlan SamplerSkeleton.sampleChain.stmts =
      some [.initState, .loadMemmaps, .emptyAdapterStates, .initAdapters,
            .iterate [.forTransitions [.sample, .adapt, .writeStats .indexPlusOffset], .forTraces .indexPlusOffset],
            .returnTriple] := by
  decide +kernel

private theorem loop_iters {St V A P : Type} (K : Kernel St V A P) (st : Stage) (offset : Nat)
    (intr : Option (Nat × Nat)) (n start : Nat) (x : Run St V A P) :
    Sem.loopIters K st offset intr
        [.forTransitions [.sample, .adapt, .writeStats .indexPlusOffset], .forTraces .indexPlusOffset] start n x =
      some (runIters K st offset intr start n x) := by
  induction n generalizing start x with
  | zero => simp [Sem.loopIters, runIters]
  | succ n ih =>
    by_cases hh : x.halted = true
    · simp [Sem.loopIters, hh, runIters_of_halted]
    · have := sem_iteration_body_is_iterOps K st offset intr start x
      unfold Sem.iterPass at this
      rw [sem_iteration_plan] at this
      simp only [Option.bind_some] at this
      simp [Sem.loopIters, hh, this, runIters, ih]

/-- **Semantic tie of `_sample_chain`.**  The whole body generated from the current source — adapter
states empty without adapters, `initialize` of every adapter before the first iteration, `st.n`
iterations numbered from 0 each read as in `sem_iteration_body_is_iterOps`, a `KeyboardInterrupt`
leaving the loop and being recorded instead of raised, the normal `return` of state, adapter states
and exception after the `try` — is `Sampler.sampleChain`, for every kernel, stage, offset, interrupt
point, parameters, initial state, generator and arrays. -/
theorem sem_chain_body_is_sampleChain {St V A P : Type} (K : Kernel St V A P) (st : Stage) (offset : Nat)
    (intr : Option (Nat × Nat)) (p : P) (s : St) (rng : Rng) (log : List Draw) (mem : Mem V) :
    Sem.chainPass SamplerSkeleton.sampleChain.stmts K st offset intr p s rng log mem =
      some (sampleChain K st offset intr p s rng log mem) := by
  unfold Sem.chainPass
  rw [sem_chain_plan]
  simp only [Option.bind_some, Sem.runChainActs, loop_iters]
  unfold sampleChain
  by_cases hk : st.kind = .main <;> simp [hk]


/-- not vacuous: a main stage of 0 iterations returns the initial state untouched, not halted -/
example {St V A P : Type} (K : Kernel St V A P) (p : P) (s : St) (rng : Rng) (mem : Mem V) :
    Sem.chainPass SamplerSkeleton.sampleChain.stmts K ⟨0, .main, true, true⟩ 0 none p s rng [] mem =
      some ⟨⟨s, rng, K.a0, p, []⟩, mem, false⟩ := by
  rw [sem_chain_body_is_sampleChain]; simp [sampleChain, runIters]

end ChainSemantics

/-! ### the queries discriminate (non-vacuity): small edits of the expected tree change the answers -/

/-- dropping the `continue` of the zero-iteration test is seen by the query of
`skel_zero_iter_stage_skipped` -/
example :
    (([S.ifc (.op "==" (E.l [.v "stage.n_iter", .n 0])) (S.b []) (S.b [])] : List S).head? =
      some (.ifc (.op "==" (E.l [.v "stage.n_iter", .n 0])) (S.b [.cont]) (S.b []))) = False := by
  decide +kernel

/-- swapping the two statements of an iteration body is seen by the query of `skel_stats_before_traces` -/
example :
    let body := (Expected.sampleChain.loopBody (.v "chain_iterator")).getD []
    body.reverse.map (fun s => (s.callsDeep "transition.sample", s.callsDeep "_update_chain_stats",
                                 s.callsDeep "trace_func")) ≠ [(true, true, false), (false, false, true)] := by
  decide +kernel

end MiciVerif.C13S
