/-
C14 — Sampling is reproducible and independent of process scheduling.

Statements are for EVERY kernel satisfying `AdaptLocal` (see `Lemmas/SamplerPar.lean`: the
observable result of a chain run only depends on the equivalence class of the transition
parameters it starts from, `initialize` re-establishes that class, `finalize` maps equivalent
parameters to equal ones, non-adaptive stages do not change parameters).  The built-in adapters
satisfy it with "same metric" as the class (DualAveragingStepSizeAdapter.initialize resets and
searches the step size from the chain state; the metric adapters only act in `finalize`); for user
adapters it is a hypothesis.  `chains_distinct_streams` / `no_replay` need no hypothesis.
-/
import MiciVerif.Lemmas.SamplerIndep
import MiciVerif.Lemmas.SamplerLog
import MiciVerif.Lemmas.SamplerAdapt
import MiciVerif.Model.SamplerCount

namespace MiciVerif.C14
open MiciVerif.Stagers MiciVerif.Sampler

variable {S V A P : Type}

/-- **schedule_independent (one stage).**  For EVERY assignment of the chains to workers, every
order in which a worker takes its chains and every order in which the workers deliver their
outputs (two arbitrary valid schedules), the collated stage result — outputs in chain order,
arrays, parent generators, interrupt flag — is the same. -/
theorem schedule_independent (K : Kernel S V A P) (E : Kind → P → P → Prop) (hE : AdaptLocal K E)
    (st : Stage) (offset : Nat) (restore : Bool) (sched₁ sched₂ : List (List Nat)) (p : P)
    (chs : List (Chain S V)) (h₁ : ValidSched sched₁ chs.length) (h₂ : ValidSched sched₂ chs.length) :
    stagePar K st offset none restore sched₁ p chs = stagePar K st offset none restore sched₂ p chs := by
  rw [stagePar_canon K E hE st offset none restore sched₁ p chs h₁ (by intro _ _ _ h; cases h),
    stagePar_canon K E hE st offset none restore sched₂ p chs h₂ (by intro _ _ _ h; cases h)]

/-- **nprocess_independent (multi-stage runs).**  Two complete runs over the same stage table whose
stages are executed in ANY admissible modes — sequentially, or in parallel with any number of
workers and any valid schedule, independently chosen per stage and per run — return the same
final states, arrays, generators and transition parameters. -/
theorem nprocess_independent (K : Kernel S V A P) (E : Kind → P → P → Prop) (hE : AdaptLocal K E)
    (l₁ l₂ : List (Stage × Mode)) (sys : Sys S V P) (hs : sys.stopped = false)
    (hst : l₁.map (·.1) = l₂.map (·.1))
    (h₁ : ∀ sm ∈ l₁, ModeOK sys.chains.length sm.2) (h₂ : ∀ sm ∈ l₂, ModeOK sys.chains.length sm.2) :
    runStages K none l₁ sys = runStages K none l₂ sys := by
  rw [runStages_canon K E hE l₁ sys hs h₁, runStages_canon K E hE l₂ sys hs h₂, hst]

/-- In particular `sample_chains` with `n_process = 1` and with any `n_process > 1` agree. -/
theorem sample_chains_nprocess_independent (K : Kernel S V A P) (E : Kind → P → P → Prop)
    (hE : AdaptLocal K E) (p0 : P) (inits : List S) (nWarm nMain : Nat) (t : Bool)
    (stages : List Stage) (scheds : List (List (List Nat)))
    (hlen : scheds.length = stages.length) (hv : ∀ s ∈ scheds, ValidSched s inits.length) :
    sampleChains K p0 inits nWarm nMain t (stages.map (fun s => (s, Mode.seq))) none =
      sampleChains K p0 inits nWarm nMain t
        (stages.zip (scheds.map (fun s => Mode.par true s))) none := by
  unfold sampleChains
  apply nprocess_independent K E hE _ _ _ rfl
  · rw [List.map_fst_zip (by simp [hlen])]
    simp [Function.comp_def]
  · intro sm hsm
    simp only [List.mem_map] at hsm
    obtain ⟨_, _, rfl⟩ := hsm
    trivial
  · intro sm hsm
    have := (List.of_mem_zip hsm).2
    simp only [List.mem_map] at this
    obtain ⟨s, hs, he⟩ := this
    rw [← he]
    exact ⟨rfl, by simpa [initSys] using hv s hs⟩

/-- **The code before the generator hand-back replays streams** (the theorem above is false for the
model with `restore := false`, which mirrors `reverts/C14-parallel-rng-replay.diff`): counting
kernel, 2 chains, 2 warm-up + 2 main iterations, 2 workers.  In the old model chain 0 draws
positions 0,1,… again at the start of the main stage (its log contains the start position 0
twice), and its output differs from the sequential run. -/
theorem old_model_replays :
    let K := SamplerCount.kernel ⟨false, 0, 2, false, 0, false, false, 1⟩
    let inits : List SamplerCount.St := [⟨0, 0, 0, 0, 0, 0⟩, ⟨1, 0, 0, 0, 0, 0⟩]
    let stages := warmUpStages 2 2 true
    let seq := sampleChains K ⟨5, 9⟩ inits 2 2 true (stages.map (fun s => (s, Mode.seq))) none
    let old := sampleChains K ⟨5, 9⟩ inits 2 2 true
      (stages.map (fun s => (s, Mode.par false [[0], [1]]))) none
    let new := sampleChains K ⟨5, 9⟩ inits 2 2 true
      (stages.map (fun s => (s, Mode.par true [[1], [0]]))) none
    ((old.chains[0]?.map (fun ch => ch.log.map (·.start))) = some [0, 2, 0, 2]) ∧
    ((seq.chains[0]?.map (fun ch => ch.log.map (·.start))) = some [0, 2, 4, 6]) ∧
    (old.chains.map (·.mem) ≠ seq.chains.map (·.mem)) ∧
    (new.chains.map (·.mem) = seq.chains.map (·.mem)) ∧ new.finalStates = seq.finalStates := by
  decide +kernel

/-- **chains_distinct_streams.**  In a complete sequential run every draw chain `c` ever makes
(in any iteration of any stage, or in an adapter's `finalize`) comes from stream `c`
(`bit_generator.jumped(c)`), so distinct chains use distinct streams. -/
theorem chains_distinct_streams (K : Kernel S V A P) (p0 : P) (inits : List S) (nTrace : Nat)
    (l : List (Stage × Mode)) (hl : AllSeq l) (c : Nat) (ch : Chain S V)
    (hc : (runStages K none l (initSys K p0 inits nTrace)).chains[c]? = some ch) :
    ch.rng.stream = c ∧ ∀ d ∈ ch.log, d.stream = c :=
  let h := logsOK_runStages_seq K l hl _ rfl (logsOK_initSys K p0 inits nTrace) c ch hc
  ⟨h.1, h.2.1⟩

/-- **no_replay.**  The positions of its stream that a chain consumes are consecutive from 0 — each
consumption (transition of an iteration, in whatever stage, or adapter finalisation) starts
exactly where the previous one ended and the parent generator ends where the last one ended —
hence the consumed position ranges are pairwise disjoint: no part of a stream is ever replayed. -/
theorem no_replay (K : Kernel S V A P) (p0 : P) (inits : List S) (nTrace : Nat)
    (l : List (Stage × Mode)) (hl : AllSeq l) (c : Nat) (ch : Chain S V)
    (hc : (runStages K none l (initSys K p0 inits nTrace)).chains[c]? = some ch) :
    consecFrom 0 ch.log = some ch.rng.pos ∧
    ch.log.Pairwise (fun a b => a.start + a.count ≤ b.start) := by
  have h := logsOK_runStages_seq K l hl _ rfl (logsOK_initSys K p0 inits nTrace) c ch hc
  exact ⟨h.2.2, (consecFrom_disjoint 0 _ _ h.2.2).2.2⟩

/-- The same two facts for runs whose stages are executed in parallel under any valid schedules
(current code), via `nprocess_independent`. -/
theorem streams_and_no_replay_parallel (K : Kernel S V A P) (E : Kind → P → P → Prop)
    (hE : AdaptLocal K E) (p0 : P) (inits : List S) (nTrace : Nat) (l : List (Stage × Mode))
    (hm : ∀ sm ∈ l, ModeOK inits.length sm.2) (c : Nat) (ch : Chain S V)
    (hc : (runStages K none l (initSys K p0 inits nTrace)).chains[c]? = some ch) :
    (ch.rng.stream = c ∧ ∀ d ∈ ch.log, d.stream = c) ∧ consecFrom 0 ch.log = some ch.rng.pos ∧
    ch.log.Pairwise (fun a b => a.start + a.count ≤ b.start) := by
  have hlen : (initSys K p0 inits nTrace : Sys S V P).chains.length = inits.length := by simp [initSys]
  have heq := nprocess_independent K E hE l (l.map (fun sm => (sm.1, Mode.seq)))
    (initSys K p0 inits nTrace) rfl (by simp [Function.comp_def])
    (by intro sm h; rw [hlen]; exact hm sm h)
    (by intro sm h; simp only [List.mem_map] at h; obtain ⟨_, _, rfl⟩ := h; trivial)
  rw [heq] at hc
  have hseq : AllSeq (l.map (fun sm => (sm.1, Mode.seq))) := by
    intro sm h; simp only [List.mem_map] at h; obtain ⟨_, _, rfl⟩ := h; rfl
  exact ⟨chains_distinct_streams K p0 inits nTrace _ hseq c ch hc,
    no_replay K p0 inits nTrace _ hseq c ch hc⟩

/-! ### independence from the other chains -/

private theorem params_foldOps_main (K : Kernel S V A P) (st : Stage) (hk : st.kind = .main)
    (hmain : ∀ t ∈ K.trans, ∀ p a s r, (t Kind.main p a s r).params = p) (offset : Nat) (p : P)
    (l : List (Triple S V A P)) (hl : ∀ t ∈ l, t.2.2 ∈ opsOf K st) (x : Run S V A P)
    (hx : x.ctx.params = p) : (foldOps st offset l x).ctx.params = p := by
  induction l generalizing x with
  | nil => exact hx
  | cons t l ih =>
    apply ih (fun t' ht' => hl t' (List.mem_cons_of_mem _ ht'))
    have hop := hl t List.mem_cons_self
    obtain ⟨i, j, op⟩ := t
    cases op with
    | trace f => exact hx
    | trans f =>
      simp only [execOp]
      have hf : f ∈ K.trans := by
        simp only [opsOf, List.mem_append, List.mem_map] at hop
        rcases hop with ⟨f', hf', he⟩ | hop
        · injection he with he; subst he; exact hf'
        · split at hop
          · simp only [List.mem_map] at hop; obtain ⟨_, _, he⟩ := hop; cases he
          · cases hop
      rw [hk, hmain f hf, hx]

private theorem mem_rowsFrom_op {ops : List (Op S V A P)} {start n : Nat} {t : Triple S V A P}
    (h : t ∈ rowsFrom ops start n) : t.2.2 ∈ ops := by
  induction n generalizing start with
  | zero => simp [rowsFrom] at h
  | succ n ih =>
    simp only [rowsFrom, List.mem_append] at h
    rcases h with h | h
    · have : ∀ (j : Nat) (l : List (Op S V A P)), t ∈ rowFrom start j l → t.2.2 ∈ l := by
        intro j l
        induction l generalizing j with
        | nil => intro h; simp [rowFrom] at h
        | cons op l ihl =>
          intro h
          simp only [rowFrom, List.mem_cons] at h
          rcases h with h | h
          · subst h; simp
          · exact List.mem_cons_of_mem _ (ihl _ h)
      exact this 0 ops h
    · exact ih h

/-- **chain_independent.**  Without adaptation (all stages non-adaptive, transitions do not change
their own parameters) the arrays, generator and state of chain `c` after a complete sequential run
depend only on chain `c`'s own record, the transition parameters and the offset — not on how many
other chains there are nor on their states. -/
theorem chain_independent (K : Kernel S V A P)
    (hmain : ∀ t ∈ K.trans, ∀ p a s r, (t Kind.main p a s r).params = p)
    (l : List (Stage × Mode)) (hl : AllSeq l) (hk : ∀ sm ∈ l, sm.1.kind = .main)
    (sys₁ sys₂ : Sys S V P) (c : Nat) (hs₁ : sys₁.stopped = false) (hs₂ : sys₂.stopped = false)
    (hp : sys₁.params = sys₂.params) (ho : sys₁.offset = sys₂.offset)
    (hc : sys₁.chains[c]? = sys₂.chains[c]?) :
    (runStages K none l sys₁).chains[c]? = (runStages K none l sys₂).chains[c]? ∧
    (runStages K none l sys₁).params = (runStages K none l sys₂).params := by
  -- one main stage maps chain c by a function of (params, offset, chain c) only
  have stage : ∀ (sys : Sys S V P) (st : Stage), sys.stopped = false → st.kind = .main → st.n ≠ 0 →
      (runStage0 K sys (st, .seq)).params = sys.params ∧
      (runStage0 K sys (st, .seq)).chains[c]? = (sys.chains[c]?).map (fun ch =>
        let r := chainRes K st sys.offset none sys.params ch
        (⟨r.ctx.state, r.ctx.rng, r.mem, r.ctx.log⟩ : Chain S V)) := by
    intro sys st hs hkind hn
    have hpar : ∀ chs : List (Chain S V), (stageSeq K st sys.offset none sys.params chs).params = sys.params := by
      intro chs
      induction chs using snoc_ind with
      | nil => rfl
      | snoc chs ch ih =>
        rw [stageSeq_snoc]
        have hh := (stageSeq_none K st sys.offset sys.params chs).1
        simp only [seqStep, hh, Bool.false_eq_true, if_false, chainIntr]
        have := chainRes_none K st sys.offset (stageSeq K st sys.offset none sys.params chs).params ch
        unfold chainRes at this
        rw [this, ih]
        apply params_foldOps_main K st hkind hmain
        · intro t ht; exact mem_rowsFrom_op ht
        · simp [startRun, hkind]
    rw [runStage0_seq K sys st hs hn]
    obtain ⟨h1, h2, h3⟩ := stageSeq_none K st sys.offset sys.params sys.chains
    unfold afterStage
    simp only [h1, Bool.false_eq_true, if_false, hkind, ne_eq, not_true_eq_false, false_and, advance]
    refine ⟨hpar _, ?_⟩
    have hadv : ∀ chs : List (Chain S V), advance chs [] = chs := by intro chs; cases chs <;> rfl
    rw [hadv]
    -- setStates by position
    have hset : ∀ (chs : List (Chain S V)) (ss : List S) (k : Nat), chs.length = ss.length →
        (setStates chs ss)[k]? = (chs[k]?).bind (fun ch => (ss[k]?).map (fun s => { ch with state := s })) := by
      intro chs
      induction chs with
      | nil => intro ss k h; cases ss <;> simp [setStates]
      | cons a chs ih =>
        intro ss k h
        cases ss with
        | nil => simp at h
        | cons s ss =>
          cases k with
          | zero => simp [setStates]
          | succ k => simp only [setStates, List.getElem?_cons_succ]; exact ih ss k (by simpa using h)
    rw [hset _ _ c (by rw [h2, h3]; simp)]
    rw [h2, h3]
    simp only [List.getElem?_mapIdx, List.getElem?_map]
    cases sys.chains[c]? with
    | none => rfl
    | some ch => simp [hpar]
  induction l generalizing sys₁ sys₂ with
  | nil => simp [runStages_none, hc, hp]
  | cons sm l ih =>
    obtain ⟨st, m⟩ := sm
    have hm : m = Mode.seq := hl (st, m) List.mem_cons_self
    subst hm
    have hkind : st.kind = .main := hk (st, .seq) List.mem_cons_self
    rw [runStages_none_cons, runStages_none_cons]
    apply ih (fun sm h => hl sm (List.mem_cons_of_mem _ h)) (fun sm h => hk sm (List.mem_cons_of_mem _ h))
    · exact runStage0_seq_stopped K sys₁ st hs₁
    · exact runStage0_seq_stopped K sys₂ st hs₂
    · by_cases hn : st.n = 0
      · rw [runStage0_skip K sys₁ st _ hn, runStage0_skip K sys₂ st _ hn]; exact hp
      · rw [(stage sys₁ st hs₁ hkind hn).1, (stage sys₂ st hs₂ hkind hn).1]; exact hp
    · rw [runStage0_seq_offset K sys₁ st hs₁, runStage0_seq_offset K sys₂ st hs₂, ho]
    · by_cases hn : st.n = 0
      · rw [runStage0_skip K sys₁ st _ hn, runStage0_skip K sys₂ st _ hn]; exact hc
      · rw [(stage sys₁ st hs₁ hkind hn).2, (stage sys₂ st hs₂ hkind hn).2, hc, hp, ho]

/-! ### the adapter hypothesis -/

/-- **Sufficient primitive conditions for `AdaptLocal`** (what a user adapter has to guarantee):
`initialize` only reads the class of the incoming transition parameters and stays in it, the
transitions with the adapters' `update` stay in it, `finalize` only reads the class, and a
non-adaptive stage changes nothing. -/
theorem adaptLocal_sufficient (K : Kernel S V A P) (E : Kind → P → P → Prop) (hE : AdaptPrim K E) :
    AdaptLocal K E :=
  adaptLocal_of_prim K E hE

/-- The counting kernel that the harness runs against the real sampler — transitions `a`, `b`,
the fast adapter (re-establishes `par` in `initialize`, like `DualAveragingStepSizeAdapter`) and
the slow adapter (acts in `finalize` only and draws from the parent generators, like the metric
adapters), in every configuration — satisfies the hypothesis, so all theorems above apply to it. -/
theorem counting_kernel_adaptLocal (c : SamplerCount.Cfg) :
    AdaptLocal (SamplerCount.kernel c) (SamplerCount.Ecount c) :=
  SamplerCount.adaptLocal_count c

/-! ### non-vacuity -/

/-- `AdaptLocal` is satisfiable: any kernel without adaptable transition parameters (`P = Unit`)
satisfies it (and the counting-kernel instances below show concrete valid schedules). -/
theorem adaptLocal_of_no_params (K : Kernel S V A Unit) : AdaptLocal K (fun _ _ _ => True) where
  refl := by intros; trivial
  symm := by intros; trivial
  trans := by intros; trivial
  resp := by intro st offset ci p q ch _; cases p; cases q; rfl
  pres := by intros; trivial
  fin := by intro k as ss p q rngs _ _; cases p; cases q; rfl
  main := by intro p q _; cases p; cases q; rfl

example : ValidSched [[2, 0], [], [1]] 3 ∧ ValidSched [[0], [1], [2]] 3 ∧ ModeOK 3 (Mode.par true [[1, 2], [0]]) := by
  refine ⟨?_, ?_, rfl, ?_⟩ <;> decide

open MiciVerif.SamplerCount in
/-- two different schedules of a multi-stage run with adapters give identical results (instance
of the model; the general statement is the theorem) -/
example :
    let K := kernel ⟨true, 1, 2, true, 1, true, true, 2⟩
    let inits : List St := [⟨0, 0, 0, 0, 0, 0⟩, ⟨1, 3, 0, 0, 0, 0⟩, ⟨2, 1, 0, 0, 0, 0⟩]
    let st := windowedStages ⟨1, 1, 1, 2⟩ 5 2 true
    let a := sampleChains K ⟨5, 9⟩ inits 5 2 true (st.map (fun s => (s, Mode.par true [[2, 0], [1]]))) none
    let b := sampleChains K ⟨5, 9⟩ inits 5 2 true (st.map (fun s => (s, Mode.seq))) none
    a.chains.map (·.mem) = b.chains.map (·.mem) ∧ a.finalStates = b.finalStates ∧ a.params = b.params := by
  decide +kernel

end MiciVerif.C14
