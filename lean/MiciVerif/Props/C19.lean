/-
C19 — Matrix objects behave as immutable values; `==` / `hash` are consistent with the dense array.

Property theorems only (helper lemmas are `private`).

Part 1 (lazy caches, `Model/MatricesCache.lean`): for every parameter type, slot type, value type,
construction function `f`, dependency function `deps`, every object and every sequence of accesses.

Part 2 (equality / hash tables, `Model/MatricesEqTable.lean` + `Generated/MatrixEq.lean`): generic
theorems for EVERY class entry satisfying the decidable soundness predicate, and `decide` over the
table the translator generated from the tree under test.
-/
import MiciVerif.Model.MatricesCache
import MiciVerif.Model.MatricesEqTable
import MiciVerif.Generated.MatrixEq

namespace MiciVerif.C19
open MiciVerif.MatricesCache MiciVerif.MatricesEq

/-! ## Part 1: lazy caches -/

section Cache
variable {P K V : Type} [DecidableEq K]

private def fillAll (f : K → P → V) (js : List K) (o : Obj P K V) : Obj P K V :=
  js.foldl (fun o j => fill f j o) o

private theorem fill_p (f : K → P → V) (k : K) (o : Obj P K V) : (fill f k o).p = o.p := by
  unfold fill; split <;> rfl

private theorem fill_cache (f : K → P → V) (k j : K) (o : Obj P K V) :
    (fill f k o).cache j =
      match o.cache j with
      | some v => some v
      | none => if j = k then some (f k o.p) else none := by
  unfold fill
  split
  · rename_i v h
    by_cases hj : j = k
    · subst hj; simp [h]
    · cases hc : o.cache j <;> simp [hj]
  · rename_i h
    by_cases hj : j = k
    · subst hj; simp [h]
    · cases hc : o.cache j <;> simp [hj, hc]

private theorem fillAll_p (f : K → P → V) (js : List K) (o : Obj P K V) :
    (fillAll f js o).p = o.p := by
  induction js generalizing o with
  | nil => rfl
  | cons j js ih =>
    show (fillAll f js (fill f j o)).p = o.p
    rw [ih, fill_p]

private theorem fillAll_cache (f : K → P → V) (js : List K) (o : Obj P K V) (j : K) :
    (fillAll f js o).cache j =
      match o.cache j with
      | some v => some v
      | none => if j ∈ js then some (f j o.p) else none := by
  induction js generalizing o with
  | nil => cases h : o.cache j <;> simp [fillAll, h]
  | cons i js ih =>
    show (fillAll f js (fill f i o)).cache j = _
    rw [ih, fill_cache, fill_p]
    cases h : o.cache j with
    | some v => simp
    | none =>
      by_cases hji : j = i
      · subst hji; simp
      · simp [hji]

private theorem fillAll_append (f : K → P → V) (a b : List K) (o : Obj P K V) :
    fillAll f (a ++ b) o = fillAll f b (fillAll f a o) := by
  simp [fillAll, List.foldl_append]

private theorem access_state (f : K → P → V) (deps : K → List K) (k : K) (o : Obj P K V) :
    (access f deps k o).2 = fillAll f (deps k ++ [k]) o := by
  simp [access, fillAll, List.foldl_append]

private theorem run_state (f : K → P → V) (deps : K → List K) (ks : List K) (o : Obj P K V) :
    run f deps ks o = fillAll f (touched deps ks) o := by
  induction ks generalizing o with
  | nil => rfl
  | cons k ks ih =>
    show run f deps ks (access f deps k o).2 = _
    rw [ih, access_state]
    simp [touched, fillAll, List.foldl_append]

/-- No access ever changes the constructor parameters. -/
theorem access_preserves_params (f : K → P → V) (deps : K → List K) (k : K) (o : Obj P K V) :
    (access f deps k o).2.p = o.p := by
  rw [access_state, fillAll_p]

example : (access (fun (_ : Slot) (p : Nat) => p + 1) (fun _ => [Slot.eigval]) .inv
    (fresh 7)).2.p = 7 := by decide

/-- ... nor does any sequence of accesses. -/
theorem run_preserves_params (f : K → P → V) (deps : K → List K) (ks : List K) (o : Obj P K V) :
    (run f deps ks o).p = o.p := by
  rw [run_state, fillAll_p]

example : (run (fun (_ : Slot) (p : Nat) => p + 1) (fun _ => [Slot.eigval]) [.inv, .hash]
    (fresh 7)).p = 7 := by decide

/-- The coherence invariant (every filled slot equals the value determined by the parameters) is
preserved by every access, hence by every sequence of accesses. -/
theorem coherence_preserved (f : K → P → V) (deps : K → List K) (ks : List K) (o : Obj P K V)
    (h : Coherent f o) : Coherent f (run f deps ks o) := by
  intro k v hv
  rw [run_state, fillAll_cache] at hv
  rw [run_state, fillAll_p]
  cases hc : o.cache k with
  | some w =>
    rw [hc] at hv
    simp only [Option.some.injEq] at hv
    subst hv; exact h k w hc
  | none =>
    rw [hc] at hv
    by_cases hm : k ∈ touched deps ks
    · simp only [hm, if_true, Option.some.injEq] at hv; exact hv.symm
    · simp [hm] at hv

/-- A freshly constructed object is coherent, so the hypothesis above is satisfiable. -/
example (f : Slot → Nat → Nat) (p : Nat) : Coherent f (fresh p : Obj Nat Slot Nat) := by
  intro k v h; simp [fresh] at h

/-- `lazy_order_irrelevant`: the value returned by an access of `k` after ANY sequence of prior
accesses of a coherent object is `f k p` — a function of the parameters only; which other
attributes were computed first, and in which order, is irrelevant. -/
theorem lazy_order_irrelevant (f : K → P → V) (deps : K → List K) (ks : List K) (k : K)
    (o : Obj P K V) (h : Coherent f o) :
    (access f deps k (run f deps ks o)).1 = f k o.p := by
  have hco := coherence_preserved f deps ks o h
  have hp : (run f deps ks o).p = o.p := run_preserves_params f deps ks o
  have hco' : Coherent f (access f deps k (run f deps ks o)).2 := by
    have := coherence_preserved f deps [k] (run f deps ks o) hco
    simpa [run] using this
  have hp' : (access f deps k (run f deps ks o)).2.p = o.p := by
    rw [access_preserves_params f deps k (run f deps ks o), hp]
  show ((access f deps k (run f deps ks o)).2.cache k).getD (f k (access f deps k (run f deps ks o)).2.p) = _
  cases hc : (access f deps k (run f deps ks o)).2.cache k with
  | some v => simp only [Option.getD_some]; rw [hco' k v hc, hp']
  | none => simp only [Option.getD_none]; rw [hp']

example : (access (fun (k : Slot) (p : Nat) => if k = .inv then p * 2 else p) (fun _ => [.luAndPiv])
    .inv (run (fun (k : Slot) (p : Nat) => if k = .inv then p * 2 else p) (fun _ => [.luAndPiv])
      [.hash, .transpose, .inv, .array] (fresh 21))).1 = 42 := by decide

/-- In particular two accesses of the same attribute, with anything in between, agree. -/
theorem repeated_access_same (f : K → P → V) (deps : K → List K) (ks ks' : List K) (k : K)
    (o : Obj P K V) (h : Coherent f o) :
    (access f deps k (run f deps ks o)).1 = (access f deps k (run f deps (ks ++ k :: ks') o)).1 := by
  rw [lazy_order_irrelevant f deps ks k o h, lazy_order_irrelevant f deps _ k o h]

/-- The cache state after a sequence of accesses: a slot that was filled keeps its value, an
empty slot is filled with `f k p` exactly if it was touched. -/
theorem run_cache_state (f : K → P → V) (deps : K → List K) (ks : List K) (o : Obj P K V) (j : K) :
    (run f deps ks o).cache j =
      match o.cache j with
      | some v => some v
      | none => if j ∈ touched deps ks then some (f j o.p) else none := by
  rw [run_state, fillAll_cache]

example : (run (fun (_ : Slot) (p : Nat) => p) (fun k => if k = .inv then [.luAndPiv] else [])
    [.inv] (fresh 5)).cache .luAndPiv = some 5 := by decide

/-- Two access sequences that are permutations of each other (more generally: that touch the same
set of slots) end in the same object state. -/
theorem perm_same_state (f : K → P → V) (deps : K → List K) (ks ks' : List K) (o : Obj P K V)
    (h : ks.Perm ks') : run f deps ks o = run f deps ks' o := by
  have hm : ∀ j, j ∈ touched deps ks ↔ j ∈ touched deps ks' := by
    intro j
    simp only [touched, List.mem_flatMap]
    constructor
    · rintro ⟨k, hk, hj⟩; exact ⟨k, h.mem_iff.mp hk, hj⟩
    · rintro ⟨k, hk, hj⟩; exact ⟨k, h.mem_iff.mpr hk, hj⟩
  have hc : (run f deps ks o).cache = (run f deps ks' o).cache := by
    funext j
    rw [run_cache_state, run_cache_state]
    cases o.cache j with
    | some v => rfl
    | none => simp only [hm j]
  have hp : (run f deps ks o).p = (run f deps ks' o).p := by
    rw [run_preserves_params, run_preserves_params]
  cases h1 : run f deps ks o with
  | mk p1 c1 =>
    cases h2 : run f deps ks' o with
    | mk p2 c2 =>
      rw [h1, h2] at hc hp
      simp only at hc hp
      subst hc; subst hp; rfl

example : run (fun (_ : Slot) (p : Nat) => p) (fun _ => []) [.inv, .hash] (fresh 1)
    = run (fun (_ : Slot) (p : Nat) => p) (fun _ => []) [.hash, .inv] (fresh 1) :=
  perm_same_state _ _ _ _ _ (List.Perm.swap _ _ _)

end Cache

/-! ## Part 2: equality / hash tables -/

section Generic
variable {V : Type}

private theorem subset_mem {a b : List String} (h : subset a b = true) {x : String} (hx : x ∈ a) :
    x ∈ b := by
  unfold subset at h
  rw [List.all_eq_true] at h
  exact List.contains_iff_mem.mp (h x hx)

private theorem allRel_map (r : V → V → Prop) (l : List String) (F G : String → V)
    (h : ∀ x ∈ l, r (F x) (G x)) : AllRel r (l.map F) (l.map G) := by
  induction l with
  | nil => exact AllRel.nil
  | cons x l ih =>
    exact AllRel.cons (h x (List.mem_cons_self ..)) (ih fun y hy => h y (List.mem_cons_of_mem _ hy))

/-- What equality establishes: every *stored attribute* that some compared field resolves to is
`r`-related in the two objects. -/
private theorem eq_on_canon (e : ClassEntry) (r : V → V → Prop) (a b : String → V)
    (heq : eqObj e r a b) {x : String} (hx : x ∈ e.canonEq) : r (a x) (b x) := by
  unfold ClassEntry.canonEq at hx
  obtain ⟨g, hg, rfl⟩ := List.mem_map.mp hx
  exact heq g hg

private theorem sound_parts {e : ClassEntry} (hs : soundEntry e = true) (hc : e.abstract = false) :
    understood e = true ∧ coversDenote e = true ∧ hashWithinEq e = true ∧ eqOnParams e = true := by
  unfold soundEntry at hs
  simp only [hc, Bool.false_or, Bool.and_eq_true] at hs
  exact ⟨hs.1.1.1, hs.1.1.2, hs.1.2, hs.2⟩

/-- `eq_imp_hash_eq`: for EVERY concrete class entry satisfying the soundness predicate, every value
relation `r`, every hash combiner `h` respecting `r`: objects that `_check_equality` accepts have
equal `_compute_hash`. -/
theorem eq_imp_hash_eq {H : Type} (e : ClassEntry) (hs : soundEntry e = true)
    (hc : e.abstract = false) (r : V → V → Prop) (h : List V → H) (hr : Respects r h)
    (a b : String → V) (heq : eqObj e r a b) : hashObj e h a = hashObj e h b := by
  obtain ⟨_, _, hh, _⟩ := sound_parts hs hc
  unfold hashObj
  apply hr
  apply allRel_map
  intro f hf
  have : e.canon f ∈ e.canonHash := List.mem_map.mpr ⟨f, hf, rfl⟩
  exact eq_on_canon e r a b heq (subset_mem hh this)

/-- `eq_imp_same_denote`: ... and equal dense arrays, the array being any function (respecting `r`)
of the hand-listed `denoteParams` of the class. -/
theorem eq_imp_same_denote {D : Type} (e : ClassEntry) (hs : soundEntry e = true)
    (hc : e.abstract = false) (r : V → V → Prop) (d : List V → D) (hr : Respects r d)
    (a b : String → V) (heq : eqObj e r a b) : denoteObj e d a = denoteObj e d b := by
  obtain ⟨_, hd, _, _⟩ := sound_parts hs hc
  unfold coversDenote at hd
  simp only [Bool.and_eq_true] at hd
  unfold denoteObj
  apply hr
  apply allRel_map
  intro x hx
  exact eq_on_canon e r a b heq (subset_mem hd.2 hx)

/-- `same_params_imp_eq`: objects (of a sound concrete class) whose stored constructor parameters
are pairwise `r`-related compare equal — equality reads nothing but stored parameters (no lazily
filled cache), so rebuilding an object from equal parameters gives an equal object whatever was
computed on either in the meantime. -/
theorem same_params_imp_eq (e : ClassEntry) (hs : soundEntry e = true) (hc : e.abstract = false)
    (r : V → V → Prop) (a b : String → V) (hp : ∀ x ∈ e.params, r (a x) (b x)) :
    eqObj e r a b := by
  obtain ⟨_, _, _, hq⟩ := sound_parts hs hc
  unfold eqOnParams at hq
  simp only [Bool.and_eq_true] at hq
  intro f hf
  have : e.canon f ∈ e.canonEq := List.mem_map.mpr ⟨f, hf, rfl⟩
  exact hp _ (subset_mem hq.1.1 this)

end Generic

/-! ### The obligations on the generated table (re-decided on every run) -/

open MiciVerif.Generated.MatrixEq

/-- The generated table lists exactly the classes of the hand-written expected list, with the same
abstractness, in source order (a new class without a `denoteParams` entry breaks this). -/
theorem table_complete : complete table = true := by decide +kernel

/-- Every concrete class's `_check_equality`, `_compute_hash`, `__eq__`, `__hash__` and `__init__`
chain were of the understood shapes (no `unknown`), each compared field is compared against the same
field of `other`, and array hashes are by value (`hash_array` casts real dtypes to float64). -/
theorem eq_hash_understood : (table.all fun e => e.abstract || understood e) = true := by
  decide +kernel

/-- Equality compares every stored parameter the dense array depends on (after alias resolution). -/
theorem eq_fields_cover_denote_params :
    (table.all fun e => e.abstract || coversDenote e) = true := by decide +kernel

/-- The hash reads only attributes that equality compares. -/
theorem hash_fields_subset_eq_fields :
    (table.all fun e => e.abstract || hashWithinEq e) = true := by decide +kernel

/-- Equality reads only parameters stored by the constructor chain (never a lazily filled cache),
and the `denoteParams` are stored parameters. -/
theorem eq_fields_are_stored_params :
    (table.all fun e => e.abstract || eqOnParams e) = true := by decide +kernel

/-- Array parameters handed to `Matrix.__init__` through its kwargs are set read-only there. -/
theorem kwargs_params_frozen : (table.all frozenOk) = true := by decide +kernel

/-- Lazily cached arrays (`_array` of implicit classes, computed `_eigval`, computed `_lu_and_piv`)
and constructor arrays stored outside the kwargs loop (`InverseLUFactoredSquareMatrix`, eigenvalues of
the eigendecomposed classes, `unreg_eigval`) are set read-only by an explicit statement where they are
filled / stored. -/
theorem cached_and_stored_arrays_frozen : (table.all frozenExplicitOk) = true := by decide +kernel

/-- All of the above: the generated table satisfies the soundness predicate. -/
theorem table_sound : Sound table = true := by decide +kernel

private theorem entry_sound {e : ClassEntry} (he : e ∈ table) : soundEntry e = true := by
  have := table_sound
  unfold Sound at this
  rw [List.all_eq_true] at this
  exact this e he

/-- `a == b ⇒ hash(a) == hash(b)` for every concrete class of the tree under test. -/
theorem table_eq_imp_hash_eq {V H : Type} (e : ClassEntry) (he : e ∈ table)
    (hc : e.abstract = false) (r : V → V → Prop) (h : List V → H) (hr : Respects r h)
    (a b : String → V) (heq : eqObj e r a b) : hashObj e h a = hashObj e h b :=
  eq_imp_hash_eq e (entry_sound he) hc r h hr a b heq

/-- `a == b ⇒` equal dense arrays, for every concrete class of the tree under test. -/
theorem table_eq_imp_same_denote {V D : Type} (e : ClassEntry) (he : e ∈ table)
    (hc : e.abstract = false) (r : V → V → Prop) (d : List V → D) (hr : Respects r d)
    (a b : String → V) (heq : eqObj e r a b) : denoteObj e d a = denoteObj e d b :=
  eq_imp_same_denote e (entry_sound he) hc r d hr a b heq

/-! ### Non-vacuity -/

/-- The table is not empty, has concrete entries, and these entries compare something. -/
example : (table.filter fun e => !e.abstract).length = 32 := by decide +kernel
example : (table.filter fun e => !e.abstract && !e.eqFields.isEmpty && !e.hashFields.isEmpty).length
    = 32 := by decide +kernel

/-- The predicate is falsifiable: the pre-fix `InverseTriangularMatrix` (equality and hash ignore
`lower`) and the pre-fix symmetric low-rank class (ignore `_sign`) are rejected. -/
example : soundEntry
    { name := "InverseTriangularMatrix", abstract := false, mro := [], hashFrom := "", eqFrom := "",
      dunderOk := true, hashByValue := true, hashFields := ["_inverse_array"], eqFields := ["_inverse_array"],
      eqSameName := true, unknown := false, unknownWhy := "",
      params := ["_shape", "_inverse_array", "_lower"], caches := ["_hash"], frozen := ["_inverse_array"], frozenExplicit := [],
      aliases := [], handAliases := [] } = false := by decide +kernel

example : soundEntry
    { name := "SymmetricLowRankUpdateMatrix", abstract := false, mro := [], hashFrom := "", eqFrom := "",
      dunderOk := true, hashByValue := true, hashFields := ["factor_matrix", "square_matrix", "inner_square_matrix"],
      eqFields := ["factor_matrix", "symmetric_matrix", "inner_symmetric_matrix"],
      eqSameName := true, unknown := false, unknownWhy := "",
      params := ["factor_matrix", "symmetric_matrix", "inner_symmetric_matrix", "left_factor_matrix",
        "right_factor_matrix", "square_matrix", "inner_square_matrix", "_capacitance_matrix", "_sign", "_shape"],
      caches := ["_hash"], frozen := [], frozenExplicit := [],
      aliases := [], handAliases := [("factor_matrix", "left_factor_matrix"),
        ("symmetric_matrix", "square_matrix"), ("inner_symmetric_matrix", "inner_square_matrix")] } = false := by
  decide +kernel

/-- A hash that reads an attribute equality does not compare is rejected. -/
example : soundEntry
    { name := "DiagonalMatrix", abstract := false, mro := [], hashFrom := "", eqFrom := "",
      dunderOk := true, hashByValue := true, hashFields := ["diagonal", "_hash_salt"], eqFields := ["diagonal"],
      eqSameName := true, unknown := false, unknownWhy := "",
      params := ["_shape", "_diagonal", "_hash_salt"], caches := [], frozen := ["_diagonal"], frozenExplicit := [],
      aliases := [("diagonal", "_diagonal")], handAliases := [] } = false := by decide +kernel

/-- The hypotheses of the generic theorems are satisfiable: the `InverseTriangularMatrix` entry of
the current table, values compared by `=`, two objects agreeing on `_inverse_array` and `_lower`. -/
example : ∃ e ∈ table, e.name = "InverseTriangularMatrix" ∧ e.abstract = false ∧
    eqObj e (· = ·) (fun f => if f = "_lower" then 1 else 7) (fun f => if f = "_lower" then 1 else 7) := by
  refine ⟨table[17], by decide +kernel, by decide +kernel, by decide +kernel, ?_⟩
  intro f _; rfl

/-- ... and `eqObj` is not trivially true: objects differing in `_lower` are unequal. -/
example : ¬ eqObj (V := Nat) table[17] (· = ·) (fun f => if f = "_lower" then 1 else 7) (fun _ => 7) := by
  intro h
  have := h "lower" (by decide +kernel)
  revert this
  decide +kernel

end MiciVerif.C19
