/-
C19 — Matrix objects behave as immutable values; `==` / `hash` are consistent with the dense array.

Property theorems only (helper lemmas are `private`).

Part 1 (lazy caches, `Model/MatricesCache.lean`): for every parameter type, slot type, value type,
construction function `f`, dependency function `deps`, every object and every sequence of accesses.

Part 2 (equality / hash tables, `Model/MatricesEqTable.lean` + `Generated/MatrixEq.lean`): generic
theorems for EVERY class entry satisfying the decidable soundness predicate, and `decide` over the
table the translator generated from the tree under test.
-/
import MiciVerif.Model.MatricesCache
import MiciVerif.Model.MatricesEqTable
import MiciVerif.Generated.MatrixEq

namespace MiciVerif.C19
open MiciVerif.MatricesCache MiciVerif.MatricesEq

/-! ## Part 1: lazy caches -/

section Cache
variable {P K V : Type} [DecidableEq K]

private def fillAll (f : K → P → V) (js : List K) (o : Obj P K V) : Obj P K V :=
  js.foldl (fun o j => fill f j o) o

private theorem fill_p (f : K → P → V) (k : K) (o : Obj P K V) : (fill f k o).p = o.p := by
  unfold fill; split <;> rfl

private theorem fill_cache (f : K → P → V) (k j : K) (o : Obj P K V) :
    (fill f k o).cache j =
      match o.cache j with
      | some v => some v
      | none => if j = k then some (f k o.p) else none := by
  unfold fill
  split
  · rename_i v h
    by_cases hj : j = k
    · subst hj; simp [h]
    · cases hc : o.cache j <;> simp [hj]
  · rename_i h
    by_cases hj : j = k
    · subst hj; simp [h]
    · cases hc : o.cache j <;> simp [hj]

private theorem fillAll_p (f : K → P → V) (js : List K) (o : Obj P K V) :
    (fillAll f js o).p = o.p := by
  induction js generalizing o with
  | nil => rfl
  | cons j js ih =>
    show (fillAll f js (fill f j o)).p = o.p
    rw [ih, fill_p]

private theorem fillAll_cache (f : K → P → V) (js : List K) (o : Obj P K V) (j : K) :
    (fillAll f js o).cache j =
      match o.cache j with
      | some v => some v
      | none => if j ∈ js then some (f j o.p) else none := by
  induction js generalizing o with
  | nil => cases h : o.cache j <;> simp [fillAll, h]
  | cons i js ih =>
    show (fillAll f js (fill f i o)).cache j = _
    rw [ih, fill_cache, fill_p]
    cases h : o.cache j with
    | some v => simp
    | none =>
      by_cases hji : j = i
      · subst hji; simp
      · simp [hji]

private theorem fillAll_append (f : K → P → V) (a b : List K) (o : Obj P K V) :
    fillAll f (a ++ b) o = fillAll f b (fillAll f a o) := by
  simp [fillAll, List.foldl_append]

private theorem access_state (f : K → P → V) (deps : K → List K) (k : K) (o : Obj P K V) :
    (access f deps k o).2 = fillAll f (deps k ++ [k]) o := by
  simp [access, fillAll, List.foldl_append]

private theorem run_state (f : K → P → V) (deps : K → List K) (ks : List K) (o : Obj P K V) :
    run f deps ks o = fillAll f (touched deps ks) o := by
  induction ks generalizing o with
  | nil => rfl
  | cons k ks ih =>
    show run f deps ks (access f deps k o).2 = _
    rw [ih, access_state]
    simp [touched, fillAll, List.foldl_append]

/-- No access ever changes the constructor parameters. -/
theorem access_preserves_params (f : K → P → V) (deps : K → List K) (k : K) (o : Obj P K V) :
    (access f deps k o).2.p = o.p := by
  rw [access_state, fillAll_p]

example : (access (fun (_ : Slot) (p : Nat) => p + 1) (fun _ => [Slot.eigval]) .inv
    (fresh 7)).2.p = 7 := by decide

/-- ... nor does any sequence of accesses. -/
theorem run_preserves_params (f : K → P → V) (deps : K → List K) (ks : List K) (o : Obj P K V) :
    (run f deps ks o).p = o.p := by
  rw [run_state, fillAll_p]

example : (run (fun (_ : Slot) (p : Nat) => p + 1) (fun _ => [Slot.eigval]) [.inv, .hash]
    (fresh 7)).p = 7 := by decide

/-- The coherence invariant (every filled slot equals the value determined by the parameters) is
preserved by every access, hence by every sequence of accesses. -/
theorem coherence_preserved (f : K → P → V) (deps : K → List K) (ks : List K) (o : Obj P K V)
    (h : Coherent f o) : Coherent f (run f deps ks o) := by
  intro k v hv
  rw [run_state, fillAll_cache] at hv
  rw [run_state, fillAll_p]
  cases hc : o.cache k with
  | some w =>
    rw [hc] at hv
    simp only [Option.some.injEq] at hv
    subst hv; exact h k w hc
  | none =>
    rw [hc] at hv
    by_cases hm : k ∈ touched deps ks
    · simp only [hm, if_true, Option.some.injEq] at hv; exact hv.symm
    · simp [hm] at hv

/-- A freshly constructed object is coherent, so the hypothesis above is satisfiable. -/
example (f : Slot → Nat → Nat) (p : Nat) : Coherent f (fresh p : Obj Nat Slot Nat) := by
  intro k v h; simp [fresh] at h

/-- `lazy_order_irrelevant`: the value returned by an access of `k` after ANY sequence of prior
accesses of a coherent object is `f k p` — a function of the parameters only; which other
attributes were computed first, and in which order, is irrelevant. -/
theorem lazy_order_irrelevant (f : K → P → V) (deps : K → List K) (ks : List K) (k : K)
    (o : Obj P K V) (h : Coherent f o) :
    (access f deps k (run f deps ks o)).1 = f k o.p := by
  have hco := coherence_preserved f deps ks o h
  have hp : (run f deps ks o).p = o.p := run_preserves_params f deps ks o
  have hco' : Coherent f (access f deps k (run f deps ks o)).2 := by
    have := coherence_preserved f deps [k] (run f deps ks o) hco
    simpa [run] using this
  have hp' : (access f deps k (run f deps ks o)).2.p = o.p := by
    rw [access_preserves_params f deps k (run f deps ks o), hp]
  show ((access f deps k (run f deps ks o)).2.cache k).getD (f k (access f deps k (run f deps ks o)).2.p) = _
  cases hc : (access f deps k (run f deps ks o)).2.cache k with
  | some v => simp only [Option.getD_some]; rw [hco' k v hc, hp']
  | none => simp only [Option.getD_none]; rw [hp']

example : (access (fun (k : Slot) (p : Nat) => if k = .inv then p * 2 else p) (fun _ => [.luAndPiv])
    .inv (run (fun (k : Slot) (p : Nat) => if k = .inv then p * 2 else p) (fun _ => [.luAndPiv])
      [.hash, .transpose, .inv, .array] (fresh 21))).1 = 42 := by decide

/-- In particular two accesses of the same attribute, with anything in between, agree. -/
theorem repeated_access_same (f : K → P → V) (deps : K → List K) (ks ks' : List K) (k : K)
    (o : Obj P K V) (h : Coherent f o) :
    (access f deps k (run f deps ks o)).1 = (access f deps k (run f deps (ks ++ k :: ks') o)).1 := by
  rw [lazy_order_irrelevant f deps ks k o h, lazy_order_irrelevant f deps _ k o h]

/-- The cache state after a sequence of accesses: a slot that was filled keeps its value, an
empty slot is filled with `f k p` exactly if it was touched. -/
theorem run_cache_state (f : K → P → V) (deps : K → List K) (ks : List K) (o : Obj P K V) (j : K) :
    (run f deps ks o).cache j =
      match o.cache j with
      | some v => some v
      | none => if j ∈ touched deps ks then some (f j o.p) else none := by
  rw [run_state, fillAll_cache]

example : (run (fun (_ : Slot) (p : Nat) => p) (fun k => if k = .inv then [.luAndPiv] else [])
    [.inv] (fresh 5)).cache .luAndPiv = some 5 := by decide

/-- Two access sequences that are permutations of each other (more generally: that touch the same
set of slots) end in the same object state. -/
theorem perm_same_state (f : K → P → V) (deps : K → List K) (ks ks' : List K) (o : Obj P K V)
    (h : ks.Perm ks') : run f deps ks o = run f deps ks' o := by
  have hm : ∀ j, j ∈ touched deps ks ↔ j ∈ touched deps ks' := by
    intro j
    simp only [touched, List.mem_flatMap]
    constructor
    · rintro ⟨k, hk, hj⟩; exact ⟨k, h.mem_iff.mp hk, hj⟩
    · rintro ⟨k, hk, hj⟩; exact ⟨k, h.mem_iff.mpr hk, hj⟩
  have hc : (run f deps ks o).cache = (run f deps ks' o).cache := by
    funext j
    rw [run_cache_state, run_cache_state]
    cases o.cache j with
    | some v => rfl
    | none => simp only [hm j]
  have hp : (run f deps ks o).p = (run f deps ks' o).p := by
    rw [run_preserves_params, run_preserves_params]
  cases h1 : run f deps ks o with
  | mk p1 c1 =>
    cases h2 : run f deps ks' o with
    | mk p2 c2 =>
      rw [h1, h2] at hc hp
      simp only at hc hp
      subst hc; subst hp; rfl

example : run (fun (_ : Slot) (p : Nat) => p) (fun _ => []) [.inv, .hash] (fresh 1)
    = run (fun (_ : Slot) (p : Nat) => p) (fun _ => []) [.hash, .inv] (fresh 1) :=
  perm_same_state _ _ _ _ _ (List.Perm.swap _ _ _)

end Cache

end MiciVerif.C19
