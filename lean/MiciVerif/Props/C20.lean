/-
C20 — Log-space arithmetic matches real arithmetic.

Property theorems only.  Model: `Model/LogRep.lean` (the code of `mici/utils.py`, polymorphic in
the primitives); semantics: `Lemmas/LogRepReal.lean` (`realPrims g`: Python/IEEE meaning of the
primitives on the reals without rounding; `g = true` additionally makes a primitive raise
when it is called outside the range the stable formulas are designed for).

Every "value" theorem is stated for *both* semantics at once (`∀ g`): at `g = false` it says
the branch taken computes the ideal function, at `g = true` it is the **range lemma** — no
`exp` call has a positive argument (no overflow), `log1p` is only called with an argument
`≥ -1/2`, `expm1` only on `(-log 2, 0)` — because an out-of-range call would make the result
`err`.  Floating-point rounding is outside these theorems (validated by the harness against
a 60-digit oracle).
-/
import MiciVerif.Lemmas.LogRepReal

namespace MiciVerif.C20
open MiciVerif.LogRep MiciVerif.LogRep.XReal

/-! ## The four helper functions on finite arguments -/

/-- `log1p_exp(v) = log(1 + e^v)` for every real `v`, on both branches, with every primitive
called inside its range. -/
theorem log1pExp_eq (g : Bool) (v : ℝ) :
    log1pExp (realPrims g) (.fin v) = .fin (Real.log (1 + Real.exp v)) := by
  unfold log1pExp
  by_cases hv : 0 < v
  · have e1 : XReal.exp g (XReal.neg (.fin v)) = .fin (Real.exp (-v)) :=
      exp_fin_nonpos g (by linarith)
    have e2 : XReal.log1p g (.fin (Real.exp (-v))) = .fin (Real.log (1 + Real.exp (-v))) :=
      log1p_fin g (by have := Real.exp_pos (-v); linarith)
    simp only [realPrims, XReal.lt, hv, decide_true, if_true, e1, e2, XReal.add,
      log1p_exp_pos_branch]
  · have e1 : XReal.exp g (.fin v) = .fin (Real.exp v) := exp_fin_nonpos g (not_lt.mp hv)
    have e2 : XReal.log1p g (.fin (Real.exp v)) = .fin (Real.log (1 + Real.exp v)) :=
      log1p_fin g (by have := Real.exp_pos v; linarith)
    simp only [realPrims, XReal.lt, hv, decide_false, Bool.false_eq_true, if_false, e1, e2]

example : log1pExp (realPrims true) (.fin 700) = .fin (Real.log (1 + Real.exp 700)) :=
  log1pExp_eq true 700

/-- `log1m_exp(v) = log(1 − e^v)` for every `v < 0`: the `expm1` branch is taken exactly on
`(-log 2, 0)` and the `log1p` branch on `(-∞, -log 2]`, where its argument `−e^v ≥ −1/2`. -/
theorem log1mExp_eq (g : Bool) (v : ℝ) (hv : v < 0) :
    log1mExp (realPrims g) (.fin v) = .fin (Real.log (1 - Real.exp v)) := by
  unfold log1mExp
  have h0 : ¬ (0 ≤ v) := not_le.mpr hv
  by_cases hb : -(Real.log 2) < v
  · have e1 : XReal.expm1 g (.fin v) = .fin (Real.exp v - 1) := expm1_fin g hb hv
    have hpos : 0 < -(Real.exp v - 1) := by have := exp_lt_one_of_neg hv; linarith
    have e2 : XReal.log (.fin (-(Real.exp v - 1))) = .fin (Real.log (-(Real.exp v - 1))) :=
      log_fin_pos hpos
    simp only [realPrims, XReal.le, XReal.lt, XReal.neg, h0, hb, decide_false, decide_true,
      Bool.false_eq_true, if_false, if_true, e1, e2]
    congr 2; ring
  · have e1 : XReal.exp g (.fin v) = .fin (Real.exp v) := exp_fin_nonpos g hv.le
    have e2 : XReal.log1p g (.fin (-(Real.exp v))) = .fin (Real.log (1 + -(Real.exp v))) :=
      log1p_fin g (by have := exp_le_half (not_lt.mp hb); linarith)
    simp only [realPrims, XReal.le, XReal.lt, XReal.neg, h0, hb, decide_false,
      Bool.false_eq_true, if_false, e1, e2]
    congr 2

example : log1mExp (realPrims true) (.fin (-1 / 10 ^ 20))
    = .fin (Real.log (1 - Real.exp (-1 / 10 ^ 20))) :=
  log1mExp_eq true _ (by norm_num)

/-- `log1m_exp(v)` is `nan` (not an exception) for `v ≥ 0`, where `1 − e^v ≤ 0`. -/
theorem log1mExp_nonneg (g : Bool) (v : ℝ) (hv : 0 ≤ v) :
    log1mExp (realPrims g) (.fin v) = .nan := by
  simp [log1mExp, realPrims, XReal.le, hv]

example : log1mExp (realPrims true) (.fin 0) = .nan := log1mExp_nonneg true 0 le_rfl

/-- **What the range lemma rules out**: with the guard as it was before the fix
(`val > LOG_2`) the `expm1` branch is dead, and on all of `(-log 2, 0)` `log1p` is called with
an argument below `-1/2` (down to `-1`, where the float code loses all precision and finally
raises `ValueError`). -/
theorem old_guard_out_of_range (v : ℝ) (h1 : -(Real.log 2) < v) (h2 : v < 0) :
    log1mExpOld (realPrims true) (.fin v) = .err ∧
    log1mExp (realPrims true) (.fin v) ≠ .err := by
  constructor
  · unfold log1mExpOld
    have h0 : ¬ (0 ≤ v) := not_le.mpr h2
    have hl : ¬ (Real.log 2 < v) := by have := log_two_pos; linarith
    have e1 : XReal.exp true (.fin v) = .fin (Real.exp v) := exp_fin_nonpos true h2.le
    have hhalf := half_lt_exp h1
    have hlt1 := exp_lt_one_of_neg h2
    have e2 : XReal.log1p true (.fin (-(Real.exp v))) = .err := by
      have a1 : -1 < -(Real.exp v) := by linarith
      have a2 : -(Real.exp v) < -(1 / 2) := by linarith
      simp only [XReal.log1p, a1, if_true, a2, and_self]
    simp only [realPrims, XReal.le, XReal.lt, XReal.neg, h0, hl, decide_false,
      Bool.false_eq_true, if_false, e1, e2]
  · rw [log1mExp_eq true v h2]; exact fun h => by cases h

example : log1mExpOld (realPrims true) (.fin (-(Real.log 2) / 2)) = .err :=
  (old_guard_out_of_range (-(Real.log 2) / 2) (by have := log_two_pos; linarith)
    (by have := log_two_pos; linarith)).1

/-- `log_sum_exp(a, b) = log(e^a + e^b)` for all reals, whichever argument is the pivot. -/
theorem logSumExp_eq (g : Bool) (a b : ℝ) :
    logSumExp (realPrims g) (.fin a) (.fin b) = .fin (Real.log (Real.exp a + Real.exp b)) := by
  unfold logSumExp
  have hs1 : (realPrims g).sub (.fin b) (.fin a) = .fin (b - a) := by
    simp [realPrims, XReal.sub, XReal.neg, XReal.add, sub_eq_add_neg]
  have hs2 : (realPrims g).sub (.fin a) (.fin b) = .fin (a - b) := by
    simp [realPrims, XReal.sub, XReal.neg, XReal.add, sub_eq_add_neg]
  have hne : (realPrims g).eq (.fin a) (realPrims g).negInf = false := by simp [realPrims, XReal.beq]
  rw [hne, Bool.false_and, hs1, hs2, log1pExp_eq, log1pExp_eq]
  by_cases h : b < a
  · simp only [realPrims, XReal.lt, h, decide_true, if_true, XReal.add, Bool.false_eq_true,
      if_false, log_sum_exp_branch]
  · simp only [realPrims, XReal.lt, h, decide_false, Bool.false_eq_true, if_false, XReal.add,
      log_sum_exp_branch, add_comm (Real.exp b)]

example : logSumExp (realPrims true) (.fin 1000) (.fin (-1000))
    = .fin (Real.log (Real.exp 1000 + Real.exp (-1000))) := logSumExp_eq true _ _

/-- `log_diff_exp(a, b)`: `log(e^a − e^b)` for `b < a`, `-inf` (not NaN) for `a = b`, `nan` for
`a < b`; no exception in any case. -/
theorem logDiffExp_eq (g : Bool) (a b : ℝ) :
    logDiffExp (realPrims g) (.fin a) (.fin b) =
      if b < a then .fin (Real.log (Real.exp a - Real.exp b))
      else if a = b then .negInf else .nan := by
  unfold logDiffExp
  have hne : (realPrims g).eq (.fin a) (realPrims g).negInf = false := by simp [realPrims, XReal.beq]
  rw [hne, Bool.false_and]
  by_cases h : b < a
  · have hs : (realPrims g).sub (.fin b) (.fin a) = .fin (b - a) := by
      simp [realPrims, XReal.sub, XReal.neg, XReal.add, sub_eq_add_neg]
    have hlt : ¬ (a < b) := not_lt.mpr h.le
    have hneq : ¬ (a = b) := h.ne'
    rw [hs, log1mExp_eq g (b - a) (by linarith)]
    simp only [realPrims, XReal.lt, XReal.beq, hlt, hneq, decide_false, Bool.false_eq_true,
      if_false, XReal.add, h, if_true, log_diff_exp_branch a b h]
  · by_cases he : a = b
    · subst he
      simp [realPrims, XReal.lt, XReal.beq]
    · have hlt : a < b := lt_of_le_of_ne (not_lt.mp h) he
      simp [realPrims, XReal.lt, hlt, h, he]

example : logDiffExp (realPrims true) (.fin 3) (.fin 3) = .negInf := by
  rw [logDiffExp_eq]; simp

/-- **No exception and exhaustive guards**: on every pair of finite log-values each helper
returns a number, `-inf` or `nan`, never a raised exception — also under the guarded
semantics (every primitive call in range). -/
theorem no_exception (g : Bool) (a b : ℝ) :
    log1pExp (realPrims g) (.fin a) ≠ .err ∧ log1mExp (realPrims g) (.fin a) ≠ .err ∧
    logSumExp (realPrims g) (.fin a) (.fin b) ≠ .err ∧
    logDiffExp (realPrims g) (.fin a) (.fin b) ≠ .err := by
  refine ⟨?_, ?_, ?_, ?_⟩
  · rw [log1pExp_eq]; exact fun h => by cases h
  · by_cases h : a < 0
    · rw [log1mExp_eq g a h]; exact fun h => by cases h
    · rw [log1mExp_nonneg g a (not_lt.mp h)]; exact fun h => by cases h
  · rw [logSumExp_eq]; exact fun h => by cases h
  · rw [logDiffExp_eq]; split_ifs <;> exact fun h => by cases h

/-! ## Zero weights (`log_val = -inf`) and `LogRepFloat` -/

private theorem log1pExp_negInf (g : Bool) : log1pExp (realPrims g) .negInf = .fin 0 := by
  have e : XReal.log1p g (.fin 0) = .fin (Real.log (1 + 0)) := log1p_fin g (by norm_num)
  simp [log1pExp, realPrims, XReal.lt, XReal.exp, e]

private theorem log1mExp_negInf (g : Bool) : log1mExp (realPrims g) .negInf = .fin 0 := by
  have e : XReal.log1p g (.fin (-0)) = .fin (Real.log (1 + -0)) := log1p_fin g (by norm_num)
  simp only [log1mExp, realPrims, XReal.le, XReal.lt, XReal.neg, XReal.exp, Bool.false_eq_true,
    if_false, e]
  simp

/-- `.val` of the representation of `a ≥ 0` is `a` (`exp(-inf) = 0`). -/
theorem val_toLog (a : ℝ) (ha : 0 ≤ a) : (toLog a).val (realPrims false) = .fin a := by
  rcases ha.eq_or_lt with h | h
  · subst h; simp [toLog, LogRepF.val, realPrims, XReal.exp]
  · simp [toLog_pos h, LogRepF.val, realPrims, XReal.exp, Real.exp_log h]

/-- The constructor `LogRepFloat(val)` builds the representation for `val ≥ 0` and raises
for negative values. -/
theorem ofVal_eq (g : Bool) (a : ℝ) :
    LogRepF.ofVal (realPrims g) (.fin a) = if 0 ≤ a then toLog a else ⟨.err⟩ := by
  unfold LogRepF.ofVal
  rcases lt_trichotomy 0 a with h | h | h
  · simp [realPrims, XReal.lt, h, h.le, toLog_pos h, log_fin_pos h]
  · subst h; simp [realPrims, XReal.lt, XReal.beq, toLog_zero]
  · have h1 : ¬ (0 < a) := not_lt.mpr h.le
    have h2 : ¬ (0 ≤ a) := not_le.mpr h
    simp [realPrims, XReal.lt, XReal.beq, h1, h2, h.ne]

/-- **Addition**: `log_sum_exp` of the representations of `a, b ≥ 0` is the representation of
`a + b`, also when one or both weights are zero (`-inf`), with all calls in range. -/
theorem logSumExp_toLog (g : Bool) (a b : ℝ) (ha : 0 ≤ a) (hb : 0 ≤ b) :
    (⟨logSumExp (realPrims g) (toLog a).logVal (toLog b).logVal⟩ : LogRepF XReal)
      = toLog (a + b) := by
  rcases ha.eq_or_lt with h | h <;> rcases hb.eq_or_lt with h' | h'
  · subst h h'; simp [toLog, logSumExp, realPrims, XReal.beq]
  · subst h
    have hs : (realPrims g).sub .negInf (.fin (Real.log b)) = .negInf := by
      simp [realPrims, XReal.sub, XReal.neg, XReal.add]
    simp only [toLog_zero, toLog_pos h', zero_add, logSumExp]
    rw [hs, log1pExp_negInf]
    simp [realPrims, XReal.beq, XReal.lt, XReal.add]
  · subst h'
    have hs : (realPrims g).sub .negInf (.fin (Real.log a)) = .negInf := by
      simp [realPrims, XReal.sub, XReal.neg, XReal.add]
    simp only [toLog_zero, toLog_pos h, add_zero, logSumExp]
    have hlt : (realPrims g).lt .negInf (.fin (Real.log a)) = true := by simp [realPrims, XReal.lt]
    rw [hlt, hs, log1pExp_negInf]
    simp [realPrims, XReal.beq, XReal.add]
  · rw [toLog_pos h, toLog_pos h', toLog_pos (by linarith : 0 < a + b)]
    simp only [logSumExp_eq, Real.exp_log h, Real.exp_log h']

example : (⟨logSumExp (realPrims true) (toLog 0).logVal (toLog 3).logVal⟩ : LogRepF XReal)
    = toLog (0 + 3) := logSumExp_toLog true 0 3 le_rfl (by norm_num)

/-- **Subtraction** `a − b` for `a ≥ b ≥ 0`: the representation of `a − b`; for `a = b`
(including `0 − 0`) it is the zero weight `-inf`, not NaN. -/
theorem logDiffExp_toLog (g : Bool) (a b : ℝ) (hb : 0 ≤ b) (hab : b ≤ a) :
    (⟨logDiffExp (realPrims g) (toLog a).logVal (toLog b).logVal⟩ : LogRepF XReal)
      = toLog (a - b) := by
  rcases hab.eq_or_lt with h | h
  · subst h
    rcases hb.eq_or_lt with h' | h'
    · subst h'; simp [toLog, logDiffExp, realPrims, XReal.beq]
    · rw [toLog_pos h', sub_self, toLog_zero, logDiffExp_eq]; simp
  · have ha : 0 < a := lt_of_le_of_lt hb h
    rcases hb.eq_or_lt with h' | h'
    · subst h'
      have hs : (realPrims g).sub .negInf (.fin (Real.log a)) = .negInf := by
        simp [realPrims, XReal.sub, XReal.neg, XReal.add]
      simp only [toLog_zero, toLog_pos ha, sub_zero, logDiffExp]
      rw [hs, log1mExp_negInf]
      simp [realPrims, XReal.beq, XReal.lt, XReal.add]
    · have hlog : Real.log b < Real.log a := Real.log_lt_log h' h
      rw [toLog_pos ha, toLog_pos h', toLog_pos (by linarith : 0 < a - b), logDiffExp_eq]
      simp only [hlog, if_true, Real.exp_log ha, Real.exp_log h']

example : (⟨logDiffExp (realPrims true) (toLog 5).logVal (toLog 5).logVal⟩ : LogRepF XReal)
    = toLog (5 - 5) := logDiffExp_toLog true 5 5 (by norm_num) le_rfl

/-- The `LogRepFloat` operators between two representations agree with real arithmetic on
the represented values: `+`, `*`, `/` (positive divisor), `-` (to a `LogRepFloat` when the
result is non-negative, to the plain difference otherwise). -/
theorem operators_agree (a b : ℝ) (ha : 0 ≤ a) (hb : 0 ≤ b) :
    (toLog a).add (realPrims false) (.rep (toLog b)) = .rep (toLog (a + b)) ∧
    (toLog a).mul (realPrims false) (.rep (toLog b)) = .rep (toLog (a * b)) ∧
    (0 < b → (toLog a).div (realPrims false) (.rep (toLog b)) = .rep (toLog (a / b))) ∧
    (b ≤ a → (toLog a).sub (realPrims false) (.rep (toLog b)) = .rep (toLog (a - b))) ∧
    (a < b → (toLog a).sub (realPrims false) (.rep (toLog b)) = .plain (.fin (a - b))) := by
  refine ⟨?_, ?_, ?_, ?_, ?_⟩
  · simp only [LogRepF.add]; rw [logSumExp_toLog false a b ha hb]
  · simp only [LogRepF.mul]
    rcases ha.eq_or_lt with h | h <;> rcases hb.eq_or_lt with h' | h'
    · subst h h'; simp [toLog, realPrims, XReal.add]
    · subst h; simp [toLog, h'.ne', realPrims, XReal.add]
    · subst h'; simp [toLog, h.ne', realPrims, XReal.add]
    · rw [toLog_pos h, toLog_pos h', toLog_pos (mul_pos h h')]
      simp [realPrims, XReal.add, Real.log_mul h.ne' h'.ne']
  · intro hb'
    simp only [LogRepF.div]
    rcases ha.eq_or_lt with h | h
    · subst h; simp [toLog, hb'.ne', realPrims, XReal.sub, XReal.neg, XReal.add]
    · rw [toLog_pos h, toLog_pos hb', toLog_pos (div_pos h hb')]
      simp [realPrims, XReal.sub, XReal.neg, XReal.add, Real.log_div h.ne' hb'.ne',
        sub_eq_add_neg]
  · intro hab
    have hle : (realPrims false).le (toLog b).logVal (toLog a).logVal = true := by
      rcases hb.eq_or_lt with h' | h'
      · subst h'
        rcases ha.eq_or_lt with h | h
        · subst h; simp [toLog, realPrims, XReal.le]
        · simp [toLog, h.ne', realPrims, XReal.le]
      · have h : 0 < a := lt_of_lt_of_le h' hab
        simp [toLog_pos h, toLog_pos h', realPrims, XReal.le, Real.log_le_log_iff h' h, hab]
    simp only [LogRepF.sub, hle, if_true]
    rw [logDiffExp_toLog false a b hb hab]
  · intro hab
    have hb' : 0 < b := lt_of_le_of_lt ha hab
    have hle : (realPrims false).le (toLog b).logVal (toLog a).logVal = false := by
      rcases ha.eq_or_lt with h | h
      · subst h; simp [toLog, hb'.ne', realPrims, XReal.le]
      · simp [toLog_pos h, toLog_pos hb', realPrims, XReal.le, Real.log_le_log_iff hb' h, hab]
    simp only [LogRepF.sub, hle, Bool.false_eq_true, if_false, val_toLog a ha, val_toLog b hb]
    simp [realPrims, XReal.sub, XReal.neg, XReal.add, sub_eq_add_neg]

example : (toLog 2).mul (realPrims false) (.rep (toLog 0)) = .rep (toLog (2 * 0)) :=
  (operators_agree 2 0 (by norm_num) le_rfl).2.1

/-- Mixed operators with a plain number act on the plain value `a`. -/
theorem mixed_operators_agree (a x : ℝ) (ha : 0 ≤ a) :
    (toLog a).add (realPrims false) (.plain (.fin x)) = .plain (.fin (a + x)) ∧
    (toLog a).sub (realPrims false) (.plain (.fin x)) = .plain (.fin (a - x)) ∧
    (toLog a).rsub (realPrims false) (.fin x) = .fin (x - a) ∧
    (toLog a).mul (realPrims false) (.plain (.fin x)) = .plain (.fin (a * x)) ∧
    (x ≠ 0 → (toLog a).div (realPrims false) (.plain (.fin x)) = .plain (.fin (a / x))) ∧
    (0 < a → (toLog a).rdiv (realPrims false) (.fin x) = .fin (x / a)) ∧
    (toLog a).neg (realPrims false) = .fin (-a) := by
  have hv := val_toLog a ha
  refine ⟨?_, ?_, ?_, ?_, ?_, ?_, ?_⟩
  · simp only [LogRepF.add, hv]; simp [realPrims, XReal.add]
  · simp only [LogRepF.sub, hv]
    simp [realPrims, XReal.sub, XReal.neg, XReal.add, sub_eq_add_neg]
  · simp only [LogRepF.rsub, LogRepF.neg, hv]
    simp [realPrims, XReal.neg, XReal.add, sub_eq_add_neg]
  · simp only [LogRepF.mul, hv]; simp [realPrims, XReal.mul]
  · intro hx; simp only [LogRepF.div, hv]; simp [realPrims, XReal.div, hx]
  · intro h; simp only [LogRepF.rdiv, hv]; simp [realPrims, XReal.div, h.ne']
  · simp only [LogRepF.neg, hv]; simp [realPrims, XReal.neg]

/-- **In-place addition** `x += o`: the representation of the sum, for a `LogRepFloat` operand
(also a zero weight) and for a plain `o ≥ 0` (`0` is skipped, `o > 0` converted with `log`). -/
theorem iadd_agrees (a b : ℝ) (ha : 0 ≤ a) (hb : 0 ≤ b) :
    (toLog a).iadd (realPrims false) (.rep (toLog b)) = toLog (a + b) ∧
    (toLog a).iadd (realPrims false) (.plain (.fin b)) = toLog (a + b) := by
  constructor
  · exact logSumExp_toLog false a b ha hb
  · unfold LogRepF.iadd
    rcases hb.eq_or_lt with h | h
    · subst h; simp [realPrims, XReal.beq]
    · have : (realPrims false).eq (.fin b) (realPrims false).zero = false := by
        simp [realPrims, XReal.beq, h.ne']
      simp only [this, Bool.false_eq_true, if_false]
      have hl : (realPrims false).log (.fin b) = (toLog b).logVal := by
        simp [realPrims, log_fin_pos h, toLog_pos h]
      rw [hl]
      exact logSumExp_toLog false a b ha hb

example : (toLog 2).iadd (realPrims false) (.plain (.fin 0)) = toLog (2 + 0) :=
  (iadd_agrees 2 0 (by norm_num) le_rfl).2

/-- **Comparisons are order-isomorphic**: the six comparison operators on representations
decide the corresponding relation between the represented values (`log` is strictly
monotone, `-inf` is below every finite log-value). -/
theorem comparisons_agree (a b : ℝ) (ha : 0 ≤ a) (hb : 0 ≤ b) :
    (toLog a).lt (realPrims false) (.rep (toLog b)) = decide (a < b) ∧
    (toLog a).gt (realPrims false) (.rep (toLog b)) = decide (b < a) ∧
    (toLog a).le (realPrims false) (.rep (toLog b)) = decide (a ≤ b) ∧
    (toLog a).ge (realPrims false) (.rep (toLog b)) = decide (b ≤ a) ∧
    (toLog a).beq (realPrims false) (.rep (toLog b)) = decide (a = b) ∧
    (toLog a).bne (realPrims false) (.rep (toLog b)) = decide (a ≠ b) := by
  have key : ∀ (a b : ℝ), 0 ≤ a → 0 ≤ b →
      XReal.lt (toLog a).logVal (toLog b).logVal = decide (a < b) ∧
      XReal.le (toLog a).logVal (toLog b).logVal = decide (a ≤ b) ∧
      XReal.beq (toLog a).logVal (toLog b).logVal = decide (a = b) := by
    intro a b ha hb
    rcases ha.eq_or_lt with h | h <;> rcases hb.eq_or_lt with h' | h'
    · subst h h'; simp [toLog, XReal.lt, XReal.le, XReal.beq]
    · subst h; simp [toLog, h'.ne', XReal.lt, XReal.le, XReal.beq, h', h'.le, h'.ne]
    · subst h'
      have n1 : ¬ (a < 0) := not_lt.mpr h.le
      have n2 : ¬ (a ≤ 0) := not_le.mpr h
      simp [toLog, h.ne', XReal.lt, XReal.le, XReal.beq, n1, n2]
    · simp only [toLog_pos h, toLog_pos h', XReal.lt, XReal.le, XReal.beq,
        Real.log_lt_log_iff h h', Real.log_le_log_iff h h']
      refine ⟨trivial, trivial, ?_⟩
      congr 1
      exact propext ⟨fun e => Real.log_injOn_pos (Set.mem_Ioi.mpr h) (Set.mem_Ioi.mpr h') e,
        fun e => by rw [e]⟩
  obtain ⟨k1, k2, k3⟩ := key a b ha hb
  obtain ⟨k1', k2', _⟩ := key b a hb ha
  refine ⟨k1, k1', k2, k2', k3, ?_⟩
  simp only [LogRepF.bne, LogRepF.beq, realPrims, k3]
  by_cases h : a = b <;> simp [h]

example : (toLog 0).lt (realPrims false) (.rep (toLog 3)) = true := by
  rw [(comparisons_agree 0 3 le_rfl (by norm_num)).1]; simp

/-- The acceptance ratio `min(num / den, 1)` of the multinomial transition
(`transitions.py:799-804`) represents `min(a / b, 1)` for weights `a ≥ 0`, `b > 0`. -/
theorem weightRatio_agrees (a b : ℝ) (ha : 0 ≤ a) (hb : 0 < b) :
    weightRatio (realPrims false) (.fin 1) (toLog a) (toLog b) =
      if 1 < a / b then .plain (.fin 1) else .rep (toLog (a / b)) := by
  have hd := (operators_agree a b ha hb.le).2.2.1 hb
  unfold weightRatio
  rw [hd]
  have hq : 0 ≤ a / b := div_nonneg ha hb.le
  have hv := val_toLog (a / b) hq
  simp only [LogRepF.gt, hv]
  by_cases h : 1 < a / b <;> simp [realPrims, XReal.lt, h]

example : weightRatio (realPrims false) (.fin 1) (toLog 6) (toLog 3) = .plain (.fin 1) := by
  rw [weightRatio_agrees 6 3 (by norm_num) (by norm_num)]; norm_num

/-- Mixed comparisons (`LogRepFloat` against a plain number `x`) compare the plain value
`exp(log_val)` with `x` (in floating point: `exp(log_val)` rounded to a double, so a value
that underflows compares like `0.0` and one that overflows like `inf` — intended, see
`tests/test_utils.py`). -/
theorem mixed_comparisons_agree (a x : ℝ) (ha : 0 ≤ a) :
    (toLog a).lt (realPrims false) (.plain (.fin x)) = decide (a < x) ∧
    (toLog a).gt (realPrims false) (.plain (.fin x)) = decide (x < a) ∧
    (toLog a).le (realPrims false) (.plain (.fin x)) = decide (a ≤ x) ∧
    (toLog a).ge (realPrims false) (.plain (.fin x)) = decide (x ≤ a) ∧
    (toLog a).beq (realPrims false) (.plain (.fin x)) = decide (a = x) ∧
    (toLog a).bne (realPrims false) (.plain (.fin x)) = decide (a ≠ x) := by
  have hv := val_toLog a ha
  refine ⟨?_, ?_, ?_, ?_, ?_, ?_⟩
  · simp only [LogRepF.lt, hv]; simp [realPrims, XReal.lt]
  · simp only [LogRepF.gt, hv]; simp [realPrims, XReal.lt]
  · simp only [LogRepF.le, hv]; simp [realPrims, XReal.le]
  · simp only [LogRepF.ge, hv]; simp [realPrims, XReal.le]
  · simp only [LogRepF.beq, hv]; simp [realPrims, XReal.beq]
  · simp only [LogRepF.bne, LogRepF.beq, hv]; simp [realPrims, XReal.beq]

example : (toLog 0).beq (realPrims false) (.plain (.fin 0)) = true := by
  rw [(mixed_comparisons_agree 0 0 le_rfl).2.2.2.2.1]; simp

end MiciVerif.C20
