/-
C09 — tie of `Model/Cache.lean` to the *source text* of the caching machinery (`src/mici/states.py`).

`Generated/StateSkeleton.lean` is regenerated from `src/mici/states.py` of the tree under test on
every run (`tools/extractors/state_skeleton.py`).  The theorems below are re-checked by the kernel
against the regenerated trees:

* `skel_…_eq_model`: the generated tree of a function is exactly the tree `Model/Cache.lean` was
  written against (`Skel.StateExpected.*`, annotated node by node in `Model/StateSkeleton.lean`);
* the other `skel_…` theorems re-derive, by queries on the generated trees only, the individual
  facts the model's definitions use (they localise a change: see the name of the broken one);
* `sem_…`: the reading `Skel.StateSem` of the generated bodies as operations on the model's heap is
  `Cache.wrapM` (both decorators) and `Cache.step` for `assign`, the `__setattr__` half of
  `assignIP`, `fresh`, `copy`, `pickle` — for every heap, state, system object, table entry.
  (`Props/C18S.lean` holds the facts about the cost side: recompute condition, call counting,
  auxiliary values, what a copy keeps.)
-/
import MiciVerif.Lemmas.StateSkeletonGen

namespace MiciVerif.C09S
open MiciVerif.Skel
open MiciVerif.Generated
open MiciVerif.Cache
open MiciVerif.StateSkel

/-! ### the generated trees are the expected ones -/

/-- Nothing in the ten translated functions is outside the translated subset; the statements the
extractor dropped are exactly the two message-text assignments; `states.py` defines no further
decorator / key function and `ChainState` has exactly the listed members and no base class (no
`__copy__`, `__deepcopy__`, `__reduce__`, `__delattr__` … that would bypass the modelled operations). -/
theorem skel_state_understood :
    ([StateSkeleton.cacheKeyFunc, StateSkeleton.cacheInState, StateSkeleton.cacheInStateWithAux,
      StateSkeleton.init, StateSkeleton.getattr, StateSkeleton.setattr, StateSkeleton.contains,
      StateSkeleton.copy, StateSkeleton.getstate, StateSkeleton.setstate].all S.known = true)
    ∧ StateSkeleton.dropped = StateExpected.dropped
    ∧ StateSkeleton.moduleMembers = StateExpected.moduleMembers
    ∧ StateSkeleton.chainStateMembers = StateExpected.chainStateMembers
    ∧ StateSkeleton.chainStateBases = StateExpected.chainStateBases := by
  decide +kernel

/-- `_cache_key_func` (model: `Cache.Key`). -/
theorem skel_cache_key_func_eq_model :
    StateSkeleton.cacheKeyFuncSig = StateExpected.cacheKeyFuncSig
    ∧ StateSkeleton.cacheKeyFunc = StateExpected.cacheKeyFunc := by
  decide +kernel

/-- `cache_in_state` with its nested decorator and wrapper (model: `Cache.wrapM`, `withAux = false`). -/
theorem skel_cache_in_state_eq_model :
    StateSkeleton.cacheInStateSig = StateExpected.cacheInStateSig
    ∧ StateSkeleton.cacheInState = StateExpected.cacheInState := by
  decide +kernel

/-- `cache_in_state_with_aux` (model: `Cache.wrapM`, `withAux = true`, `Cache.store`). -/
theorem skel_cache_in_state_with_aux_eq_model :
    StateSkeleton.cacheInStateWithAuxSig = StateExpected.cacheInStateWithAuxSig
    ∧ StateSkeleton.cacheInStateWithAux = StateExpected.cacheInStateWithAux := by
  decide +kernel

/-- `ChainState.__init__` (model: `step .fresh`, and the constructor call inside `step .copy`). -/
theorem skel_init_eq_model :
    StateSkeleton.initSig = StateExpected.initSig ∧ StateSkeleton.init = StateExpected.init := by
  decide +kernel

/-- `ChainState.__getattr__` / `__contains__` (model: reading a variable has no effect on the cache). -/
theorem skel_getattr_eq_model :
    StateSkeleton.getattrSig = StateExpected.getattrSig ∧ StateSkeleton.getattr = StateExpected.getattr
    ∧ StateSkeleton.containsSig = StateExpected.containsSig ∧ StateSkeleton.contains = StateExpected.contains := by
  decide +kernel

/-- `ChainState.__setattr__` (model: `step .assign` / `.assignIP`, `Cache.invalidate`). -/
theorem skel_setattr_eq_model :
    StateSkeleton.setattrSig = StateExpected.setattrSig ∧ StateSkeleton.setattr = StateExpected.setattr := by
  decide +kernel

/-- `ChainState.copy` (model: `step .copy`). -/
theorem skel_copy_eq_model :
    StateSkeleton.copySig = StateExpected.copySig ∧ StateSkeleton.copy = StateExpected.copy := by
  decide +kernel

/-- `ChainState.__getstate__` (model: `step .pickle`, what is pickled). -/
theorem skel_getstate_eq_model :
    StateSkeleton.getstateSig = StateExpected.getstateSig ∧ StateSkeleton.getstate = StateExpected.getstate := by
  decide +kernel

/-- `ChainState.__setstate__` (model: `step .pickle`, what is restored; `frozen := readOnly`). -/
theorem skel_setstate_eq_model :
    StateSkeleton.setstateSig = StateExpected.setstateSig ∧ StateSkeleton.setstate = StateExpected.setstate := by
  decide +kernel

/-! ### individual facts, from the generated trees -/

/-- The cache key is (class name of the system object + "." + method NAME, `id(system)`), for the
method being wrapped and — with the strings of `auxiliary_outputs` — for the auxiliary outputs of the
same system object; both wrappers build their keys with `_cache_key_func(self, …)` once, before
anything else (model: `Key = ⟨sys, meth⟩`, `keys := key :: e.aux.map (Key.mk sys)`). -/
theorem skel_key_is_method_and_system_id :
    StateSkeleton.cacheKeyFunc.returns =
      [.tup (E.l [.src "f'{type(system).__name__}.{method}'", .call "id" (E.l [.v "system"])])]
    ∧ StateSkeleton.cacheKeyFunc.stmts.head? =
      some (.ifc (.op "not" (E.l [.call "isinstance" (E.l [.v "method", .v "str"])]))
        (S.b [.assign (.v "method") (.v "method.__name__")]) (S.b []))
    ∧ StateSkeleton.cacheKeyFunc.stmts.length = 2
    ∧ wrapBody.head? = some (.assign (.v "key") (.call "_cache_key_func" (E.l [.v "self", .v "method"])))
    ∧ (assignsTo (.v "key") wrapBody).length = 1
    ∧ auxWrapBody.take 2 =
      [.assign (.v "prim_key") (.call "_cache_key_func" (E.l [.v "self", .v "method"])),
       .assign (.v "keys") (.op "+" (E.l [.lst (E.l [.v "prim_key"]),
         .call "[listcomp]" (E.l [.kw "elt" (.call "_cache_key_func" (E.l [.v "self", .v "a"])), .kw "for" (.v "a"),
                                  .kw "in" (.v "auxiliary_outputs")])]))]
    ∧ (assignsTo (.v "prim_key") auxWrapBody).length = 1
    ∧ (assignsTo (.v "keys") auxWrapBody).length = 1 := by
  decide +kernel

/-- Dependencies are registered only for keys ABSENT from the state's cache, under every declared
variable, by `set.add` on the state's own `_dependencies` dict; it is the only statement of either
decorator that touches `_dependencies`, it runs before the recompute test, and (with-aux) it runs
for every key of `keys`, each guarded by its own absence test
(model: `register`: `… && keys.contains k && (s.cache k).isNone`). -/
theorem skel_deps_registered_only_if_key_absent :
    (wrapBody.filter (S.usesDeep "state._dependencies")) = [StateSem.registerStmt "key"]
    ∧ idx (S.usesDeep "state._dependencies") wrapBody = some 1
    ∧ idx (S.callsDeep "method") wrapBody = some 2
    ∧ (auxWrapBody.filter (S.usesDeep "state._dependencies")) =
      [.loop (.tup (E.l [.v "_i", .v "key"])) (.call "enumerate" (E.l [.v "keys"])) (S.b [StateSem.registerStmt "key"])]
    ∧ idx (S.usesDeep "state._dependencies") auxWrapBody = some 2
    ∧ idx (S.callsDeep "method") auxWrapBody = some 3
    ∧ (StateSkeleton.cacheInState.methCallsOn "state._dependencies" "add").length = 1
    ∧ (StateSkeleton.cacheInStateWithAux.methCallsOn "state._dependencies" "add").length = 1
    ∧ StateSkeleton.cacheInState.writesTo "state._dependencies" = []
    ∧ StateSkeleton.cacheInStateWithAux.writesTo "state._dependencies" = [] := by
  decide +kernel

/-- `__setattr__` tests `_read_only` in its first statement and raises `ReadOnlyStateError` there:
no variable is rebound and no cache entry is touched on a read-only state
(model: `step .assign`: `if s.readOnly then (h, .roError)`). -/
theorem skel_setattr_checks_read_only_first :
    StateSkeleton.setattr.stmts.head? =
      some (.ifc (.v "self._read_only") (S.b [.raise_ (.call "ReadOnlyStateError" (E.l [.v "msg"])) .none]) (S.b []))
    ∧ idx (fun s => s.usesDeep "self._variables" || s.usesDeep "self._cache" || s.usesDeep "self._dependencies")
        StateSkeleton.setattr.stmts = some 1 := by
  decide +kernel

/-- Assigning a state variable sets EVERY key registered under that variable to None, in this
state's cache, unconditionally (no filter, no early exit), right after the rebinding; it is the only
write to `_cache` in `__setattr__` and `_dependencies` is only read
(model: `invalidate h s x = fun k => if h.cells s.cell x k then some none else s.cache k`). -/
theorem skel_setattr_invalidates_all_dependents :
    ((StateSkeleton.setattr.branches (.op "in" (E.l [.v "name", .v "self._variables"]))).map fun tf => (tf.1.stmts, tf.2)) =
      some ([.assign (.sub (.v "self._variables") (.v "name")) (.v "value"),
             .loop (.v "dep") (.sub (.v "self._dependencies") (.v "name"))
               (S.b [.assign (.sub (.v "self._cache") (.v "dep")) .none]),
             .ret .none], S.b [])
    ∧ StateSkeleton.setattr.writesTo "self._cache" = [.assign (.sub (.v "self._cache") (.v "dep")) .none]
    ∧ StateSkeleton.setattr.writesTo "self._dependencies" = []
    ∧ idx (S.usesDeep "self._dependencies") StateSkeleton.setattr.stmts = some 1 := by
  decide +kernel

/-- A copy gets the SAME `_dependencies` dict and the SAME `_call_counts` object as the original
(passed as they are; `__init__` stores a given dict / Counter without copying it)
(model: `step .copy` keeps `cell`; `Res.tr` accumulates over copies). -/
theorem skel_copy_shares_dependencies_and_counts :
    copyArgs.bind (E.kwArg "_dependencies") = some (.v "self._dependencies")
    ∧ copyArgs.bind (E.kwArg "_call_counts") = some (.v "self._call_counts")
    ∧ assignsTo (.sub (.v "self.__dict__") (.s "_dependencies")) StateSkeleton.init.stmts =
      [.assign (.sub (.v "self.__dict__") (.s "_dependencies")) (.v "_dependencies")]
    ∧ ((StateSkeleton.init.all.filter fun | .assign (.v "_dependencies") _ => true | _ => false).length = 1)
    ∧ (StateSkeleton.init.branches (.op "is" (E.l [.v "_dependencies", .none]))).map (fun tf => tf.1.stmts.length) = some 1
    ∧ ((assignsTo (.sub (.v "self.__dict__") (.s "_call_counts")) StateSkeleton.init.stmts).map fun
        | .assign _ (.ite _ _ keep) => keep
        | _ => .unk "") = [.v "_call_counts"] := by
  decide +kernel

/-- A copy gets a NEW dict holding ALL entries of the original's cache (`self._cache.copy()`:
not the dict itself, not a filtered one); `__init__` stores the given dict as it is
(model: `step .copy`: `{ s with … }` keeps `cache`, later stores / invalidations are per state). -/
theorem skel_copy_cache_is_shallow_copy :
    copyArgs.bind (E.kwArg "_cache") = some (.call "self._cache.copy" (E.l []))
    ∧ assignsTo (.sub (.v "self.__dict__") (.s "_cache")) StateSkeleton.init.stmts =
      [.assign (.sub (.v "self.__dict__") (.s "_cache")) (.v "_cache")]
    ∧ (StateSkeleton.init.all.filter fun | .assign (.v "_cache") _ => true | _ => false) =
      [.assign (.v "_cache") (.src "{}")]
    ∧ (StateSkeleton.init.branches (.op "is" (E.l [.v "_cache", .none]))).map (fun tf => tf.1.stmts.length) = some 1
    ∧ StateSkeleton.copy.usesDeep "self._cache" = false := by
  decide +kernel

/-- The variables of a copy are `copy.copy` of the original's; for `read_only=True` these copies (the
ones handed to the constructor) are made non-writeable before the state is built, and the flag is
passed on as `_read_only` (model: `step .copy`: new `arr`, `readOnly := ro, frozen := ro`;
revert `C09-readonly-inplace`). -/
theorem skel_read_only_copy_marks_arrays :
    StateSkeleton.copy.stmts.take 2 =
      [.assign (.v "variables") (.call "{dictcomp}" (E.l [.kw "key" (.v "name"),
          .kw "value" (.call "copy.copy" (E.l [.v "val"])), .kw "for" (.tup (E.l [.v "name", .v "val"])),
          .kw "in" (.call "self._variables.items" (E.l []))])),
       .ifc (.v "read_only") (S.b [StateSem.freezeLoop (.call "variables.values" (E.l []))]) (S.b [])]
    ∧ copyArgs.bind (E.kwArg "_read_only") = some (.v "read_only")
    ∧ (copyArgs.map fun a => a.items.getLast?) = some (some (.kwstar (.v "variables")))
    ∧ StateSkeleton.copy.stmts.length = 3 := by
  decide +kernel

/-- `__getstate__` pickles the cache without the entries whose VALUE is callable and drops nothing
else (entries with value None are kept) (model: `step .pickle`: `if v.callable then none`, `| o => o`). -/
theorem skel_getstate_drops_only_callables :
    StateSkeleton.getstate.returns.map (E.dictEntry "cache") =
      [some (.call "{dictcomp}" (E.l [.kw "key" (.v "k"), .kw "value" (.v "v"), .kw "for" (.tup (E.l [.v "k", .v "v"])),
        .kw "in" (.call "self._cache.items" (E.l [])), .kw "if" (.op "not" (E.l [.call "callable" (E.l [.v "v"])]))]))] := by
  decide +kernel

/-- `__getstate__` is a single `return {…}` that pickles the WHOLE `_dependencies` dict (and the
variables, call counts and read-only flag) as they are: no key is pruned, in particular not the keys
whose cache entry is None or absent — after the round trip an invalidated entry is still registered
(model: `step .pickle`: `cells (h.nCells) := h.cells s.cell`; seeded change `C09-3`). -/
theorem skel_getstate_keeps_dependencies_complete :
    StateSkeleton.getstate.stmts.length = 1
    ∧ StateSkeleton.getstate.returns.map E.dictKeys = [["variables", "dependencies", "cache", "call_counts", "read_only"]]
    ∧ StateSkeleton.getstate.returns.map (E.dictEntry "dependencies") = [some (.v "self._dependencies")]
    ∧ StateSkeleton.getstate.returns.map (E.dictEntry "variables") = [some (.v "self._variables")]
    ∧ StateSkeleton.getstate.returns.map (E.dictEntry "call_counts") = [some (.v "self._call_counts")]
    ∧ StateSkeleton.getstate.returns.map (E.dictEntry "read_only") = [some (.v "self._read_only")] := by
  decide +kernel

/-- `__setstate__` restores each of the five attributes from the entry `__getstate__` filled for it,
each exactly once, writing `self.__dict__` directly (model: `step .pickle`: `{ s with … }`). -/
theorem skel_setstate_restores_all_fields :
    (["_variables", "_dependencies", "_cache", "_call_counts", "_read_only"].map fun a =>
        (assignsTo (.sub (.v "self.__dict__") (.s a)) StateSkeleton.setstate.stmts).map fun
          | .assign _ e => e
          | _ => .unk "") =
      [[.sub (.v "state") (.s "variables")], [.sub (.v "state") (.s "dependencies")], [.sub (.v "state") (.s "cache")],
       [.sub (.v "state") (.s "call_counts")], [.sub (.v "state") (.s "read_only")]]
    ∧ (StateSkeleton.setstate.all.filter fun | .assign _ _ => true | .aug _ _ _ => true | _ => false).length = 5 := by
  decide +kernel

/-- After unpickling a read-only state its arrays are made non-writeable again, as the last step
(model: `step .pickle`: `frozen := s.readOnly`; revert `C09-readonly-inplace`). -/
theorem skel_setstate_refreezes_read_only :
    StateSkeleton.setstate.stmts.getLast? =
      some (.ifc (.sub (.v "state") (.s "read_only"))
        (S.b [StateSem.freezeLoop (.meth (.sub (.v "state") (.s "variables")) "values" (E.l []))]) (S.b [])) := by
  decide +kernel

/-! ### the generated bodies, read as operations on the model's heap, are the model's operations -/

section Semantics
open StateSem

/-- The `wrapper` of `cache_in_state` generated from the current source consists of exactly these
actions, in this order. -/
theorem sem_wrap_plan :
    wrapPlan "key" wrapBody =
      some [.makeKey, .registerIfAbsent, .computeIfAbsentOrNone [.evalAndStore, .count], .returnCached] := by
  decide +kernel

/-- … and the `wrapper` of `cache_in_state_with_aux` of these. -/
theorem sem_aux_wrap_plan :
    wrapPlan "prim_key" auxWrapBody =
      some [.makeKey, .makeKeys, .registerEachIfAbsent,
            .computeIfAbsentOrNone [.eval, .storeZipOrPrimary, .count], .returnCached] := by
  decide +kernel

/-- **Semantic tie of `cache_in_state`.**  The wrapper generated from the current source — each
statement read as the model operation it stands for, executed in source order (`StateSem.wrapPass`)
— is `Cache.wrapM` for a table entry without auxiliary outputs: for every configuration, every
interpretation `call` of the nested `self.m(state)` calls, every entry, state, system object and heap. -/
theorem sem_cache_in_state_is_wrapM (cfg : Cfg) (call : Heap → Nat → Res) (e : Entry) (sid sys : Nat) (h : Heap)
    (he : e.withAux = false) :
    wrapPass "key" wrapBody cfg call e sid sys h = some (wrapM cfg call e sid sys h) :=
  StateSkeletonLemmas.run_plain wrapBody cfg call e sid sys h sem_wrap_plan he

/-- **Semantic tie of `cache_in_state_with_aux`.**  The same for the with-aux wrapper and an entry with
auxiliary outputs: registration of every absent key of `keys`, recomputation decided by the primary
key alone, `zip(keys, vals)` filling the first `1 + cfg.auxRet` keys, one count for the primary key. -/
theorem sem_cache_in_state_with_aux_is_wrapM (cfg : Cfg) (call : Heap → Nat → Res) (e : Entry) (sid sys : Nat)
    (h : Heap) (he : e.withAux = true) :
    wrapPass "prim_key" auxWrapBody cfg call e sid sys h = some (wrapM cfg call e sid sys h) :=
  StateSkeletonLemmas.run_aux auxWrapBody cfg call e sid sys h sem_aux_wrap_plan he

/-- The body of `__setattr__` generated from the current source consists of exactly these actions. -/
theorem sem_setattr_plan :
    setattrPlan StateSkeleton.setattr.stmts =
      some [.raiseIfReadOnly, .ifVariable [.bind, .invalidateDependents, .done], .otherAttribute] := by
  decide +kernel

/-- **Semantic tie of `__setattr__` (rebinding).**  `state.x = <new array>` read from the generated
body is `Cache.step … (.assign sid x)`. -/
theorem sem_setattr_is_assign (tbl : Table) (cfg : Cfg) (h : Heap) (sid : Nat) (x : Var) (hs : sid < h.nSt) :
    setattrPass StateSkeleton.setattr.stmts sid x (bindFresh sid x) h = some (step tbl cfg h (.assign sid x)) :=
  StateSkeletonLemmas.run_assign _ tbl cfg h sid x hs sem_setattr_plan

/-- **Semantic tie of `__setattr__` (after an in-place update).**  `state.x += d` is `ndarray.__iadd__`
(content of the array and of every cached value that is this array changes: `h2` below) followed by
`__setattr__` with the same object; that second half, read from the generated body, gives
`Cache.step … (.assignIP sid x)` on a state whose arrays are writeable. -/
theorem sem_setattr_is_assignIP_tail (tbl : Table) (cfg : Cfg) (h : Heap) (sid : Nat) (x : Var) (hs : sid < h.nSt)
    (hf : (h.st sid).frozen = false) :
    setattrPass StateSkeleton.setattr.stmts sid x id
        (setSt { h with st := fun i => sweepSt ((h.st sid).arr x) x h.nextStamp (h.st i), nextStamp := h.nextStamp + 1 }
          sid (fun s => { s with stamp := upd s.stamp x h.nextStamp })) =
      some (step tbl cfg h (.assignIP sid x)) :=
  StateSkeletonLemmas.run_assignIP _ tbl cfg h sid x hs hf sem_setattr_plan

/-- The bodies of `__init__` and `copy` generated from the current source consist of exactly these actions. -/
theorem sem_init_copy_plan :
    initPlan StateSkeleton.init.stmts =
      some [.setVariables, .defaultDependencies, .setDependencies, .defaultCache, .setCache, .setCallCounts, .setReadOnly]
    ∧ copyPlan StateSkeleton.copy.stmts = some [.copyVariables, .freezeIfReadOnly, .construct] := by
  decide +kernel

/-- **Semantic tie of `__init__`.**  `ChainState(pos=…, mom=…, dir=…)` read from the generated body is
`Cache.step … .fresh`: an own, empty `_dependencies` dict, an empty cache, writable. -/
theorem sem_init_is_fresh (tbl : Table) (cfg : Cfg) (h : Heap) :
    freshPass StateSkeleton.init.stmts h = some (step tbl cfg h .fresh) :=
  StateSkeletonLemmas.run_fresh _ tbl cfg h sem_init_copy_plan.1

/-- **Semantic tie of `copy`.**  `state.copy(read_only=ro)` read from the generated bodies of `copy` and
`__init__` is `Cache.step … (.copy sid ro)`: shared `_dependencies`, same cache entries, new arrays,
frozen iff read-only. -/
theorem sem_copy_is_copy (tbl : Table) (cfg : Cfg) (h : Heap) (sid : Nat) (ro : Bool) (hs : sid < h.nSt) :
    copyPass StateSkeleton.copy.stmts StateSkeleton.init.stmts sid ro h = some (step tbl cfg h (.copy sid ro)) :=
  StateSkeletonLemmas.run_copy _ _ tbl cfg h sid ro hs sem_init_copy_plan.2 sem_init_copy_plan.1

/-- `__getstate__` / `__setstate__` generated from the current source: entries and restores. -/
theorem sem_pickle_plan :
    getstatePlan StateSkeleton.getstate.stmts =
      some [(.variables, .variables), (.dependencies, .dependencies), (.cache, .cacheNonCallable),
            (.callCounts, .callCounts), (.readOnly, .readOnly)]
    ∧ setstatePlan StateSkeleton.setstate.stmts =
      some [.restore .variables .variables, .restore .dependencies .dependencies, .restore .cache .cache,
            .restore .callCounts .callCounts, .restore .readOnly .readOnly, .refreezeIfReadOnly] := by
  decide +kernel

/-- **Semantic tie of pickling.**  `pickle.loads(pickle.dumps(state))` read from the generated bodies of
`__getstate__` and `__setstate__` (the deep copy made by the round trip itself is the trusted part) is
`Cache.step … (.pickle sid)`: the complete `_dependencies` content in a new dict, the cache without
callable values, None entries kept, re-frozen iff read-only. -/
theorem sem_pickle_is_pickle (tbl : Table) (cfg : Cfg) (h : Heap) (sid : Nat) (hs : sid < h.nSt) :
    picklePass StateSkeleton.getstate.stmts StateSkeleton.setstate.stmts sid h = some (step tbl cfg h (.pickle sid)) :=
  StateSkeletonLemmas.run_pickle _ _ tbl cfg h sid hs sem_pickle_plan.1 sem_pickle_plan.2

end Semantics

/-! ### non-vacuity: the queries see the seeded / reverted shapes -/

/-- the reading rejects a wrapper that registers unconditionally -/
example : StateSem.wrapAct? "key" (.loop (.v "dep") (.v "depends_on")
    (S.b [.expr (.meth (.sub (.v "state._dependencies") (.v "dep")) "add" (E.l [.v "key"]))])) = Option.none := by
  decide +kernel

/-- a pruned `dependencies` entry (seed C09-3) is not a recognised source, so `picklePass` is `none` -/
example : StateSem.source? (.call "{dictcomp}" (E.l [.kw "key" (.v "name"),
    .kw "value" (.call "{setcomp}" (E.l [.kw "elt" (.v "key"), .kw "for" (.v "key"), .kw "in" (.v "keys"),
      .kw "if" (.op "is not" (E.l [.call "cache.get" (E.l [.v "key"]), .none]))])),
    .kw "for" (.tup (E.l [.v "name", .v "keys"])), .kw "in" (.call "self._dependencies.items" (E.l []))])) = Option.none := by
  decide +kernel

/-- the hypotheses of the `sem_…` theorems are satisfiable: the initial heap has a writable, unfrozen
state 0; entries with and without auxiliary outputs exist -/
example : 0 < Heap.init.nSt ∧ (Heap.init.st 0).frozen = false ∧ (Heap.init.st 0).readOnly = false := by
  simp [Heap.init]

example : ({ (default : Entry) with withAux := true, aux := [1, 2] }).withAux = true
    ∧ ({ (default : Entry) with withAux := false }).withAux = false := ⟨rfl, rfl⟩

/-- … and the with-aux reading really stores auxiliary values: with two declared aux outputs of which the
user function returns one, exactly the primary key and the first aux key are filled -/
example :
    let cfg : Cfg := ⟨fun _ => 0, fun _ _ => 1, fun _ _ => false, fun _ _ => none⟩
    let e : Entry := { (default : Entry) with meth := 7, cached := true, withAux := true, aux := [1, 2] }
    let r := wrapM cfg (fun h _ => ⟨h, Val.bad ⟨0, 0⟩, []⟩) e 0 0 Heap.init
    ((r.h.st 0).cache ⟨0, 7⟩).isSome ∧ ((r.h.st 0).cache ⟨0, 1⟩).isSome ∧ ((r.h.st 0).cache ⟨0, 2⟩).isNone
      ∧ r.tr = [⟨0, 7⟩] := by
  decide +kernel

/-- the sem theorems are about non-trivial operations: on the initial heap a rebinding assignment
succeeds and a copy adds a state -/
example (tbl : Table) (cfg : Cfg) :
    (step tbl cfg Heap.init (.assign 0 .pos)).2 = .ok ∧ (step tbl cfg Heap.init (.copy 0 true)).1.nSt = 2 := by
  constructor <;> rfl

end MiciVerif.C09S
