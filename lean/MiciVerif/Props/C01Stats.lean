/-
C01 (statistics clause) — "The step count and acceptance statistic a transition reports equal the
number of integrator steps it actually took and the mean Metropolis acceptance probability of
the states it visited."

In `Model/Transitions.lean` the statistics of a dynamic transition are computed by `visited`
(the leaves reached by successful integrator steps, in `_build_tree` order), `nStep` (their
number) and `acceptStat` (mean of `min(1, w_leaf / w_start)` over them, 0 on error); the tie
to the real code is the exhaustive rng-path enumeration of `harness/c01.py`, which compares
`n_step`, `accept_stat`, `tree_depth` and the error flags jointly with the next state.
The theorems here relate that book-keeping to the *transition itself* (`climb` / `final`),
for every tree shape, every pattern of failing steps / divergences / termination flags, every
weight assignment and every outcome of the random draws:

* `final_in_visited`     — whatever the draws, the returned state is the start or one of the
                            visited leaves (the statistic averages over a superset of the candidates);
* `visited_distinct`     — the visited leaves are pairwise distinct, inside the tree, and never the
                            start: `n_step` counts each integrator step once;
* `nStep_le`             — `n_step ≤ size − 1`;
* `nStep_full`           — without failures and terminations strictly inside, exactly the other
                            `size − 1` leaves are visited (`2^D − 1` on a perfect orbit tree:
                            `nStep_treeOf_full`) and no error flag is set;
* `build_ok_iff_valid`   — `_build_tree` ends normally iff the step into the sub-tree succeeded and
                            the sub-tree has no failure / divergence / termination flag at all;
* `acceptStat_unit`      — `0 ≤ accept_stat ≤ 1` for non-negative weights;
* `acceptStat_error`     — an integrator error / divergence gives `accept_stat = 0`;
* `acceptStat_mean`      — otherwise `accept_stat · n_step = Σ_{visited} min(1, w_k / w_start)`;
* Metropolis: `stepsTaken_le`, `stepsTaken_eq_iff`, `metropolisStats_spec` (`n_step` = number of
  successful steps, error flag iff a step of the segment fails), `metropolis_accept_is_move_prob`
  (`accept_stat` = probability that the proposal is returned).
-/
import MiciVerif.Lemmas.Visited
import Mathlib.Algebra.Order.Field.Basic
import Mathlib.Algebra.Order.BigOperators.Ring.List
import Mathlib.Tactic.NormNum
import Mathlib.Tactic.Positivity
import Mathlib.Tactic.Ring
import Mathlib.Tactic.Push

namespace MiciVerif.C01Stats
open MiciVerif.Transitions MiciVerif.Transitions.Dist MiciVerif.Transitions.TTree

variable {K : Type} [Field K] [LinearOrder K] [IsStrictOrderedRing K]

/-- Whatever the random draws, the state returned by a dynamic transition is the start state or
one of the states reached by a successful integrator step of this transition. -/
theorem final_in_visited (t : TTree K) (start : Nat) (h : start < t.size) :
    Dist.All (fun c => c = start ∨ c ∈ (visited t start).1) (final t start) :=
  Dist.all_map _ _ _ _ (climb_visited t start h) (fun _ h => h.1)

/-- The visited leaves are pairwise distinct, lie inside the tree and never contain the start:
`n_step` counts every integrator step exactly once. -/
theorem visited_distinct (t : TTree K) (start : Nat) (h : start < t.size) :
    (visited t start).1.Nodup ∧ (∀ k ∈ (visited t start).1, k < t.size) ∧
      start ∉ (visited t start).1 :=
  visited_nodup_lt t start h

/-- `n_step ≤ 2^depth − 1` (in general: at most the other leaves of the tree). -/
theorem nStep_le (t : TTree K) (start : Nat) (h : start < t.size) :
    nStep t start ≤ t.size - 1 := by
  obtain ⟨nd, lt, fresh⟩ := visited_nodup_lt t start h
  have hnd : (start :: (visited t start).1).Nodup := List.nodup_cons.2 ⟨fresh, nd⟩
  have hsub : (start :: (visited t start).1) ⊆ List.range t.size := by
    intro k hk
    rcases List.mem_cons.1 hk with rfl | hk
    · exact List.mem_range.2 h
    · exact List.mem_range.2 (lt k hk)
  have := hnd.length_le_of_subset hsub
  simp only [List.length_cons, List.length_range] at this
  unfold nStep
  omega

/-- `_build_tree` ends normally exactly when the entering step succeeded and the sub-tree is free
of failed steps, divergent leaves and termination flags. -/
theorem build_ok_iff_valid (fwd : Bool) (t : TTree K) (entryOk : Bool) :
    (buildVisit fwd t entryOk).2 = .ok ↔ (entryOk = true ∧ t.valid = true) :=
  buildVisit_ok_iff fwd t entryOk

/-- Without any failure or termination strictly inside the tree every other leaf is visited,
the expansion is not cut short and no error flag is set. -/
theorem nStep_full (t : TTree K) (hg : t.good = true) (start : Nat) (h : start < t.size) :
    nStep t start = t.size - 1 ∧ (visited t start).2.2.2 = false :=
  ⟨(visited_good t hg start h).2.1, (visited_good t hg start h).2.2⟩

omit [LinearOrder K] [IsStrictOrderedRing K] in
private theorem size_treeOf' (o : DOrbit K) (m : Nat) (a : Int) : (treeOf o m a).size = 2 ^ m := by
  induction m generalizing a with
  | zero => rfl
  | succ m ih => simp only [treeOf, size, ih]; omega

omit [IsStrictOrderedRing K] in
private theorem valid_treeOf (o : DOrbit K) (hok : ∀ i, o.ok i = true) (he : ∀ i, o.edgeOk i = true)
    (ht : ∀ a m, o.term a m = false) (m : Nat) (a : Int) : (treeOf o m a).valid = true := by
  induction m generalizing a with
  | zero => simp [treeOf, valid, hok]
  | succ m ih => simp [treeOf, valid, ih, he, ht]

/-- On an orbit without failing steps, divergences or termination (up to depth `D`), a transition
with `max_tree_depth = D` takes exactly `2^D − 1` integrator steps from every start. -/
theorem nStep_treeOf_full (o : DOrbit K) (hok : ∀ i, o.ok i = true) (he : ∀ i, o.edgeOk i = true)
    (ht : ∀ a m, o.term a m = false) (D : Nat) (a : Int) (k : Nat) (hk : k < 2 ^ D) :
    nStep (treeOf o D a) k = 2 ^ D - 1 := by
  have hv := valid_treeOf o hok he ht D a
  have hg : (treeOf o D a).good = true := by
    have := valid_eq (treeOf o D a); rw [hv] at this
    have h2 := this.symm
    simp only [Bool.and_eq_true] at h2
    exact h2.1
  have := (nStep_full (treeOf o D a) hg k (by rw [size_treeOf']; exact hk)).1
  rwa [size_treeOf'] at this

omit [IsStrictOrderedRing K] in
/-- An integrator error or divergence sets `accept_stat = 0`. -/
theorem acceptStat_error (t : TTree K) (start : Nat) (h : (visited t start).2.2.2 = true) :
    acceptStat t start = 0 := by
  simp [acceptStat, h]

omit [IsStrictOrderedRing K] in
/-- Otherwise `accept_stat` is the mean of `min(1, w_k / w_start)` over the visited leaves. -/
theorem acceptStat_mean (t : TTree K) (start : Nat) (h : (visited t start).2.2.2 = false)
    (hne : 0 < nStep t start) [CharZero K] :
    acceptStat t start * (nStep t start : K) =
      ((visited t start).1.map (fun k => ratio (t.weightAt k) (t.weightAt start))).sum := by
  unfold nStep at hne
  have hlen : (visited t start).1.length ≠ 0 := by omega
  have hK : ((visited t start).1.length : K) ≠ 0 := by exact_mod_cast hlen
  simp only [acceptStat, h, Bool.false_eq_true, if_false, hlen, nStep]
  field_simp

private theorem weightAt_nonneg (t : TTree K) (hn : t.Nonneg) (k : Nat) : 0 ≤ t.weightAt k := by
  induction t generalizing k with
  | leaf w ok => exact hn
  | node l r e τ ihl ihr =>
    simp only [weightAt]
    split
    · exact ihl hn.1 k
    · exact ihr hn.2 _

private theorem ratio_unit {a b : K} (ha : 0 ≤ a) (hb : 0 ≤ b) : 0 ≤ ratio a b ∧ ratio a b ≤ 1 := by
  unfold ratio
  exact ⟨le_min (div_nonneg ha hb) zero_le_one, min_le_right _ _⟩

private theorem sum_unit (L : List K) (h : ∀ x ∈ L, 0 ≤ x ∧ x ≤ 1) :
    0 ≤ L.sum ∧ L.sum ≤ (L.length : K) := by
  induction L with
  | nil => simp
  | cons x L ih =>
    have hx := h x (by simp)
    have := ih (fun y hy => h y (by simp [hy]))
    simp only [List.sum_cons, List.length_cons, Nat.cast_add, Nat.cast_one]
    constructor
    · linarith [hx.1, this.1]
    · linarith [hx.2, this.2]

/-- `0 ≤ accept_stat ≤ 1` whenever all weights are non-negative. -/
theorem acceptStat_unit (t : TTree K) (hn : t.Nonneg) (start : Nat) :
    0 ≤ acceptStat t start ∧ acceptStat t start ≤ 1 := by
  unfold acceptStat
  simp only []
  split
  · exact ⟨le_refl _, zero_le_one⟩
  · split
    · exact ⟨le_refl _, zero_le_one⟩
    · rename_i _ hlen
      have hpos : (0 : K) < ((visited t start).1.length : K) := by
        exact_mod_cast Nat.pos_of_ne_zero hlen
      have hs := sum_unit ((visited t start).1.map
          (fun k => ratio (t.weightAt k) (t.weightAt start))) (by
        intro x hx
        simp only [List.mem_map] at hx
        obtain ⟨k, _, rfl⟩ := hx
        exact ratio_unit (weightAt_nonneg t hn k) (weightAt_nonneg t hn start))
      simp only [List.length_map] at hs
      exact ⟨div_nonneg hs.1 hpos.le, (div_le_one hpos).2 hs.2⟩

/-! ### Metropolis transitions -/

omit [IsStrictOrderedRing K] in
private theorem pathOk_iff (o : MOrbitS K) (lo : Int) (n : Nat) :
    o.pathOk lo n = true ↔ ∀ t : Nat, t < n → o.stepOk (lo + (t : Int)) = true := by
  simp [MOrbitS.pathOk, List.all_eq_true, List.mem_range]

omit [IsStrictOrderedRing K] in
/-- `n_step` never exceeds the requested number of steps. -/
theorem stepsTaken_le (o : MOrbitS K) (fwd : Bool) (n : Nat) (i : Int) :
    stepsTaken o fwd n i ≤ n := by
  induction n generalizing i with
  | zero => simp [stepsTaken]
  | succ n ih =>
    simp only [stepsTaken]
    by_cases h : o.stepOk (if fwd then i else i - 1) = true
    · rw [if_pos h]; have := ih (if fwd then i + 1 else i - 1); omega
    · rw [if_neg h]; omega

omit [IsStrictOrderedRing K] in
/-- All `n` steps are taken exactly when every step of the integrated segment succeeds. -/
theorem stepsTaken_eq_iff (o : MOrbitS K) (fwd : Bool) (n : Nat) (i : Int) :
    stepsTaken o fwd n i = n ↔ o.pathOk (if fwd then i else i - n) n = true := by
  rw [pathOk_iff]
  induction n generalizing i with
  | zero => simp [stepsTaken]
  | succ n ih =>
    simp only [stepsTaken]
    cases fwd
    · simp only [Bool.false_eq_true, if_false] at ih ⊢
      by_cases h : o.stepOk (i - 1) = true
      · simp only [h, if_true]
        have := ih (i - 1)
        constructor
        · intro hs t ht
          rcases Nat.lt_succ_iff_lt_or_eq.1 ht with ht | rfl
          · have := (this.1 (by omega)) t ht
            rw [show i - ((n + 1 : Nat) : Int) + (t : Int) = i - 1 - (n : Int) + (t : Int) by push_cast; ring]
            exact this
          · rw [show i - ((t + 1 : Nat) : Int) + (t : Int) = i - 1 by push_cast; ring]; exact h
        · intro hs
          have : stepsTaken o false n (i - 1) = n := this.2 (fun t ht => by
            have := hs t (by omega)
            rwa [show i - ((n + 1 : Nat) : Int) + (t : Int) = i - 1 - (n : Int) + (t : Int) by push_cast; ring] at this)
          omega
      · simp only [h, Bool.false_eq_true, if_false]
        constructor
        · intro hs; omega
        · intro hs
          have := hs n (by omega)
          rw [show i - ((n + 1 : Nat) : Int) + (n : Int) = i - 1 by push_cast; ring] at this
          exact absurd this h
    · simp only [if_true] at ih ⊢
      by_cases h : o.stepOk i = true
      · simp only [h, if_true]
        have := ih (i + 1)
        constructor
        · intro hs t ht
          cases t with
          | zero => simpa using h
          | succ t =>
            have := (this.1 (by omega)) t (by omega)
            rw [show i + ((t + 1 : Nat) : Int) = i + 1 + (t : Int) by push_cast; ring]
            exact this
        · intro hs
          have : stepsTaken o true n (i + 1) = n := this.2 (fun t ht => by
            have := hs (t + 1) (by omega)
            rwa [show i + ((t + 1 : Nat) : Int) = i + 1 + (t : Int) by push_cast; ring] at this)
          omega
      · simp only [h, Bool.false_eq_true, if_false]
        constructor
        · intro hs; omega
        · intro hs
          have := hs 0 (by omega)
          simp at this
          exact absurd this h

omit [IsStrictOrderedRing K] in
/-- The reported `n_step` is the number of integrator steps that succeeded, and the error flag is
set exactly when the integrated segment contains a failing step. -/
theorem metropolisStats_spec (o : MOrbitS K) (n : Nat) (i : Int) (fwd : Bool) :
    (metropolisStats o n (i, fwd)).1 = stepsTaken o fwd n i ∧
      ((metropolisStats o n (i, fwd)).2.2 = true ↔
        o.toOrbit.pathOk (if fwd then i else i - n) n = false) := by
  have hle := stepsTaken_le o fwd n i
  have hiff := stepsTaken_eq_iff o fwd n i
  unfold metropolisStats
  simp only [MOrbitS.toOrbit]
  by_cases h : stepsTaken o fwd n i < n
  · simp only [h, if_true, true_and, true_iff]
    cases hp : o.pathOk (if fwd then i else i - n) n
    · rfl
    · have := hiff.2 hp; omega
  · have heq : stepsTaken o fwd n i = n := by omega
    simp only [h, if_false, heq, true_and, Bool.false_eq_true, false_iff]
    simp [hiff.1 heq]

omit [IsStrictOrderedRing K] in
/-- **`accept_stat` is the probability that the chain moves**: the probability with which
`_sample_n_step` returns the end point of the trajectory equals the reported `accept_stat`
(0 after an integrator error; `min(1, w_end / w_start)` otherwise). -/
theorem metropolis_accept_is_move_prob (o : MOrbitS K) (n : Nat) (i : Int) (fwd : Bool) :
    prob (metropolis o.toOrbit n (i, fwd)) ((if fwd then i + n else i - n), fwd) =
      (metropolisStats o n (i, fwd)).2.1 := by
  have hle := stepsTaken_le o fwd n i
  have hiff := stepsTaken_eq_iff o fwd n i
  unfold metropolisStats metropolis prob
  simp only [MOrbitS.toOrbit]
  by_cases h : stepsTaken o fwd n i < n
  · have hp : o.pathOk (if fwd then i else i - n) n = false := by
      cases hp : o.pathOk (if fwd then i else i - n) n
      · rfl
      · have := hiff.2 hp; omega
    cases fwd <;> simp_all [Dist.pure, expect]
  · have heq : stepsTaken o fwd n i = n := by omega
    have hp := hiff.1 heq
    cases fwd <;>
      simp_all [Dist.map, bernoulli, expect]

/-- Non-vacuity: weights 1 (at 0) and 1/2 (at 2), step 1→2 fine: two steps taken, acceptance
1/2; with the step joining 1 and 2 failing only one step is taken and the statistic is 0. -/
example :
    let o : MOrbitS ℚ := ⟨fun i => if i = 2 then 1 / 2 else 1, fun _ => true⟩
    let o' : MOrbitS ℚ := ⟨fun i => if i = 2 then 1 / 2 else 1, fun e => e != 1⟩
    metropolisStats o 2 (0, true) = (2, 1 / 2, false) ∧
      metropolisStats o' 2 (0, true) = (1, 0, true) ∧
      prob (metropolis o.toOrbit 2 (0, true)) (2, true) = 1 / 2 := by
  decide +kernel

/-! ### Non-vacuity / concrete instances -/

/-- A depth-2 tree with one failing step on the right: from leaf 1 the transition visits leaf 0
(first doubling to the left) and then only leaf 2 of the right half (the step 2→3 fails), reports
the error, and `n_step = 2 < size − 1 = 3`. -/
example :
    let t : TTree ℚ := .node (.node (.leaf 1 true) (.leaf 2 true) true false)
      (.node (.leaf 3 true) (.leaf 4 true) false false) true false
    visited t 1 = ([0, 2], false, 2, true) ∧ nStep t 1 = 2 ∧ acceptStat t 1 = 0 := by
  decide +kernel

/-- A fully successful depth-2 tree: all three other leaves visited, mean acceptance
`(min(1,1/2) + min(1,3/2) + min(1,4/2)) / 3 = 5/6`. -/
example :
    let t : TTree ℚ := .node (.node (.leaf 1 true) (.leaf 2 true) true false)
      (.node (.leaf 3 true) (.leaf 4 true) true false) true false
    t.good = true ∧ nStep t 1 = 3 ∧ acceptStat t 1 = 5 / 6 := by
  decide +kernel

end MiciVerif.C01Stats
