/-
C12 (table obligations) — decided on `Generated/Errors.lean`, which the translator
(tools/extractors/errors.py) regenerates from the source under test on every run.
See Props/C12.lean for the solver and transition theorems.
-/
import MiciVerif.Generated.Errors

namespace MiciVerif.C12T
open MiciVerif.Generated.Errors

/-! ### obligations on the generated tables -/

/-- transitive base-class lookup in the generated hierarchy (fuel = table length) -/
def isSubclass (h : List (String × String)) : Nat → String → String → Bool
  | 0, c, b => c == b
  | n + 1, c, b =>
    c == b || match h.lookup c with
      | some p => isSubclass h n p b
      | none => false

/-- The errors raised by integrator steps, solvers and divergence checks are IntegratorErrors,
hence caught by the transitions' `except IntegratorError`. -/
theorem raised_are_integrator_errors :
    (["NonReversibleStepError", "ConvergenceError", "HamiltonianDivergenceError"].all
      (fun c => isSubclass hierarchy hierarchy.length c "IntegratorError")) = true := by
  decide +kernel

/-- Inside every iterative solver each call of the user-supplied fixed-point function or of a
system method (constraint, Jacobian, flow derivative, Gram-type product) is inside a `try`
whose handlers turn ValueError and LinAlgError into ConvergenceError. -/
theorem solver_user_calls_protected :
    solversImportMiciErrors = true ∧
    ((solverCalls.filter (fun c => c.2.1.startsWith "func(" || c.2.1.startsWith "system.")).all
      (fun c => c.2.2)) = true ∧
    (solverCalls.filter (fun c => c.2.1.startsWith "func(" || c.2.1.startsWith "system.")).length ≥ 18 := by
  decide +kernel

/-- Every `return` of a solver is guarded by its convergence test and every solver body ends by
raising ConvergenceError: an unconverged iterate is never returned. -/
theorem solver_returns_guarded :
    (solverReturns.all (fun r => r.2.2)) = true ∧ solverReturns.length = 5 ∧
    (solverFallsToRaise.all (fun r => r.2)) = true ∧ solverFallsToRaise.length = 5 := by
  decide +kernel

/-- Every integrator step taken inside a transition (and, in the dynamic transitions, the
energy evaluation and divergence check of the new leaf) is inside `try … except IntegratorError`. -/
theorem transition_steps_protected :
    ((transitionCalls.filter (fun c => c.2.1.startsWith "self.integrator.step" ||
        c.1 == "DynamicIntegrationTransition._build_tree")).all (fun c => c.2.2)) = true ∧
    (transitionCalls.filter (fun c => c.2.1.startsWith "self.integrator.step")).length = 2 := by
  decide +kernel

/-- A value or linear-algebra error raised anywhere inside an integrator step (for example a
non-finite Jacobian or metric reaching a matrix factorisation outside the iterative solves) is
converted into an IntegratorError by `Integrator.step`, and such an error while evaluating the
energy of a trial state is treated as a NaN energy by the transitions. -/
theorem step_errors_converted :
    integratorStepConvertsLinAlgErrors = true ∧ trialEnergyErrorsBecomeNaN = true := by
  decide +kernel


end MiciVerif.C12T
