/-
C15 — tie of the interrupt paths of `Model/Sampler.lean` to the source text: the handler and the
`finally` flush of `_sample_chain`, the `break`s of the sequential loop and of the worker, the
parent's progress loop, and the early return of the stage loop.  See `Props/C13S.lean` for the
mechanism; the trees are regenerated from the tree under test on every run.
-/
import MiciVerif.Generated.SamplerSkeleton
import MiciVerif.Lemmas.SamplerChain

namespace MiciVerif.C15S
open MiciVerif.Skel
open MiciVerif.Generated

/-- `_sample_chain` with its flush helper is the tree `Sampler.stepOp` / `sampleChain` were written
against. -/
theorem skel_chain_loop_eq_model :
    SamplerSkeleton.sampleChain = Expected.sampleChain
    ∧ SamplerSkeleton.flushMemmapChainData = Expected.flushMemmapChainData
    ∧ SamplerSkeleton.flushMemmapChainDataSig = Expected.flushMemmapChainDataSig
    ∧ SamplerSkeleton.sampleChain.known = true
    ∧ SamplerSkeleton.flushMemmapChainData.known = true := by
  decide +kernel

/-- The functions through which an interrupt travels to `sample_chains`
(`_sample_chains_sequential`, `_sample_chains_worker`, `_sample_chains_parallel`) and the stage loop
that receives it are the trees the model was written against. -/
theorem skel_interrupt_paths_eq_model :
    SamplerSkeleton.sampleChainsSequential = Expected.sampleChainsSequential
    ∧ SamplerSkeleton.sampleChainsWorker = Expected.sampleChainsWorker
    ∧ SamplerSkeleton.sampleChainsParallel = Expected.sampleChainsParallel
    ∧ SamplerSkeleton.sampleChains.loopBody (.v "sampling_stages_pb") =
        Expected.sampleChains.loopBody (.v "sampling_stages_pb") := by
  decide +kernel

/-- the `try` statement of `_sample_chain` that contains the iteration loop:
(body, handlers, else, finally) -/
def chainTry : Option (List S × List S × List S × List S) :=
  SamplerSkeleton.sampleChain.stmts.findSome? fun
    | .try_ b h e f => if b.callsDeep "transition.sample" then some (b.stmts, h.stmts, e.stmts, f.stmts)
                       else Option.none
    | _ => Option.none

/-- body of `for stage, _ in sampling_stages_pb` -/
def stageBody : List S := (SamplerSkeleton.sampleChains.loopBody (.v "sampling_stages_pb")).getD []

/-- The iteration loop is inside a `try` whose only handler catches `KeyboardInterrupt` and only
records it; without an interrupt `exception` is `None` (model: `stepOp`: `halted := true`,
`Run.halted`). -/
theorem skel_interrupt_caught_in_chain :
    (chainTry.map fun t => (t.2.1, t.2.2.1)) =
      some ([.handler (.v "KeyboardInterrupt") "e" (S.b [.assign (.v "exception") (.v "e")])],
            [.assign (.v "exception") .none]) := by
  decide +kernel

/-- The memory-mapped arrays are flushed in the `finally` clause of that `try`, i.e. on the normal
path, on the interrupt path and when another exception propagates (model: `Run.mem` is what the
caller reads back in every case). -/
theorem skel_finally_flushes :
    (chainTry.map fun t => t.2.2.2) =
      some [.expr (.call "_flush_memmap_chain_data" (E.l [.v "chain_traces", .v "chain_stats"]))]
    ∧ (SamplerSkeleton.flushMemmapChainData.all.filterMap fun
        | .expr (.call f _) => some f
        | _ => Option.none) = ["trace.flush", "stat.flush"] := by
  decide +kernel

/-- After the `try` the function returns normally the current state, the adapter states and the
recorded exception; the `try` is the last statement before that return
(model: `sampleChain` returns a `Run` in every case). -/
theorem skel_chain_returns_after_interrupt :
    SamplerSkeleton.sampleChain.stmts.getLast? =
      some (.ret (.tup (E.l [.v "state", .v "adapter_states", .v "exception"])))
    ∧ idx (fun s => s.callsDeep "transition.sample") SamplerSkeleton.sampleChain.stmts =
      some (SamplerSkeleton.sampleChain.stmts.length - 2) := by
  decide +kernel

/-- Stage loop: the interrupt test directly follows the call that runs the chains and returns the
outputs; `_finalize_adapters` and the offset update come after it
(model: `afterStage`: `if acc.halted then … stopped := true`; revert `C15-interrupt-adaptive-finalize`). -/
theorem skel_interrupt_returns_before_finalize :
    (do let c ← idx (S.callsDeep "sample_chains_func") stageBody
        let f ← idx (S.callsDeep "_finalize_adapters") stageBody
        let o ← idx (fun s => (assignsTo (.v "sampling_index_offset") [s]).length > 0) stageBody
        some (stageBody[c + 1]?, decide (c + 1 < f), decide (c + 1 < o))) =
      some (some (.ifc (.call "isinstance" (E.l [.v "exception", .v "KeyboardInterrupt"]))
              (S.b [.ret (.call "MCMCSampleChainsOutputs" (E.l [.v "chain_states", .v "traces", .v "stats"]))])
              (S.b [])), true, true) := by
  decide +kernel

/-- Sequential mode: the chain's outputs are stored, then the loop over the chains is left
(model: `seqStep`: `if acc.halted then { acc with chains := acc.chains ++ [c.2] }`). -/
theorem skel_sequential_breaks_on_interrupt :
    ((SamplerSkeleton.sampleChainsSequential.loopBody
        (.call "enumerate" (E.l [.call "zip" (E.l [.v "chain_iterators", .v "per_chain_kwargs",
                                                    .kw "strict" (.v "True")])]))).map fun b => b.drop 1) =
      some [.ifc (.op "not" (E.l [.call "isinstance" (E.l [.v "exception", .v "AdaptationError"])]))
              (S.b [.expr (.call "chain_outputs.append" (E.l [.v "outputs"]))]) (S.b []),
            .ifc (.call "isinstance" (E.l [.v "exception", .v "KeyboardInterrupt"])) (S.b [.brk]) (S.b [])] := by
  decide +kernel

/-- Worker: the interrupted chain's outputs are stored, the exception is put on the iteration queue
and the worker stops taking chains (model: `workerRun`: `if r.halted then [] else …`). -/
theorem skel_worker_reports_interrupt_and_stops :
    (SamplerSkeleton.sampleChainsWorker.all.filterMap fun
        | .ifc c t f => if c = .call "isinstance" (E.l [.v "exception", .v "KeyboardInterrupt"])
                        then some (t.stmts, f.stmts) else Option.none
        | _ => Option.none) =
      [([.expr (.call "iter_queue.put" (E.l [.v "exception"])), .brk], [])] := by
  decide +kernel

/-- Parent of the pool: a `KeyboardInterrupt` taken from the iteration queue (or delivered to the
parent itself) is recorded and ends the progress loop without being raised; the outputs of the
workers are still collected and returned (model: `stagePar`: `halted := res.any (·.halted)`). -/
theorem skel_parent_stops_on_interrupt_item :
    (SamplerSkeleton.sampleChainsParallel.all.filterMap fun
        | .ifc c t _ => if c = .call "isinstance" (E.l [.v "iter_queue_item", .v "KeyboardInterrupt"])
                        then some t.stmts else Option.none
        | _ => Option.none) = [[.assign (.v "exception") (.v "iter_queue_item"), .brk]]
    ∧ (SamplerSkeleton.sampleChainsParallel.all.filterMap fun
        | .handler (.v "KeyboardInterrupt") nm b => some (nm, b.stmts)
        | _ => Option.none) = [("e", [.assign (.v "exception") (.v "e")])]
    ∧ (SamplerSkeleton.sampleChainsParallel.all.any fun
        | .ifc c t _ => c = .op "is not" (E.l [.v "results", .none]) && t.all.any (fun
            | .assign _ (.src "[r for res in results.get() for r in res]") => true
            | _ => false)
        | _ => false) = true := by
  decide +kernel

/-- body of `for sample_index, monitor_dict in chain_iterator` -/
def iterBody : List S := (SamplerSkeleton.sampleChain.loopBody (.v "chain_iterator")).getD []

/-! ### the generated iteration body, read as a function on the model's state, is `Sampler.iterOps` -/

section IterSemantics
open MiciVerif.Sampler MiciVerif.Stagers

/-- The iteration body generated from the current source consists of exactly these actions, in this order. -/
theorem sem_iteration_plan :
    Sem.iterPlan iterBody =
      some [.forTransitions [.sample, .adapt, .writeStats .indexPlusOffset], .forTraces .indexPlusOffset] := by
  decide +kernel

private theorem iterOps_append {St V A P : Type} (st : Stage) (offset : Nat) (intr : Option (Nat × Nat)) (i : Nat)
    (a b : List (Op St V A P)) (j : Nat) (x : Run St V A P) :
    iterOps st offset intr i j (a ++ b) x = iterOps st offset intr i (j + a.length) b (iterOps st offset intr i j a x) := by
  induction a generalizing j x with
  | nil => simp [iterOps]
  | cons op a ih => simp only [List.cons_append, iterOps, ih, List.length_cons]; congr 1; omega

private theorem trans_op {St V A P : Type} (st : Stage) (offset : Nat) (intr : Option (Nat × Nat)) (i j : Nat)
    (t : Kind → P → A → St → Rng → TOut St V A P) (x : Run St V A P) :
    Sem.runTransActs st offset intr i j t [.sample, .adapt, .writeStats .indexPlusOffset] none x =
      some (stepOp st offset intr i j (.trans t) x) := by
  unfold stepOp
  by_cases hh : x.halted = true
  · simp [Sem.runTransActs, hh]
  · by_cases hi : intr = some (i, j)
    · simp [Sem.runTransActs, hh, hi]
    · simp [Sem.runTransActs, hh, hi, execOp, Sem.Row.eval]

private theorem trans_loop {St V A P : Type} (st : Stage) (offset : Nat) (intr : Option (Nat × Nat)) (i : Nat)
    (ts : List (Kind → P → A → St → Rng → TOut St V A P)) (j : Nat) (x : Run St V A P) :
    Sem.runTransLoop st offset intr i [.sample, .adapt, .writeStats .indexPlusOffset] ts j x =
      some (iterOps st offset intr i j (ts.map .trans) x, j + ts.length) := by
  induction ts generalizing j x with
  | nil => simp [Sem.runTransLoop, iterOps]
  | cons t ts ih =>
    simp only [Sem.runTransLoop, trans_op, Option.bind_some, ih, List.map_cons, iterOps, List.length_cons]
    congr 2; omega

private theorem trace_loop {St V A P : Type} (st : Stage) (offset : Nat) (intr : Option (Nat × Nat)) (i : Nat)
    (fs : List (St → V)) (j : Nat) (x : Run St V A P) :
    Sem.runTraceLoop offset intr i .indexPlusOffset fs j x =
      (iterOps st offset intr i j (fs.map (Op.trace (A := A) (P := P))) x, j + fs.length) := by
  induction fs generalizing j x with
  | nil => simp [Sem.runTraceLoop, iterOps]
  | cons f fs ih =>
    simp only [Sem.runTraceLoop, ih, List.map_cons, iterOps, List.length_cons, stepOp, execOp, Sem.Row.eval]
    rw [Nat.add_assoc, Nat.add_comm 1]

/-- **Semantic tie of the chain loop.**  One iteration of the loop body of `_sample_chain` generated
from the current source — transitions first (sample, adapter updates, statistics write at
`sample_index + sampling_index_offset` iff statistics are recorded), then the trace functions iff the
stage traces, each write at the same row, an interrupt raised inside operation `j` leaving that
operation and everything after it undone — is `Sampler.iterOps` on `Sampler.opsOf`, for every kernel,
stage, offset, interrupt point, iteration and state. -/
theorem sem_iteration_body_is_iterOps {St V A P : Type} (K : Kernel St V A P) (st : Stage) (offset : Nat)
    (intr : Option (Nat × Nat)) (i : Nat) (x : Run St V A P) :
    Sem.iterPass iterBody K st offset intr i x = some (iterOps st offset intr i 0 (opsOf K st) x) := by
  unfold Sem.iterPass opsOf
  rw [sem_iteration_plan]
  simp only [Option.bind_some, Sem.runIterActs, trans_loop, iterOps_append, List.length_map, Nat.zero_add]
  by_cases ht : st.traced = true
  · simp [ht, trace_loop st]
  · simp [ht, iterOps]


/-- not vacuous: with an interrupt at operation 0 of iteration 2 the reading halts without writing -/
example {St V A P : Type} (K : Kernel St V A P) (st : Stage) (t : Kind → P → A → St → Rng → TOut St V A P)
    (ts : List (Kind → P → A → St → Rng → TOut St V A P)) (hK : K.trans = t :: ts) (x : Run St V A P)
    (hx : x.halted = false) :
    Sem.iterPass iterBody K st 5 (some (2, 0)) 2 x = some { x with halted := true } := by
  rw [sem_iteration_body_is_iterOps]
  simp only [opsOf, hK, List.map_cons, List.cons_append, iterOps, stepOp, hx]
  simp [iterOps_of_halted]

end IterSemantics

/-! ### the generated body of `_sample_chain`, read as a function on the model's state, is `Sampler.sampleChain` -/

section ChainSemantics
open MiciVerif.Sampler MiciVerif.Stagers

/-- The body of `_sample_chain` generated from the current source consists of exactly these actions. -/
theorem sem_chain_plan :
    Sem.chainPlan SamplerSkeleton.sampleChain.stmts =
      some [.initState, .loadMemmaps, .emptyAdapterStates, .initAdapters,
            .iterate [.forTransitions [.sample, .adapt, .writeStats .indexPlusOffset], .forTraces .indexPlusOffset],
            .returnTriple] := by
  decide +kernel

private theorem loop_iters {St V A P : Type} (K : Kernel St V A P) (st : Stage) (offset : Nat)
    (intr : Option (Nat × Nat)) (n start : Nat) (x : Run St V A P) :
    Sem.loopIters K st offset intr
        [.forTransitions [.sample, .adapt, .writeStats .indexPlusOffset], .forTraces .indexPlusOffset] start n x =
      some (runIters K st offset intr start n x) := by
  induction n generalizing start x with
  | zero => simp [Sem.loopIters, runIters]
  | succ n ih =>
    by_cases hh : x.halted = true
    · simp [Sem.loopIters, hh, runIters_of_halted]
    · have := sem_iteration_body_is_iterOps K st offset intr start x
      unfold Sem.iterPass at this
      rw [sem_iteration_plan] at this
      simp only [Option.bind_some] at this
      simp [Sem.loopIters, hh, this, runIters, ih]

/-- **Semantic tie of `_sample_chain`.**  The whole body generated from the current source — adapter
states empty without adapters, `initialize` of every adapter before the first iteration, `st.n`
iterations numbered from 0 each read as in `sem_iteration_body_is_iterOps`, a `KeyboardInterrupt`
leaving the loop and being recorded instead of raised, the normal `return` of state, adapter states
and exception after the `try` — is `Sampler.sampleChain`, for every kernel, stage, offset, interrupt
point, parameters, initial state, generator and arrays. -/
theorem sem_chain_body_is_sampleChain {St V A P : Type} (K : Kernel St V A P) (st : Stage) (offset : Nat)
    (intr : Option (Nat × Nat)) (p : P) (s : St) (rng : Rng) (log : List Draw) (mem : Mem V) :
    Sem.chainPass SamplerSkeleton.sampleChain.stmts K st offset intr p s rng log mem =
      some (sampleChain K st offset intr p s rng log mem) := by
  unfold Sem.chainPass
  rw [sem_chain_plan]
  simp only [Option.bind_some, Sem.runChainActs, loop_iters]
  unfold sampleChain
  by_cases hk : st.kind = .main <;> simp [hk]


/-- not vacuous: a main stage of 0 iterations returns the initial state untouched, not halted -/
example {St V A P : Type} (K : Kernel St V A P) (p : P) (s : St) (rng : Rng) (mem : Mem V) :
    Sem.chainPass SamplerSkeleton.sampleChain.stmts K ⟨0, .main, true, true⟩ 0 none p s rng [] mem =
      some ⟨⟨s, rng, K.a0, p, []⟩, mem, false⟩ := by
  rw [sem_chain_body_is_sampleChain]; simp [sampleChain, runIters]

end ChainSemantics

/-! ### `_sample_chains_sequential`, read as a function on the model's state, is `Sampler.stageSeq` -/

section SeqSemantics
open MiciVerif.Sampler MiciVerif.Stagers

/-- `_sample_chains_sequential` generated from the current source consists of exactly these actions. -/
theorem sem_sequential_plan :
    Sem.seqFnPlan SamplerSkeleton.sampleChainsSequential.stmts =
      some [.noOutputs, .noException, .forChains [.runChain, .appendOutputs, .breakIfInterrupted], .returnCollated] := by
  decide +kernel

private theorem seq_fold {St V A P : Type} (K : Kernel St V A P) (st : Stage) (offset : Nat)
    (intr : Option (Nat × Nat × Nat)) (l : List (Nat × Chain St V)) (v : Sem.SeqVars St V A P)
    (hb : v.broke = v.halted) :
    let w := l.foldl (Sem.seqLoopStep K st offset intr [.runChain, .appendOutputs, .breakIfInterrupted]) v
    (⟨w.params, w.outs, w.chains, w.halted⟩ : Acc St V A P) =
      l.foldl (seqStep K st offset intr) ⟨v.params, v.outs, v.chains, v.halted⟩ := by
  induction l generalizing v with
  | nil => simp
  | cons c l ih =>
    simp only [List.foldl_cons]
    by_cases hh : v.halted = true
    · have hbr : v.broke = true := by rw [hb, hh]
      have := ih { v with chains := v.chains ++ [c.2] } (by simpa using hb)
      simpa [Sem.seqLoopStep, seqStep, hh, hbr] using this
    · have hbr : v.broke = false := by rw [hb]; simpa using hh
      simp only [Sem.seqLoopStep, hbr, Sem.runSeqActs, seqStep, hh]
      generalize sampleChain K st offset (chainIntr intr c.1) v.params c.2.state c.2.rng c.2.log c.2.mem = r
      by_cases hr : r.halted = true
      · have := ih (⟨r.ctx.params, v.outs ++ [⟨c.1, r.ctx.state, r.ctx.adapt, r.ctx.rng⟩],
                     v.chains ++ [⟨c.2.state, r.ctx.rng, r.mem, r.ctx.log⟩], true, true⟩ : Sem.SeqVars St V A P) rfl
        simpa [hr] using this
      · have := ih (⟨r.ctx.params, v.outs ++ [⟨c.1, r.ctx.state, r.ctx.adapt, r.ctx.rng⟩],
                     v.chains ++ [⟨c.2.state, r.ctx.rng, r.mem, r.ctx.log⟩], false, false⟩ : Sem.SeqVars St V A P) rfl
        simpa [hr] using this

/-- **Semantic tie of the sequential mode.**  `_sample_chains_sequential` generated from the current
source — chains in index order, each run on the caller's generator object, arrays and transition
objects (so what one chain leaves is what the next one and the next stage find), outputs appended in
that order, `break` after an interrupted chain leaving the later chains untouched — is
`Sampler.stageSeq`, for every kernel, stage, offset, interrupt point, parameters and chain list. -/
theorem sem_sequential_is_stageSeq {St V A P : Type} (K : Kernel St V A P) (st : Stage) (offset : Nat)
    (intr : Option (Nat × Nat × Nat)) (p : P) (chains : List (Chain St V)) :
    Sem.seqPass SamplerSkeleton.sampleChainsSequential.stmts K st offset intr p chains =
      some (stageSeq K st offset intr p chains) := by
  unfold Sem.seqPass
  rw [sem_sequential_plan]
  simp only [Option.bind_some, Sem.runSeqFnActs]
  unfold stageSeq
  have := seq_fold K st offset intr (chains.zipIdx.map (fun ci => (ci.2, ci.1))) ⟨p, [], [], false, false⟩ rfl
  simpa using this


/-- not vacuous: without chains the result is the empty collation with the parameters unchanged -/
example {St V A P : Type} (K : Kernel St V A P) (st : Stage) (p : P) :
    Sem.seqPass SamplerSkeleton.sampleChainsSequential.stmts K st 0 none p ([] : List (Chain St V)) =
      some ⟨p, [], [], false⟩ := by
  rw [sem_sequential_is_stageSeq]; rfl

end SeqSemantics

/-- the query of `skel_interrupt_returns_before_finalize` sees finalize moved before the test -/
example :
    let body := (Expected.sampleChains.loopBody (.v "sampling_stages_pb")).getD []
    let swapped := body.take 3 ++ (body.drop 4).take 1 ++ (body.drop 3).take 1 ++ body.drop 5
    (do let c ← idx (S.callsDeep "sample_chains_func") swapped
        let f ← idx (S.callsDeep "_finalize_adapters") swapped
        some (decide (c + 1 < f))) = some false := by
  decide +kernel

end MiciVerif.C15S
